(** Persistence effects and crash recovery of one replica
    ([base_store.go AddOperation, replicationLoadComplete, Load]; cache keys
    [_localHeads], [_remoteHeads]; blocks in the IPFS block store). *)
From Orbit Require Export Model.Log Spec.LogSpec.

(** ordered persistence effects and acknowledgements issued by a replica *)
Inductive eff :=
| EBlock (e : entry)          (* the entry's block is stored locally (written by Append, or fetched) *)
| ELocal (hs : list N)        (* Cache.Put(_localHeads, hs) *)
| ERemote (hs : list N)       (* Cache.Put(_remoteHeads, hs) *)
| EAck (h : N)                (* the write call returned successfully *)
| ERepl (hs : list N).        (* the batch was reported as replicated (EventReplicated) *)

Record disk := mkD { d_blocks : list entry; d_local : list N; d_remote : list N }.
Definition disk0 : disk := mkD [] [] [].

Definition apply_eff (d : disk) (e : eff) : disk :=
  match e with
  | EBlock x => mkD (if has_entry (eh x) (d_blocks d) then d_blocks d else d_blocks d ++ [x]) (d_local d) (d_remote d)
  | ELocal hs => mkD (d_blocks d) hs (d_remote d)
  | ERemote hs => mkD (d_blocks d) (d_local d) hs
  | EAck _ | ERepl _ => d
  end.

(** the durable state after the first [k] effects: a crash at any instant *)
Definition disk_at (effs : list eff) (k : nat) : disk := fold_left apply_eff (firstn k effs) disk0.

(** [persist_first]: AddOperation persists the new head before acknowledging (true = as
    the code does); [heads_first]: the merge persists the heads before reporting the batch
    replicated (true = as the code does). *)
Definition write_effects (persist_first : bool) (e : entry) : list eff :=
  if persist_first then [EBlock e; ELocal [eh e]; EAck (eh e)]
  else [EBlock e; EAck (eh e); ELocal [eh e]].

Definition merge_effects (heads_first : bool) (batch : list entry) (l' : log) : list eff :=
  map EBlock batch ++
  (if heads_first then [ERemote (hashes (heads_sorted l')); ERepl (hashes batch)]
   else [ERepl (hashes batch); ERemote (hashes (heads_sorted l'))]).

(** effects of one global step as seen on replica [r] *)
Definition step_effects (pf hf : bool) (marks cont : bool) (acc : entry -> bool) (r : nat) (g : gstate) (s : gstep) : list eff :=
  match s with
  | GWrite r' h refs o =>
    if Nat.eqb r r' then
      match nth_error (greps g) r with
      | Some rs =>
        let w := writer_of r in
        match fst (append (rlog rs) h w w w w o refs acc) with
        | Ok (e, _) => write_effects pf e
        | _ => []
        end
      | None => []
      end
    else []
  | GMerge r' batch =>
    if Nat.eqb r r' then
      match nth_error (greps g) r with
      | Some rs =>
        let '(l', ok) := merge_batch cont acc (rlog rs) batch in
        if ok then merge_effects hf batch l' else map EBlock batch
      | None => []
      end
    else []
  end.

(** a run of the global system together with the effect trace of replica [r] *)
Inductive gtrace (pf hf marks cont : bool) (acc : entry -> bool) (okop : op -> Prop) (n : nat) (dbid : N) (r : nat)
  : gstate -> list eff -> Prop :=
| gtrace_init : gtrace pf hf marks cont acc okop n dbid r (mkG [] (repeat (mkR (empty_log dbid) [] []) n)) []
| gtrace_step g effs s :
    gtrace pf hf marks cont acc okop n dbid r g effs -> admissible okop g s ->
    (* replica r merges complete ancestries: its log stays closed under ancestry *)
    (forall rs', nth_error (greps (gstep_run marks cont acc g s)) r = Some rs' -> next_closed (lents (rlog rs'))) ->
    gtrace pf hf marks cont acc okop n dbid r (gstep_run marks cont acc g s)
           (effs ++ step_effects pf hf marks cont acc r g s).

(** the ancestry of [todo] inside the locally held blocks (what Load fetches with no limit) *)
Fixpoint anc (fuel : nat) (blocks : list entry) (todo : list N) (got : list entry) : list entry :=
  match fuel with
  | O => got
  | S f =>
    match todo with
    | [] => got
    | h :: rest =>
      if has_entry h got then anc f blocks rest got
      else match find_entry h blocks with
           | Some e => anc f blocks (enext e ++ rest) (got ++ [e])
           | None => anc f blocks rest got
           end
    end
  end.

Definition ancestry (blocks : list entry) (hs : list N) : list entry :=
  anc (length hs + length (all_nexts blocks) + 1) blocks hs [].

(** Load(-1) of one cached head: fetch its ancestry not yet loaded, join *)
Definition load_head (acc : entry -> bool) (blocks : list entry) (l : log) (h : N) : log :=
  let es := filter (fun e => negb (has_entry (eh e) (lents l))) (ancestry blocks [h]) in
  match join l (log_of_entries (lid l) es) (-1) acc with
  | Ok l' => l'
  | _ => l
  end.

(** reopen + Load(-1): [reads_both] = both cached head sets are read (true = as the code does) *)
Definition recover (reads_both : bool) (id : N) (acc : entry -> bool) (d : disk) : log :=
  fold_left (load_head acc (d_blocks d)) (d_local d ++ (if reads_both then d_remote d else [])) (empty_log id).

(** hashes acknowledged / reported replicated within an effect prefix *)
Definition acked (effs : list eff) : list N :=
  flat_map (fun e => match e with EAck h => [h] | ERepl hs => hs | _ => [] end) effs.

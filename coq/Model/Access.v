(** Access control, signatures and identities, and the store-side merge of fetched
    entries ([accesscontroller/*/CanAppend], go-ipfs-log [entry.Verify],
    [base_store.go Sync / replicationLoadComplete]).

    Signatures are symbolic: [esig e] is the key that really produced the signature of
    [e], [ekey e] the key the signature is checked against (the entry's own [key] field),
    so the signature verifies iff [esig e = ekey e] (unforgeability: nobody signs for a
    key he does not hold).

    Identities: an identity id names a key pair of its owner (the id IS the hex encoding
    of a public key); its owner endorses exactly one signing key, [id_key id].  The
    identity block carried by an entry (id, public key, two signatures) verifies iff it
    is a block its owner really issued; [blk e] says so for the block carried by [e]
    (a block whose public key or signatures were altered, or that was put together from
    another id and one's own key, does not verify). *)
From Orbit Require Export Model.Log.

(** [entry.Verify]: the signature over the content, checked against the entry's own key. *)
Definition entry_verify (e : entry) : bool := (esig e =? ekey e)%N.

(** The key that really signed: the author. *)
Definition author (e : entry) : N := esig e.

Section Access.
  (** true = CanAppend also requires the entry's key to be the key endorsed by the
      identity it names and the identity block to verify (the repaired tree);
      false = the pinned commit: the provider's VerifyIdentity accepts everything. *)
  Variable binds_identity : bool.
  Variable W : list N.          (* the write list (identity ids) *)
  Variable wildcard : bool.     (* the write list contains "*" *)
  Variable id_key : N -> N.     (* the signing key genuinely endorsed by an identity id *)
  Variable blk : entry -> bool. (* the identity block carried by the entry is a genuine one *)

  (** [CanAppend]: membership of the CLAIMED identity id, then identity verification. *)
  Definition can_append (e : entry) : bool :=
    (wildcard || memN (eid e) W) &&
    (if binds_identity then blk e && (ekey e =? id_key (eid e))%N else true).

  (** What [Join] demands of every entry new to the log, and [Append] of a local one
      (a local entry is signed by construction). *)
  Definition acc_of (e : entry) : bool := can_append e && entry_verify e.

  (** The real author of [e] is an identity of the write list (or everybody may write). *)
  Definition authorised (e : entry) : Prop :=
    wildcard = true \/ exists w, In w W /\ id_key w = author e.

  Definition authorisedb (e : entry) : bool :=
    wildcard || existsb (fun w => (id_key w =? author e)%N) W.
End Access.

(** * The write list a controller enforces

    The database is configured with a write list (identity ids, possibly the wildcard).
    What the access controller ENFORCES depends on its type:
    - [ACIpfs] (accesscontroller/ipfs, the default type): an empty list is replaced by the
      identity of whoever constructs the controller on creation, i.e. the creator of the
      database; the resulting list is saved in IPFS, named by the database manifest, and
      loaded by every opener;
    - [ACSimple] (accesscontroller/simple): the list is taken as it is from the options
      of whoever opens the database (nothing is persisted: all openers pass the agreed
      list); an empty or absent list means that NOBODY may write, not even the creator.
    (The third type of the original, "orbitdb", cannot be constructed in this port: its
    constructor panics; it is not modelled.) *)
Inductive ac_type := ACIpfs | ACSimple.

Definition enforced_writers (t : ac_type) (creator : N) (configured : list N) (wildcard : bool) : list N :=
  match configured with
  | [] => if wildcard then []
          else match t with ACIpfs => [creator] | ACSimple => [] end
  | _ => configured
  end.

(** * Announced heads ([BaseStore.Sync]) *)

(** A head as it arrives in an announcement: its content and the address it claims.
    [eh (a_entry a)] is the address the content really hashes to. *)
Record announced := mkAnn { a_entry : entry; a_addr : N }.

Definition a_hash_ok (a : announced) : bool := (eh (a_entry a) =? a_addr a)%N.

(** The loop of [Sync]: a head the access controller denies is skipped (its address is
    NOT compared); the first accepted head whose content does not hash to the claimed
    address makes [Sync] return an error and nothing is loaded.  true = proceeds. *)
Fixpoint sync_precheck (ca : entry -> bool) (heads : list announced) : bool :=
  match heads with
  | [] => true
  | a :: rest =>
    if ca (a_entry a) then (if a_hash_ok a then sync_precheck ca rest else false)
    else sync_precheck ca rest
  end.

(** * Merging one fetched entry ([replicationLoadComplete], [Load]) *)

(** The replicator wraps every fetched entry into a log carrying the STORE's log id,
    whatever the entry says.  [filters_foreign] = the store refuses a fetched log whose
    head was written for another log (the repaired tree); false = the pinned commit:
    [Join] leaves such an entry out of the entry set ([difference]) but merges it into
    the heads.  A join that fails (access denied, bad signature) leaves the log as it is. *)
Definition join_checked (filters_foreign : bool) (l : log) (x : entry) (acc : entry -> bool) : log :=
  if filters_foreign && negb (elog x =? lid l)%N then l
  else match join l (log_of_entries (lid l) [x]) (-1) acc with
       | Ok l' => l'
       | _ => l
       end.

Definition merge_fetched (filters_foreign : bool) (acc : entry -> bool) (l : log) (xs : list entry) : log :=
  fold_left (fun l x => join_checked filters_foreign l x acc) xs l.

(** What the replicator obtains for the announced heads: every head is loaded by its
    CLAIMED address (also the heads [Sync] skipped), and the bytes stored under an
    address are whatever hashes to it. [stored] is the content-addressed block store. *)
Definition fetched_heads (stored : N -> option entry) (heads : list announced) : list entry :=
  flat_map (fun a => match stored (a_addr a) with Some e => [e] | None => [] end) heads.

(** One announcement delivered to a store (only the heads; their ancestors are further
    [join_checked] steps).  The boolean is the outcome of [Sync]: false = error. *)
Definition sync_deliver (filters_foreign : bool) (ca acc : entry -> bool) (stored : N -> option entry)
           (l : log) (heads : list announced) : log * bool :=
  if sync_precheck ca heads
  then (merge_fetched filters_foreign acc l (fetched_heads stored heads), true)
  else (l, false).

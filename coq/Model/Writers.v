(** Concurrent local writers on one store ([base_store.go AddOperation]): the log append
    is atomic (the log's lock); persisting the new head ([_localHeads]) and rebuilding the
    view happen afterwards, outside that lock.  Entries are numbered in append order and
    each new entry's [next] is the previous head, so entry [k]'s ancestry is [1..k].

    A writer thread performs a given number of single-entry writes one after the other:
    a multi-entry call ([documentstore.PutBatch], which loops over [Put]) and a sequence of
    calls issued by one goroutine are both such threads.  Between two of its writes a thread
    holds nothing, so other threads' writes may come in between. *)
From Orbit Require Export Model.Base.

(** where a thread is inside its current write; [WIdle] = between writes (or before the
    first / after the last one) *)
Inductive wpc := WIdle | WAppended (e : nat) | WPersisted (e : nat) | WIndexRead (e n : nat).

Record wthr := mkWT {
  wt_pc   : wpc;
  wt_left : nat;           (* writes this thread has not started yet *)
  wt_acks : list nat       (* entries of its completed (acknowledged) writes, oldest first *)
}.

Record wst := mkW {
  w_thr   : list wthr;    (* the writer threads *)
  w_log   : nat;          (* number of entries appended so far = the log's head *)
  w_cache : nat;          (* entry stored under _localHeads (0 = nothing) *)
  w_view  : nat           (* the view reflects entries 1..w_view *)
}.

(** label = which writer thread takes its next step *)
Definition set_thr (i : nat) (t : wthr) (l : list wthr) : list wthr :=
  firstn i l ++ match skipn i l with [] => [] | _ :: r => t :: r end.

(** [atomic]: append + persist + view update form one critical section (true); false =
    the pinned commit, where only the append is atomic. *)
Definition wstep (atomic : bool) (s : wst) (i : nat) : option wst :=
  match nth_error (w_thr s) i with
  | Some t =>
    match wt_pc t with
    | WIdle =>
      match wt_left t with
      | O => None
      | S k =>
        let e := S (w_log s) in
        if atomic
        then Some (mkW (set_thr i (mkWT WIdle k (wt_acks t ++ [e])) (w_thr s)) e e e)
        else Some (mkW (set_thr i (mkWT (WAppended e) k (wt_acks t)) (w_thr s)) e (w_cache s) (w_view s))
      end
    | WAppended e =>
      Some (mkW (set_thr i (mkWT (WPersisted e) (wt_left t) (wt_acks t)) (w_thr s)) (w_log s) e (w_view s))
    | WPersisted e =>
      (* UpdateIndex reads the whole current log (Values()) before taking the index lock ... *)
      Some (mkW (set_thr i (mkWT (WIndexRead e (w_log s)) (wt_left t) (wt_acks t)) (w_thr s))
                (w_log s) (w_cache s) (w_view s))
    | WIndexRead e n =>
      (* ... and then applies what it read; the write returns its entry *)
      Some (mkW (set_thr i (mkWT WIdle (wt_left t) (wt_acks t ++ [e])) (w_thr s)) (w_log s) (w_cache s) n)
    end
  | None => None
  end.

(** one thread per element of [counts], performing that many writes *)
Definition winitc (counts : list nat) : wst :=
  mkW (map (fun c => mkWT WIdle c []) counts) O O O.

(** [n] threads, one write each *)
Definition winit (n : nat) : wst := winitc (repeat 1%nat n).

Definition wrun (atomic : bool) (sched : list nat) (s : wst) : wst :=
  fold_left (fun s i => match wstep atomic s i with Some s' => s' | None => s end) sched s.

Definition thr_done (t : wthr) : Prop := wt_pc t = WIdle /\ wt_left t = O.
Definition all_done (s : wst) : Prop := forall t, In t (w_thr s) -> thr_done t.

(** the entries acknowledged to the callers: per thread, and all together *)
Definition acks (s : wst) : list (list nat) := map wt_acks (w_thr s).
Definition returned (s : wst) : list nat := flat_map wt_acks (w_thr s).

(** recovery loads the ancestry of the cached head: entries 1..w_cache *)
Definition recovered (s : wst) : nat := w_cache s.

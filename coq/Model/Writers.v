(** Concurrent local writers on one store ([base_store.go AddOperation]): the log append
    is atomic (the log's lock); persisting the new head ([_localHeads]) and rebuilding the
    view happen afterwards, outside that lock.  Entries are numbered in append order and
    each new entry's [next] is the previous head, so entry [k]'s ancestry is [1..k]. *)
From Orbit Require Export Model.Base.

Inductive wpc := WStart | WAppended (e : nat) | WPersisted (e : nat) | WIndexRead (e n : nat) | WDone (e : nat).

Record wst := mkW {
  w_pcs   : list wpc;     (* one program counter per writer thread *)
  w_log   : nat;          (* number of entries appended so far = the log's head *)
  w_cache : nat;          (* entry stored under _localHeads (0 = nothing) *)
  w_view  : nat           (* the view reflects entries 1..w_view *)
}.

(** label = which writer thread takes its next step *)
Definition set_pc (i : nat) (p : wpc) (l : list wpc) : list wpc :=
  firstn i l ++ match skipn i l with [] => [] | _ :: t => p :: t end.

(** [atomic]: append + persist + view update form one critical section (true); false =
    the pinned commit, where only the append is atomic. *)
Definition wstep (atomic : bool) (s : wst) (i : nat) : option wst :=
  match nth_error (w_pcs s) i with
  | Some WStart =>
    let e := S (w_log s) in
    if atomic
    then Some (mkW (set_pc i (WDone e) (w_pcs s)) e e e)
    else Some (mkW (set_pc i (WAppended e) (w_pcs s)) e (w_cache s) (w_view s))
  | Some (WAppended e) => Some (mkW (set_pc i (WPersisted e) (w_pcs s)) (w_log s) e (w_view s))
  | Some (WPersisted e) =>
    (* UpdateIndex reads the whole current log (Values()) before taking the index lock ... *)
    Some (mkW (set_pc i (WIndexRead e (w_log s)) (w_pcs s)) (w_log s) (w_cache s) (w_view s))
  | Some (WIndexRead e n) =>
    (* ... and then applies what it read *)
    Some (mkW (set_pc i (WDone e) (w_pcs s)) (w_log s) (w_cache s) n)
  | _ => None
  end.

Definition winit (n : nat) : wst := mkW (repeat WStart n) 0 0 0.

Definition wrun (atomic : bool) (sched : list nat) (s : wst) : wst :=
  fold_left (fun s i => match wstep atomic s i with Some s' => s' | None => s end) sched s.

Definition all_done (s : wst) : Prop := forall p, In p (w_pcs s) -> exists e, p = WDone e.

Definition returned (s : wst) : list nat :=
  flat_map (fun p => match p with WDone e => [e] | _ => [] end) (w_pcs s).

(** recovery loads the ancestry of the cached head: entries 1..w_cache *)
Definition recovered (s : wst) : nat := w_cache s.

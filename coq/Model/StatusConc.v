(** Concurrent replication-status recalculations of [stores/basestore/base_store.go].

    [recalculateReplicationMax] / [recalculateReplicationProgress] are read-modify-write
    sequences over the shared [replicationInfo] cell; they are issued by the store's event
    loop (EventLoadAdded, EventLoadProgress, EventLoadEnd/merge), by local writers
    (appendAndIndex) and by Load / LoadFromSnapshot on the caller's goroutines.  This file
    models k such threads over one status cell and a log length that only grows.

    Every primitive recalculation is split into a READ step (captures the log length and
    the status fields into the thread's locals) and a WRITE step (the Set).  The computation
    is the sequential one of [Model/Status.v] applied to the locals.

    Mechanism switch [atomic]:
      - false: no mutual exclusion; reads and writes of different threads interleave freely
        (the code before the repair: only the individual Get/Set are locked);
      - true : a mutex is held from the read to the write of one primitive recalculation: a
        read is enabled only when no other thread is between its read and its write (the
        repaired code: [muStatus] held across recalculateReplicationMax and across
        recalculateReplicationProgress).  The log may still grow in between (appends and
        joins do not take that mutex). *)
From Orbit Require Export Model.Status.

(** what one thread runs: recalculateReplicationMax(arg), recalculateReplicationProgress(),
    or recalculateReplicationStatus(arg) = the former two one after the other *)
Inductive prog := RMax (arg : Z) | RProgress | RStatus (arg : Z).

(** primitive recalculations *)
Inductive phase := PMax (arg : Z) | PProg.

Definition prog_phases (p : prog) : list phase :=
  match p with
  | RMax a => [PMax a]
  | RProgress => [PProg]
  | RStatus a => [PMax a; PProg]
  end.

Definition prog_args (p : prog) : list Z :=
  match p with RMax a | RStatus a => [a] | RProgress => [] end.

(** [t_todo]: primitive recalculations still to run; [t_loc]: the locals of the first of
    them when it has read and not yet written: (log length read, status read) *)
Record thread := mkT { t_todo : list phase; t_loc : option (Z * status) }.

Record cstate := mkC { c_len : Z; c_st : status; c_thr : list thread }.

Inductive label :=
| LRead (i : nat)      (* thread i reads the log length and the status *)
| LWrite (i : nat)     (* thread i computes from its locals and Sets *)
| LGrow (d : Z).       (* environment: the log grows by d >= 0 entries (append / join) *)

(** the sequential primitive, as a function of the length and status it is applied to *)
Definition prim_step (mm : bool) (s : status) (x : phase * Z) : status :=
  match x with
  | (PMax a, l) => recalc_max mm l s a
  | (PProg, l) => recalc_progress l s
  end.

(** the Set of one primitive: computed from the locals [sread], stored into the field it
    owns of the current status [cur] (SetMax leaves progress alone and vice versa) *)
Definition phase_write (mm : bool) (ph : phase) (l : Z) (sread cur : status) : status :=
  match ph with
  | PMax a => mkS (s_progress cur) (s_max (prim_step mm sread (PMax a, l)))
  | PProg => mkS (s_progress (prim_step mm sread (PProg, l))) (s_max cur)
  end.

Definition has_loc (t : thread) : bool :=
  match t_loc t with Some _ => true | None => false end.

(** nobody is between a read and its write *)
Definition lock_free (c : cstate) : bool := forallb (fun t => negb (has_loc t)) (c_thr c).

Fixpoint tupd {A} (l : list A) (i : nat) (x : A) : list A :=
  match l, i with
  | [], _ => []
  | _ :: r, O => x :: r
  | y :: r, S j => y :: tupd r j x
  end.

Definition enabled (atomic : bool) (c : cstate) (lb : label) : bool :=
  match lb with
  | LGrow d => 0 <=? d
  | LRead i =>
    match nth_error (c_thr c) i with
    | Some (mkT (_ :: _) None) => if atomic then lock_free c else true
    | _ => false
    end
  | LWrite i =>
    match nth_error (c_thr c) i with
    | Some (mkT (_ :: _) (Some _)) => true
    | _ => false
    end
  end.

(** one step; a label that is not enabled is skipped *)
Definition cstep (atomic mm : bool) (c : cstate) (lb : label) : cstate :=
  if enabled atomic c lb then
    match lb with
    | LGrow d => mkC (c_len c + d) (c_st c) (c_thr c)
    | LRead i =>
      match nth_error (c_thr c) i with
      | Some t => mkC (c_len c) (c_st c) (tupd (c_thr c) i (mkT (t_todo t) (Some (c_len c, c_st c))))
      | None => c
      end
    | LWrite i =>
      match nth_error (c_thr c) i with
      | Some (mkT (ph :: rest) (Some (l, s0))) =>
        mkC (c_len c) (phase_write mm ph l s0 (c_st c)) (tupd (c_thr c) i (mkT rest None))
      | _ => c
      end
    end
  else c.

Definition crun (atomic mm : bool) (sched : list label) (c : cstate) : cstate :=
  fold_left (cstep atomic mm) sched c.

(** all intermediate states, oldest first *)
Fixpoint ctrace (atomic mm : bool) (sched : list label) (c : cstate) : list cstate :=
  match sched with
  | [] => [c]
  | lb :: r => c :: ctrace atomic mm r (cstep atomic mm c lb)
  end.

Definition cinit (len0 : Z) (s : status) (ps : list prog) : cstate :=
  mkC len0 s (map (fun p => mkT (prog_phases p) None) ps).

Definition threads_done (c : cstate) : Prop := forall t, In t (c_thr c) -> t_todo t = [].

Definition threads_doneb (c : cstate) : bool :=
  forallb (fun t => match t_todo t with [] => true | _ => false end) (c_thr c).

(** The direct-channel side of an instance with several databases ([base_store.go]
    [pubSubChanListener] / [onNewPeerJoined] / [exchangeHeads]): when a store sees a peer join ITS
    topic it sends that peer the heads of ITS database in a message carrying ITS address.

    k stores; store i owns database / topic / address i and has a current head list.  A switch
    describes the mechanism:
    - [own_topic_only = true]: the join seen on topic j makes store j alone send its heads (the
      tree as it stands: the listener of a store calls its own [onNewPeerJoined]);
    - [false]: the join is passed around on something all the stores of the instance share, and
      every store answers it. *)
From Orbit Require Export Model.Base.

Inductive jop :=
| JWrite (j : nat) (e : N)        (* database j gets entry e, which becomes its head *)
| JJoin (j : nat) (p : nat).      (* peer p is seen joining the topic of database j *)

(** a message on the direct channel: (receiving peer, address in the message, heads) *)
Definition dmsg := (nat * nat * list N)%type.

Record jst := mkJ { j_heads : list (list N); j_sent : list dmsg }.

Definition jinit (k : nat) : jst := mkJ (repeat [] k) [].

Definition set_nth {A} (i : nat) (x : A) (l : list A) : list A :=
  firstn i l ++ match skipn i l with [] => [] | _ :: r => x :: r end.

Definition answers (own_topic_only : bool) (j p : nat) (heads : list (list N)) : list dmsg :=
  if own_topic_only then [(p, j, nth j heads [])]
  else map (fun i => (p, i, nth i heads [])) (seq 0 (length heads)).

Definition jstep (own_topic_only : bool) (s : jst) (op : jop) : jst :=
  match op with
  | JWrite j e =>
    if (j <? length (j_heads s))%nat then mkJ (set_nth j [e] (j_heads s)) (j_sent s) else s
  | JJoin j p =>
    if (j <? length (j_heads s))%nat
    then mkJ (j_heads s) (j_sent s ++ answers own_topic_only j p (j_heads s))
    else s
  end.

Definition jrun (own_topic_only : bool) (ops : list jop) (s : jst) : jst :=
  fold_left (jstep own_topic_only) ops s.

(** Model of [BaseStore.Load(ctx, amount)] ([stores/basestore/base_store.go]) for a
    persisted log: one fetch per cached head bounded by the limit
    ([ipfslog.NewFromEntryHash] with [FetchOptions.Length = &amount]), each joined into the
    store's (initially empty) log with the same limit as the [size] of [Join].

    The limit [n] is the value of [amount] AFTER the MaxHistory substitution
    ([if amount <= 0 and MaxHistory is set then amount = MaxHistory]).

    What the fetcher returns is an input of the model (an oracle): block fetching is
    concurrent and not part of go-orbit-db.  [ideal_fetch] is the oracle the correspondence
    check uses and the contract of the proofs is stated against. *)
From Orbit Require Export Model.Log.

(** [fetch es h n excl]: the entries [NewFromEntryHash] builds its log from, for head hash
    [h], [Length = n], [Exclude = excl], when the block store holds [es]. *)
Definition fetcher := list entry -> N -> Z -> list entry -> list entry.

(** Mechanism switch 1: a non-positive limit means "everything" (-1).
    false = the pinned commit: the limit is passed on as it is. *)
Definition norm_limit (normalises : bool) (n : Z) : Z :=
  if normalises && (n <=? 0) then -1 else n.

(** The number of entries the joined log can hold: the entries of [other] that carry the
    log's id and are not in the log yet, plus the log's length. *)
Definition join_capacity (l other : log) : Z :=
  Z.of_nat (length (filter (fun e => negb (has_entry (eh e) (lents l)) && (elog e =? lid l)%N)
                           (lents other)))
  + Z.of_nat (length (lents l)).

(** Mechanism switch 2: never hand [Join] a size larger than that (join untrimmed instead).
    false = the pinned commit: the size is the limit. *)
Definition join_size (clamps : bool) (l other : log) (n : Z) : Z :=
  if clamps && (join_capacity l other <? n) then -1 else n.

(** One head: fetch, build the log, join.  [Load] drops the error of [Join]. *)
Definition load_head (clamps : bool) (fetch : fetcher) (es : list entry) (acc : entry -> bool)
           (n : Z) (l : log) (h : N) : outcome log :=
  let other := log_of_entries (lid l) (fetch es h n (lents l)) in
  match join l other (join_size clamps l other n) acc with
  | Ok l' => Ok l'
  | Err _ => Ok l
  | Panic p => Panic p
  end.

(** The per-head goroutines are serialised by [muJoining]: one head after the other (in
    the order the goroutines win the mutex; the caller chooses the order of [heads]). *)
Fixpoint load_heads (clamps : bool) (fetch : fetcher) (es : list entry) (acc : entry -> bool)
         (n : Z) (l : log) (heads : list N) : outcome log :=
  match heads with
  | [] => Ok l
  | h :: hs =>
    match load_head clamps fetch es acc n l h with
    | Ok l' => load_heads clamps fetch es acc n l' hs
    | o => o
    end
  end.

(** [Load]: [es] = the persisted entries, [heads] = the cached heads ([_localHeads] then
    [_remoteHeads]), [n] = the limit.  A [Panic] is a process crash. *)
Definition load_limit (normalises clamps : bool) (fetch : fetcher) (id : N) (acc : entry -> bool)
           (es : list entry) (heads : list N) (n : Z) : outcome log :=
  load_heads clamps fetch es acc (norm_limit normalises n) (empty_log id) heads.

(** What [List(amount = -1)] shows afterwards: the index is rebuilt from [Values]. *)
Definition listing (o : outcome log) : list entry :=
  match o with Ok l => values l | _ => [] end.

(** * The reference fetcher *)

(** The ancestry of [h] inside [es], oldest first. *)
Definition ancestry (es : list entry) (h : N) : list entry :=
  match find_entry h es with
  | Some e => rev (traverse es [e] (-1))
  | None => []
  end.

(** The last [n] elements (all when there are fewer). *)
Definition newest {A} (n : nat) (l : list A) : list A := skipn (length l - n) l.

(** The [n] greatest entries (by key) of the ancestry of [h]; everything for a negative
    limit; [Length = 0] behaves like 1 ([fromEntryHash]: [length = max(Length, 1)], and
    the fetcher keeps the entry it was started from).  [Exclude] is ignored, as in
    [entry/fetcher.go] (only [ShouldExclude] is consulted). *)
Definition ideal_fetch : fetcher := fun es h n _ =>
  let a := ancestry es h in
  if n <? 0 then a else newest (Z.to_nat (Z.max n 1)) a.

(** The network of replicas at the level of entry sets, WITH the replicator's memory of failed
    fetches and with restarts (C02, second model).

    [Model/Net.v] over-approximates every fault by "a replica gains any set of entries" and lets
    the receiver of a head exchange gain the whole ancestry of the sender's cached heads.  That
    is not what the code does when the receiver's log has a HOLE (an entry is held, one of its
    link targets is not): the replicator ([stores/replicator/replicator.go]) stops its traversal
    at every hash that is already in the log ([AddEntryToQueue], [AddHashToQueue],
    [shouldExclude]), so an ancestor missing below held entries is fetched only because the
    replicator remembers it as [stateFailed] and retries it with the next request.  A restart
    (Close + Open + [BaseStore.Load]) loses that memory.  This model keeps, per replica,

    - [h_log]    the entries of the store's log,
    - [h_local]  the cached [_localHeads]  (replaced by every own write),
    - [h_remote] the cached [_remoteHeads] (replaced by the heads of the log after every merge
                 of a replication batch, [replicationLoadComplete]),
    - [h_failed] the hashes the replicator holds as [stateFailed],

    and has three steps: a write, a replication request for ANY list of existing hashes with an
    ARBITRARY per-hash fetch outcome (whatever announcement was lost, duplicated, reordered,
    whatever a partition allowed), and a restart under an arbitrary fetch outcome for the blocks
    the replica does not hold itself.  The mechanism switch [rm] ("records missing") is what
    [BaseStore.Load] does with the link targets it could not load: [true] = they are handed to
    the replicator (which marks the unreachable ones failed and retries them with the next
    request), [false] = nothing remembers them (the code before the repair). *)
From Orbit Require Export Model.Net.

Record hrep := mkHR {
  h_log : list N;
  h_local : list N;
  h_remote : list N;
  h_failed : list N
}.

(** what [exchangeHeads] sends and what [Load] starts from *)
Definition h_cached (rp : hrep) : list N := h_local rp ++ h_remote rp.

Record hstate := mkHS {
  h_univ : list uent;          (* every entry ever written (published by its writer) *)
  h_owner : list (N * nat);    (* hash -> replica that wrote it *)
  h_reps : list hrep
}.

Definition hset_nth {A : Type} (i : nat) (x : A) (l : list A) : list A :=
  firstn i l ++ match skipn i l with [] => [] | _ :: t => x :: t end.

(** The traversal of one replication request (replicator.go [Load], [processItems],
    [processHash]) or of one load from the cached heads (go-ipfs-log's fetcher): a hash that
    is already in the log is skipped and NOT traversed, a hash whose fetch succeeds is gained
    and its links (next ∪ refs) are visited, any other hash is recorded as failed.  [ok] is the
    outcome of the fetch of each hash during this request (a hash met again after a failure is
    retried by the code; [ok h] stands for "one of the attempts of this request succeeded").
    Returns (gained, failed). *)
Fixpoint htraverse (fuel : nat) (U : list uent) (ok : N -> bool) (log todo gained failed : list N)
  : list N * list N :=
  match fuel with
  | O => (gained, failed)
  | S f =>
    match todo with
    | [] => (gained, failed)
    | h :: r =>
      if memN h log || memN h gained || memN h failed then htraverse f U ok log r gained failed
      else match (if ok h then ufind h U else None) with
           | Some e => htraverse f U ok log (u_links e ++ r) (gained ++ [h]) failed
           | None => htraverse f U ok log r gained (failed ++ [h])
           end
    end
  end.

(** enough fuel for every traversal (see [traverse_spec]) *)
Definition trav_fuel (U : list uent) (todo : list N) : nat :=
  length todo + length (flat_map u_links U) + 1.

(** link targets of members that are not members *)
Definition dangling (U : list uent) (log : list N) : list N :=
  filter (fun y => negb (memN y log)) (flat_map (links_of U) log).

(** One replication request on a replica: the failed hashes are retried first
    (replicator.go [Load]), then the given heads.  The fetched entries are merged
    ([replicationLoadComplete], only when something was fetched: no load-end event otherwise)
    and the heads of the merged log replace the cached remote heads. *)
Definition hfetch (U : list uent) (rp : hrep) (heads : list N) (ok : N -> bool) : hrep :=
  let hs := filter (fun h => memN h (map u_hash U)) heads in
  let todo := h_failed rp ++ hs in
  let res := htraverse (trav_fuel U todo) U ok (h_log rp) todo [] [] in
  let log' := h_log rp ++ fst res in
  mkHR log' (h_local rp)
       (match fst res with [] => h_remote rp | _ => heads_of U log' end)
       (snd res).

(** Restart: the task table is lost; the log is rebuilt from the cached heads, starting from
    the empty log; the blocks of the entries the replica held are in its own block store,
    other blocks are fetched according to [ok]; entries the fetcher cannot get are skipped
    silently.  With [rm] the link targets that are still missing are handed to the
    replicator (they are at least recorded as failed; the request itself is a subsequent
    [HFetch r [] ok'] step), without it nothing remembers them.  The cache is not written. *)
Definition hrestart (rm : bool) (U : list uent) (rp : hrep) (ok : N -> bool) : hrep :=
  let ok' := fun h => memN h (h_log rp) || ok h in
  let todo := h_cached rp in
  let res := htraverse (trav_fuel U todo) U ok' [] todo [] [] in
  let log' := fst res in
  mkHR log' (h_local rp) (h_remote rp) (if rm then dangling U log' else []).

Inductive hstep :=
| HWrite (r : nat) (h : N) (refs : list N)               (* replica r writes a new entry h: next = heads of r's log, refs = any held entries *)
| HFetch (r : nat) (heads : list N) (ok : N -> bool)     (* a replication request on r, any heads, any outcome *)
| HRestart (r : nat) (ok : N -> bool).                   (* r is closed, reopened and loaded *)

Definition hstep_run (rm : bool) (s : hstate) (st : hstep) : hstate :=
  match st with
  | HWrite r h refs =>
    match nth_error (h_reps s) r with
    | Some rp =>
      if memN h (map u_hash (h_univ s)) then s
      else
        (* log.Append: next = the heads of the log, refs = further entries of the log *)
        let e := mkU h (heads_of (h_univ s) (h_log rp) ++ filter (fun x => memN x (h_log rp)) refs) true in
        (* AddOperation: the log gains h, _localHeads := [h] *)
        mkHS (h_univ s ++ [e]) (h_owner s ++ [(h, r)])
             (hset_nth r (mkHR (h_log rp ++ [h]) [h] (h_remote rp) (h_failed rp)) (h_reps s))
    | None => s
    end
  | HFetch r heads ok =>
    match nth_error (h_reps s) r with
    | Some rp => mkHS (h_univ s) (h_owner s) (hset_nth r (hfetch (h_univ s) rp heads ok) (h_reps s))
    | None => s
    end
  | HRestart r ok =>
    match nth_error (h_reps s) r with
    | Some rp => mkHS (h_univ s) (h_owner s) (hset_nth r (hrestart rm (h_univ s) rp ok) (h_reps s))
    | None => s
    end
  end.

Definition hinit (n : nat) : hstate := mkHS [] [] (repeat (mkHR [] [] [] []) n).
Definition hrun (rm : bool) (steps : list hstep) (s : hstate) : hstate := fold_left (hstep_run rm) steps s.

(** The final phase: no further write, all links up.  Every ordered pair (a, b), a <> b, in
    turn: a sends its cached heads to b ([exchangeHeads]); a peer without heads triggers no
    request on the other side ([Sync] returns early); otherwise b runs a replication request
    for these heads in which every fetch succeeds — every entry is held by its writer
    (invariant [hi_own] of the proofs), who is connected. *)
Definition hpairs (n : nat) : list (nat * nat) :=
  filter (fun p => negb (fst p =? snd p)%nat) (list_prod (seq 0 n) (seq 0 n)).

Definition hexchange_step (rm : bool) (s : hstate) (p : nat * nat) : hstate :=
  match nth_error (h_reps s) (fst p) with
  | Some a =>
    match h_cached a with
    | [] => s
    | hs => hstep_run rm s (HFetch (snd p) hs (fun _ => true))
    end
  | None => s
  end.

Definition hfinal (rm : bool) (s : hstate) : hstate :=
  fold_left (hexchange_step rm) (hpairs (length (h_reps s))) s.

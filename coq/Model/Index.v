(** Models of the three index builders and of the event-log window query:
    [stores/kvstore/index.go], [stores/documentstore/index.go] (+ Get/Query matching of
    [document.go]), [stores/eventlogstore/log.go]. *)
From Orbit Require Export Model.Log.

(** * Key-value index *)

Definition kvmap := list (bytes * N).

(** Newest-to-oldest scan with a [handled] set; the Go map is not reset between
    rebuilds, so the previous contents [m0] are the starting point. *)
Fixpoint kv_scan (newest_first : list entry) (handled : list bytes) (m : kvmap) : kvmap :=
  match newest_first with
  | [] => m
  | e :: rest =>
    match eop e with
    | OPut (Some k) v =>
      if existsb (bytes_eqb k) handled then kv_scan rest handled m
      else kv_scan rest (k :: handled) (aset bytes_eqb k v m)
    | ODel (Some k) =>
      if existsb (bytes_eqb k) handled then kv_scan rest handled m
      else kv_scan rest (k :: handled) (aremove bytes_eqb k m)
    | OPutAll _ =>
      (* key is the empty string: handled once, neither PUT nor DEL *)
      if existsb (bytes_eqb []) handled then kv_scan rest handled m
      else kv_scan rest ([] :: handled) m
    | _ => kv_scan rest handled m       (* nil key, or unknown operation on a nil key *)
    end
  end.

Definition kv_update (vals_oldest_first : list entry) (m0 : kvmap) : kvmap :=
  kv_scan (rev vals_oldest_first) [] m0.

(** * Document index *)

(** [marks_doc_key]: the PUTALL branch marks each document's key as handled
    (true) or the operation's own key, the empty string (false: the pinned commit). *)
Fixpoint doc_putall (marks_doc_key : bool) (docs : list (bytes * N)) (handled : list bytes) (m : kvmap)
  : list bytes * kvmap :=
  match docs with
  | [] => (handled, m)
  | (k, v) :: ds =>
    if existsb (bytes_eqb k) handled then doc_putall marks_doc_key ds handled m
    else doc_putall marks_doc_key ds
                    ((if marks_doc_key then k else []) :: handled)
                    (aset bytes_eqb k v m)
  end.

Fixpoint doc_scan (marks_doc_key : bool) (newest_first : list entry) (handled : list bytes) (m : kvmap) : kvmap :=
  match newest_first with
  | [] => m
  | e :: rest =>
    match eop e with
    | OPutAll docs =>
      let '(h', m') := doc_putall marks_doc_key docs handled m in
      doc_scan marks_doc_key rest h' m'
    | OPut (Some (c :: k)) v =>
      let key := c :: k in
      if existsb (bytes_eqb key) handled then doc_scan marks_doc_key rest handled m
      else doc_scan marks_doc_key rest (key :: handled) (aset bytes_eqb key v m)
    | ODel (Some (c :: k)) =>
      let key := c :: k in
      if existsb (bytes_eqb key) handled then doc_scan marks_doc_key rest handled m
      else doc_scan marks_doc_key rest (key :: handled) (aremove bytes_eqb key m)
    | _ => doc_scan marks_doc_key rest handled m     (* nil or empty key: ignored *)
    end
  end.

Definition doc_update (marks_doc_key : bool) (vals_oldest_first : list entry) (m0 : kvmap) : kvmap :=
  doc_scan marks_doc_key (rev vals_oldest_first) [] m0.

(** ASCII lower-casing ([strings.ToLower] on the property's key alphabet). *)
Definition lower_byte (b : N) : N := if (65 <=? b)%N && (b <=? 90)%N then (b + 32)%N else b.
Definition lower (s : bytes) : bytes := map lower_byte s.

Fixpoint is_prefix (p s : bytes) : bool :=
  match p, s with
  | [], _ => true
  | x :: p', y :: s' => (x =? y)%N && is_prefix p' s'
  | _ :: _, [] => false
  end.

Fixpoint contains (s sub : bytes) : bool :=
  is_prefix sub s || match s with [] => false | _ :: s' => contains s' sub end.

(** [DocumentStore.Get] for search keys without spaces. *)
Definition doc_match (case_insensitive partial : bool) (search index_key : bytes) : bool :=
  let s := if case_insensitive then lower search else search in
  let k := if case_insensitive then lower index_key else index_key in
  if partial then contains k s else bytes_eqb k s.

Definition doc_get (case_insensitive partial : bool) (search : bytes) (m : kvmap) : kvmap :=
  filter (fun kv => doc_match case_insensitive partial search (fst kv)) m.

(** * Event-log window query ([eventlogstore/log.go query/read]) *)

Inductive bound := BNone | BGt (h : N) | BGte (h : N) | BLt (h : N) | BLte (h : N).
(** amount: [None] = option unset. *)

Definition evlog_amount (a : option Z) (len : nat) : Z :=
  match a with
  | None => 1
  | Some x => if x =? 0 then 1 else if -1 <? x then x else Z.of_nat len
  end.

(** index of the first element whose hash is [h], 0 when absent (as the code does) *)
Fixpoint index_of (h : N) (l : list entry) (i : nat) : option nat :=
  match l with
  | [] => None
  | e :: l' => if (eh e =? h)%N then Some i else index_of h l' (S i)
  end.

Fixpoint take_amount {A} (l : list A) (amount : Z) (fuel : nat) : list A :=
  match fuel, l with
  | S f, x :: l' => if amount =? 0 then [] else x :: take_amount l' (amount - 1) f
  | _, _ => []
  end.

(** [read ops hash amount inclusive]; [None] = the zero CID, which matches nothing. *)
Definition evlog_read (ops : list entry) (h : option N) (amount : Z) (inclusive : bool) : list entry :=
  let start0 := match h with
                | Some x => match index_of x ops 0 with Some i => i | None => O end
                | None => O
                end in
  let start := if inclusive then start0 else S start0 in
  take_amount (skipn start ops) amount (length ops).

Definition evlog_query (events : list entry) (b : bound) (a : option Z) : list entry :=
  let amount := evlog_amount a (length events) in
  match b with
  | BGt h => evlog_read events (Some h) amount false
  | BGte h => evlog_read events (Some h) amount true
  | BLt h => rev (evlog_read (rev events) (Some h) amount false)
  | BLte h => rev (evlog_read (rev events) (Some h) amount true)
  | BNone => rev (evlog_read (rev events) None amount true)
  end.

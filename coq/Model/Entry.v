(** Entries of the go-ipfs-log CRDT and the default total order
    ([entry/sorting.LastWriteWins] wrapped by [NoZeroes], [LamportClock.Compare]). *)
From Orbit Require Export Model.Base.

(** Operation payloads of the three store types ([stores/operation/operation.go]). *)
Inductive op :=
| OPut (k : option bytes) (v : N)          (* {"op":"PUT","key":k,"value":v} *)
| ODel (k : option bytes)                  (* {"op":"DEL","key":k} *)
| OAdd (v : N)                             (* {"op":"ADD","value":v}, key absent *)
| OPutAll (docs : list (bytes * N))        (* {"op":"PUTALL","key":"","docs":[...]} *)
| OOther.                                  (* any other op string *)

Record entry := mkEntry {
  eh    : N;        (* content address (interned CID) *)
  elog  : N;        (* log id the entry was written for *)
  etime : Z;        (* Lamport clock time *)
  ecid  : N;        (* Lamport clock id = writer public key, by rank in byte order *)
  enext : list N;   (* next links *)
  erefs : list N;   (* skip-list references *)
  eid   : N;        (* claimed identity id *)
  ekey  : N;        (* key the signature is verified against *)
  esig  : N;        (* key that actually produced the signature (symbolic) *)
  eop   : op
}.

(** [LamportClock.Compare] then [SortByClockID] then [First]: the sign of the result. *)
Definition cmp_lww (a b : entry) : Z :=
  if etime a <? etime b then -1
  else if etime b <? etime a then 1
  else if (ecid a <? ecid b)%N then -1
  else if (ecid b <? ecid a)%N then 1
  else 1.   (* tie: sorting.First *)

(** [less] used by [sorting.Sort(_, _, reverse=true)] : ret > 0. *)
Definition gt_lww (a b : entry) : bool := 0 <? cmp_lww a b.

(** Strict key order (time, clock id). *)
Definition key_lt (a b : entry) : Prop :=
  etime a < etime b \/ (etime a = etime b /\ (ecid a < ecid b)%N).

Definition key_ltb (a b : entry) : bool :=
  (etime a <? etime b) || ((etime a =? etime b) && (ecid a <? ecid b)%N).

Definition same_key (a b : entry) : Prop := etime a = etime b /\ ecid a = ecid b.

(** Stable insertion sort, descending: what [sort.SliceStable] with [gt_lww] yields
    whenever [gt_lww] is a strict total order on the input (no key ties). *)
Fixpoint insert_desc (x : entry) (l : list entry) : list entry :=
  match l with
  | [] => [x]
  | y :: l' => if gt_lww y x then y :: insert_desc x l' else x :: l
  end.

(* Stable: an element is inserted after every element that is not strictly smaller. *)
Definition sort_desc (l : list entry) : list entry :=
  fold_right insert_desc [] l.

Definition hashes (l : list entry) : list N := map eh l.

Fixpoint find_entry (h : N) (l : list entry) : option entry :=
  match l with
  | [] => None
  | e :: l' => if (eh e =? h)%N then Some e else find_entry h l'
  end.

Definition has_entry (h : N) (l : list entry) : bool :=
  match find_entry h l with Some _ => true | None => false end.

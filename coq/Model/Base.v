(** Shared definitions for the go-orbit-db models.  Models are total, executable
    Gallina; code that can panic returns an explicit [outcome]. *)
From Coq Require Export List ZArith NArith Bool Lia.
Export ListNotations.
Open Scope Z_scope.

Inductive errkind := EDenied | ENotFound | EBadInput | EClosed | EOther.
Inductive panickind := PNilDeref | PIndexRange | PSliceBounds | PMakeLen | POther.

Inductive outcome (A : Type) :=
| Ok (a : A)
| Err (e : errkind)
| Panic (p : panickind).
Arguments Ok {A} a.
Arguments Err {A} e.
Arguments Panic {A} p.

Definition is_panic {A} (o : outcome A) : bool :=
  match o with Panic _ => true | _ => false end.
Definition is_ok {A} (o : outcome A) : bool :=
  match o with Ok _ => true | _ => false end.

(** Byte strings are lists of [N] below 256 (the harness prints them that way). *)
Definition bytes := list N.

Fixpoint list_eqb {A} (eqb : A -> A -> bool) (a b : list A) : bool :=
  match a, b with
  | [], [] => true
  | x :: a', y :: b' => eqb x y && list_eqb eqb a' b'
  | _, _ => false
  end.

Lemma list_eqb_spec {A} (eqb : A -> A -> bool) :
  (forall x y, eqb x y = true <-> x = y) ->
  forall a b, list_eqb eqb a b = true <-> a = b.
Proof.
  intros H a; induction a as [|x a IH]; intros [|y b]; simpl; split; intros E;
    try reflexivity; try discriminate.
  - apply andb_true_iff in E as [E1 E2]. apply H in E1. apply IH in E2. congruence.
  - inversion E; subst. apply andb_true_iff; split; [apply H | apply IH]; reflexivity.
Qed.

Definition bytes_eqb : bytes -> bytes -> bool := list_eqb N.eqb.

Lemma bytes_eqb_spec a b : bytes_eqb a b = true <-> a = b.
Proof. apply list_eqb_spec. intros; apply N.eqb_eq. Qed.

Definition memN (x : N) (l : list N) : bool := existsb (N.eqb x) l.

Lemma memN_In x l : memN x l = true <-> In x l.
Proof.
  unfold memN. rewrite existsb_exists. split.
  - intros [y [Hy E]]. apply N.eqb_eq in E. subst. exact Hy.
  - intros H. exists x. split; [exact H | apply N.eqb_refl].
Qed.

(** Association lists with Go-map semantics on a key type with boolean equality;
    iteration order is not observable in Go, so specs compare them as finite maps. *)
Section Assoc.
  Context {K V : Type} (keqb : K -> K -> bool).

  Fixpoint alookup (k : K) (m : list (K * V)) : option V :=
    match m with
    | [] => None
    | (k', v) :: m' => if keqb k k' then Some v else alookup k m'
    end.

  Fixpoint aremove (k : K) (m : list (K * V)) : list (K * V) :=
    match m with
    | [] => []
    | (k', v) :: m' => if keqb k k' then aremove k m' else (k', v) :: aremove k m'
    end.

  Definition aset (k : K) (v : V) (m : list (K * V)) : list (K * V) :=
    (k, v) :: aremove k m.
End Assoc.

(** Model of go-ipfs-log [log.go]: Append, Join, difference, traverse, Values, Heads,
    and [entry/utils.go FindHeads].  Ordered maps are duplicate-free lists in
    insertion order. *)
From Orbit Require Export Model.Entry.

Record log := mkLog {
  lid    : N;            (* IPFSLog.ID *)
  lents  : list entry;   (* IPFSLog.Entries *)
  lheads : list entry;   (* IPFSLog.heads *)
  lnext  : list N;       (* keys of IPFSLog.Next: hashes referenced by a next link *)
  lclock : Z             (* IPFSLog.Clock time *)
}.

Definition empty_log (id : N) : log := mkLog id [] [] [] 0.

(** OrderedMap.Set: append unless the key exists. *)
Definition oset (e : entry) (m : list entry) : list entry :=
  if has_entry (eh e) m then m else m ++ [e].

Definition oset_all (es m : list entry) : list entry := fold_left (fun m e => oset e m) es m.

Definition addN (x : N) (l : list N) : list N := if memN x l then l else l ++ [x].
Definition addN_all (xs l : list N) : list N := fold_left (fun l x => addN x l) xs l.

(** Stable ascending insertion sort by clock id (the [sort.SliceStable] in FindHeads). *)
Fixpoint insert_cid (x : entry) (l : list entry) : list entry :=
  match l with
  | [] => [x]
  | y :: l' => if (ecid x <? ecid y)%N then x :: l else y :: insert_cid x l'
  end.
Definition sort_cid (l : list entry) : list entry := fold_right insert_cid [] l.

(** [FindHeads]: members not referenced through [next] by any member. *)
Definition all_nexts (m : list entry) : list N := flat_map enext m.
Definition find_heads (m : list entry) : list entry :=
  sort_cid (filter (fun e => negb (memN (eh e) (all_nexts m))) m).

(** One round of pushing the present, not yet traversed nexts of an entry. *)
Fixpoint push_nexts (ents : list entry) (ns : list N) (stack : list entry) (trav : list N)
  : list entry * list N * bool :=
  match ns with
  | [] => (stack, trav, false)
  | c :: ns' =>
    match find_entry c ents with
    | None => push_nexts ents ns' stack trav
    | Some n =>
      if memN (eh n) trav then push_nexts ents ns' stack trav
      else let '(s, t, _) := push_nexts ents ns' (n :: stack) (eh n :: trav) in (s, t, true)
    end
  end.

(** [traverse] main loop; [amount < 0] means unbounded.  Returns newest first. *)
Fixpoint trav_loop (fuel : nat) (ents stack : list entry) (trav : list N)
         (result : list entry) (amount count : Z) : list entry :=
  match fuel with
  | O => result
  | S f =>
    match stack with
    | [] => result
    | e :: st =>
      if (0 <=? amount) && (amount <=? count) then result
      else
        let result' := oset e result in
        let trav' := eh e :: trav in
        let '(st', trav'', modified) := push_nexts ents (enext e) st trav' in
        let st'' := if modified then sort_desc st' else st' in
        trav_loop f ents st'' trav'' result' amount (count + 1)
    end
  end.

Definition traverse (ents roots : list entry) (amount : Z) : list entry :=
  trav_loop (length ents + length roots + 1) ents (sort_desc roots) [] [] amount 0.

(** [Values]: oldest first. *)
Definition values (l : log) : list entry := rev (traverse (lents l) (lheads l) (-1)).

(** [Heads]: sorted newest first. *)
Definition heads_sorted (l : log) : list entry := sort_desc (lheads l).

Definition max_time (es : list entry) (d : Z) : Z :=
  fold_left (fun m e => Z.max (etime e) m) es d.

(** [Append].  The content address [h] and the reference list [refs] are inputs
    (the address is whatever the bytes hash to; refs are chosen by [getEveryPow2]).
    [acc] is the access-controller decision for the new entry.  The clock is
    advanced before the access check, exactly as in the code. *)
Definition append (l : log) (h : N) (cid ident key sig : N) (o : op) (refs : list N)
           (acc : entry -> bool) : outcome (entry * log) * log :=
  let hs := heads_sorted l in
  let t := Z.max (lclock l) (max_time hs 0) + 1 in
  let next := rev (hashes hs) in
  let e := mkEntry h (lid l) t cid next refs ident key sig o in
  let l1 := mkLog (lid l) (lents l) (lheads l) (lnext l) t in
  if acc e then
    let l2 := mkLog (lid l) (oset e (lents l)) [e] (addN_all next (lnext l)) t in
    (Ok (e, l2), l2)
  else (Err EDenied, l1).

(** [difference entriesA headsA logB] (breadth-first from the heads of A). *)
Fixpoint diff_loop (fuel : nat) (entsA : list entry) (lidB : N) (entsB : list entry)
         (stack : list N) (trav : list N) (res : list entry) : list entry :=
  match fuel with
  | O => res
  | S f =>
    match stack with
    | [] => res
    | h :: st =>
      match find_entry h entsA with
      | Some eA =>
        if negb (has_entry h entsB) && (elog eA =? lidB)%N then
          let res' := oset eA res in
          let trav' := addN h trav in
          let '(st', trav'') :=
            fold_left (fun '(s, t) n =>
                         if negb (memN n t) && negb (has_entry n entsB)
                         then (s ++ [n], addN n t) else (s, t))
                      (enext eA) (st, trav') in
          diff_loop f entsA lidB entsB st' trav'' res'
        else diff_loop f entsA lidB entsB st trav res
      | None => diff_loop f entsA lidB entsB st trav res
      end
    end
  end.

Definition difference (entsA headsA : list entry) (b : log) : list entry :=
  match entsA, headsA with
  | [], _ => []
  | _, [] => []
  | _, _ => diff_loop (length headsA + length (all_nexts entsA) + 1) entsA (lid b) (lents b)
                      (hashes headsA) [] []
  end.

(** Go slice [tmp[len-size:]]: panics when the bound is negative. *)
Definition last_n {A} (l : list A) (size : Z) : outcome (list A) :=
  let len := Z.of_nat (length l) in
  if size <=? len then Ok (skipn (Z.to_nat (len - size)) l) else Panic PSliceBounds.

(** [Join l other size].  [acc] is CanAppend-and-Verify for a new item.  The ID
    comparison is between log objects; the replicator always builds the other log
    with this log's id, which the caller expresses by [lid other = lid l]. *)
Definition join (l other : log) (size : Z) (acc : entry -> bool) : outcome log :=
  if negb (lid l =? lid other)%N then Ok l else
  let new := difference (lents other) (lheads other) l in
  if negb (forallb acc new) then Err EDenied else
  let ents' := oset_all new (lents l) in
  let next' := addN_all (flat_map enext new) (lnext l) in
  let nexts_new := flat_map enext new in
  let merged := find_heads (oset_all (lheads other) (lheads l)) in
  let heads' := filter (fun e => negb (memN (eh e) nexts_new) && negb (memN (eh e) next')) merged in
  let l1 := mkLog (lid l) ents' heads' next' (lclock l) in
  let finish (l2 : log) :=
      mkLog (lid l2) (lents l2) (lheads l2) (lnext l2)
            (Z.max (lclock l2) (max_time (lheads l2) 0)) in
  if 0 <=? size then
    match last_n (values l1) size with
    | Ok tmp => Ok (finish (mkLog (lid l) (oset_all tmp []) (find_heads (oset_all tmp [])) next' (lclock l)))
    | Err e => Err e
    | Panic p => Panic p
    end
  else Ok (finish l1).

(** What [NewLog] builds from a bag of fetched entries ([NewFromEntryHash],
    [NewFromJSON]): heads are the [FindHeads] of the entries. *)
Definition log_of_entries (id : N) (es : list entry) : log :=
  let m := oset_all es [] in
  mkLog id m (find_heads m) (addN_all (flat_map enext m) []) 0.

(** The network of replicas at the level of entry sets (C02).  Each replica holds a set of
    entries and a set of cached heads ([_localHeads] ∪ [_remoteHeads]).  Faults are
    over-approximated: a replica may at any time gain ANY set of existing entries
    (whatever announcements were lost, duplicated, reordered, whatever partial fetches a
    partition allowed, whatever a restart reloaded), after which its cached heads are the
    heads of its log — the step that [replicationLoadComplete] and [Load] perform.
    The final phase is what the code does when all links are up again: every ordered pair
    exchanges cached heads and the receiver fetches their whole ancestry (justified by the
    replicator theorem [repl_complete] under "blocks held by a connected peer are fetchable"). *)
From Orbit Require Export Model.Replicator.

(** entries of the universe: hash, links (next), writer; reuse [uent] with [u_valid] = true *)
Record nrep := mkNR { n_log : list N; n_cached : list N }.

Record nstate := mkNS {
  n_univ : list uent;          (* every entry ever written (and published by its writer) *)
  n_owner : list (N * nat);    (* hash -> replica that wrote it *)
  n_reps : list nrep
}.

Definition links_of (U : list uent) (h : N) : list N :=
  match ufind h U with Some e => u_links e | None => [] end.

(** heads of a set of hashes: members no other member links to *)
Definition heads_of (U : list uent) (log : list N) : list N :=
  filter (fun h => negb (existsb (fun x => memN h (links_of U x)) log)) log.

(** ancestry (reflexive-transitive closure over links inside U) as an executable set *)
Definition anc_set (U : list uent) (hs : list N) : list N :=
  closure (length hs + length (flat_map u_links U) + 1) U hs [].

Definition set_rep (i : nat) (x : nrep) (l : list nrep) : list nrep :=
  firstn i l ++ match skipn i l with [] => [] | _ :: t => x :: t end.

Definition unionN (a b : list N) : list N := fold_left (fun acc x => if memN x acc then acc else acc ++ [x]) b a.

Inductive nstep :=
| NWrite (r : nat) (h : N)                (* replica r writes a new entry h: its links are the heads of r's log *)
| NGain (r : nat) (got : list N).         (* replica r merges any set of existing entries (any route, any fault) *)

Definition nstep_run (s : nstate) (st : nstep) : nstate :=
  match st with
  | NWrite r h =>
    match nth_error (n_reps s) r with
    | Some rp =>
      if memN h (map u_hash (n_univ s)) then s
      else
        let e := mkU h (heads_of (n_univ s) (n_log rp)) true in
        (* AddOperation: the log gains h, _localHeads := [h]; the previously cached heads stay cached *)
        mkNS (n_univ s ++ [e]) (n_owner s ++ [(h, r)])
             (set_rep r (mkNR (n_log rp ++ [h]) (h :: n_cached rp)) (n_reps s))
    | None => s
    end
  | NGain r got =>
    match nth_error (n_reps s) r with
    | Some rp =>
      let S' := filter (fun h => memN h (map u_hash (n_univ s))) got in
      let log' := unionN (n_log rp) S' in
      (* replicationLoadComplete / Load: _remoteHeads := heads of the merged log *)
      mkNS (n_univ s) (n_owner s) (set_rep r (mkNR log' (unionN (n_cached rp) (heads_of (n_univ s) log'))) (n_reps s))
    | None => s
    end
  end.

Definition ninit (n : nat) : nstate := mkNS [] [] (repeat (mkNR [] []) n).
Definition nrun (steps : list nstep) (s : nstate) : nstate := fold_left nstep_run steps s.

(** the final phase: all links up, every ordered pair (a, b), a <> b, exchanges heads: b
    gains the whole ancestry of a's cached heads (fetches succeed: every block is held by
    its writer, who is connected) *)
Definition exchange (U : list uent) (from to_ : nrep) : nrep :=
  let log' := unionN (n_log to_) (anc_set U (n_cached from)) in
  mkNR log' (unionN (n_cached to_) (heads_of U log')).

(** replica b after receiving from every a (including, harmlessly, itself) *)
Definition final_rep (U : list uent) (senders : list nrep) (b : nrep) : nrep :=
  fold_left (fun acc a => exchange U a acc) senders b.

Definition final_phase (s : nstate) : nstate :=
  (* the senders' cached heads are those at the start of the phase (a superset only grows the result) *)
  mkNS (n_univ s) (n_owner s) (map (final_rep (n_univ s) (n_reps s)) (n_reps s)).

From Orbit Require Import Spec.Statements.

(** Refinement proofs for the key-value and document index builders (C06, C07). *)

Local Arguments bytes_eqb : simpl never.

Notation look := (alookup bytes_eqb).

(** * Boolean equality on byte strings *)

Lemma beq_refl (k : bytes) : bytes_eqb k k = true.
Proof. apply bytes_eqb_spec. reflexivity. Qed.

Lemma beq_sym (a b : bytes) : bytes_eqb a b = bytes_eqb b a.
Proof.
  destruct (bytes_eqb a b) eqn:E1, (bytes_eqb b a) eqn:E2; try reflexivity.
  - apply bytes_eqb_spec in E1. subst b. rewrite beq_refl in E2. discriminate E2.
  - apply bytes_eqb_spec in E2. subst b. rewrite beq_refl in E1. discriminate E1.
Qed.

(** * Association lists *)

Lemma look_aremove_eq (k : bytes) (m : kvmap) :
  look k (aremove bytes_eqb k m) = None.
Proof.
  induction m as [|[k1 v1] m IH]; simpl; [reflexivity|].
  destruct (bytes_eqb k k1) eqn:E; simpl; [exact IH|].
  rewrite E. exact IH.
Qed.

Lemma look_aremove_neq (k k' : bytes) (m : kvmap) :
  bytes_eqb k k' = false -> look k (aremove bytes_eqb k' m) = look k m.
Proof.
  intros Hne. induction m as [|[k1 v1] m IH]; simpl; [reflexivity|].
  destruct (bytes_eqb k' k1) eqn:E.
  - apply bytes_eqb_spec in E. subst k1. rewrite Hne. exact IH.
  - simpl. rewrite IH. reflexivity.
Qed.

Lemma look_aset_eq (k : bytes) (v : N) (m : kvmap) :
  look k (aset bytes_eqb k v m) = Some v.
Proof. unfold aset. simpl. rewrite beq_refl. reflexivity. Qed.

Lemma look_aset_neq (k k' : bytes) (v : N) (m : kvmap) :
  bytes_eqb k k' = false -> look k (aset bytes_eqb k' v m) = look k m.
Proof.
  intros Hne. unfold aset. simpl. rewrite Hne. apply look_aremove_neq. exact Hne.
Qed.

Lemma aremove_keys_in (k x : bytes) (m : kvmap) :
  In x (map fst (aremove bytes_eqb k m)) -> In x (map fst m).
Proof.
  induction m as [|[k1 v1] m IH]; simpl; [tauto|].
  destruct (bytes_eqb k k1); simpl; intros H.
  - right. apply IH. exact H.
  - destruct H as [H|H]; [left; exact H | right; apply IH; exact H].
Qed.

Lemma aremove_not_in (k : bytes) (m : kvmap) :
  ~ In k (map fst (aremove bytes_eqb k m)).
Proof.
  induction m as [|[k1 v1] m IH]; simpl; [tauto|].
  destruct (bytes_eqb k k1) eqn:E; simpl; [exact IH|].
  intros [H|H]; [|exact (IH H)].
  subst k1. rewrite beq_refl in E. discriminate E.
Qed.

Lemma aremove_nodup (k : bytes) (m : kvmap) :
  NoDup (map fst m) -> NoDup (map fst (aremove bytes_eqb k m)).
Proof.
  induction m as [|[k1 v1] m IH]; simpl; intros H; [constructor|].
  inversion H as [|x l Hn Hd]; subst.
  destruct (bytes_eqb k k1); simpl; [apply IH; exact Hd|].
  constructor; [|apply IH; exact Hd].
  intros Hin. apply Hn. apply (aremove_keys_in k). exact Hin.
Qed.

Lemma aset_nodup (k : bytes) (v : N) (m : kvmap) :
  NoDup (map fst m) -> NoDup (map fst (aset bytes_eqb k v m)).
Proof.
  intros H. unfold aset. simpl.
  constructor; [apply aremove_not_in | apply aremove_nodup; exact H].
Qed.

Lemma existsb_incl_false {A} (p : A -> bool) (a b : list A) :
  incl a b -> existsb p b = false -> existsb p a = false.
Proof.
  intros Hincl Hb. destruct (existsb p a) eqn:E; [|reflexivity].
  apply existsb_exists in E as [x [Hx Px]].
  assert (Hb' : existsb p b = true).
  { apply existsb_exists. exists x. split; [apply Hincl; exact Hx | exact Px]. }
  rewrite Hb in Hb'. discriminate Hb'.
Qed.

(** * Generic last-writer-wins replay *)

Section Replay.
  Variable E : Type.
  Variable step : fmap -> E -> fmap.
  Variable touches : bytes -> E -> bool.
  Hypothesis step_touch :
    forall f g e k, touches k e = true -> step f e k = step g e k.
  Hypothesis step_notouch :
    forall f e k, touches k e = false -> step f e k = f k.

  Lemma step_dep f g e k : f k = g k -> step f e k = step g e k.
  Proof.
    intros H. destruct (touches k e) eqn:T.
    - apply step_touch. exact T.
    - rewrite !step_notouch by exact T. exact H.
  Qed.

  Lemma replay_dep l : forall f g k,
    f k = g k -> fold_left step l f k = fold_left step l g k.
  Proof.
    induction l as [|e l IH]; intros f g k H; simpl; [exact H|].
    apply IH. apply step_dep. exact H.
  Qed.

  Lemma replay_split l k : forall f,
    fold_left step l f k =
    if existsb (touches k) l then fold_left step l fempty k else f k.
  Proof.
    induction l as [|e l IH] using rev_ind; intros f; [reflexivity|].
    rewrite !fold_left_app, existsb_app. simpl. rewrite orb_false_r.
    destruct (touches k e) eqn:T.
    - rewrite orb_true_r. apply step_touch. exact T.
    - rewrite orb_false_r. rewrite !step_notouch by exact T. apply IH.
  Qed.

  Lemma replay_untouched l k :
    existsb (touches k) l = false -> fold_left step l fempty k = None.
  Proof.
    intros H. rewrite (replay_split l k fempty), H. reflexivity.
  Qed.
End Replay.

(** * Histories *)

Lemma grows_app_last (h : list (list entry)) (v : list entry) :
  grows (h ++ [v]) -> grows h /\ incl (last h []) v.
Proof.
  induction h as [|a h IH]; intros G.
  - split; [exact I | intros x Hx; destruct Hx].
  - destruct h as [|b h].
    + simpl in G. destruct G as [G _]. split; [exact I | exact G].
    + change (incl a b /\ grows ((b :: h) ++ [v])) in G.
      destruct G as [Gab G]. apply IH in G. destruct G as [G1 G2].
      split; [split; [exact Gab | exact G1] | exact G2].
Qed.

Section Run.
  Variable step : fmap -> entry -> fmap.
  Variable touches : bytes -> entry -> bool.
  Hypothesis step_touch :
    forall f g e k, touches k e = true -> step f e k = step g e k.
  Hypothesis step_notouch :
    forall f e k, touches k e = false -> step f e k = f k.
  Variable update : list entry -> kvmap -> kvmap.
  Variable ok : entry -> Prop.
  Hypothesis update_lookup : forall vals m0 k,
    (forall e, In e vals -> ok e) ->
    look k (update vals m0) =
    if existsb (touches k) vals then fold_left step vals fempty k else look k m0.
  Hypothesis update_nodup : forall vals m0,
    NoDup (map fst m0) -> NoDup (map fst (update vals m0)).

  Lemma run_represents hist :
    grows hist ->
    (forall vals e, In vals hist -> In e vals -> ok e) ->
    represents (fold_left (fun m vals => update vals m) hist [])
               (fold_left step (last hist []) fempty).
  Proof.
    induction hist as [|vals hist IH] using rev_ind; intros G Hok.
    - simpl. split; [constructor | intros k; reflexivity].
    - apply grows_app_last in G. destruct G as [G Hincl].
      rewrite fold_left_app. simpl. rewrite last_last.
      assert (Hok' : forall vals0 e, In vals0 hist -> In e vals0 -> ok e).
      { intros vals0 e H1 H2. apply (Hok vals0 e); [|exact H2].
        apply in_or_app. left. exact H1. }
      destruct (IH G Hok') as [ND L].
      split; [apply update_nodup; exact ND|].
      intros k. rewrite update_lookup.
      + destruct (existsb (touches k) vals) eqn:X; [reflexivity|].
        rewrite L.
        rewrite (replay_untouched _ step touches step_touch step_notouch vals k X).
        apply (replay_untouched _ step touches step_touch step_notouch).
        apply (existsb_incl_false _ _ vals); [exact Hincl | exact X].
      + intros e He. apply (Hok vals e); [|exact He].
        apply in_or_app. right. left. reflexivity.
  Qed.
End Run.

(** * Key-value index *)

Lemma kv_step_touch f g e k :
  kv_touches k e = true -> kv_step f e k = kv_step g e k.
Proof.
  unfold kv_touches, kv_step.
  destruct (eop e) as [[k'|] v|[k'|]|v|docs|]; intros H; try discriminate H;
    unfold upd; rewrite H; reflexivity.
Qed.

Lemma kv_step_notouch f e k :
  kv_touches k e = false -> kv_step f e k = f k.
Proof.
  unfold kv_touches, kv_step.
  destruct (eop e) as [[k'|] v|[k'|]|v|docs|]; intros H; try reflexivity;
    unfold upd; rewrite H; reflexivity.
Qed.

Definition kv_replay_dep := replay_dep _ kv_step kv_touches kv_step_touch kv_step_notouch.
Definition kv_replay_split := replay_split _ kv_step kv_touches kv_step_touch kv_step_notouch.

Lemma kv_scan_lookup nf : forall handled m k,
  (forall e, In e nf -> kv_op_ok e = true) ->
  look k (kv_scan nf handled m) =
  if existsb (bytes_eqb k) handled then look k m
  else fold_left kv_step (rev nf) (fun x => look x m) k.
Proof.
  induction nf as [|e rest IH]; intros handled m k Hok.
  - simpl. destruct (existsb (bytes_eqb k) handled); reflexivity.
  - assert (Hok' : forall e', In e' rest -> kv_op_ok e' = true).
    { intros e' He'. apply Hok. right. exact He'. }
    assert (Hoke : kv_op_ok e = true).
    { apply Hok. left. reflexivity. }
    simpl rev. rewrite fold_left_app. simpl fold_left. simpl kv_scan.
    set (F := fold_left kv_step (rev rest) (fun x => look x m)).
    unfold kv_step. unfold kv_op_ok in Hoke.
    destruct (eop e) as [[k'|] v|[k'|]|v|docs|] eqn:Eop.
    + (* PUT k' v *)
      destruct (existsb (bytes_eqb k') handled) eqn:Hk'.
      * rewrite IH by exact Hok'.
        destruct (existsb (bytes_eqb k) handled) eqn:Hk; [reflexivity|].
        unfold upd. destruct (bytes_eqb k k') eqn:Ek; [|reflexivity].
        apply bytes_eqb_spec in Ek. subst k'. rewrite Hk in Hk'. discriminate Hk'.
      * rewrite IH by exact Hok'. simpl existsb. unfold upd.
        destruct (bytes_eqb k k') eqn:Ek; simpl.
        -- apply bytes_eqb_spec in Ek. subst k'. rewrite Hk'. apply look_aset_eq.
        -- destruct (existsb (bytes_eqb k) handled);
             [apply look_aset_neq; exact Ek|].
           apply kv_replay_dep. apply look_aset_neq. exact Ek.
    + (* PUT nil *)
      rewrite IH by exact Hok'. reflexivity.
    + (* DEL k' *)
      destruct (existsb (bytes_eqb k') handled) eqn:Hk'.
      * rewrite IH by exact Hok'.
        destruct (existsb (bytes_eqb k) handled) eqn:Hk; [reflexivity|].
        unfold upd. destruct (bytes_eqb k k') eqn:Ek; [|reflexivity].
        apply bytes_eqb_spec in Ek. subst k'. rewrite Hk in Hk'. discriminate Hk'.
      * rewrite IH by exact Hok'. simpl existsb. unfold upd.
        destruct (bytes_eqb k k') eqn:Ek; simpl.
        -- apply bytes_eqb_spec in Ek. subst k'. rewrite Hk'. apply look_aremove_eq.
        -- destruct (existsb (bytes_eqb k) handled);
             [apply look_aremove_neq; exact Ek|].
           apply kv_replay_dep. apply look_aremove_neq. exact Ek.
    + (* DEL nil *)
      rewrite IH by exact Hok'. reflexivity.
    + (* ADD *)
      rewrite IH by exact Hok'. reflexivity.
    + (* PUTALL: excluded *)
      discriminate Hoke.
    + (* other *)
      rewrite IH by exact Hok'. reflexivity.
Qed.

Lemma kv_scan_nodup nf : forall handled m,
  NoDup (map fst m) -> NoDup (map fst (kv_scan nf handled m)).
Proof.
  induction nf as [|e rest IH]; intros handled m ND; simpl; [exact ND|].
  destruct (eop e) as [[k'|] v|[k'|]|v|docs|].
  - destruct (existsb (bytes_eqb k') handled); apply IH;
      [exact ND | apply aset_nodup; exact ND].
  - apply IH. exact ND.
  - destruct (existsb (bytes_eqb k') handled); apply IH;
      [exact ND | apply aremove_nodup; exact ND].
  - apply IH. exact ND.
  - apply IH. exact ND.
  - destruct (existsb (bytes_eqb []) handled); apply IH; exact ND.
  - apply IH. exact ND.
Qed.

Lemma kv_update_lookup : S_kv_update_lookup.
Proof.
  intros vals m0 k Hok. unfold kv_update.
  rewrite kv_scan_lookup.
  - simpl. rewrite rev_involutive.
    apply (kv_replay_split vals k (fun x => look x m0)).
  - intros e He. apply Hok. apply in_rev. exact He.
Qed.

Lemma kv_run_represents : S_kv_run_represents.
Proof.
  intros hist G Hok.
  apply (run_represents kv_step kv_touches kv_step_touch kv_step_notouch
           kv_update (fun e => kv_op_ok e = true)).
  - intros vals m0 k H. apply kv_update_lookup. exact H.
  - intros vals m0 ND. unfold kv_update. apply kv_scan_nodup. exact ND.
  - exact G.
  - exact Hok.
Qed.

(** * Document index *)

Definition updkv (g : fmap) (kv : bytes * N) : fmap := upd g (fst kv) (Some (snd kv)).
Definition kvtouch (k : bytes) (kv : bytes * N) : bool := bytes_eqb k (fst kv).

Lemma updkv_touch f g kv k : kvtouch k kv = true -> updkv f kv k = updkv g kv k.
Proof. unfold kvtouch, updkv, upd. intros H. rewrite H. reflexivity. Qed.

Lemma updkv_notouch f kv k : kvtouch k kv = false -> updkv f kv k = f k.
Proof. unfold kvtouch, updkv, upd. intros H. rewrite H. reflexivity. Qed.

Definition updkv_split := replay_split _ updkv kvtouch updkv_touch updkv_notouch.

Lemma doc_step_touch f g e k :
  doc_touches k e = true -> doc_step f e k = doc_step g e k.
Proof.
  unfold doc_touches, doc_step.
  destruct (eop e) as [[[|c k']|] v|[[|c k']|]|v|docs|]; intros H; try discriminate H.
  - unfold upd. rewrite H. reflexivity.
  - unfold upd. rewrite H. reflexivity.
  - change (fold_left updkv docs f k = fold_left updkv docs g k).
    change (existsb (kvtouch k) docs = true) in H.
    rewrite (updkv_split docs k f), (updkv_split docs k g), H. reflexivity.
Qed.

Lemma doc_step_notouch f e k :
  doc_touches k e = false -> doc_step f e k = f k.
Proof.
  unfold doc_touches, doc_step.
  destruct (eop e) as [[[|c k']|] v|[[|c k']|]|v|docs|]; intros H; try reflexivity.
  - unfold upd. rewrite H. reflexivity.
  - unfold upd. rewrite H. reflexivity.
  - change (fold_left updkv docs f k = f k).
    change (existsb (kvtouch k) docs = false) in H.
    rewrite (updkv_split docs k f), H. reflexivity.
Qed.

Definition doc_replay_dep := replay_dep _ doc_step doc_touches doc_step_touch doc_step_notouch.
Definition doc_replay_split := replay_split _ doc_step doc_touches doc_step_touch doc_step_notouch.

Lemma look_none_not_in (k : bytes) (docs : list (bytes * N)) :
  ~ In k (map fst docs) -> look k docs = None.
Proof.
  induction docs as [|[k1 v1] ds IH]; simpl; intros H; [reflexivity|].
  destruct (bytes_eqb k k1) eqn:Ek.
  - apply bytes_eqb_spec in Ek. subst k1. exfalso. apply H. left. reflexivity.
  - apply IH. intros Hin. apply H. right. exact Hin.
Qed.

Lemma existsb_look (k : bytes) (docs : list (bytes * N)) :
  existsb (kvtouch k) docs = match look k docs with Some _ => true | None => false end.
Proof.
  induction docs as [|[k1 v1] ds IH]; simpl; [reflexivity|].
  unfold kvtouch at 1. simpl fst.
  destruct (bytes_eqb k k1); simpl; [reflexivity | exact IH].
Qed.

(** With distinct keys the last writer of a batch is its only writer. *)
Lemma fold_updkv_look (docs : list (bytes * N)) : forall f k,
  NoDup (map fst docs) ->
  fold_left updkv docs f k = match look k docs with Some v => Some v | None => f k end.
Proof.
  induction docs as [|[k1 v1] ds IH]; intros f k ND; simpl; [reflexivity|].
  inversion ND as [|x l Hn Hd]; subst.
  rewrite (IH _ k Hd).
  destruct (bytes_eqb k k1) eqn:Ek.
  - apply bytes_eqb_spec in Ek. subst k1.
    rewrite (look_none_not_in k ds Hn).
    unfold updkv, upd. simpl. rewrite beq_refl. reflexivity.
  - destruct (look k ds); [reflexivity|].
    unfold updkv, upd. simpl. rewrite Ek. reflexivity.
Qed.

Lemma doc_putall_spec (docs : list (bytes * N)) : forall handled m h' m',
  doc_putall true docs handled m = (h', m') ->
  forall k,
    existsb (bytes_eqb k) h' =
      existsb (bytes_eqb k) handled || existsb (kvtouch k) docs
    /\ look k m' =
       if existsb (bytes_eqb k) handled then look k m
       else match look k docs with Some v => Some v | None => look k m end.
Proof.
  induction docs as [|[k1 v1] ds IH]; intros handled m h' m' PA k.
  - simpl in PA. inversion PA; subst. simpl. rewrite orb_false_r.
    split; [reflexivity|]. destruct (existsb (bytes_eqb k) h'); reflexivity.
  - simpl in PA. simpl existsb. unfold kvtouch at 1. simpl fst. simpl alookup.
    destruct (existsb (bytes_eqb k1) handled) eqn:Hk1.
    + destruct (IH _ _ _ _ PA k) as [Hh Hm]. rewrite Hh, Hm.
      destruct (bytes_eqb k k1) eqn:Ek.
      * apply bytes_eqb_spec in Ek. subst k1. rewrite Hk1. simpl. split; reflexivity.
      * simpl. split; reflexivity.
    + destruct (IH _ _ _ _ PA k) as [Hh Hm]. rewrite Hh, Hm. simpl existsb.
      destruct (bytes_eqb k k1) eqn:Ek.
      * apply bytes_eqb_spec in Ek. subst k1. rewrite Hk1. simpl.
        split; [reflexivity | apply look_aset_eq].
      * rewrite (look_aset_neq k k1 v1 m Ek). simpl. split; reflexivity.
Qed.

Lemma doc_putall_nodup (b : bool) (docs : list (bytes * N)) : forall handled m,
  NoDup (map fst m) -> NoDup (map fst (snd (doc_putall b docs handled m))).
Proof.
  induction docs as [|[k1 v1] ds IH]; intros handled m ND; simpl; [exact ND|].
  destruct (existsb (bytes_eqb k1) handled); apply IH;
    [exact ND | apply aset_nodup; exact ND].
Qed.

Lemma doc_scan_lookup nf : forall handled m k,
  (forall e, In e nf -> doc_op_ok e) ->
  look k (doc_scan true nf handled m) =
  if existsb (bytes_eqb k) handled then look k m
  else fold_left doc_step (rev nf) (fun x => look x m) k.
Proof.
  induction nf as [|e rest IH]; intros handled m k Hok.
  - simpl. destruct (existsb (bytes_eqb k) handled); reflexivity.
  - assert (Hok' : forall e', In e' rest -> doc_op_ok e').
    { intros e' He'. apply Hok. right. exact He'. }
    assert (Hoke : doc_op_ok e).
    { apply Hok. left. reflexivity. }
    simpl rev. rewrite fold_left_app. simpl fold_left. simpl doc_scan.
    set (F := fold_left doc_step (rev rest) (fun x => look x m)).
    unfold doc_step. unfold doc_op_ok in Hoke.
    destruct (eop e) as [[k'|] v|[k'|]|v|docs|] eqn:Eop.
    + (* PUT k' v *)
      destruct k' as [|c k0]; [rewrite IH by exact Hok'; reflexivity|].
      remember (c :: k0) as k' eqn:Ek'. clear Ek'.
      destruct (existsb (bytes_eqb k') handled) eqn:Hk'.
      * rewrite IH by exact Hok'.
        destruct (existsb (bytes_eqb k) handled) eqn:Hk; [reflexivity|].
        unfold upd. destruct (bytes_eqb k k') eqn:Ek; [|reflexivity].
        apply bytes_eqb_spec in Ek. subst k'. rewrite Hk in Hk'. discriminate Hk'.
      * rewrite IH by exact Hok'. simpl existsb. unfold upd.
        destruct (bytes_eqb k k') eqn:Ek; simpl.
        -- apply bytes_eqb_spec in Ek. subst k'. rewrite Hk'. apply look_aset_eq.
        -- destruct (existsb (bytes_eqb k) handled);
             [apply look_aset_neq; exact Ek|].
           apply doc_replay_dep. apply look_aset_neq. exact Ek.
    + (* PUT nil *)
      rewrite IH by exact Hok'. reflexivity.
    + (* DEL k' *)
      destruct k' as [|c k0]; [rewrite IH by exact Hok'; reflexivity|].
      remember (c :: k0) as k' eqn:Ek'. clear Ek'.
      destruct (existsb (bytes_eqb k') handled) eqn:Hk'.
      * rewrite IH by exact Hok'.
        destruct (existsb (bytes_eqb k) handled) eqn:Hk; [reflexivity|].
        unfold upd. destruct (bytes_eqb k k') eqn:Ek; [|reflexivity].
        apply bytes_eqb_spec in Ek. subst k'. rewrite Hk in Hk'. discriminate Hk'.
      * rewrite IH by exact Hok'. simpl existsb. unfold upd.
        destruct (bytes_eqb k k') eqn:Ek; simpl.
        -- apply bytes_eqb_spec in Ek. subst k'. rewrite Hk'. apply look_aremove_eq.
        -- destruct (existsb (bytes_eqb k) handled);
             [apply look_aremove_neq; exact Ek|].
           apply doc_replay_dep. apply look_aremove_neq. exact Ek.
    + (* DEL nil *)
      rewrite IH by exact Hok'. reflexivity.
    + (* ADD *)
      rewrite IH by exact Hok'. reflexivity.
    + (* PUTALL *)
      destruct (doc_putall true docs handled m) as [h' m'] eqn:PA.
      destruct (doc_putall_spec docs handled m h' m' PA k) as [Hh Hm].
      rewrite IH by exact Hok'. rewrite Hh.
      change (fold_left (fun g kv => upd g (fst kv) (Some (snd kv))) docs F k)
        with (fold_left updkv docs F k).
      rewrite (fold_updkv_look docs F k Hoke).
      rewrite existsb_look.
      destruct (existsb (bytes_eqb k) handled); simpl; [exact Hm|].
      destruct (look k docs) as [v0|]; [exact Hm|].
      apply doc_replay_dep. exact Hm.
    + (* other *)
      rewrite IH by exact Hok'. reflexivity.
Qed.

Lemma doc_scan_nodup (b : bool) nf : forall handled m,
  NoDup (map fst m) -> NoDup (map fst (doc_scan b nf handled m)).
Proof.
  induction nf as [|e rest IH]; intros handled m ND; simpl; [exact ND|].
  destruct (eop e) as [[[|c k']|] v|[[|c k']|]|v|docs|].
  - apply IH. exact ND.
  - destruct (existsb (bytes_eqb (c :: k')) handled); apply IH;
      [exact ND | apply aset_nodup; exact ND].
  - apply IH. exact ND.
  - apply IH. exact ND.
  - destruct (existsb (bytes_eqb (c :: k')) handled); apply IH;
      [exact ND | apply aremove_nodup; exact ND].
  - apply IH. exact ND.
  - apply IH. exact ND.
  - pose proof (doc_putall_nodup b docs handled m ND) as ND'.
    destruct (doc_putall b docs handled m) as [h' m']. simpl in ND'.
    apply IH. exact ND'.
  - apply IH. exact ND.
Qed.

Lemma doc_update_lookup : S_doc_update_lookup.
Proof.
  intros vals m0 k Hok. unfold doc_update.
  rewrite doc_scan_lookup.
  - simpl. rewrite rev_involutive.
    apply (doc_replay_split vals k (fun x => look x m0)).
  - intros e He. apply Hok. apply in_rev. exact He.
Qed.

Lemma doc_run_represents : S_doc_run_represents.
Proof.
  intros hist G Hok.
  apply (run_represents doc_step doc_touches doc_step_touch doc_step_notouch
           (doc_update true) doc_op_ok).
  - intros vals m0 k H. apply doc_update_lookup. exact H.
  - intros vals m0 ND. unfold doc_update. apply doc_scan_nodup. exact ND.
  - exact G.
  - exact Hok.
Qed.

(** * The pinned commit's PUTALL bookkeeping is wrong *)

Definition cx_e1 : entry :=
  mkEntry 1%N 0%N 1 0%N [] [] 0%N 0%N 0%N (OPut (Some [107%N]) 1%N).
Definition cx_e2 : entry :=
  mkEntry 2%N 0%N 2 0%N [1%N] [] 0%N 0%N 0%N (OPutAll [([107%N], 2%N)]).

Lemma doc_refuted_without_marking : S_doc_refuted_without_marking.
Proof.
  exists [[cx_e1; cx_e2]].
  split; [exact I|]. split.
  - intros vals e Hv He.
    destruct Hv as [Hv|[]]. subst vals.
    destruct He as [He|[He|[]]]; subst e; unfold doc_op_ok; simpl.
    + exact I.
    + constructor; [intros [] | constructor].
  - intros [_ H]. specialize (H [107%N]). vm_compute in H. discriminate H.
Qed.

(** * Document queries *)

Lemma doc_get_exact : S_doc_get_exact.
Proof.
  intros ci partial search m k v. unfold doc_get.
  rewrite filter_In. simpl. reflexivity.
Qed.

Lemma is_prefix_spec (p : bytes) : forall s,
  is_prefix p s = true <-> exists post, s = p ++ post.
Proof.
  induction p as [|x p IH]; intros s.
  - simpl. split; [intros _; exists s; reflexivity | intros _; reflexivity].
  - destruct s as [|y s]; simpl.
    + split; [intros H; discriminate H | intros [post H]; discriminate H].
    + rewrite andb_true_iff, N.eqb_eq, IH. split.
      * intros [Hxy [post Hs]]. subst. exists post. reflexivity.
      * intros [post H]. inversion H; subst. split; [reflexivity|].
        exists post. reflexivity.
Qed.

Lemma contains_spec : S_contains_spec.
Proof.
  intros s sub. induction s as [|x s IH].
  - simpl. rewrite orb_false_r, is_prefix_spec. split.
    + intros [post H]. exists [], post. exact H.
    + intros [pre [post H]]. symmetry in H.
      apply app_eq_nil in H. destruct H as [_ H].
      apply app_eq_nil in H. destruct H as [H1 H2]. subst.
      exists []. reflexivity.
  - simpl. rewrite orb_true_iff, is_prefix_spec, IH. split.
    + intros [[post H]|[pre [post H]]].
      * exists [], post. exact H.
      * exists (x :: pre), post. simpl. rewrite H. reflexivity.
    + intros [[|y pre] [post H]].
      * left. exists post. exact H.
      * right. simpl in H. inversion H; subst. exists pre, post. reflexivity.
Qed.

Print Assumptions kv_update_lookup.
Print Assumptions kv_run_represents.
Print Assumptions doc_update_lookup.
Print Assumptions doc_run_represents.
Print Assumptions doc_refuted_without_marking.
Print Assumptions doc_get_exact.
Print Assumptions contains_spec.

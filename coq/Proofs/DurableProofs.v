(** Proofs of the section "Durability (C05)" of [Spec/Statements.v]. *)
From Orbit Require Import Spec.Statements.
From Orbit Require Proofs.TraverseProofs.
From Orbit Require Import Proofs.JoinProofs.
From Orbit Require Proofs.GlobalProofs.
From Orbit Require Proofs.JoinMultiProofs.

(** * The three refutations: concrete runs *)

Definition w_entry : entry := mkEntry 1 0 1 1 [] [] 1 1 1 OOther.

Lemma nc_single_w : next_closed [w_entry].
Proof.
  intros e c [He|[]] Hc. subst e. destruct Hc.
Qed.

Lemma durable_refuted_ack_first : S_durable_refuted_ack_first.
Proof.
  exists false, false, (fun _ => true), 1%nat, 0%N, 0%nat.
  eexists. eexists. exists 2%nat. split.
  - eapply (gtrace_step false true false false (fun _ => true) any_okop 1 0%N 0 _ _
                        (GWrite 0 1 [] OOther)).
    + apply gtrace_init.
    + split; [intros [] | exact I].
    + intros rs' H. vm_compute in H. injection H as H. subst rs'. exact nc_single_w.
  - exists 1%N. split.
    + vm_compute. left. reflexivity.
    + vm_compute. intros [].
Qed.

Lemma durable_refuted_repl_first : S_durable_refuted_repl_first.
Proof.
  exists false, false, (fun _ => true), 2%nat, 0%N, 1%nat.
  eexists. eexists. exists 2%nat. split.
  - eapply (gtrace_step true false false false (fun _ => true) any_okop 2 0%N 1 _ _
                        (GMerge 1 [w_entry])).
    + eapply (gtrace_step true false false false (fun _ => true) any_okop 2 0%N 1 _ _
                          (GWrite 0 1 [] OOther)).
      * apply gtrace_init.
      * split; [intros [] | exact I].
      * intros rs' H. vm_compute in H. injection H as H. subst rs'.
        intros e c [].
    + vm_compute. intros x [Hx|[]]. left. exact Hx.
    + intros rs' H. vm_compute in H. injection H as H. subst rs'. exact nc_single_w.
  - exists 1%N. split.
    + vm_compute. left. reflexivity.
    + vm_compute. intros [].
Qed.

Lemma durable_refuted_local_only : S_durable_refuted_local_only.
Proof.
  exists false, false, (fun _ => true), 2%nat, 0%N, 1%nat.
  eexists. eexists. exists 3%nat. split.
  - eapply (gtrace_step true true false false (fun _ => true) any_okop 2 0%N 1 _ _
                        (GMerge 1 [w_entry])).
    + eapply (gtrace_step true true false false (fun _ => true) any_okop 2 0%N 1 _ _
                          (GWrite 0 1 [] OOther)).
      * apply gtrace_init.
      * split; [intros [] | exact I].
      * intros rs' H. vm_compute in H. injection H as H. subst rs'.
        intros e c [].
    + vm_compute. intros x [Hx|[]]. left. exact Hx.
    + intros rs' H. vm_compute in H. injection H as H. subst rs'. exact nc_single_w.
  - exists 1%N. split.
    + vm_compute. left. reflexivity.
    + vm_compute. intros [].
Qed.

(** * Small list facts *)

Lemma has_entry_app_l h a b : has_entry h a = true -> has_entry h (a ++ b) = true.
Proof.
  intros H. apply has_entry_In. apply has_entry_In in H.
  unfold hashes in *. rewrite map_app. apply in_or_app. left. exact H.
Qed.

Lemma has_entry_app_last e a : has_entry (eh e) (a ++ [e]) = true.
Proof.
  apply has_entry_In. unfold hashes. rewrite map_app. apply in_or_app. right. left. reflexivity.
Qed.

Lemma hashes_app a b : hashes (a ++ b) = hashes a ++ hashes b.
Proof. unfold hashes. apply map_app. Qed.

Lemma same_hash_eq U a b x y :
  WF U -> incl a U -> incl b U -> In x a -> In y b -> eh x = eh y -> x = y.
Proof.
  intros HWF Ha Hb Hx Hy E. apply (wf_hash U HWF); [apply Ha; exact Hx | apply Hb; exact Hy | exact E].
Qed.

(** membership by hash inside a well-formed universe *)
Lemma in_by_hash U a b x :
  WF U -> incl a U -> incl b U -> In x a -> In (eh x) (hashes b) -> In x b.
Proof.
  intros HWF Ha Hb Hx Hh. apply In_hashes in Hh. destruct Hh as [y [Hy1 Hy2]].
  assert (E : y = x) by (apply (same_hash_eq U b a); assumption).
  subst y. exact Hy1.
Qed.

(** * Reachability *)

Lemma reach_mono ents ents' roots x :
  incl ents ents' -> reach ents roots x -> reach ents' roots x.
Proof.
  intros Hi H. induction H as [e Hr | e m Hre IH Hn Hm].
  - apply reach_root. exact Hr.
  - apply (reach_next _ _ e m); [exact IH | exact Hn | apply Hi; exact Hm].
Qed.

Lemma reach_single ents roots x :
  reach ents roots x -> exists y, In y roots /\ reach ents [y] x.
Proof.
  intros H. induction H as [e Hr | e m Hre IH Hn Hm].
  - exists e. split; [exact Hr|]. apply reach_root. left. reflexivity.
  - destruct IH as [y [Hy1 Hy2]]. exists y. split; [exact Hy1|].
    apply (reach_next _ _ e m); assumption.
Qed.

(** * Specification of [ancestry] on an ancestry-closed subset of the blocks *)

Section Anc.
  Variable U blocks C : list entry.
  Hypothesis HWF : WF U.
  Hypothesis HbU : incl blocks U.
  Hypothesis HCb : incl C blocks.
  Hypothesis HCcl : next_closed C.

  Lemma HCU : incl C U.
  Proof. intros x Hx. apply HbU. apply HCb. exact Hx. Qed.

  Lemma find_C h : In h (hashes C) -> exists z, In z C /\ eh z = h /\ find_entry h blocks = Some z.
  Proof.
    intros Hh. apply In_hashes in Hh. destruct Hh as [z [Hz1 Hz2]].
    exists z. split; [exact Hz1|]. split; [exact Hz2|].
    subst h. apply (TraverseProofs.find_entry_U U); [exact HWF | exact HbU | apply HCb; exact Hz1].
  Qed.

  (** weight of the blocks not yet collected *)
  Definition wrem (bl got : list entry) : nat :=
    length (all_nexts (filter (fun b => negb (has_entry (eh b) got)) bl)).

  Lemma wrem_step got e : has_entry (eh e) got = false -> forall bl,
    (wrem bl (got ++ [e]) <= wrem bl got)%nat /\
    (In e bl -> (wrem bl (got ++ [e]) + length (enext e) <= wrem bl got)%nat).
  Proof.
    intros He. induction bl as [|b bl IH].
    - split; [apply Nat.le_refl | intros []].
    - destruct IH as [IH1 IH2]. unfold wrem in *. cbn [filter].
      destruct (has_entry (eh b) got) eqn:Hb.
      + rewrite (has_entry_app_l _ _ [e] Hb). cbn [negb].
        split; [exact IH1|]. intros [E|Hin].
        * subst b. rewrite Hb in He. discriminate He.
        * apply IH2. exact Hin.
      + cbn [negb].
        destruct (has_entry (eh b) (got ++ [e])) eqn:Hb'; cbn [negb].
        * unfold all_nexts in *. cbn [flat_map]. rewrite app_length.
          split; [lia|]. intros [E|Hin].
          -- subst b. lia.
          -- specialize (IH2 Hin). lia.
        * unfold all_nexts in *. cbn [flat_map]. rewrite !app_length.
          split; [lia|]. intros [E|Hin].
          -- subst b. rewrite has_entry_app_last in Hb'. discriminate Hb'.
          -- specialize (IH2 Hin). lia.
  Qed.

  Lemma wrem_nil bl : (wrem bl [] <= length (all_nexts bl))%nat.
  Proof.
    unfold wrem. induction bl as [|b bl IH]; [apply Nat.le_refl|].
    unfold all_nexts in *. simpl in *. rewrite !app_length. lia.
  Qed.

  Record AI (hd : N) (todo : list N) (got : list entry) : Prop := {
    ai_C    : incl got C;
    ai_nd   : NoDup (hashes got);
    ai_todo : forall c, In c todo -> In c (hashes C);
    ai_pend : forall e c, In e got -> In c (enext e) -> In c (hashes got) \/ In c todo;
    ai_hd   : In hd (hashes got) \/ In hd todo
  }.

  Lemma anc_inv hd : forall fuel todo got,
    AI hd todo got -> (length todo + wrem blocks got < fuel)%nat ->
    AI hd [] (anc fuel blocks todo got).
  Proof.
    induction fuel as [|f IH]; intros todo got HI Hfuel; [lia|].
    destruct todo as [|h rest]; [exact HI|].
    cbn [anc].
    destruct HI as [J1 J2 J3 J4 J5].
    destruct (has_entry h got) eqn:Hg.
    - apply IH.
      + constructor; try assumption.
        * intros c Hc. apply J3. right. exact Hc.
        * intros e c He Hc. destruct (J4 e c He Hc) as [Q|[Q|Q]].
          -- left. exact Q.
          -- subst c. left. apply has_entry_In. exact Hg.
          -- right. exact Q.
        * destruct J5 as [Q|[Q|Q]].
          -- left. exact Q.
          -- subst hd. left. apply has_entry_In. exact Hg.
          -- right. exact Q.
      + simpl in Hfuel. lia.
    - destruct (find_C h) as [z [Hz1 [Hz2 Hz3]]]; [apply J3; left; reflexivity|].
      rewrite Hz3.
      assert (Hgz : has_entry (eh z) got = false) by (rewrite Hz2; exact Hg).
      assert (Hin : forall c, In c (hashes got) -> In c (hashes (got ++ [z]))).
      { intros c Hc. rewrite hashes_app. apply in_or_app. left. exact Hc. }
      assert (Hself : In h (hashes (got ++ [z]))).
      { rewrite hashes_app. apply in_or_app. right. left. exact Hz2. }
      apply IH.
      + constructor.
        * intros x Hx. apply in_app_or in Hx. destruct Hx as [Hx|[Hx|[]]].
          -- apply J1. exact Hx.
          -- subst x. exact Hz1.
        * rewrite <- (oset_fresh z got Hgz). apply oset_nodup. exact J2.
        * intros c Hc. apply in_app_or in Hc. destruct Hc as [Hc|Hc].
          -- apply (HCcl z c); assumption.
          -- apply J3. right. exact Hc.
        * intros e c He Hc. apply in_app_or in He. destruct He as [He|[He|[]]].
          -- destruct (J4 e c He Hc) as [Q|[Q|Q]].
             ++ left. apply Hin. exact Q.
             ++ subst c. left. exact Hself.
             ++ right. apply in_or_app. right. exact Q.
          -- subst e. right. apply in_or_app. left. exact Hc.
        * destruct J5 as [Q|[Q|Q]].
          -- left. apply Hin. exact Q.
          -- subst hd. left. exact Hself.
          -- right. apply in_or_app. right. exact Q.
      + destruct (wrem_step got z Hgz blocks) as [_ W].
        specialize (W (HCb z Hz1)).
        rewrite app_length. simpl in Hfuel. lia.
  Qed.

  Lemma ancestry_spec hd :
    In hd (hashes C) ->
    incl (ancestry blocks [hd]) C /\
    NoDup (hashes (ancestry blocks [hd])) /\
    (forall e c, In e (ancestry blocks [hd]) -> In c (enext e) -> In c (hashes (ancestry blocks [hd]))) /\
    In hd (hashes (ancestry blocks [hd])).
  Proof.
    intros Hhd. unfold ancestry.
    assert (HI : AI hd [] (anc (length [hd] + length (all_nexts blocks) + 1) blocks [hd] [])).
    { apply anc_inv.
      - constructor.
        + intros x [].
        + constructor.
        + intros c [Hc|[]]. subst c. exact Hhd.
        + intros e c [].
        + right. left. reflexivity.
      - pose proof (wrem_nil blocks) as W. simpl. simpl in W. lia. }
    destruct HI as [J1 J2 J3 J4 J5].
    split; [exact J1|]. split; [exact J2|]. split.
    - intros e c He Hc. destruct (J4 e c He Hc) as [Q|[]]. exact Q.
    - destruct J5 as [Q|[]]. exact Q.
  Qed.

  Lemma ancestry_complete y x :
    In y C -> reach C [y] x -> In x (ancestry blocks [eh y]).
  Proof.
    intros Hy Hr.
    destruct (ancestry_spec (eh y)) as [A1 [A2 [A3 A4]]]; [apply In_hashes_intro; exact Hy|].
    induction Hr as [e Hroot | e m Hre IH Hn Hm].
    - destruct Hroot as [E|[]]. subst e.
      apply (in_by_hash U C _ y HWF HCU); [|exact Hy|exact A4].
      intros z Hz. apply HCU. apply A1. exact Hz.
    - apply (in_by_hash U C _ m HWF HCU); [|exact Hm|].
      + intros z Hz. apply HCU. apply A1. exact Hz.
      + apply (A3 e (eh m)); assumption.
  Qed.
End Anc.

(** * [load_head] and the recovery fold *)

Section Load.
  Variable U blocks : list entry.
  Variable lk : log.
  Variable acc : entry -> bool.
  Variable dbid : N.
  Hypothesis HWF : WF U.
  Hypothesis HbU : incl blocks U.
  Hypothesis Hkb : incl (lents lk) blocks.
  Hypothesis Hkcl : next_closed (lents lk).
  Hypothesis HUacc : forall e, In e U -> elog e = dbid /\ acc e = true.

  Lemma HkU : incl (lents lk) U.
  Proof. intros x Hx. apply HbU. apply Hkb. exact Hx. Qed.

  (** what the fold maintains about the log loaded so far *)
  Definition lgood (l : log) : Prop :=
    log_ok U l /\ lid l = dbid /\ next_closed (lents l) /\ incl (lents l) (lents lk).

  Lemma load_head_spec lcur hd :
    lgood lcur -> In hd (hashes (lents lk)) ->
    lgood (load_head acc blocks lcur hd) /\
    incl (lents lcur) (lents (load_head acc blocks lcur hd)) /\
    (forall y x, In y (lents lk) -> eh y = hd -> reach (lents lk) [y] x ->
                 In x (lents (load_head acc blocks lcur hd))).
  Proof.
    intros [Hok [Hid [Hcl Hsub]]] Hhd.
    destruct (ancestry_spec U blocks (lents lk) HWF HbU Hkb Hkcl hd Hhd) as [A1 [A2 [A3 A4]]].
    unfold load_head. cbv zeta.
    set (a := ancestry blocks [hd]) in *.
    set (es := filter (fun e => negb (has_entry (eh e) (lents lcur))) a).
    assert (HcurU : incl (lents lcur) U) by (apply (ok_incl U lcur Hok)).
    assert (HaU : incl a U).
    { intros x Hx. apply HkU. apply A1. exact Hx. }
    assert (Hes_a : forall x, In x es -> In x a).
    { intros x Hx. unfold es in Hx. apply filter_In in Hx. destruct Hx as [Hx _]. exact Hx. }
    assert (Hes_in : forall x, In x a -> In x (lents lcur) \/ In x es).
    { intros x Hx. destruct (has_entry (eh x) (lents lcur)) eqn:E.
      - left. apply has_entry_In in E. apply (in_by_hash U a _ x HWF HaU HcurU Hx E).
      - right. unfold es. apply filter_In. split; [exact Hx|]. rewrite E. reflexivity. }
    destruct (JoinMultiProofs.join_multi U lcur es acc HWF Hok Hcl) as [l' [HJ [Hok' [Hid' [Hs Hcl']]]]].
    - intros x Hx. apply HaU. apply Hes_a. exact Hx.
    - unfold es, hashes. apply NoDup_map_filter. exact A2.
    - intros e c He Hc. rewrite hashes_app. apply in_app_or in He. destruct He as [He|He].
      + assert (Hca : In c (hashes a)) by (apply (A3 e c); [apply Hes_a; exact He | exact Hc]).
        apply In_hashes in Hca. destruct Hca as [z [Hz1 Hz2]]. subst c.
        apply in_or_app. destruct (Hes_in z Hz1) as [Q|Q]; [right | left]; apply In_hashes_intro; exact Q.
      + apply in_or_app. right. apply (Hcl e c); assumption.
    - intros e He. rewrite Hid. apply HUacc. apply HaU. apply Hes_a. exact He.
    - rewrite HJ.
      assert (Hin' : forall x, In x (lents l') <-> In x (lents lcur) \/ In x es).
      { intros x. rewrite (Hs x). apply in_app_iff. }
      split; [|split].
      + split; [exact Hok'|]. split; [rewrite Hid'; exact Hid|]. split; [exact Hcl'|].
        intros x Hx. apply Hin' in Hx. destruct Hx as [Hx|Hx].
        * apply Hsub. exact Hx.
        * apply A1. apply Hes_a. exact Hx.
      + intros x Hx. apply Hin'. left. exact Hx.
      + intros y x Hy Ehy Hr. apply Hin'. apply Hes_in. subst hd.
        apply (ancestry_complete U blocks (lents lk) HWF HbU Hkb Hkcl y x Hy Hr).
  Qed.

  Lemma load_fold_spec : forall hds lcur,
    lgood lcur -> (forall hd, In hd hds -> In hd (hashes (lents lk))) ->
    lgood (fold_left (load_head acc blocks) hds lcur) /\
    incl (lents lcur) (lents (fold_left (load_head acc blocks) hds lcur)) /\
    (forall hd y x, In hd hds -> In y (lents lk) -> eh y = hd -> reach (lents lk) [y] x ->
                    In x (lents (fold_left (load_head acc blocks) hds lcur))).
  Proof.
    induction hds as [|hd hds IH]; intros lcur Hg Hh.
    - simpl. split; [exact Hg|]. split; [intros x Hx; exact Hx|]. intros hd y x [].
    - cbn [fold_left].
      destruct (load_head_spec lcur hd Hg) as [G1 [G2 G3]]; [apply Hh; left; reflexivity|].
      destruct (IH (load_head acc blocks lcur hd) G1) as [F1 [F2 F3]].
      { intros h Hin. apply Hh. right. exact Hin. }
      split; [exact F1|]. split.
      + intros x Hx. apply F2. apply G2. exact Hx.
      + intros h y x [E|Hin] Hy Ehy Hr.
        * subst h. apply F2. apply (G3 y x Hy Ehy Hr).
        * apply (F3 h y x Hin Hy Ehy Hr).
  Qed.
End Load.

(** * The per-crash-point invariant *)

Definition cached (d : disk) : list N := d_local d ++ d_remote d.

Section DiskInv.
  Variable dbid : N.

  (** [lk] is the replica's log at the last cache write before the crash point *)
  Record Rk (U : list entry) (lk : log) (d : disk) (A : list N) : Prop := {
    rk_ok     : log_ok U lk;
    rk_id     : lid lk = dbid;
    rk_cl     : next_closed (lents lk);
    rk_heads  : forall h, In h (cached d) -> In h (hashes (lents lk));
    rk_blocks : incl (lents lk) (d_blocks d);
    rk_reach  : forall x, In x (lents lk) ->
                  exists y, In y (lents lk) /\ In (eh y) (cached d) /\ reach (lents lk) [y] x;
    rk_acked  : forall h, In h A -> In h (hashes (lents lk));
    rk_bU     : incl (d_blocks d) U
  }.

  Lemma Rk_mono U U' lk d A : incl U U' -> Rk U lk d A -> Rk U' lk d A.
  Proof.
    intros Hi [R1 R2 R3 R4 R5 R6 R7 R8]. constructor; try assumption.
    - apply (GlobalProofs.log_ok_mono U); assumption.
    - intros x Hx. apply Hi. apply R8. exact Hx.
  Qed.

  Lemma block_incl d x : incl (d_blocks d) (d_blocks (apply_eff d (EBlock x))).
  Proof.
    cbn [apply_eff d_blocks]. destruct (has_entry (eh x) (d_blocks d)).
    - intros y Hy. exact Hy.
    - intros y Hy. apply in_or_app. left. exact Hy.
  Qed.

  Lemma block_U U d x : incl (d_blocks d) U -> In x U -> incl (d_blocks (apply_eff d (EBlock x))) U.
  Proof.
    intros Hb Hx. cbn [apply_eff d_blocks]. destruct (has_entry (eh x) (d_blocks d)); [exact Hb|].
    intros y Hy. apply in_app_or in Hy. destruct Hy as [Hy|[Hy|[]]]; [apply Hb; exact Hy | subst y; exact Hx].
  Qed.

  Lemma block_in U d x :
    WF U -> incl (d_blocks d) U -> In x U -> In x (d_blocks (apply_eff d (EBlock x))).
  Proof.
    intros HWF Hb Hx. cbn [apply_eff d_blocks]. destruct (has_entry (eh x) (d_blocks d)) eqn:E.
    - apply has_entry_In in E. apply (in_by_hash U [x] _ x HWF); try assumption.
      + intros y [Hy|[]]. subst y. exact Hx.
      + left. reflexivity.
    - apply in_or_app. right. left. reflexivity.
  Qed.

  Lemma Rk_block U lk d A x : Rk U lk d A -> In x U -> Rk U lk (apply_eff d (EBlock x)) A.
  Proof.
    intros [R1 R2 R3 R4 R5 R6 R7 R8] Hx. constructor; try assumption.
    - intros y Hy. apply block_incl. apply R5. exact Hy.
    - apply block_U; assumption.
  Qed.

  Lemma Rk_ack U lk d A hs :
    Rk U lk d A -> (forall h, In h hs -> In h (hashes (lents lk))) -> Rk U lk d (A ++ hs).
  Proof.
    intros [R1 R2 R3 R4 R5 R6 R7 R8] Hh. constructor; try assumption.
    intros h Hin. apply in_app_or in Hin. destruct Hin as [Hin|Hin]; [apply R7 | apply Hh]; exact Hin.
  Qed.

  (** a cache write made when the log is [l'] *)
  Lemma Rk_recache U lk d A l' d' :
    Rk U lk d A -> log_ok U l' -> lid l' = dbid -> next_closed (lents l') ->
    incl (lents lk) (lents l') -> d_blocks d' = d_blocks d -> incl (lents l') (d_blocks d) ->
    (forall h, In h (cached d') -> In h (cached d) \/ In h (hashes (lents l'))) ->
    (forall x, In x (lents l') ->
       exists y, In y (lents l') /\ In (eh y) (cached d') /\ reach (lents l') [y] x) ->
    Rk U l' d' A.
  Proof.
    intros [R1 R2 R3 R4 R5 R6 R7 R8] Hok Hid Hcl Hsub Hb Hlb Hc Hr.
    assert (Hh : forall h, In h (hashes (lents lk)) -> In h (hashes (lents l'))).
    { intros h Hh. apply In_hashes in Hh. destruct Hh as [z [Hz1 Hz2]].
      subst h. apply In_hashes_intro. apply Hsub. exact Hz1. }
    constructor; try assumption.
    - intros h Hin. destruct (Hc h Hin) as [Q|Q]; [|exact Q]. apply Hh. apply R4. exact Q.
    - rewrite Hb. exact Hlb.
    - intros h Hin. apply Hh. apply R7. exact Hin.
    - rewrite Hb. exact R8.
  Qed.

  (** the recovered log holds exactly the entries of [lk] *)
  Lemma recover_spec U lk d A acc :
    WF U -> (forall e, In e U -> elog e = dbid /\ acc e = true) ->
    Rk U lk d A ->
    log_ok U (recover true dbid acc d) /\ next_closed (lents (recover true dbid acc d)) /\
    same_set (lents (recover true dbid acc d)) (lents lk).
  Proof.
    intros HWF HUacc [R1 R2 R3 R4 R5 R6 R7 R8].
    unfold recover. fold (cached d).
    assert (G0 : lgood U lk dbid (empty_log dbid)).
    { split; [|split; [reflexivity|split]].
      - apply (GlobalProofs.log_ok_mono []); [apply GlobalProofs.log_ok_empty | intros x []].
      - intros e c [].
      - intros x []. }
    destruct (load_fold_spec U (d_blocks d) lk acc dbid HWF R8 R5 R3 HUacc (cached d) (empty_log dbid) G0 R4)
      as [[F1 [F2 [F3 F4]]] [_ F5]].
    split; [exact F1|]. split; [exact F3|].
    intros x. split; [apply F4|].
    intros Hx. destruct (R6 x Hx) as [y [Hy1 [Hy2 Hy3]]].
    apply (F5 (eh y) y x Hy2 Hy1 eq_refl Hy3).
  Qed.
End DiskInv.

(** * Prefixes of effect traces *)

Definition disk_of (p : list eff) : disk := fold_left apply_eff p disk0.
Definition prefix {A} (p l : list A) : Prop := exists s, l = p ++ s.

Lemma disk_of_app p q : disk_of (p ++ q) = fold_left apply_eff q (disk_of p).
Proof. unfold disk_of. apply fold_left_app. Qed.

Lemma acked_app p q : acked (p ++ q) = acked p ++ acked q.
Proof. unfold acked. apply flat_map_app. Qed.

Lemma prefix_firstn {A} k (l : list A) : prefix (firstn k l) l.
Proof. exists (skipn k l). symmetry. apply firstn_skipn. Qed.

Lemma prefix_nil {A} (p : list A) : prefix p [] -> p = [].
Proof. intros [s E]. destruct p as [|a p]; [reflexivity | discriminate E]. Qed.

Lemma prefix_cons_inv {A} (p : list A) x l :
  prefix p (x :: l) -> p = [] \/ exists p', p = x :: p' /\ prefix p' l.
Proof.
  intros [s E]. destruct p as [|a p]; [left; reflexivity|]. right.
  simpl in E. injection E as E1 E2. subst a. exists p. split; [reflexivity | exists s; exact E2].
Qed.

Lemma prefix_app_cases {A} (a b : list A) : forall p,
  prefix p (a ++ b) -> prefix p a \/ exists q, p = a ++ q /\ prefix q b.
Proof.
  induction a as [|x a IH]; intros p H.
  - right. exists p. split; [reflexivity | exact H].
  - simpl in H. apply prefix_cons_inv in H. destruct H as [E|[p' [E H]]].
    + left. subst p. exists (x :: a). reflexivity.
    + destruct (IH p' H) as [[s Es]|[q [Eq Hq]]].
      * left. exists s. subst p. simpl. rewrite Es. reflexivity.
      * right. exists q. subst p p'. split; [reflexivity | exact Hq].
Qed.

Lemma prefix_map {A B} (f : A -> B) : forall l q,
  prefix q (map f l) -> exists l1, q = map f l1 /\ incl l1 l.
Proof.
  induction l as [|a l IH]; intros q H.
  - apply prefix_nil in H. subst q. exists []. split; [reflexivity | intros x []].
  - simpl in H. apply prefix_cons_inv in H. destruct H as [E|[p' [E H]]].
    + subst q. exists []. split; [reflexivity | intros x []].
    + destruct (IH p' H) as [l1 [E1 I1]]. exists (a :: l1). split.
      * subst q p'. reflexivity.
      * intros x [Hx|Hx]; [left; exact Hx | right; apply I1; exact Hx].
Qed.

Lemma acked_blocks b1 : acked (map EBlock b1) = [].
Proof. induction b1 as [|x b1 IH]; [reflexivity | exact IH]. Qed.

Lemma blocks_fold U : WF U -> forall b1 d, incl (d_blocks d) U -> incl b1 U ->
  incl (d_blocks d) (d_blocks (fold_left apply_eff (map EBlock b1) d)) /\
  incl b1 (d_blocks (fold_left apply_eff (map EBlock b1) d)) /\
  d_local (fold_left apply_eff (map EBlock b1) d) = d_local d /\
  d_remote (fold_left apply_eff (map EBlock b1) d) = d_remote d.
Proof.
  intros HWF. induction b1 as [|x b1 IH]; intros d Hb Hi; cbn [map fold_left].
  - split; [intros y Hy; exact Hy|]. split; [intros y []|]. split; reflexivity.
  - assert (HxU : In x U) by (apply Hi; left; reflexivity).
    destruct (IH (apply_eff d (EBlock x))) as [I1 [I2 [I3 I4]]].
    + apply block_U; assumption.
    + intros y Hy. apply Hi. right. exact Hy.
    + split; [intros y Hy; apply I1; apply block_incl; exact Hy|].
      split; [|split; [exact I3 | exact I4]].
      intros y [Hy|Hy]; [|apply I2; exact Hy].
      subst y. apply I1. apply (block_in U); assumption.
Qed.

Lemma Rk_blocks dbid U lk A : forall b1 d,
  Rk dbid U lk d A -> incl b1 U -> Rk dbid U lk (fold_left apply_eff (map EBlock b1) d) A.
Proof.
  induction b1 as [|x b1 IH]; intros d HR Hi; cbn [map fold_left]; [exact HR|].
  apply IH.
  - apply Rk_block; [exact HR | apply Hi; left; reflexivity].
  - intros y Hy. apply Hi. right. exact Hy.
Qed.

(** * What a merge does to the entry set *)

Lemma merge_batch_spec cont acc U batch : forall l,
  WF U -> log_ok U l ->
  (forall x, In x U -> elog x = lid l /\ acc x = true) ->
  incl batch U ->
  exists l', merge_batch cont acc l batch = (l', true) /\
             log_ok U l' /\ lid l' = lid l /\ incl (lents l) (lents l') /\
             incl batch (lents l') /\
             (forall x, In x (lents l') -> In x (lents l) \/ In x batch).
Proof.
  induction batch as [|x rest IH]; intros l HWF Hok HU Hb.
  - exists l. simpl. split; [reflexivity|]. split; [exact Hok|]. split; [reflexivity|].
    split; [intros y Hy; exact Hy|]. split; [intros y []|]. intros y Hy. left. exact Hy.
  - assert (HxU : In x U) by (apply Hb; left; reflexivity).
    destruct (HU x HxU) as [Hxl Hxa].
    pose proof (join_single_spec U l x acc HWF Hok HxU Hxl) as J.
    cbn [merge_batch].
    destruct (join l (log_of_entries (lid l) [x]) (-1) acc) as [l1|er|p] eqn:EJ.
    + destruct J as [Hok1 [Hid1 Hcase]].
      assert (Hincl1 : incl (lents l) (lents l1)).
      { destruct Hcase as [[_ E]|[_ [_ E]]]; rewrite E.
        - intros y Hy. exact Hy.
        - intros y Hy. apply in_or_app. left. exact Hy. }
      assert (Hx1 : In x (lents l1)).
      { destruct Hcase as [[Hh E]|[_ [_ E]]]; rewrite E.
        - apply has_entry_In in Hh. apply (in_by_hash U [x] _ x HWF).
          + intros y [Hy|[]]. subst y. exact HxU.
          + apply (ok_incl U l Hok).
          + left. reflexivity.
          + exact Hh.
        - apply in_or_app. right. left. reflexivity. }
      assert (Hback : forall y, In y (lents l1) -> In y (lents l) \/ y = x).
      { destruct Hcase as [[_ E]|[_ [_ E]]]; rewrite E; intros y Hy.
        - left. exact Hy.
        - apply in_app_or in Hy. destruct Hy as [Hy|[Hy|[]]]; [left; exact Hy | right; symmetry; exact Hy]. }
      destruct (IH l1 HWF Hok1) as [l' [Hm [Hok' [Hid' [Hincl' [Hbat' Hback']]]]]].
      * intros y Hy. rewrite Hid1. apply HU. exact Hy.
      * intros y Hy. apply Hb. right. exact Hy.
      * exists l'. split; [exact Hm|]. split; [exact Hok'|].
        split; [rewrite Hid'; exact Hid1|].
        split; [intros y Hy; apply Hincl'; apply Hincl1; exact Hy|].
        split.
        -- intros y [Hy|Hy]; [subst y; apply Hincl'; exact Hx1 | apply Hbat'; exact Hy].
        -- intros y Hy. destruct (Hback' y Hy) as [Q|Q].
           ++ destruct (Hback y Q) as [Q'|Q']; [left; exact Q' | right; left; symmetry; exact Q'].
           ++ right. right. exact Q.
    + destruct J as [_ J]. rewrite Hxa in J. discriminate J.
    + destruct J.
Qed.

(** * The trace invariant *)

Section Trace.
  Variable marks cont : bool.
  Variable acc : entry -> bool.
  Variable okop : op -> Prop.
  Variable n : nat.
  Variable dbid : N.
  Variable r : nat.

  Notation GT := (gtrace true true marks cont acc okop n dbid r).
  Notation run := (gstep_run marks cont acc).

  Lemma gtrace_greach g effs : GT g effs -> greach marks cont acc okop n dbid g.
  Proof.
    intros H. induction H as [|g effs s H IH Hadm Hcl].
    - apply greach_init.
    - apply greach_step; assumption.
  Qed.

  Definition dinv (g : gstate) (effs : list eff) : Prop :=
    (forall p, prefix p effs -> exists lk, Rk dbid (guniv g) lk (disk_of p) (acked p)) /\
    exists lk, Rk dbid (guniv g) lk (disk_of effs) (acked effs) /\
      forall rs, nth_error (greps g) r = Some rs ->
        incl (lents lk) (lents (rlog rs)) /\ incl (lents (rlog rs)) (d_blocks (disk_of effs)).

  Lemma dinv_init : dinv (mkG [] (repeat (mkR (empty_log dbid) [] []) n)) [].
  Proof.
    assert (R : Rk dbid [] (empty_log dbid) disk0 []).
    { constructor; cbn.
      - apply GlobalProofs.log_ok_empty.
      - reflexivity.
      - intros e c [].
      - intros h [].
      - intros x [].
      - intros x [].
      - intros h [].
      - intros x []. }
    split.
    - intros p Hp. apply prefix_nil in Hp. subst p. exists (empty_log dbid). exact R.
    - exists (empty_log dbid). split; [exact R|].
      intros rs Hrs. cbn [greps] in Hrs. apply nth_error_In in Hrs. apply repeat_spec in Hrs.
      subst rs. cbn. split; intros x [].
  Qed.

  Lemma dinv_extend g g' effs new :
    dinv g effs -> incl (guniv g) (guniv g') ->
    (forall q, prefix q new ->
       exists lk, Rk dbid (guniv g') lk (disk_of (effs ++ q)) (acked (effs ++ q))) ->
    (exists lk, Rk dbid (guniv g') lk (disk_of (effs ++ new)) (acked (effs ++ new)) /\
       forall rs, nth_error (greps g') r = Some rs ->
         incl (lents lk) (lents (rlog rs)) /\
         incl (lents (rlog rs)) (d_blocks (disk_of (effs ++ new)))) ->
    dinv g' (effs ++ new).
  Proof.
    intros [Hpre _] HU Hnew Hfull. split; [|exact Hfull].
    intros p Hp. apply prefix_app_cases in Hp. destruct Hp as [Hp|[q [E Hq]]].
    - destruct (Hpre p Hp) as [lk R]. exists lk. apply (Rk_mono dbid (guniv g)); assumption.
    - subst p. apply Hnew. exact Hq.
  Qed.

  Lemma dinv_noeff g g' effs :
    dinv g effs -> incl (guniv g) (guniv g') ->
    nth_error (greps g') r = nth_error (greps g) r ->
    dinv g' (effs ++ []).
  Proof.
    intros Hd HU Hr. pose proof Hd as [_ [lk0 [R0 Hfull]]].
    apply (dinv_extend g g' effs [] Hd HU).
    - intros q Hq. apply prefix_nil in Hq. subst q. rewrite app_nil_r.
      exists lk0. apply (Rk_mono dbid (guniv g)); assumption.
    - rewrite app_nil_r. exists lk0. split; [apply (Rk_mono dbid (guniv g)); assumption|].
      intros rs Hrs. rewrite Hr in Hrs. apply Hfull. exact Hrs.
  Qed.

  Lemma nth_lt {A} (l : list A) i x : nth_error l i = Some x -> (i < length l)%nat.
  Proof. intros H. apply nth_error_Some. rewrite H. discriminate. Qed.

  Lemma dinv_write g effs h refs o :
    ginv acc n dbid g -> dinv g effs -> ~ In h (hashes (guniv g)) ->
    (forall rs', nth_error (greps (run g (GWrite r h refs o))) r = Some rs' ->
                 next_closed (lents (rlog rs'))) ->
    dinv (run g (GWrite r h refs o))
         (effs ++ step_effects true true marks cont acc r g (GWrite r h refs o)).
  Proof.
    intros Hg Hd Hh Hcl.
    unfold step_effects. rewrite Nat.eqb_refl.
    unfold gstep_run in *.
    destruct (nth_error (greps g) r) as [rs|] eqn:Hr;
      [|apply (dinv_noeff g g effs Hd); [intros x Hx; exact Hx | reflexivity]].
    cbv zeta in *.
    destruct (fst (append (rlog rs) h (writer_of r) (writer_of r) (writer_of r) (writer_of r)
                          o refs acc)) as [[e l']|er|p] eqn:Happ;
      try (apply (dinv_noeff g g effs Hd); [intros x Hx; exact Hx | reflexivity]).
    destruct (GlobalProofs.write_facts acc n dbid g r rs h o refs e l' Hg Hh Hr Happ)
      as [Hwf' [Hok' [Hid' [Hents' [Hheads' _]]]]].
    destruct (gi_logs acc n dbid g Hg r rs Hr) as [Hok Hid].
    assert (Hnth : nth_error (set_nth r (reindex marks l' rs) (greps g)) r = Some (reindex marks l' rs)).
    { apply GlobalProofs.nth_error_set_nth_eq. apply (nth_lt _ _ _ Hr). }
    assert (Hcl' : next_closed (lents l')).
    { apply (Hcl (reindex marks l' rs)). cbn [greps]. exact Hnth. }
    pose proof Hd as [_ [lk0 [R0 Hfull]]].
    destruct (Hfull rs Hr) as [Hsub Hlb].
    set (U' := guniv g ++ [e]) in *.
    set (d0 := disk_of effs) in *. set (A0 := acked effs) in *.
    assert (HUU' : incl (guniv g) U') by (intros x Hx; apply in_or_app; left; exact Hx).
    assert (HeU' : In e U') by (apply in_or_app; right; left; reflexivity).
    assert (R0' : Rk dbid U' lk0 d0 A0) by (apply (Rk_mono dbid (guniv g)); assumption).
    assert (R1 : Rk dbid U' lk0 (apply_eff d0 (EBlock e)) A0) by (apply Rk_block; assumption).
    assert (Hel' : In e (lents l')) by (rewrite Hents'; apply in_or_app; right; left; reflexivity).
    assert (R2 : Rk dbid U' l' (apply_eff (apply_eff d0 (EBlock e)) (ELocal [eh e])) A0).
    { apply (Rk_recache dbid U' lk0 (apply_eff d0 (EBlock e)) A0); try assumption.
      - rewrite Hid'. exact Hid.
      - intros x Hx. rewrite Hents'. apply in_or_app. left. apply Hsub. exact Hx.
      - reflexivity.
      - rewrite Hents'. intros x Hx. apply in_app_or in Hx. destruct Hx as [Hx|[Hx|[]]].
        + apply block_incl. apply Hlb. exact Hx.
        + subst x. apply (block_in U'); [exact Hwf' | apply (rk_bU _ _ _ _ _ R0') | exact HeU'].
      - intros c Hc. unfold cached in Hc. cbn [apply_eff d_local d_remote] in Hc.
        destruct Hc as [Hc|Hc].
        + subst c. right. apply In_hashes_intro. exact Hel'.
        + left. unfold cached. apply in_or_app. right. exact Hc.
      - intros x Hx. exists e. split; [exact Hel'|]. split.
        + unfold cached. cbn [apply_eff d_local]. left. reflexivity.
        + pose proof (all_reachable U' l' Hwf' Hok' x Hx) as Hre.
          rewrite Hheads' in Hre. exact Hre. }
    assert (R3 : Rk dbid U' l' (apply_eff (apply_eff d0 (EBlock e)) (ELocal [eh e])) (A0 ++ [eh e])).
    { apply Rk_ack; [exact R2|]. intros c [Hc|[]]. subst c. apply In_hashes_intro. exact Hel'. }
    change (write_effects true e) with [EBlock e; ELocal [eh e]; EAck (eh e)].
    apply (dinv_extend g _ effs _ Hd).
    - exact HUU'.
    - cbn [guniv]. fold U'. intros q Hq.
      rewrite disk_of_app, acked_app. fold d0 A0.
      apply prefix_cons_inv in Hq. destruct Hq as [E|[q1 [E Hq]]].
      { subst q. exists lk0. cbn [fold_left]. change (acked []) with (@nil N). rewrite app_nil_r. exact R0'. }
      apply prefix_cons_inv in Hq. destruct Hq as [E1|[q2 [E1 Hq]]].
      { subst q q1. exists lk0. cbn [fold_left]. change (acked [EBlock e]) with (@nil N).
        rewrite app_nil_r. exact R1. }
      apply prefix_cons_inv in Hq. destruct Hq as [E2|[q3 [E2 Hq]]].
      { subst q q1 q2. exists l'. cbn [fold_left].
        change (acked [EBlock e; ELocal [eh e]]) with (@nil N). rewrite app_nil_r. exact R2. }
      apply prefix_nil in Hq. subst q q1 q2 q3. exists l'. exact R3.
    - cbn [guniv greps]. fold U'. exists l'. rewrite disk_of_app, acked_app. fold d0 A0. split; [exact R3|].
      intros rs' Hrs'. rewrite Hnth in Hrs'. injection Hrs' as Hrs'. subst rs'.
      cbn [reindex rlog]. split; [intros x Hx; exact Hx|].
      apply (rk_blocks _ _ _ _ _ R3).
  Qed.

  Lemma dinv_merge g effs batch :
    ginv acc n dbid g -> dinv g effs -> incl batch (guniv g) ->
    (forall rs', nth_error (greps (run g (GMerge r batch))) r = Some rs' ->
                 next_closed (lents (rlog rs'))) ->
    dinv (run g (GMerge r batch))
         (effs ++ step_effects true true marks cont acc r g (GMerge r batch)).
  Proof.
    intros Hg Hd Hb Hcl.
    unfold step_effects. rewrite Nat.eqb_refl.
    unfold gstep_run in *.
    destruct (nth_error (greps g) r) as [rs|] eqn:Hr;
      [|apply (dinv_noeff g g effs Hd); [intros x Hx; exact Hx | reflexivity]].
    destruct (gi_logs acc n dbid g Hg r rs Hr) as [Hok Hid].
    pose proof (gi_wf acc n dbid g Hg) as Hwf.
    destruct (merge_batch_spec cont acc (guniv g) batch (rlog rs) Hwf Hok)
      as [l' [Hm [Hok' [Hid' [Hincl' [Hbat' Hback']]]]]].
    { intros x Hx. rewrite Hid. apply (gi_univ acc n dbid g Hg). exact Hx. }
    { exact Hb. }
    rewrite Hm in *.
    assert (Hnth : nth_error (set_nth r (reindex marks l' rs) (greps g)) r = Some (reindex marks l' rs)).
    { apply GlobalProofs.nth_error_set_nth_eq. apply (nth_lt _ _ _ Hr). }
    assert (Hcl' : next_closed (lents l')).
    { apply (Hcl (reindex marks l' rs)). cbn [greps]. exact Hnth. }
    pose proof Hd as [_ [lk0 [R0 Hfull]]].
    destruct (Hfull rs Hr) as [Hsub Hlb].
    set (U := guniv g) in *.
    set (d0 := disk_of effs) in *. set (A0 := acked effs) in *.
    set (mb := map EBlock batch).
    set (dB := fold_left apply_eff mb d0).
    set (hs := hashes (heads_sorted l')).
    destruct (blocks_fold U Hwf batch d0 (rk_bU _ _ _ _ _ R0) Hb) as [I1 [I2 [I3 I4]]].
    fold mb dB in I1, I2, I3, I4.
    assert (RB : Rk dbid U lk0 dB A0) by (apply Rk_blocks; assumption).
    assert (Hhl : incl (lheads l') (lents l')) by (apply (GlobalProofs.heads_incl U); exact Hok').
    assert (R2 : Rk dbid U l' (apply_eff dB (ERemote hs)) A0).
    { apply (Rk_recache dbid U lk0 dB A0); try assumption.
      - rewrite Hid'. exact Hid.
      - intros x Hx. apply Hincl'. apply Hsub. exact Hx.
      - reflexivity.
      - intros x Hx. destruct (Hback' x Hx) as [Q|Q].
        + apply I1. apply Hlb. exact Q.
        + apply I2. exact Q.
      - intros c Hc. unfold cached in Hc. cbn [apply_eff d_local d_remote] in Hc.
        apply in_app_or in Hc. destruct Hc as [Hc|Hc].
        + left. unfold cached. apply in_or_app. left. exact Hc.
        + right. unfold hs in Hc. apply In_hashes in Hc. destruct Hc as [z [Hz1 Hz2]].
          subst c. apply In_hashes_intro. apply Hhl.
          unfold heads_sorted in Hz1. apply (proj1 (sort_desc_In z (lheads l'))). exact Hz1.
      - intros x Hx.
        pose proof (all_reachable U l' Hwf Hok' x Hx) as Hre.
        apply reach_single in Hre. destruct Hre as [y [Hy1 Hy2]].
        exists y. split; [apply Hhl; exact Hy1|]. split; [|exact Hy2].
        unfold cached. cbn [apply_eff d_local d_remote]. apply in_or_app. right.
        unfold hs. apply In_hashes_intro. unfold heads_sorted. apply (proj2 (sort_desc_In y (lheads l'))). exact Hy1. }
    assert (R3 : Rk dbid U l' (apply_eff dB (ERemote hs)) (A0 ++ hashes batch)).
    { apply Rk_ack; [exact R2|]. intros c Hc. apply In_hashes in Hc. destruct Hc as [z [Hz1 Hz2]].
      subst c. apply In_hashes_intro. apply Hbat'. exact Hz1. }
    change (merge_effects true batch l') with (mb ++ [ERemote hs; ERepl (hashes batch)]).
    assert (EB1 : disk_of (effs ++ mb) = dB) by (rewrite disk_of_app; reflexivity).
    assert (EB2 : acked (effs ++ mb) = A0).
    { rewrite acked_app. unfold mb. rewrite acked_blocks. apply app_nil_r. }
    apply (dinv_extend g _ effs _ Hd).
    - cbn [guniv]. intros x Hx. exact Hx.
    - cbn [guniv]. fold U. intros q Hq.
      apply prefix_app_cases in Hq. destruct Hq as [Hq|[q' [E Hq]]].
      { unfold mb in Hq. apply prefix_map in Hq. destruct Hq as [b1 [E Hb1]]. subst q.
        exists lk0. rewrite disk_of_app, acked_app, acked_blocks, app_nil_r. fold d0 A0.
        apply Rk_blocks; [exact R0|]. intros x Hx. apply Hb. apply Hb1. exact Hx. }
      subst q. rewrite app_assoc. rewrite disk_of_app, acked_app, EB1, EB2.
      apply prefix_cons_inv in Hq. destruct Hq as [E|[q1 [E Hq]]].
      { subst q'. exists lk0. cbn [fold_left]. change (acked []) with (@nil N). rewrite app_nil_r. exact RB. }
      apply prefix_cons_inv in Hq. destruct Hq as [E1|[q2 [E1 Hq]]].
      { subst q' q1. exists l'. cbn [fold_left]. change (acked [ERemote hs]) with (@nil N).
        rewrite app_nil_r. exact R2. }
      apply prefix_nil in Hq. subst q' q1 q2. exists l'.
      change (acked [ERemote hs; ERepl (hashes batch)]) with (hashes batch ++ []).
      rewrite app_nil_r. exact R3.
    - cbn [guniv greps]. fold U. exists l'.
      rewrite app_assoc. rewrite disk_of_app, acked_app, EB1, EB2.
      change (acked [ERemote hs; ERepl (hashes batch)]) with (hashes batch ++ []).
      rewrite app_nil_r.
      split; [exact R3|].
      intros rs' Hrs'. rewrite Hnth in Hrs'. injection Hrs' as Hrs'. subst rs'.
      cbn [reindex rlog]. split; [intros x Hx; exact Hx|].
      apply (rk_blocks _ _ _ _ _ R3).
  Qed.

  Lemma dinv_step g effs s :
    ginv acc n dbid g -> dinv g effs -> admissible okop g s ->
    (forall rs', nth_error (greps (run g s)) r = Some rs' -> next_closed (lents (rlog rs'))) ->
    dinv (run g s) (effs ++ step_effects true true marks cont acc r g s).
  Proof.
    intros Hg Hd Hadm Hcl.
    destruct s as [r' h refs o|r' batch].
    - destruct Hadm as [Hh _].
      destruct (Nat.eq_dec r r') as [E|E].
      + subst r'. apply dinv_write; assumption.
      + assert (Eb : Nat.eqb r r' = false) by (apply Nat.eqb_neq; exact E).
        unfold step_effects. rewrite Eb.
        apply (dinv_noeff g _ effs Hd).
        * unfold gstep_run. destruct (nth_error (greps g) r') as [rs|]; [|intros x Hx; exact Hx].
          destruct (fst (append _ _ _ _ _ _ _ _ _)) as [[e l']|er|p]; try (intros x Hx; exact Hx).
          cbn [guniv]. intros x Hx. apply in_or_app. left. exact Hx.
        * unfold gstep_run. destruct (nth_error (greps g) r') as [rs|]; [|reflexivity].
          destruct (fst (append _ _ _ _ _ _ _ _ _)) as [[e l']|er|p]; try reflexivity.
          cbn [greps]. apply GlobalProofs.nth_error_set_nth_neq. intros E'. apply E. symmetry. exact E'.
    - simpl in Hadm.
      destruct (Nat.eq_dec r r') as [E|E].
      + subst r'. apply dinv_merge; assumption.
      + assert (Eb : Nat.eqb r r' = false) by (apply Nat.eqb_neq; exact E).
        unfold step_effects. rewrite Eb.
        apply (dinv_noeff g _ effs Hd).
        * unfold gstep_run. destruct (nth_error (greps g) r') as [rs|]; [|intros x Hx; exact Hx].
          destruct (merge_batch cont acc (rlog rs) batch) as [l' ok]. cbn [guniv].
          intros x Hx. exact Hx.
        * unfold gstep_run. destruct (nth_error (greps g) r') as [rs|]; [|reflexivity].
          destruct (merge_batch cont acc (rlog rs) batch) as [l' ok]. cbn [greps].
          apply GlobalProofs.nth_error_set_nth_neq. intros E'. apply E. symmetry. exact E'.
  Qed.

  Lemma gtrace_dinv g effs : GT g effs -> dinv g effs.
  Proof.
    intros H. induction H as [|g effs s H IH Hadm Hcl].
    - apply dinv_init.
    - apply dinv_step; try assumption.
      apply (GlobalProofs.greach_inv marks cont acc n dbid okop g). apply (gtrace_greach g effs H).
  Qed.
End Trace.

(** * Durability *)

Lemma durable : S_durable.
Proof.
  intros marks cont acc okop n dbid r g effs k Ht.
  pose proof (GlobalProofs.greach_inv marks cont acc n dbid okop g
                (gtrace_greach marks cont acc okop n dbid r g effs Ht)) as Hg.
  destruct (gtrace_dinv marks cont acc okop n dbid r g effs Ht) as [Hpre _].
  destruct (Hpre (firstn k effs) (prefix_firstn k effs)) as [lk R].
  destruct (recover_spec dbid (guniv g) lk _ _ acc (gi_wf acc n dbid g Hg) (gi_univ acc n dbid g Hg) R)
    as [Hok [Hcl Hs]].
  cbv zeta. unfold disk_at. fold (disk_of (firstn k effs)).
  split; [|split; [|split]].
  - intros h Hh. apply (rk_acked _ _ _ _ _ R) in Hh.
    apply In_hashes in Hh. destruct Hh as [z [Hz1 Hz2]]. subst h.
    apply In_hashes_intro. apply Hs. exact Hz1.
  - intros x Hx. apply (ok_incl _ _ Hok). exact Hx.
  - exact Hcl.
  - exact Hok.
Qed.

Print Assumptions durable.
Print Assumptions durable_refuted_ack_first.
Print Assumptions durable_refuted_repl_first.
Print Assumptions durable_refuted_local_only.

From Orbit Require Import Model.Joins.
Require Import Lia.

Lemma nth_set_nth {A} (d : A) : forall (l : list A) i j x,
  nth j (set_nth i x l) d = if (Nat.eqb i j && (i <? length l)%nat)%bool then x else nth j l d.
Proof.
  unfold set_nth. induction l as [|a l IH]; intros i j x.
  - destruct i; destruct j; simpl; rewrite ?Bool.andb_false_r; reflexivity.
  - destruct i as [|i]; destruct j as [|j]; simpl; try reflexivity.
    specialize (IH i j x). simpl in IH. rewrite IH.
    replace (S i <? S (length l))%nat with (i <? length l)%nat; [reflexivity|].
    destruct (Nat.ltb_spec i (length l)); destruct (Nat.ltb_spec (S i) (S (length l))); try reflexivity; lia.
Qed.

(** invariant over a run, relative to the operations performed so far *)
Definition jinv (done : list jop) (s : jst) : Prop :=
  (forall j e, In e (nth j (j_heads s) []) -> In (JWrite j e) done) /\
  (forall p a hs, In (p, a, hs) (j_sent s) ->
     In (JJoin a p) done /\ forall e, In e hs -> In (JWrite a e) done).

Lemma jinv_step done s op : jinv done s -> jinv (done ++ [op]) (jstep true s op).
Proof.
  intros [Hh Hs]. destruct op as [j e | j p]; unfold jstep.
  - destruct (j <? length (j_heads s))%nat eqn:El.
    + split; simpl.
      * intros j' e' Hin. rewrite nth_set_nth in Hin. rewrite El in Hin.
        destruct (Nat.eqb_spec j j') as [->|Hne]; simpl in Hin.
        -- destruct Hin as [<-|[]]. apply in_or_app. right. left. reflexivity.
        -- apply in_or_app. left. apply Hh. exact Hin.
      * intros p a hs Hin. destruct (Hs p a hs Hin) as [H1 H2].
        split; [apply in_or_app; left; exact H1|].
        intros e' He'. apply in_or_app. left. apply H2. exact He'.
    + split.
      * intros j' e' Hin. apply in_or_app. left. apply Hh. exact Hin.
      * intros p a hs Hin. destruct (Hs p a hs Hin) as [H1 H2].
        split; [apply in_or_app; left; exact H1|].
        intros e' He'. apply in_or_app. left. apply H2. exact He'.
  - destruct (j <? length (j_heads s))%nat eqn:El.
    + split; simpl.
      * intros j' e' Hin. apply in_or_app. left. apply Hh. exact Hin.
      * intros p' a hs Hin. apply in_app_or in Hin. destruct Hin as [Hin|Hin].
        -- destruct (Hs p' a hs Hin) as [H1 H2].
           split; [apply in_or_app; left; exact H1|].
           intros e' He'. apply in_or_app. left. apply H2. exact He'.
        -- simpl in Hin. destruct Hin as [Heq|[]]. inversion Heq; subst p' a hs.
           split; [apply in_or_app; right; left; reflexivity|].
           intros e' He'. apply in_or_app. left. apply Hh. exact He'.
    + split.
      * intros j' e' Hin. apply in_or_app. left. apply Hh. exact Hin.
      * intros p' a hs Hin. destruct (Hs p' a hs Hin) as [H1 H2].
        split; [apply in_or_app; left; exact H1|].
        intros e' He'. apply in_or_app. left. apply H2. exact He'.
Qed.

Lemma jinv_run : forall ops done s, jinv done s -> jinv (done ++ ops) (jrun true ops s).
Proof.
  induction ops as [|op ops IH]; intros done s H; simpl.
  - rewrite app_nil_r. exact H.
  - replace (done ++ op :: ops) with ((done ++ [op]) ++ ops) by (rewrite <- app_assoc; reflexivity).
    apply IH. apply jinv_step. exact H.
Qed.

Lemma nth_repeat_nil {A} k j : nth j (repeat (@nil A) k) [] = [].
Proof. revert j. induction k as [|k IH]; intros [|j]; simpl; try reflexivity. apply IH. Qed.

Lemma jinv_init k : jinv [] (jinit k).
Proof.
  split; simpl.
  - intros j e Hin. rewrite nth_repeat_nil in Hin. destruct Hin.
  - intros p a hs [].
Qed.

(** Heads of a database only go to a peer that joined the topic of that database, and they are
    entries of that database. *)
Lemma joins_scoped :
  forall k ops p a hs,
    In (p, a, hs) (j_sent (jrun true ops (jinit k))) ->
    In (JJoin a p) ops /\ forall e, In e hs -> In (JWrite a e) ops.
Proof.
  intros k ops p a hs Hin.
  destruct (jinv_run ops [] (jinit k) (jinv_init k)) as [_ Hs].
  simpl in Hs. exact (Hs p a hs Hin).
Qed.

(** With the joins passed around among all the stores of the instance, a peer that joins the
    topic of database 1 is sent the head of database 0, which it never joined. *)
Lemma joins_refuted_shared :
  let ops := [JWrite 0 7%N; JJoin 1 5] in
  In (5, 0, [7%N])%nat (j_sent (jrun false ops (jinit 2))) /\ ~ In (JJoin 0 5) ops.
Proof.
  split.
  - vm_compute. left. reflexivity.
  - intros [H|[H|[]]]; discriminate.
Qed.

Print Assumptions joins_scoped.
Print Assumptions joins_refuted_shared.

From Orbit Require Import Spec.Statements.
Require Import Lia ZArith List.
Import ListNotations.
Local Open Scope Z_scope.

(** * C19: replication status *)

Ltac zlt :=
  repeat match goal with
         | |- context [?a <? ?b] => destruct (Z.ltb_spec a b)
         | H : context [?a <? ?b] |- _ => destruct (Z.ltb_spec a b)
         end.

(** ** status_monotone *)

Lemma status_step_mono : forall sp s e,
    s_progress s <= s_max s ->
    status_le s (status_step true sp s e) /\
    s_progress (status_step true sp s e) <= s_max (status_step true sp s e).
Proof.
  intros sp [p m] e H. unfold status_le.
  cbn [s_progress s_max] in H.
  destruct e as [t len|t len|t len|len|mc lb la];
    unfold status_step, recalc_status, recalc_progress, recalc_max;
    cbn [s_progress s_max].
  - zlt; cbn [s_progress s_max]; lia.
  - lia.
  - zlt; cbn [s_progress s_max]; lia.
  - destruct (Z.ltb_spec p len); cbn [s_progress s_max].
    + zlt; cbn [s_progress s_max]; lia.
    + lia.
  - destruct sp; cbn [s_progress s_max]; [zlt; cbn [s_progress s_max]; lia | lia].
Qed.

Lemma trace_status_head : forall mm sp evs s,
    nth_error (trace_status mm sp evs s) 0 = Some s.
Proof. intros mm sp [|e r] s; reflexivity. Qed.

Lemma status_monotone : S_status_monotone.
Proof.
  unfold S_status_monotone.
  intros sp evs. induction evs as [|e r IH]; intros s Hs i a b Ha Hb.
  - cbn in Ha, Hb. destruct i; cbn in Hb; discriminate.
  - cbn [trace_status] in Ha, Hb.
    destruct (status_step_mono sp s e Hs) as [Hle Hinv].
    destruct i as [|i].
    + cbn [nth_error] in Ha.
      change (nth_error (trace_status true sp r (status_step true sp s e)) 0 = Some b) in Hb.
      rewrite trace_status_head in Hb.
      inversion Ha; inversion Hb; subst. split; assumption.
    + change (nth_error (trace_status true sp r (status_step true sp s e)) i = Some a) in Ha.
      change (nth_error (trace_status true sp r (status_step true sp s e)) (S i) = Some b) in Hb.
      exact (IH _ Hinv i a b Ha Hb).
Qed.

(** ** status_refuted_max *)

Lemma status_refuted_max : S_status_refuted_max.
Proof.
  unfold S_status_refuted_max.
  exists [EvWrite 1 1; EvWrite 2 2; EvWrite 3 3; EvLoadAdded 10 3; EvProgress 2 3].
  split.
  - cbn [ev_wf ev_len ev_len_before ev_time]. repeat split; lia.
  - exists 4%nat, (mkS 3 10), (mkS 3 3).
    split; [vm_compute; reflexivity|].
    split; [vm_compute; reflexivity|].
    cbn [s_max]. lia.
Qed.

(** ** status_at_rest *)

Definition ev_bounded (L : Z) (e : sev) : Prop :=
  ev_time e <= L /\ ev_len e <= L /\ ev_len_before e <= L.

Lemma status_step_bounded : forall sp L s e,
    s_progress s <= s_max s -> s_max s <= L -> ev_bounded L e ->
    s_progress (status_step true sp s e) <= s_max (status_step true sp s e) /\
    s_max (status_step true sp s e) <= L.
Proof.
  intros sp L [p m] e H1 H2 (Ht & Hl & Hb).
  cbn [s_progress s_max] in H1, H2.
  destruct e as [t len|t len|t len|len|mc lb la];
    cbn [ev_time ev_len ev_len_before] in Ht, Hl, Hb;
    unfold status_step, recalc_status, recalc_progress, recalc_max;
    cbn [s_progress s_max].
  - zlt; cbn [s_progress s_max]; lia.
  - lia.
  - zlt; cbn [s_progress s_max]; lia.
  - destruct (Z.ltb_spec p len); cbn [s_progress s_max].
    + zlt; cbn [s_progress s_max]; lia.
    + lia.
  - destruct sp; cbn [s_progress s_max]; [zlt; cbn [s_progress s_max]; lia | lia].
Qed.

Lemma run_status_bounded : forall sp L evs s,
    s_progress s <= s_max s -> s_max s <= L ->
    (forall e, In e evs -> ev_bounded L e) ->
    s_progress (run_status true sp evs s) <= s_max (run_status true sp evs s) /\
    s_max (run_status true sp evs s) <= L.
Proof.
  intros sp L evs. unfold run_status.
  induction evs as [|e r IH]; intros s H1 H2 Hall.
  - cbn [fold_left]. split; assumption.
  - cbn [fold_left].
    destruct (status_step_bounded sp L s e H1 H2 (Hall e (or_introl eq_refl))) as [H1' H2'].
    apply IH; auto. intros e' He'. apply Hall. right; exact He'.
Qed.

Lemma status_at_rest : S_status_at_rest.
Proof.
  unfold S_status_at_rest.
  intros sp evs L last HL Hall Hlast.
  unfold run_status. rewrite fold_left_app. cbn [fold_left].
  assert (Hpre : forall e, In e evs -> ev_bounded L e).
  { intros e He. apply Hall. apply in_or_app. left; exact He. }
  assert (Hl : ev_bounded L last).
  { apply Hall. apply in_or_app. right. left. reflexivity. }
  destruct (run_status_bounded sp L evs status0) as [H1 H2];
    [unfold status0; cbn [s_progress s_max]; lia
    | unfold status0; cbn [s_progress s_max]; lia | exact Hpre |].
  unfold run_status in H1, H2.
  destruct (fold_left (status_step true sp) evs status0) as [p m].
  cbn [s_progress s_max] in H1, H2.
  destruct Hl as (Ht & Hlen & Hb).
  destruct Hlast as [[t ->] | [-> | [-> (mc & lb & ->)]]];
    cbn [ev_time ev_len ev_len_before] in Ht, Hlen, Hb;
    unfold status_step, recalc_status, recalc_progress, recalc_max;
    cbn [s_progress s_max].
  - zlt; cbn [s_progress s_max]; f_equal; lia.
  - destruct (Z.ltb_spec p L); cbn [s_progress s_max].
    + zlt; cbn [s_progress s_max]; f_equal; lia.
    + f_equal; lia.
  - zlt; cbn [s_progress s_max]; f_equal; lia.
Qed.

(** ** status_refuted_snapshot *)

Lemma status_refuted_snapshot : S_status_refuted_snapshot.
Proof. unfold S_status_refuted_snapshot. vm_compute. reflexivity. Qed.

(** ** status_after_load *)

(** counting: a list containing every integer of (M, M+n] has at least n elements *)
Lemma cover_length : forall (n : nat) (l : list Z) (M : Z),
    (forall v, M < v <= M + Z.of_nat n -> In v l) -> (n <= length l)%nat.
Proof.
  induction n as [|n IH]; intros l M Hcov.
  - lia.
  - assert (Hin : In (M + Z.of_nat (S n)) l) by (apply Hcov; lia).
    destruct (in_split _ _ Hin) as (l1 & l2 & ->).
    rewrite app_length. cbn [length].
    assert (n <= length (l1 ++ l2))%nat.
    { apply (IH _ M). intros v Hv.
      assert (Hv' : In v (l1 ++ (M + Z.of_nat (S n)) :: l2)) by (apply Hcov; lia).
      apply in_app_or in Hv'. apply in_or_app.
      destruct Hv' as [Hv'|[Hv'|Hv']]; [left; assumption | lia | right; assumption]. }
    rewrite app_length in H. lia.
Qed.

Lemma cover_length_Z : forall (l : list Z) (M T : Z),
    M <= T -> (forall v, M < v <= T -> In v l) -> T - M <= Z.of_nat (length l).
Proof.
  intros l M T HMT Hcov.
  assert (H : (Z.to_nat (T - M) <= length l)%nat).
  { apply (cover_length _ l M). intros v Hv. apply Hcov. lia. }
  lia.
Qed.

Lemma load_invariant : forall sp T (todo : list Z) p M,
    0 <= p -> p <= M -> M <= T ->
    (forall t, In t todo -> 0 < t <= T) ->
    (forall v, M < v <= T -> In v todo) ->
    T <= p + Z.of_nat (length todo) ->
    run_status true sp (map (fun t => EvProgress t 0) todo) (mkS p M) = mkS T T.
Proof.
  intros sp T todo. unfold run_status.
  induction todo as [|t r IH]; intros p M Hp HpM HMT Hrange Hcov Hlen.
  - cbn [map fold_left]. cbn [length] in Hlen.
    assert (M = T).
    { destruct (Z.eq_dec M T) as [|Hne]; [assumption|].
      exfalso. apply (Hcov T). lia. }
    f_equal; lia.
  - cbn [map fold_left].
    assert (Ht : 0 < t <= T) by (apply Hrange; left; reflexivity).
    assert (Hcov' : forall v, Z.max t M < v <= T -> In v r).
    { intros v Hv. destruct (Hcov v) as [Heq|Hin]; [lia | lia | assumption]. }
    assert (Hcnt : T - Z.max t M <= Z.of_nat (length r)).
    { apply cover_length_Z; [lia | exact Hcov']. }
    cbn [length] in Hlen. rewrite Nat2Z.inj_succ in Hlen.
    unfold status_step at 2. unfold recalc_status, recalc_progress, recalc_max.
    cbn [s_progress s_max].
    assert (Hmax : Z.max 0 (Z.max t M) = Z.max t M) by lia.
    rewrite Hmax.
    assert (Hr : forall t0, In t0 r -> 0 < t0 <= T).
    { intros t0 Ht0. apply Hrange. right; exact Ht0. }
    destruct (Z.ltb_spec (p + 1) (Z.max t M)).
    + destruct (Z.ltb_spec (p + 1) 0); [lia|].
      apply IH; try assumption; lia.
    + destruct (Z.ltb_spec (Z.max t M) 0); [lia|].
      apply IH; try assumption; lia.
Qed.

Lemma status_after_load : S_status_after_load.
Proof.
  unfold S_status_after_load.
  intros sp times T HT Hrange Hcov.
  assert (Hcnt : T - 0 <= Z.of_nat (length times)).
  { apply cover_length_Z; [lia|]. intros v Hv. apply Hcov. lia. }
  unfold status0. apply load_invariant; try assumption; lia.
Qed.

Print Assumptions status_monotone.
Print Assumptions status_refuted_max.
Print Assumptions status_at_rest.
Print Assumptions status_refuted_snapshot.
Print Assumptions status_after_load.

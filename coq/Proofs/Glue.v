(** Small corollaries that combine the main lemmas into the shapes the property files state. *)
From Orbit Require Import Spec.Statements Proofs.TraverseProofs Proofs.ReplayProofs Proofs.GlobalProofs.

(** In every reachable state, any two listed entries appear in key order: the listing
    order is intrinsic to the entries, not to the delivery history. *)
Lemma listing_in_key_order :
  forall marks cont acc n dbid okop g i rs x y,
    greach marks cont acc okop n dbid g -> nth_error (greps g) i = Some rs ->
    In x (values (rlog rs)) -> In y (values (rlog rs)) -> key_lt x y ->
    before x y (values (rlog rs)).
Proof.
  intros marks cont acc n dbid okop g i rs x y Hr Hn Hx Hy Hlt.
  destruct (values_sorted marks cont acc n dbid okop g i rs Hr Hn) as [_ Hs].
  eapply asc_lt_before; eauto.
Qed.

(** C06 causal part: an entry written by replica [r] is listed, on every replica that
    holds both, after every entry [r] held when writing. *)
Lemma causal_order :
  forall marks cont acc n dbid okop g r h refs o rs,
    greach marks cont acc okop n dbid g -> admissible okop g (GWrite r h refs o) ->
    nth_error (greps g) r = Some rs ->
    forall e, In e (guniv (gstep_run marks cont acc g (GWrite r h refs o))) -> ~ In e (guniv g) ->
    forall x, In x (lents (rlog rs)) ->
    forall g' j rs', greach marks cont acc okop n dbid g' -> nth_error (greps g') j = Some rs' ->
      In x (values (rlog rs')) -> In e (values (rlog rs')) ->
      before x e (values (rlog rs')).
Proof.
  intros marks cont acc n dbid okop g r h refs o rs Hr Ha Hn e He Hne x Hx g' j rs' Hr' Hn' Hxv Hev.
  destruct (write_after_seen marks cont acc n dbid okop g r h refs o rs Hr Ha Hn e He Hne) as [_ Hlt].
  eapply listing_in_key_order; eauto.
Qed.

(** Delete guard of the document store ([document.go Delete]): refused when the key is absent. *)
Definition doc_delete_allowed (m : kvmap) (k : bytes) : bool :=
  match alookup bytes_eqb k m with Some _ => true | None => false end.

Lemma delete_absent_refused :
  forall m f k, represents m f -> f k = None -> doc_delete_allowed m k = false.
Proof.
  intros m f k [_ H] Hk. unfold doc_delete_allowed. rewrite H, Hk. reflexivity.
Qed.

Lemma delete_present_allowed :
  forall m f k v, represents m f -> f k = Some v -> doc_delete_allowed m k = true.
Proof.
  intros m f k v [_ H] Hk. unfold doc_delete_allowed. rewrite H, Hk. reflexivity.
Qed.

(** The tie-break of the default sort is order dependent: with two distinct entries
    sharing (time, writer) the sort result depends on the input order.  This is why
    C01 assumes such ties do not arise. *)
Lemma ties_order_dependent :
  exists a b, etime a = etime b /\ ecid a = ecid b /\ a <> b /\ sort_desc [a; b] <> sort_desc [b; a].
Proof.
  exists (mkEntry 1 0 5 1 [] [] 0 0 0 OOther), (mkEntry 2 0 5 1 [] [] 0 0 0 OOther).
  repeat split; try discriminate.
Qed.

(** Proofs about access control and the store-side merge (C03, C04). *)
From Orbit Require Import Model.Access Spec.Statements Proofs.JoinProofs Proofs.TraverseProofs.

(** * Local writes *)

(** [append] consults [acc] only on the entry it builds, which carries the writer's id. *)
Lemma append_acc_ext l h cid ident key sig o refs acc acc' :
  (forall e, eid e = ident -> acc e = acc' e) ->
  append l h cid ident key sig o refs acc = append l h cid ident key sig o refs acc'.
Proof.
  intros H. unfold append. cbv zeta.
  rewrite (H (mkEntry h (lid l) (Z.max (lclock l) (max_time (heads_sorted l) 0) + 1) cid
                      (rev (hashes (heads_sorted l))) refs ident key sig o) eq_refl).
  reflexivity.
Qed.

(** C03, local route: a write by an identity that is not in the write list is refused
    with the "denied" error and leaves entries, heads and nexts as they were. *)
Lemma local_denied :
  forall bi W id_key blk l h w o refs e1 l1,
    ~ In w W ->
    append l h w w w w o refs (acc_of bi W false id_key blk) = (e1, l1) ->
    e1 = Err EDenied /\ lents l1 = lents l /\ lheads l1 = lheads l /\ lnext l1 = lnext l.
Proof.
  intros bi W id_key blk l h w o refs e1 l1 Hw Happ.
  rewrite (append_acc_ext l h w w w w o refs _ (fun _ => false)) in Happ.
  - apply (append_denied l h w o refs (fun _ => false) e1 l1 Happ). reflexivity.
  - intros e He. unfold acc_of, can_append. rewrite He. cbn [orb].
    destruct (memN w W) eqn:M; [|reflexivity].
    apply memN_In in M. contradiction.
Qed.

(** * What an accepted entry is *)

Lemma acc_of_sound W wildcard id_key blk e :
  acc_of true W wildcard id_key blk e = true ->
  entry_verify e = true /\ authorised W wildcard id_key e.
Proof.
  unfold acc_of, can_append, entry_verify, authorised, author.
  rewrite !andb_true_iff, orb_true_iff, !N.eqb_eq.
  intros [[Hm [_ Hk]] Hv]. split; [exact Hv|].
  destruct Hm as [Hm|Hm]; [left; exact Hm|].
  right. exists (eid e). split; [apply memN_In; exact Hm | congruence].
Qed.

Lemma authorisedb_spec W wildcard id_key e :
  authorisedb W wildcard id_key e = true <-> authorised W wildcard id_key e.
Proof.
  unfold authorisedb, authorised. rewrite orb_true_iff, existsb_exists.
  split; (intros [H|[w [H1 H2]]]; [left; exact H | right; exists w; split; [exact H1|]]).
  - apply N.eqb_eq. exact H2.
  - apply N.eqb_eq. exact H2.
Qed.

(** * The fetched single-entry log *)

Lemma loe_lid id es : lid (log_of_entries id es) = id.
Proof. reflexivity. Qed.

Lemma loe_heads_self id x : In (eh x) (enext x) -> lheads (log_of_entries id [x]) = [].
Proof.
  intros Hself. unfold log_of_entries. cbn [lheads].
  change (oset_all [x] []) with [x].
  unfold find_heads. cbn [filter all_nexts flat_map]. rewrite app_nil_r.
  apply memN_In in Hself. rewrite Hself. reflexivity.
Qed.

Lemma self_link_dec x : {In (eh x) (enext x)} + {~ In (eh x) (enext x)}.
Proof. apply in_dec. apply N.eq_dec. Qed.

(** Content addressing: two entries with the same address are the same entry. *)
Definition hash_inj (U : list entry) : Prop :=
  forall a b, In a U -> In b U -> eh a = eh b -> a = b.

Lemma has_entry_inj U m x :
  hash_inj U -> incl m U -> In x U -> has_entry (eh x) m = true -> In x m.
Proof.
  intros HU Hm Hx H. apply has_entry_In in H. apply In_hashes in H.
  destruct H as [y [Hy1 Hy2]].
  assert (y = x) by (apply HU; auto). subst y. exact Hy1.
Qed.

(** * Traversal never invents entries *)

Lemma trav_loop_sub ents (P : entry -> Prop) :
  (forall e, In e ents -> P e) ->
  forall fuel stack trav result amount count,
    (forall e, In e stack -> P e) -> (forall e, In e result -> P e) ->
    forall e, In e (trav_loop fuel ents stack trav result amount count) -> P e.
Proof.
  intros Hents. induction fuel as [|f IH]; intros stack trav result amount count Hs Hr e He.
  - simpl in He. apply Hr. exact He.
  - simpl in He. destruct stack as [|a st]; [apply Hr; exact He|].
    destruct ((0 <=? amount) && (amount <=? count)); [apply Hr; exact He|].
    destruct (push_nexts ents (enext a) st (eh a :: trav)) as [[st' trav''] modified] eqn:Hp.
    destruct (push_nexts_spec ents _ _ _ _ _ _ Hp) as (_ & _ & _ & H4 & _).
    assert (Hst' : forall y, In y st' -> P y).
    { intros y Hy. destruct (H4 y Hy) as [Hy'|[Hy' _]].
      - apply Hs. right. exact Hy'.
      - apply Hents. exact Hy'. }
    revert He. apply IH.
    + intros y Hy. destruct modified.
      * apply Hst'. apply sort_desc_in. exact Hy.
      * apply Hst'. exact Hy.
    + intros y Hy. apply JoinProofs.oset_In in Hy. destruct Hy as [Hy|[Hy _]].
      * apply Hr. exact Hy.
      * subst y. apply Hs. left. reflexivity.
Qed.

Lemma values_sub l e : In e (values l) -> In e (lents l) \/ In e (lheads l).
Proof.
  unfold values, traverse. rewrite <- in_rev.
  apply (trav_loop_sub (lents l) (fun e => In e (lents l) \/ In e (lheads l))).
  - intros y Hy. left. exact Hy.
  - intros y Hy. right. apply (proj1 (sort_desc_in _ _)) in Hy. exact Hy.
  - intros y [].
Qed.

(** * The invariant of a replica's log under hostile deliveries *)

Section Remote.
  Variable W : list N.
  Variable wildcard : bool.
  Variable id_key : N -> N.
  Variable blk : entry -> bool.

  Let acc := acc_of true W wildcard id_key blk.

  (** every entry of the log exists as a content-addressed object, was accepted by the
      access controller and the signature check, and carries the log's id; every head
      is an entry of the log *)
  Record lgood (U : list entry) (l : log) : Prop := {
    g_incl  : incl (lents l) U;
    g_heads : incl (lheads l) (lents l);
    g_ents  : forall e, In e (lents l) -> elog e = lid l /\ acc e = true
  }.

  Lemma lgood_empty U id : lgood U (empty_log id).
  Proof. constructor; cbn; intros e []. Qed.

  (** One delivery of an ARBITRARY entry [x] (any combination of forged fields): the
      only assumption is content addressing of what is fetched. *)
  Lemma join_checked_good U l x :
    hash_inj U -> In x U -> lgood U l ->
    lgood U (join_checked true l x acc) /\ lid (join_checked true l x acc) = lid l /\
    incl (lents l) (lents (join_checked true l x acc)).
  Proof.
    intros HU HxU Hg. unfold join_checked. cbn [andb].
    destruct (elog x =? lid l)%N eqn:Elog; cbn [negb].
    2:{ split; [exact Hg | split; [reflexivity | apply incl_refl]]. }
    apply N.eqb_eq in Elog.
    rewrite join_unbounded by apply loe_lid. cbv zeta. rewrite loe_ents.
    destruct (self_link_dec x) as [Hself|Hself].
    - (* the fetched log has no head: nothing is new *)
      rewrite (loe_heads_self _ _ Hself).
      change (difference [x] [] l) with (@nil entry).
      cbn [forallb negb flat_map]. change (oset_all [] (lents l)) with (lents l).
      change (oset_all [] (lheads l)) with (lheads l).
      split; [|split; [reflexivity | apply incl_refl]].
      constructor; cbn [lents lheads lid].
      + apply (g_incl U l Hg).
      + intros h Hh. apply filter_In in Hh. destruct Hh as [Hh _].
        apply find_heads_In in Hh. apply (g_heads U l Hg). tauto.
      + apply (g_ents U l Hg).
    - rewrite (loe_heads _ _ Hself). rewrite (diff_single x l Hself Elog).
      change (oset_all [x] (lheads l)) with (oset x (lheads l)).
      destruct (has_entry (eh x) (lents l)) eqn:Hhas.
      + (* already held *)
        cbn [forallb negb flat_map]. change (oset_all [] (lents l)) with (lents l).
        split; [|split; [reflexivity | apply incl_refl]].
        constructor; cbn [lents lheads lid].
        * apply (g_incl U l Hg).
        * intros h Hh. apply filter_In in Hh. destruct Hh as [Hh _].
          apply find_heads_In in Hh. destruct Hh as [Hh _].
          apply JoinProofs.oset_In in Hh. destruct Hh as [Hh|[Hh _]].
          -- apply (g_heads U l Hg). exact Hh.
          -- subst h. apply (has_entry_inj U); auto. apply (g_incl U l Hg).
        * apply (g_ents U l Hg).
      + cbn [forallb]. rewrite andb_true_r.
        destruct (acc x) eqn:Hacc; cbn [negb].
        2:{ split; [exact Hg | split; [reflexivity | apply incl_refl]]. }
        change (oset_all [x] (lents l)) with (oset x (lents l)).
        rewrite (oset_fresh x (lents l) Hhas).
        split; [|split; [reflexivity | apply incl_appl; apply incl_refl]].
        constructor; cbn [lents lheads lid].
        * intros e He. apply in_app_iff in He. destruct He as [He|[He|[]]].
          -- apply (g_incl U l Hg). exact He.
          -- subst e. exact HxU.
        * intros h Hh. apply filter_In in Hh. destruct Hh as [Hh _].
          apply find_heads_In in Hh. destruct Hh as [Hh _].
          apply JoinProofs.oset_In in Hh. apply in_app_iff.
          destruct Hh as [Hh|[Hh _]].
          -- left. apply (g_heads U l Hg). exact Hh.
          -- right. left. symmetry. exact Hh.
        * intros e He. apply in_app_iff in He. destruct He as [He|[He|[]]].
          -- apply (g_ents U l Hg). exact He.
          -- subst e. split; [exact Elog | exact Hacc].
  Qed.

  Lemma merge_fetched_good U : forall xs l,
    hash_inj U -> incl xs U -> lgood U l ->
    lgood U (merge_fetched true acc l xs) /\ lid (merge_fetched true acc l xs) = lid l /\
    incl (lents l) (lents (merge_fetched true acc l xs)).
  Proof.
    induction xs as [|x xs IH]; intros l HU Hxs Hg.
    - split; [exact Hg | split; [reflexivity | apply incl_refl]].
    - unfold merge_fetched. cbn [fold_left].
      destruct (join_checked_good U l x HU (Hxs x (or_introl eq_refl)) Hg) as [H1 [H2 H3]].
      destruct (IH (join_checked true l x acc) HU (fun y Hy => Hxs y (or_intror Hy)) H1) as [I1 [I2 I3]].
      split; [exact I1 | split].
      + unfold merge_fetched in I2. rewrite I2. exact H2.
      + intros y Hy. apply I3. apply H3. exact Hy.
  Qed.

  (** what the invariant says about every entry, every head and every listed entry *)
  Lemma lgood_sound U l e :
    lgood U l -> In e (lents l) \/ In e (lheads l) \/ In e (values l) ->
    In e (lents l) /\ In e U /\ entry_verify e = true /\ elog e = lid l /\
    authorised W wildcard id_key e.
  Proof.
    intros Hg He.
    assert (Hin : In e (lents l)).
    { destruct He as [He|[He|He]]; [exact He | apply (g_heads U l Hg); exact He |].
      apply values_sub in He. destruct He as [He|He]; [exact He | apply (g_heads U l Hg); exact He]. }
    destruct (g_ents U l Hg e Hin) as [H1 H2].
    destruct (acc_of_sound W wildcard id_key blk e H2) as [H3 H4].
    split; [exact Hin | split; [apply (g_incl U l Hg); exact Hin | auto]].
  Qed.

  (** C03, remote routes: from the empty log (or any log satisfying the invariant),
      whatever entries are delivered, in whatever order and however forged, every entry
      of the log, every head and every listed entry has a valid signature, carries the
      log's id and was really authored by an identity of the write list. *)
  Theorem merge_only_authorised :
    forall U l xs,
      hash_inj U -> incl xs U -> lgood U l ->
      let l' := merge_fetched true acc l xs in
      lgood U l' /\
      forall e, In e (lents l') \/ In e (lheads l') \/ In e (values l') ->
        entry_verify e = true /\ elog e = lid l /\ authorised W wildcard id_key e.
  Proof.
    intros U l xs HU Hxs Hg l'.
    destruct (merge_fetched_good U xs l HU Hxs Hg) as [H1 [H2 _]].
    split; [exact H1|]. intros e He.
    destruct (lgood_sound U l' e H1 He) as (_ & _ & A & B & C).
    fold l' in H2. rewrite H2 in B. auto.
  Qed.

  (** * C04 *)

  (** an entry that must never be merged into log [l]: its signature does not verify
      or it was written for another log *)
  Definition bad (l : log) (e : entry) : Prop := esig e <> ekey e \/ elog e <> lid l.

  Lemma bad_not_held U l e : lgood U l -> bad l e -> ~ In e (lents l).
  Proof.
    intros Hg Hb Hin. destruct (g_ents U l Hg e Hin) as [H1 H2].
    destruct (acc_of_sound W wildcard id_key blk e H2) as [H3 _].
    unfold entry_verify in H3. apply N.eqb_eq in H3. destruct Hb; contradiction.
  Qed.

  (** Fetched (as announced head or as ancestor: the store treats both alike) a bad
      entry leaves the log literally unchanged: the join is refused or not attempted. *)
  Theorem bad_never_merged :
    forall U l x,
      hash_inj U -> In x U -> lgood U l -> ~ In (eh x) (enext x) -> bad l x ->
      join_checked true l x acc = l /\
      ~ In x (lents l) /\ ~ In x (lheads l) /\ ~ In x (values l).
  Proof.
    intros U l x HU HxU Hg Hself Hb.
    assert (Hnot : ~ In x (lents l)) by (apply (bad_not_held U); assumption).
    split.
    - unfold join_checked. cbn [andb].
      destruct (elog x =? lid l)%N eqn:Elog; cbn [negb]; [|reflexivity].
      apply N.eqb_eq in Elog.
      rewrite join_unbounded by apply loe_lid. cbv zeta. rewrite loe_ents.
      rewrite (loe_heads _ _ Hself). rewrite (diff_single x l Hself Elog).
      destruct (has_entry (eh x) (lents l)) eqn:Hhas.
      + exfalso. apply Hnot. apply (has_entry_inj U); auto. apply (g_incl U l Hg).
      + cbn [forallb]. rewrite andb_true_r.
        destruct (acc x) eqn:Hacc; [|reflexivity].
        exfalso. destruct (acc_of_sound W wildcard id_key blk x Hacc) as [H3 _].
        unfold entry_verify in H3. apply N.eqb_eq in H3.
        destruct Hb as [Hb|Hb]; contradiction.
    - split; [exact Hnot | split].
      + intros H. apply Hnot. apply (g_heads U l Hg). exact H.
      + intros H. apply values_sub in H. destruct H as [H|H]; [auto|].
        apply Hnot. apply (g_heads U l Hg). exact H.
  Qed.

  (** and it stays out whatever else is delivered later *)
  Corollary bad_never_present :
    forall U l xs e,
      hash_inj U -> incl xs U -> lgood U l -> bad l e ->
      let l' := merge_fetched true acc l xs in
      ~ In e (lents l') /\ ~ In e (lheads l') /\ ~ In e (values l').
  Proof.
    intros U l xs e HU Hxs Hg Hb l'.
    destruct (merge_only_authorised U l xs HU Hxs Hg) as [_ H]. fold l' in H.
    assert (HN : forall P : Prop, (P -> In e (lents l') \/ In e (lheads l') \/ In e (values l')) -> ~ P).
    { intros P HP Hp. destruct (H e (HP Hp)) as (A & B & _).
      unfold entry_verify in A. apply N.eqb_eq in A. destruct Hb; contradiction. }
    repeat split; apply HN; auto.
  Qed.

  (** Announced heads.  [stored] resolves an address to the content-addressed entry
      kept under it. *)
  Definition store_ok (U : list entry) (stored : N -> option entry) : Prop :=
    forall h e, stored h = Some e -> In e U /\ eh e = h.

  Lemma fetched_heads_incl U stored heads :
    store_ok U stored -> incl (fetched_heads stored heads) U.
  Proof.
    intros Hs e He. unfold fetched_heads in He. apply in_flat_map in He.
    destruct He as [a [_ He]]. destruct (stored (a_addr a)) as [y|] eqn:E; [|destruct He].
    destruct He as [He|[]]. subst y. apply (Hs _ _ E).
  Qed.

  (** A head whose content does not hash to the address it claims, and that the access
      controller would accept, makes the whole announcement fail: nothing is loaded. *)
  Lemma sync_precheck_mismatch ca : forall heads a,
    In a heads -> ca (a_entry a) = true -> a_hash_ok a = false ->
    sync_precheck ca heads = false.
  Proof.
    induction heads as [|b heads IH]; intros a Hin Hca Hh; [destruct Hin|].
    cbn [sync_precheck]. destruct Hin as [Hin|Hin].
    - subst b. rewrite Hca, Hh. reflexivity.
    - destruct (ca (a_entry b)); [destruct (a_hash_ok b)|]; try reflexivity; apply (IH a); assumption.
  Qed.

  Theorem mismatch_aborts :
    forall ff ca acc' stored l heads a,
      In a heads -> ca (a_entry a) = true -> a_hash_ok a = false ->
      sync_deliver ff ca acc' stored l heads = (l, false).
  Proof.
    intros. unfold sync_deliver. rewrite (sync_precheck_mismatch ca heads a); auto.
  Qed.

  (** Whatever is announced — forged, tampered, mis-addressed, for another log — the
      invariant survives, held entries stay, and no bad entry, and no entry that is not
      a content-addressed object (a mis-addressed head as such), is in the log after. *)
  Theorem sync_deliver_good :
    forall U ca stored l heads,
      hash_inj U -> store_ok U stored -> lgood U l ->
      let l' := fst (sync_deliver true ca acc stored l heads) in
      lgood U l' /\ lid l' = lid l /\ incl (lents l) (lents l') /\
      forall e, bad l e \/ ~ In e U ->
        ~ In e (lents l') /\ ~ In e (lheads l') /\ ~ In e (values l').
  Proof.
    intros U ca stored l heads HU Hs Hg l'.
    assert (H : lgood U l' /\ lid l' = lid l /\ incl (lents l) (lents l')).
    { unfold l', sync_deliver. destruct (sync_precheck ca heads); cbn [fst].
      - apply merge_fetched_good; auto. apply fetched_heads_incl. exact Hs.
      - split; [exact Hg | split; [reflexivity | apply incl_refl]]. }
    destruct H as [H1 [H2 H3]]. split; [exact H1 | split; [exact H2 | split; [exact H3|]]].
    intros e He.
    assert (HN : forall P : Prop, (P -> In e (lents l') \/ In e (lheads l') \/ In e (values l')) -> ~ P).
    { intros P HP Hp. destruct (lgood_sound U l' e H1 (HP Hp)) as (_ & A & B & C & _).
      destruct He as [[He|He]|He].
      - unfold entry_verify in B. apply N.eqb_eq in B. contradiction.
      - rewrite H2 in C. contradiction.
      - contradiction. }
    repeat split; apply HN; auto.
  Qed.
End Remote.

(** * The write list enforced by the controller types *)

(** a list that names somebody is enforced as it is, by both types *)
Lemma enforced_nonempty t creator W wildcard :
  W <> [] -> enforced_writers t creator W wildcard = W.
Proof. destruct W; [intros H; contradiction H; reflexivity | reflexivity]. Qed.

(** the wildcard adds no identity to the list *)
Lemma enforced_wildcard t creator W : enforced_writers t creator W true = W.
Proof. destruct W; reflexivity. Qed.

(** the empty list: the creator alone (ipfs), nobody (simple) *)
Lemma enforced_empty t creator :
  enforced_writers t creator [] false = match t with ACIpfs => [creator] | ACSimple => [] end.
Proof. reflexivity. Qed.

(** local route, by configuration: whoever is not in the ENFORCED list is refused *)
Lemma local_denied_configured :
  forall bi t creator cW id_key blk l h w o refs e1 l1,
    ~ In w (enforced_writers t creator cW false) ->
    append l h w w w w o refs (acc_of bi (enforced_writers t creator cW false) false id_key blk) = (e1, l1) ->
    e1 = Err EDenied /\ lents l1 = lents l /\ lheads l1 = lheads l /\ lnext l1 = lnext l.
Proof. intros bi t creator cW. apply local_denied. Qed.

(** ipfs controller, empty list: everybody but the creator is refused *)
Lemma local_denied_ipfs_default :
  forall bi creator id_key blk l h w o refs e1 l1,
    w <> creator ->
    append l h w w w w o refs (acc_of bi (enforced_writers ACIpfs creator [] false) false id_key blk) = (e1, l1) ->
    e1 = Err EDenied /\ lents l1 = lents l /\ lheads l1 = lheads l /\ lnext l1 = lnext l.
Proof.
  intros bi creator id_key blk l h w o refs e1 l1 Hw. apply local_denied.
  cbn. intros [H|[]]. apply Hw. symmetry. exact H.
Qed.

(** simple controller, empty (or absent) list: everybody is refused, the creator included *)
Lemma local_denied_simple_empty :
  forall bi creator id_key blk l h w o refs e1 l1,
    append l h w w w w o refs (acc_of bi (enforced_writers ACSimple creator [] false) false id_key blk) = (e1, l1) ->
    e1 = Err EDenied /\ lents l1 = lents l /\ lheads l1 = lheads l /\ lnext l1 = lnext l.
Proof.
  intros bi creator id_key blk l h w o refs e1 l1. apply local_denied. intros [].
Qed.

Lemma nil_of_none {A} (P : A -> Prop) (xs : list A) :
  (forall x, In x xs -> P x) -> (forall x, ~ P x) -> xs = [].
Proof.
  intros H HN. destruct xs as [|x xs]; [reflexivity|].
  exfalso. apply (HN x). apply H. left. reflexivity.
Qed.

(** simple controller, empty list, remote routes: whatever is delivered, a log that starts
    empty stays empty (entries, heads, listing) *)
Lemma simple_empty_stays_empty :
  forall creator id_key blk U id xs,
    hash_inj U -> incl xs U ->
    let l' := merge_fetched true (acc_of true (enforced_writers ACSimple creator [] false) false id_key blk)
                            (empty_log id) xs in
    lents l' = [] /\ lheads l' = [] /\ values l' = [].
Proof.
  intros creator id_key blk U id xs HU Hxs l'.
  destruct (merge_only_authorised (enforced_writers ACSimple creator [] false) false id_key blk
              U (empty_log id) xs HU Hxs (lgood_empty _ _ _ _ U id)) as [_ H].
  fold l' in H.
  assert (HN : forall e, ~ authorised (enforced_writers ACSimple creator [] false) false id_key e).
  { intros e [Hw|[w [[] _]]]. discriminate Hw. }
  repeat split; apply (nil_of_none (authorised (enforced_writers ACSimple creator [] false) false id_key));
    try exact HN; intros e He; apply (H e); auto.
Qed.

(** ipfs controller, empty list, remote routes: every entry that gets in was authored by
    the key endorsed by the creator *)
Lemma ipfs_default_only_creator :
  forall creator id_key blk U l xs,
    hash_inj U -> incl xs U ->
    lgood (enforced_writers ACIpfs creator [] false) false id_key blk U l ->
    let l' := merge_fetched true (acc_of true (enforced_writers ACIpfs creator [] false) false id_key blk) l xs in
    forall e, In e (lents l') \/ In e (lheads l') \/ In e (values l') ->
      entry_verify e = true /\ elog e = lid l /\ author e = id_key creator.
Proof.
  intros creator id_key blk U l xs HU Hxs Hg l' e He.
  destruct (merge_only_authorised _ false id_key blk U l xs HU Hxs Hg) as [_ H].
  destruct (H e He) as (A & B & C). split; [exact A | split; [exact B|]].
  destruct C as [C|[w [[Hw|[]] C]]]; [discriminate C|]. subst w. symmetry. exact C.
Qed.

(** * The pinned commit: refutations by witness *)

(** writer identity 1 (key 1) is the only writer; key 9 belongs to identity 9 *)
Definition w_idkey (i : N) : N := i.

(** an entry naming writer 1 but carrying and signed with key 9 *)
Definition forged : entry := mkEntry 50 7 1 9 [] [] 1 9 9 (OAdd 1).

(** Without the identity binding the forged entry is merged: its author (key 9) is not
    the key of any identity in the write list. *)
Lemma forged_identity_accepted :
  let acc := acc_of false [1%N] false w_idkey (fun _ => true) in
  let l' := join_checked true (empty_log 7) forged acc in
  In forged (lents l') /\ In forged (lheads l') /\ In forged (values l') /\
  ~ authorised [1%N] false w_idkey forged.
Proof.
  cbv zeta. split; [|split; [|split]].
  - vm_compute. auto 6.
  - vm_compute. auto 6.
  - vm_compute. auto 6.
  - intros [H|[w [[H|[]] H2]]]; [discriminate|]. subst w. vm_compute in H2. discriminate.
Qed.

(** with the binding it is refused *)
Lemma forged_identity_refused :
  join_checked true (empty_log 7) forged (acc_of true [1%N] false w_idkey (fun _ => true)) = empty_log 7.
Proof. vm_compute. reflexivity. Qed.

(** a genuine entry of writer 1 for log 8, delivered to log 7 *)
Definition foreign : entry := mkEntry 60 8 1 1 [] [] 1 1 1 (OAdd 2).
Definition held : entry := mkEntry 40 7 1 1 [] [] 1 1 1 (OAdd 1).
Definition log7 : log := mkLog 7 [held] [held] [] 1.

(** Without the store-side filter the foreign entry becomes a head and is listed,
    although it never enters the entry set (so it is never access- or signature-checked:
    [acc] below refuses everything). *)
Lemma foreign_log_becomes_head :
  let l' := join_checked false log7 foreign (fun _ => false) in
  elog foreign <> lid log7 /\
  In foreign (lheads l') /\ In foreign (values l') /\ ~ In foreign (lents l').
Proof.
  cbv zeta. split; [|split; [|split]].
  - vm_compute. discriminate.
  - vm_compute. auto 6.
  - vm_compute. auto 6.
  - vm_compute. intros [H|[]]. discriminate.
Qed.

Lemma foreign_log_filtered :
  join_checked true log7 foreign (fun _ => false) = log7.
Proof. vm_compute. reflexivity. Qed.

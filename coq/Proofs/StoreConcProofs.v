(** Proofs for one store with local writers running concurrently with the replication
    merger ([Model/StoreConc.v]): C16 (store part), C06/C07 corollary. *)
From Orbit Require Import Spec.Statements Proofs.ReplayProofs.
From Coq Require Import Permutation.
Local Open Scope nat_scope.

(** * Program counter lists *)

Lemma sset_pc_cons0 p x t : sset_pc 0 p (x :: t) = p :: t.
Proof. reflexivity. Qed.

Lemma sset_pc_consS i p x t : sset_pc (S i) p (x :: t) = x :: sset_pc i p t.
Proof. reflexivity. Qed.

Lemma nth_sset :
  forall l i p j, i < length l ->
    nth_error (sset_pc i p l) j = if Nat.eqb j i then Some p else nth_error l j.
Proof.
  induction l as [|a l IH]; intros i p j Hi; simpl in Hi; [lia|].
  destruct i as [|i].
  - rewrite sset_pc_cons0. destruct j; reflexivity.
  - rewrite sset_pc_consS. destruct j as [|j]; simpl; [reflexivity|].
    apply IH. lia.
Qed.

Lemma sset_pc_length : forall l i p, length (sset_pc i p l) = length l.
Proof.
  induction l as [|a l IH]; intros i p.
  - destruct i; reflexivity.
  - destruct i as [|i]; [reflexivity|]. rewrite sset_pc_consS. simpl. f_equal. apply IH.
Qed.

Lemma nth_lt {A} (l : list A) i x : nth_error l i = Some x -> i < length l.
Proof. intros H. apply nth_error_Some. congruence. Qed.

(** a program counter of the updated list is the new one (at [i]) or an old one *)
Lemma nth_sset_inv :
  forall l i p j q, i < length l -> nth_error (sset_pc i p l) j = Some q ->
    (j = i /\ q = p) \/ (j <> i /\ nth_error l j = Some q).
Proof.
  intros l i p j q Hi H. rewrite nth_sset in H by exact Hi.
  destruct (Nat.eqb_spec j i) as [->|Hne].
  - left. split; [reflexivity | congruence].
  - right. split; assumption.
Qed.

Lemma nth_sset_same l i p : i < length l -> nth_error (sset_pc i p l) i = Some p.
Proof. intros Hi. rewrite nth_sset by exact Hi. rewrite Nat.eqb_refl. reflexivity. Qed.

Lemma nth_sset_other l i p j : i < length l -> j <> i -> nth_error (sset_pc i p l) j = nth_error l j.
Proof.
  intros Hi Hne. rewrite nth_sset by exact Hi.
  destruct (Nat.eqb_spec j i); [contradiction | reflexivity].
Qed.

(** * The steps *)

Lemma sstep_cases ser s l s' :
  sstep ser s l = Some s' ->
  (exists p, nth_error (s_pcs s) l = Some p /\ wstep_at ser s l p = Some s') \/
  (nth_error (s_pcs s) l = None /\ l = length (s_pcs s) /\ mstep ser s = Some s').
Proof.
  unfold sstep. destruct (nth_error (s_pcs s) l) as [p|] eqn:E.
  - intros H. left. exists p. split; [reflexivity | exact H].
  - destruct (Nat.eqb_spec l (length (s_pcs s))) as [->|]; [|discriminate].
    intros H. right. repeat split; assumption.
Qed.

Lemma srun_app ser a b s : srun ser (a ++ b) s = srun ser b (srun ser a s).
Proof. unfold srun. apply fold_left_app. Qed.

Lemma srun_cons ser l r s :
  srun ser (l :: r) s = srun ser r (match sstep ser s l with Some s' => s' | None => s end).
Proof. reflexivity. Qed.

(** induction principle: a property of the initial state preserved by every step holds
    after every run *)
Lemma srun_ind ser (P : sst -> Prop) :
  (forall s l s', P s -> sstep ser s l = Some s' -> P s') ->
  forall sched s, P s -> P (srun ser sched s).
Proof.
  intros Hstep. induction sched as [|l r IH]; intros s Hs; [exact Hs|].
  rewrite srun_cons. apply IH. destruct (sstep ser s l) as [s'|] eqn:E; [|exact Hs].
  exact (Hstep _ _ _ Hs E).
Qed.

(** * Invariant 1: the index mutex makes rebuilds exclusive, so the view only grows *)

Definition is_mread (p : smpc) : bool := match p with SMRead _ _ => true | _ => false end.

Record inv1 (s : sst) : Prop := {
  i_vl : incl (s_view s) (s_log s);
  i_free : s_ilock s = false ->
           (forall i sn, nth_error (s_pcs s) i <> Some (SWRead sn)) /\ is_mread (s_mpc s) = false;
  i_uw : forall i j sn sn', nth_error (s_pcs s) i = Some (SWRead sn) ->
                            nth_error (s_pcs s) j = Some (SWRead sn') -> i = j;
  i_um : forall i sn, nth_error (s_pcs s) i = Some (SWRead sn) -> is_mread (s_mpc s) = false;
  i_sw : forall i sn, nth_error (s_pcs s) i = Some (SWRead sn) ->
                      incl (s_view s) sn /\ incl sn (s_log s);
  i_sm : forall b sn, s_mpc s = SMRead b sn -> incl (s_view s) sn /\ incl sn (s_log s)
}.

Lemma inv1_init n batches : inv1 (sinit n batches).
Proof.
  constructor; simpl.
  - intros x [].
  - intros _. split; [|reflexivity]. intros i sn H.
    apply nth_error_In in H. apply repeat_spec in H. discriminate.
  - intros i j sn sn' H. apply nth_error_In in H. apply repeat_spec in H. discriminate.
  - reflexivity.
  - intros i sn H. apply nth_error_In in H. apply repeat_spec in H. discriminate.
  - discriminate.
Qed.

(** a reader of the updated list, when the new program counter is not a read, is an old reader *)
Lemma reader_old l i p j sn :
  i < length l -> (forall sn', p <> SWRead sn') ->
  nth_error (sset_pc i p l) j = Some (SWRead sn) -> j <> i /\ nth_error l j = Some (SWRead sn).
Proof.
  intros Hi Hp H. destruct (nth_sset_inv _ _ _ _ _ Hi H) as [[_ E] | [Hne E]].
  - exfalso. exact (Hp sn (eq_sym E)).
  - split; assumption.
Qed.

(** writer step that neither reads nor applies: pcs change at [i] between non-read program
    counters, view and the index lock stay, the log may grow *)
Lemma inv1_writer_plain s i p p' s' :
  inv1 s -> nth_error (s_pcs s) i = Some p ->
  (forall sn, p' <> SWRead sn) ->
  s_pcs s' = sset_pc i p' (s_pcs s) -> s_mpc s' = s_mpc s ->
  s_view s' = s_view s -> s_ilock s' = s_ilock s -> incl (s_log s) (s_log s') ->
  inv1 s'.
Proof.
  intros I En Hp' Epcs Empc Ev Ei Hl. pose proof (nth_lt _ _ _ En) as Hi.
  constructor; rewrite ?Epcs, ?Empc, ?Ev, ?Ei.
  - eapply incl_tran; [apply (i_vl _ I) | exact Hl].
  - intros Hf. destruct (i_free _ I Hf) as [Hnr Hm]. split; [|exact Hm].
    intros j sn H. apply reader_old in H; [|exact Hi|exact Hp']. destruct H as [_ H].
    exact (Hnr _ _ H).
  - intros j k sn sn' Hj Hk.
    apply reader_old in Hj; [|exact Hi|exact Hp']. apply reader_old in Hk; [|exact Hi|exact Hp'].
    exact (i_uw _ I _ _ _ _ (proj2 Hj) (proj2 Hk)).
  - intros j sn Hj. apply reader_old in Hj; [|exact Hi|exact Hp'].
    exact (i_um _ I _ _ (proj2 Hj)).
  - intros j sn Hj. apply reader_old in Hj; [|exact Hi|exact Hp'].
    destruct (i_sw _ I _ _ (proj2 Hj)) as [A B]. split; [exact A|].
    eapply incl_tran; [exact B | exact Hl].
  - intros b sn Hm. destruct (i_sm _ I _ _ Hm) as [A B]. split; [exact A|].
    eapply incl_tran; [exact B | exact Hl].
Qed.

(** merger step that neither reads nor applies *)
Lemma inv1_merger_plain s s' :
  inv1 s -> is_mread (s_mpc s) = false -> is_mread (s_mpc s') = false ->
  s_pcs s' = s_pcs s -> s_view s' = s_view s -> s_ilock s' = s_ilock s ->
  incl (s_log s) (s_log s') -> inv1 s'.
Proof.
  intros I Hm Hm' Epcs Ev Ei Hl.
  constructor; rewrite ?Epcs, ?Ev, ?Ei.
  - eapply incl_tran; [apply (i_vl _ I) | exact Hl].
  - intros Hf. split; [exact (proj1 (i_free _ I Hf)) | exact Hm'].
  - exact (i_uw _ I).
  - intros; exact Hm'.
  - intros j sn Hj. destruct (i_sw _ I _ _ Hj) as [A B]. split; [exact A|].
    eapply incl_tran; [exact B | exact Hl].
  - intros b sn E. rewrite E in Hm'. discriminate.
Qed.

Lemma inv1_step s l s' :
  inv1 s -> sstep true s l = Some s' ->
  inv1 s' /\ incl (s_view s) (s_view s') /\ incl (s_log s) (s_log s').
Proof.
  intros I H. apply sstep_cases in H.
  destruct H as [[p [En H]] | [_ [_ H]]].
  - (* writer [l] *)
    pose proof (nth_lt _ _ _ En) as Hi.
    destruct p; simpl in H.
    + (* append *)
      destruct (s_wlock s); [discriminate|]. injection H as <-.
      split; [|split; [apply incl_refl | apply incl_appl, incl_refl]].
      eapply inv1_writer_plain with (p' := SWAppended); try exact En; try reflexivity; try exact I.
      * discriminate.
      * simpl. apply incl_appl, incl_refl.
    + (* persist *)
      injection H as <-.
      split; [|split; apply incl_refl].
      eapply inv1_writer_plain with (p' := SWPersisted); try exact En; try reflexivity; try exact I.
      * discriminate.
      * apply incl_refl.
    + (* read *)
      destruct (s_ilock s) eqn:Hil; [discriminate|]. injection H as <-.
      split; [|split; apply incl_refl].
      destruct (i_free _ I Hil) as [Hnr Hm].
      assert (Hold : forall j sn, nth_error (sset_pc l (SWRead (s_log s)) (s_pcs s)) j = Some (SWRead sn) ->
                                  j = l /\ sn = s_log s).
      { intros j sn Hj. destruct (nth_sset_inv _ _ _ _ _ Hi Hj) as [[-> E] | [_ E]].
        - split; [reflexivity | congruence].
        - exfalso. exact (Hnr _ _ E). }
      constructor; simpl.
      * apply (i_vl _ I).
      * discriminate.
      * intros j k sn sn' Hj Hk. destruct (Hold _ _ Hj) as [-> _]. destruct (Hold _ _ Hk) as [-> _].
        reflexivity.
      * intros; exact Hm.
      * intros j sn Hj. destruct (Hold _ _ Hj) as [_ ->]. split; [apply (i_vl _ I) | apply incl_refl].
      * intros b sn E. rewrite E in Hm. discriminate.
    + (* apply *)
      injection H as <-. simpl.
      destruct (i_sw _ I _ _ En) as [Hvs Hsl].
      split; [|split; [exact Hvs | apply incl_refl]].
      assert (Hnone : forall j sn', nth_error (sset_pc l SWApplied (s_pcs s)) j <> Some (SWRead sn')).
      { intros j sn' Hj. apply reader_old in Hj; [|exact Hi|discriminate].
        destruct Hj as [Hne Hj]. apply Hne. exact (i_uw _ I _ _ _ _ Hj En). }
      constructor; simpl.
      * exact Hsl.
      * intros _. split; [exact Hnone | exact (i_um _ I _ _ En)].
      * intros j k sn0 sn' Hj. exfalso. exact (Hnone _ _ Hj).
      * intros j sn0 Hj. exfalso. exact (Hnone _ _ Hj).
      * intros j sn0 Hj. exfalso. exact (Hnone _ _ Hj).
      * intros b sn0 E. pose proof (i_um _ I _ _ En) as Hm. rewrite E in Hm. discriminate.
    + (* unlock *)
      injection H as <-.
      split; [|split; apply incl_refl].
      eapply inv1_writer_plain with (p' := SWUnlocked); try exact En; try reflexivity; try exact I.
      * discriminate.
      * apply incl_refl.
    + (* emit *)
      injection H as <-.
      split; [|split; apply incl_refl].
      eapply inv1_writer_plain with (p' := SWDone); try exact En; try reflexivity; try exact I.
      * discriminate.
      * apply incl_refl.
    + discriminate.
  - (* merger *)
    unfold mstep in H. destruct (s_mpc s) as [|b|b sn|b|b] eqn:Em.
    + destruct (s_todo s) as [|b rest]; [discriminate|].
      destruct (s_jlock s); [discriminate|]. injection H as <-.
      split; [|split; [apply incl_refl | apply incl_appl, incl_refl]].
      apply (inv1_merger_plain s); try reflexivity; try exact I.
      * rewrite Em. reflexivity.
      * simpl. apply incl_appl, incl_refl.
    + (* read *)
      simpl in H. destruct (s_ilock s) eqn:Hil; [discriminate|]. injection H as <-.
      split; [|split; apply incl_refl].
      destruct (i_free _ I Hil) as [Hnr _].
      constructor; simpl.
      * apply (i_vl _ I).
      * discriminate.
      * intros j k sn sn' Hj. exfalso. exact (Hnr _ _ Hj).
      * intros j sn Hj. exfalso. exact (Hnr _ _ Hj).
      * intros j sn Hj. exfalso. exact (Hnr _ _ Hj).
      * intros b0 sn E. injection E as _ <-. split; [apply (i_vl _ I) | apply incl_refl].
    + (* apply *)
      injection H as <-. simpl.
      destruct (i_sm _ I _ _ Em) as [Hvs Hsl].
      split; [|split; [exact Hvs | apply incl_refl]].
      assert (Hnone : forall j sn', nth_error (s_pcs s) j <> Some (SWRead sn')).
      { intros j sn' Hj. pose proof (i_um _ I _ _ Hj) as Hm. rewrite Em in Hm. discriminate. }
      constructor; simpl.
      * exact Hsl.
      * intros _. split; [exact Hnone | reflexivity].
      * intros j k sn0 sn' Hj. exfalso. exact (Hnone _ _ Hj).
      * reflexivity.
      * intros j sn0 Hj. exfalso. exact (Hnone _ _ Hj).
      * discriminate.
    + injection H as <-.
      split; [|split; apply incl_refl].
      apply (inv1_merger_plain s); try reflexivity; try exact I.
      * rewrite Em. reflexivity.
      * apply incl_refl.
    + injection H as <-.
      split; [|split; apply incl_refl].
      apply (inv1_merger_plain s); try reflexivity; try exact I.
      * rewrite Em. reflexivity.
      * apply incl_refl.
Qed.

Lemma inv1_run sched : forall s, inv1 s -> inv1 (srun true sched s).
Proof.
  apply srun_ind. intros s l s' I H. exact (proj1 (inv1_step _ _ _ I H)).
Qed.

Lemma mono_run :
  forall sched s, inv1 s ->
    incl (s_view s) (s_view (srun true sched s)) /\ incl (s_log s) (s_log (srun true sched s)).
Proof.
  induction sched as [|l r IH]; intros s I.
  - split; apply incl_refl.
  - rewrite srun_cons. destruct (sstep true s l) as [s'|] eqn:E.
    + destruct (inv1_step _ _ _ I E) as [I' [Hv Hl]].
      destruct (IH s' I') as [Hv' Hl'].
      split; eapply incl_tran; eassumption.
    + apply IH. exact I.
Qed.

Lemma storeconc_view_monotone : S_storeconc_view_monotone.
Proof.
  unfold S_storeconc_view_monotone. intros n batches sched1 sched2. simpl.
  pose proof (inv1_run sched1 _ (inv1_init n batches)) as I.
  split; [apply (i_vl _ I)|]. apply mono_run. exact I.
Qed.

(** * Invariant 2: what each thread has appended is where its program counter says *)

Definition wobl (s : sst) (i : nat) (p : swpc) : Prop :=
  match p with
  | SWStart => True
  | SWAppended | SWPersisted => In i (s_log s)
  | SWRead sn => In i sn
  | SWApplied | SWUnlocked | SWDone => In i (s_view s)
  end.

Definition mobl (s : sst) (p : smpc) : Prop :=
  match p with
  | SMIdle => True
  | SMJoined b => incl b (s_log s)
  | SMRead b sn => incl b sn
  | SMApplied b | SMPersisted b => incl b (s_view s)
  end.

Record inv2 (s : sst) : Prop := {
  j_w : forall i p, nth_error (s_pcs s) i = Some p -> wobl s i p;
  j_m : mobl s (s_mpc s);
  j_ev : forall ev, In ev (s_events s) -> incl (ev_entries ev) (s_view s)
}.

Lemma wobl_mono s s' i p :
  incl (s_view s) (s_view s') -> incl (s_log s) (s_log s') -> wobl s i p -> wobl s' i p.
Proof. intros Hv Hl. destruct p; simpl; auto. Qed.

Lemma mobl_mono s s' p :
  incl (s_view s) (s_view s') -> incl (s_log s) (s_log s') -> mobl s p -> mobl s' p.
Proof.
  intros Hv Hl. destruct p; simpl; auto; intros H; eapply incl_tran; eassumption.
Qed.

Lemma inv2_init n batches : inv2 (sinit n batches).
Proof.
  constructor; simpl.
  - intros i p H. apply nth_error_In in H. apply repeat_spec in H. subst p. exact I.
  - exact I.
  - intros ev [].
Qed.

Lemma inv2_writer s s' l p p' :
  inv2 s -> incl (s_view s) (s_view s') -> incl (s_log s) (s_log s') ->
  nth_error (s_pcs s) l = Some p -> s_pcs s' = sset_pc l p' (s_pcs s) -> s_mpc s' = s_mpc s ->
  wobl s' l p' ->
  (forall ev, In ev (s_events s') -> In ev (s_events s) \/ incl (ev_entries ev) (s_view s')) ->
  inv2 s'.
Proof.
  intros J Hv Hl En Epcs Empc Hnew Hev. pose proof (nth_lt _ _ _ En) as Hi.
  constructor.
  - intros j q Hj. rewrite Epcs in Hj.
    destruct (nth_sset_inv _ _ _ _ _ Hi Hj) as [[-> ->] | [_ E]]; [exact Hnew|].
    eapply wobl_mono; [exact Hv | exact Hl | exact (j_w _ J _ _ E)].
  - rewrite Empc. eapply mobl_mono; [exact Hv | exact Hl | exact (j_m _ J)].
  - intros ev Hin. destruct (Hev ev Hin) as [Hold | Hnew']; [|exact Hnew'].
    eapply incl_tran; [exact (j_ev _ J _ Hold) | exact Hv].
Qed.

Lemma inv2_merger s s' :
  inv2 s -> incl (s_view s) (s_view s') -> incl (s_log s) (s_log s') ->
  s_pcs s' = s_pcs s -> mobl s' (s_mpc s') ->
  (forall ev, In ev (s_events s') -> In ev (s_events s) \/ incl (ev_entries ev) (s_view s')) ->
  inv2 s'.
Proof.
  intros J Hv Hl Epcs Hnew Hev.
  constructor.
  - intros j q Hj. rewrite Epcs in Hj.
    eapply wobl_mono; [exact Hv | exact Hl | exact (j_w _ J _ _ Hj)].
  - exact Hnew.
  - intros ev Hin. destruct (Hev ev Hin) as [Hold | Hnew']; [|exact Hnew'].
    eapply incl_tran; [exact (j_ev _ J _ Hold) | exact Hv].
Qed.

Lemma inv2_step s l s' :
  inv1 s -> inv2 s -> sstep true s l = Some s' -> inv2 s'.
Proof.
  intros I J H. destruct (inv1_step _ _ _ I H) as [_ [Hv Hl]].
  apply sstep_cases in H. destruct H as [[p [En H]] | [_ [_ H]]].
  - pose proof (j_w _ J _ _ En) as Hold.
    destruct p; simpl in H.
    + destruct (s_wlock s); [discriminate|]. injection H as <-.
      eapply inv2_writer with (p' := SWAppended); try exact En; try reflexivity; try assumption.
      * simpl. apply in_or_app. right. left. reflexivity.
      * simpl. intros ev Hin. left. exact Hin.
    + injection H as <-.
      eapply inv2_writer with (p' := SWPersisted); try exact En; try reflexivity; try assumption.
      simpl. intros ev Hin. left. exact Hin.
    + destruct (s_ilock s); [discriminate|]. injection H as <-.
      eapply inv2_writer with (p' := SWRead (s_log s)); try exact En; try reflexivity; try assumption.
      simpl. intros ev Hin. left. exact Hin.
    + injection H as <-.
      eapply inv2_writer with (p' := SWApplied); try exact En; try reflexivity; try assumption.
      simpl. intros ev Hin. left. exact Hin.
    + injection H as <-.
      eapply inv2_writer with (p' := SWUnlocked); try exact En; try reflexivity; try assumption.
      simpl. intros ev Hin. left. exact Hin.
    + injection H as <-.
      eapply inv2_writer with (p' := SWDone); try exact En; try reflexivity; try assumption.
      simpl. intros ev Hin. apply in_app_or in Hin. destruct Hin as [Hin | [<- | []]].
      * left. exact Hin.
      * right. simpl. intros x [<- | []]. exact Hold.
    + discriminate.
  - pose proof (j_m _ J) as Hold.
    unfold mstep in H. destruct (s_mpc s) as [|b|b sn|b|b] eqn:Em.
    + destruct (s_todo s) as [|b rest]; [discriminate|].
      destruct (s_jlock s); [discriminate|]. injection H as <-.
      apply (inv2_merger s); try reflexivity; try assumption.
      * simpl. apply incl_appr, incl_refl.
      * simpl. intros ev Hin. left. exact Hin.
    + simpl in H. destruct (s_ilock s); [discriminate|]. injection H as <-.
      apply (inv2_merger s); try reflexivity; try assumption.
      simpl. intros ev Hin. left. exact Hin.
    + injection H as <-.
      apply (inv2_merger s); try reflexivity; try assumption.
      simpl. intros ev Hin. left. exact Hin.
    + injection H as <-.
      apply (inv2_merger s); try reflexivity; try assumption.
      simpl. intros ev Hin. left. exact Hin.
    + injection H as <-.
      apply (inv2_merger s); try reflexivity; try assumption.
      simpl. intros ev Hin. apply in_app_or in Hin. destruct Hin as [Hin | [<- | []]].
      * left. exact Hin.
      * right. exact Hold.
Qed.

Lemma inv12_run sched : forall s, inv1 s /\ inv2 s -> inv1 (srun true sched s) /\ inv2 (srun true sched s).
Proof.
  apply (srun_ind true (fun s => inv1 s /\ inv2 s)). intros s l s' [I J] H.
  split; [exact (proj1 (inv1_step _ _ _ I H)) | exact (inv2_step _ _ _ I J H)].
Qed.

(** emitted events stay emitted *)
Lemma events_step ser s l s' ev :
  sstep ser s l = Some s' -> In ev (s_events s) -> In ev (s_events s').
Proof.
  intros H Hin. apply sstep_cases in H. destruct H as [[p [_ H]] | [_ [_ H]]].
  - destruct p; simpl in H;
      repeat match type of H with (if ?b then _ else _) = _ => destruct b end;
      try discriminate; injection H as <-; simpl; try exact Hin.
    apply in_or_app. left. exact Hin.
  - unfold mstep in H. destruct (s_mpc s); [destruct (s_todo s)|..]; simpl in H;
      repeat match type of H with (if ?b then _ else _) = _ => destruct b end;
      try discriminate; injection H as <-; simpl; try exact Hin.
    apply in_or_app. left. exact Hin.
Qed.

Lemma events_run ser ev : forall sched s, In ev (s_events s) -> In ev (s_events (srun ser sched s)).
Proof.
  intros sched. apply (srun_ind ser (fun s => In ev (s_events s))).
  intros s l s' Hin H. exact (events_step _ _ _ _ _ H Hin).
Qed.

Lemma storeconc_events_never_ahead : S_storeconc_events_never_ahead.
Proof.
  unfold S_storeconc_events_never_ahead. intros n batches sched1 sched2. simpl. intros ev Hin.
  destruct (inv12_run sched1 _ (conj (inv1_init n batches) (inv2_init n batches))) as [I J].
  pose proof (j_ev _ J _ Hin) as Hnow.
  split; [exact Hnow|]. split; [apply events_run; exact Hin|].
  eapply incl_tran; [exact Hnow | exact (proj1 (mono_run sched2 _ I))].
Qed.

(** * Invariant 3: bookkeeping of events, batches and the origin of log entries
    (holds with either switch value) *)

Definition cnt_of (o : option swpc) : nat := match o with Some SWDone => 1 | _ => 0 end.

Record inv3 (n : nat) (batches : list (list nat)) (s : sst) : Prop := {
  k_len : length (s_pcs s) = n;
  k_log : forall x, In x (s_log s) ->
                    (exists p, nth_error (s_pcs s) x = Some p /\ p <> SWStart) \/
                    In x (concat (revents (s_events s) ++ mcur (s_mpc s)));
  k_cnt : forall i, count_occ Nat.eq_dec (wevents (s_events s)) i = cnt_of (nth_error (s_pcs s) i);
  k_bat : revents (s_events s) ++ mcur (s_mpc s) ++ s_todo s = batches
}.

Lemma inv3_init n batches : inv3 n batches (sinit n batches).
Proof.
  constructor; simpl.
  - apply repeat_length.
  - intros x [].
  - intros i. destruct (nth_error (repeat SWStart n) i) as [p|] eqn:E; [|reflexivity].
    apply nth_error_In in E. apply repeat_spec in E. subst p. reflexivity.
  - reflexivity.
Qed.

Lemma wevents_app a b : wevents (a ++ b) = wevents a ++ wevents b.
Proof. apply flat_map_app. Qed.
Lemma revents_app a b : revents (a ++ b) = revents a ++ revents b.
Proof. apply flat_map_app. Qed.

(** a writer step other than the emit: events unchanged, program counter [l] goes from a
    non-final value to a non-initial, non-final one *)
Lemma inv3_writer n batches s s' l p p' :
  inv3 n batches s -> nth_error (s_pcs s) l = Some p -> p <> SWDone -> p' <> SWStart -> p' <> SWDone ->
  s_pcs s' = sset_pc l p' (s_pcs s) -> s_mpc s' = s_mpc s -> s_todo s' = s_todo s ->
  s_events s' = s_events s ->
  (forall x, In x (s_log s') -> In x (s_log s) \/ x = l) ->
  inv3 n batches s'.
Proof.
  intros K En Hp Hp's Hp'd Epcs Empc Etodo Eev Hlog. pose proof (nth_lt _ _ _ En) as Hi.
  constructor; rewrite ?Epcs, ?Empc, ?Etodo, ?Eev.
  - rewrite sset_pc_length. exact (k_len _ _ _ K).
  - intros x Hx. destruct (Nat.eq_dec x l) as [->|Hne].
    + left. exists p'. split; [apply nth_sset_same; exact Hi | exact Hp's].
    + destruct (Hlog x Hx) as [Hold | ->]; [|contradiction].
      destruct (k_log _ _ _ K x Hold) as [[q [Eq Hq]] | Hr].
      * left. exists q. split; [rewrite nth_sset_other; assumption | exact Hq].
      * right. exact Hr.
  - intros i. rewrite (k_cnt _ _ _ K). destruct (Nat.eq_dec i l) as [->|Hne].
    + rewrite nth_sset_same by exact Hi. rewrite En. simpl.
      destruct p; try contradiction; destruct p'; try contradiction; reflexivity.
    + rewrite nth_sset_other by assumption. reflexivity.
  - exact (k_bat _ _ _ K).
Qed.

(** a merger step other than join and emit *)
Lemma inv3_merger n batches s s' :
  inv3 n batches s -> mcur (s_mpc s') = mcur (s_mpc s) ->
  s_pcs s' = s_pcs s -> s_todo s' = s_todo s -> s_events s' = s_events s -> s_log s' = s_log s ->
  inv3 n batches s'.
Proof.
  intros K Ecur Epcs Etodo Eev Elog.
  constructor; rewrite ?Epcs, ?Ecur, ?Etodo, ?Eev, ?Elog; apply K.
Qed.

Lemma inv3_step ser n batches s l s' :
  inv3 n batches s -> sstep ser s l = Some s' -> inv3 n batches s'.
Proof.
  intros K H. apply sstep_cases in H. destruct H as [[p [En H]] | [_ [_ H]]].
  - pose proof (nth_lt _ _ _ En) as Hi.
    destruct p; simpl in H.
    + destruct (s_wlock s); [discriminate|]. injection H as <-.
      eapply inv3_writer with (p' := SWAppended); try exact En; try reflexivity; try exact K; try discriminate.
      simpl. intros x Hx. apply in_app_or in Hx. destruct Hx as [Hx | [<- | []]]; auto.
    + injection H as <-.
      eapply inv3_writer with (p' := SWPersisted); try exact En; try reflexivity; try exact K; try discriminate.
      simpl. auto.
    + destruct (ser && s_ilock s); [discriminate|]. injection H as <-.
      eapply inv3_writer with (p' := SWRead (s_log s)); try exact En; try reflexivity; try exact K; try discriminate.
      simpl. auto.
    + injection H as <-.
      eapply inv3_writer with (p' := SWApplied); try exact En; try reflexivity; try exact K; try discriminate.
      simpl. auto.
    + injection H as <-.
      eapply inv3_writer with (p' := SWUnlocked); try exact En; try reflexivity; try exact K; try discriminate.
      simpl. auto.
    + (* emit *)
      injection H as <-. constructor; simpl.
      * rewrite sset_pc_length. exact (k_len _ _ _ K).
      * intros x Hx. rewrite revents_app. simpl. rewrite app_nil_r.
        destruct (k_log _ _ _ K x Hx) as [[q [Eq Hq]] | Hr]; [|right; exact Hr].
        left. destruct (Nat.eq_dec x l) as [->|Hne].
        -- exists SWDone. split; [apply nth_sset_same; exact Hi | discriminate].
        -- exists q. split; [rewrite nth_sset_other; assumption | exact Hq].
      * intros i. rewrite wevents_app, count_occ_app, (k_cnt _ _ _ K). simpl.
        destruct (Nat.eq_dec l i) as [<-|Hne].
        -- rewrite nth_sset_same by exact Hi. rewrite En. reflexivity.
        -- rewrite nth_sset_other by (try exact Hi; intros E; apply Hne; symmetry; exact E). lia.
      * rewrite revents_app. simpl. rewrite app_nil_r. exact (k_bat _ _ _ K).
    + discriminate.
  - unfold mstep in H. destruct (s_mpc s) as [|b|b sn|b|b] eqn:Em.
    + (* join *)
      destruct (s_todo s) as [|b rest] eqn:Et; [discriminate|].
      destruct (s_jlock s); [discriminate|]. injection H as <-.
      pose proof (k_bat _ _ _ K) as Hb. rewrite Em, Et in Hb. simpl in Hb.
      constructor; simpl.
      * exact (k_len _ _ _ K).
      * intros x Hx. apply in_app_or in Hx. destruct Hx as [Hx | Hx].
        -- destruct (k_log _ _ _ K x Hx) as [Hl | Hr]; [left; exact Hl|].
           right. rewrite Em in Hr. simpl in Hr. rewrite app_nil_r in Hr.
           rewrite concat_app. apply in_or_app. left. exact Hr.
        -- right. rewrite concat_app. apply in_or_app. right. simpl. rewrite app_nil_r. exact Hx.
      * exact (k_cnt _ _ _ K).
      * exact Hb.
    + destruct (ser && s_ilock s); [discriminate|]. injection H as <-.
      apply (inv3_merger n batches s); try reflexivity; try exact K.
      simpl. rewrite Em. reflexivity.
    + injection H as <-.
      apply (inv3_merger n batches s); try reflexivity; try exact K.
      simpl. rewrite Em. reflexivity.
    + injection H as <-.
      apply (inv3_merger n batches s); try reflexivity; try exact K.
      simpl. rewrite Em. reflexivity.
    + (* emit *)
      injection H as <-.
      pose proof (k_bat _ _ _ K) as Hb. rewrite Em in Hb. simpl in Hb.
      constructor; simpl.
      * exact (k_len _ _ _ K).
      * intros x Hx. destruct (k_log _ _ _ K x Hx) as [Hl | Hr]; [left; exact Hl|].
        right. rewrite Em in Hr. simpl in Hr. rewrite revents_app. simpl.
        rewrite app_nil_r. exact Hr.
      * intros i. rewrite wevents_app, count_occ_app, (k_cnt _ _ _ K). simpl. lia.
      * rewrite revents_app. simpl. rewrite <- app_assoc. exact Hb.
Qed.

Lemma inv3_run ser n batches sched : forall s, inv3 n batches s -> inv3 n batches (srun ser sched s).
Proof. apply srun_ind. intros s l s' K H. exact (inv3_step _ _ _ _ _ _ K H). Qed.

Lemma cnt_of_done o : cnt_of o = 1 -> o = Some SWDone.
Proof. destruct o as [[]|]; simpl; intros H; try discriminate; reflexivity. Qed.

Lemma revents_In b evs : In b (revents evs) -> In (SEvReplicated b) evs.
Proof.
  unfold revents. intros H. apply in_flat_map in H. destruct H as [ev [Hin Hb]].
  destruct ev as [e|b']; simpl in Hb; [destruct Hb|]. destruct Hb as [<- | []]. exact Hin.
Qed.

Lemma storeconc_events_exactly_once : S_storeconc_events_exactly_once.
Proof.
  unfold S_storeconc_events_exactly_once. intros n batches sched. simpl.
  destruct (inv12_run sched _ (conj (inv1_init n batches) (inv2_init n batches))) as [I J].
  pose proof (inv3_run true n batches sched _ (inv3_init n batches)) as K.
  set (s := srun true sched (sinit n batches)) in *.
  split; [|split; [|split]].
  - intros i Hi. unfold w_emitted in Hi. rewrite (k_cnt _ _ _ K), Hi. reflexivity.
  - intros i Hi. unfold w_emitted in Hi. rewrite (k_cnt _ _ _ K).
    destruct (nth_error (s_pcs s) i) as [[]|]; try reflexivity. exfalso. apply Hi. reflexivity.
  - intros i Hin. apply (count_occ_In Nat.eq_dec) in Hin. rewrite (k_cnt _ _ _ K) in Hin.
    assert (E : nth_error (s_pcs s) i = Some SWDone).
    { apply cnt_of_done. destruct (nth_error (s_pcs s) i) as [[]|]; simpl in *; try lia. }
    split.
    + exists SWDone. split; [exact E | discriminate].
    + apply (i_vl _ I). exact (j_w _ J _ _ E).
  - exact (k_bat _ _ _ K).
Qed.

Lemma storeconc_complete_at_rest : S_storeconc_complete_at_rest.
Proof.
  unfold S_storeconc_complete_at_rest. intros n batches sched. simpl.
  destruct (inv12_run sched _ (conj (inv1_init n batches) (inv2_init n batches))) as [I J].
  pose proof (inv3_run true n batches sched _ (inv3_init n batches)) as K.
  set (s := srun true sched (sinit n batches)) in *.
  intros [Hpcs [Hm Ht]].
  pose proof (k_bat _ _ _ K) as Hb. rewrite Hm, Ht in Hb. simpl in Hb. rewrite app_nil_r in Hb.
  assert (Hw : forall x, x < n -> nth_error (s_pcs s) x = Some SWDone).
  { intros x Hx. rewrite <- (k_len _ _ _ K) in Hx.
    destruct (nth_error (s_pcs s) x) as [p|] eqn:E.
    - rewrite (Hpcs p (nth_error_In _ _ E)). reflexivity.
    - apply nth_error_None in E. lia. }
  assert (Hbv : forall x, In x (concat (revents (s_events s))) -> In x (s_view s)).
  { intros x Hx. apply in_concat in Hx. destruct Hx as [b [Hbin Hxb]].
    apply revents_In in Hbin. exact (j_ev _ J _ Hbin x Hxb). }
  assert (Hlv : forall x, In x (s_log s) -> In x (s_view s)).
  { intros x Hx. destruct (k_log _ _ _ K x Hx) as [[p [E _]] | Hr].
    - pose proof (Hpcs p (nth_error_In _ _ E)) as ->. exact (j_w _ J _ _ E).
    - rewrite Hm in Hr. simpl in Hr. rewrite app_nil_r in Hr. exact (Hbv x Hr). }
  split; [|split; [|split]].
  - intros x. split; [apply (i_vl _ I) | apply Hlv].
  - intros x. split.
    + intros Hx. destruct (k_log _ _ _ K x Hx) as [[p [E _]] | Hr].
      * left. rewrite <- (k_len _ _ _ K). exact (nth_lt _ _ _ E).
      * right. rewrite Hm in Hr. simpl in Hr. rewrite app_nil_r in Hr. rewrite <- Hb. exact Hr.
    + intros [Hx | Hx].
      * apply (i_vl _ I). exact (j_w _ J _ _ (Hw x Hx)).
      * apply (i_vl _ I). apply Hbv. rewrite Hb. exact Hx.
  - (* the write events are a rearrangement of 0..n-1 *)
    assert (Hnd : NoDup (wevents (s_events s))).
    { apply (NoDup_count_occ Nat.eq_dec). intros x. rewrite (k_cnt _ _ _ K).
      destruct (nth_error (s_pcs s) x) as [[]|]; simpl; lia. }
    assert (Heq : forall x, In x (wevents (s_events s)) <-> In x (seq 0 n)).
    { intros x. rewrite in_seq. split.
      - intros Hin. apply (count_occ_In Nat.eq_dec) in Hin. rewrite (k_cnt _ _ _ K) in Hin.
        destruct (nth_error (s_pcs s) x) as [p|] eqn:E; [|simpl in Hin; lia].
        apply nth_lt in E. rewrite (k_len _ _ _ K) in E. lia.
      - intros [_ Hx]. apply (count_occ_In Nat.eq_dec). rewrite (k_cnt _ _ _ K).
        simpl in Hx. rewrite (Hw x Hx). simpl. lia. }
    rewrite (Permutation_length
               (NoDup_Permutation Hnd (seq_NoDup n 0) Heq)).
    apply seq_length.
  - exact Hb.
Qed.

Lemma storeconc_refuted_unserialised : S_storeconc_refuted_unserialised.
Proof.
  unfold S_storeconc_refuted_unserialised.
  (* one writer, one batch [1]: the writer appends, persists and reads the log {0}; the merger
     joins the batch, rebuilds the view from {0,1}, persists and emits replicated [1]; the
     writer applies its stale rebuild {0}, unlocks and emits *)
  exists 1, [[1]], [0; 0; 0; 1; 1; 1; 1; 1; 0; 0; 0]. simpl. split; [|split].
  - unfold sall_done. vm_compute. split; [|split; reflexivity].
    intros p [<- | []]. reflexivity.
  - exists (SEvReplicated [1]). split.
    + vm_compute. left. reflexivity.
    + vm_compute. intros H. destruct (H 1 (or_introl eq_refl)) as [E | []]. discriminate.
  - vm_compute. intros H. destruct (H 1 (or_intror (or_introl eq_refl))) as [E | []]. discriminate.
Qed.

(** * C06 corollary *)

Lemma grows_tail a t : grows (a :: t) -> grows t.
Proof. destruct t; simpl; tauto. Qed.

Lemma sviews_grows (listing : list nat -> list entry) :
  (forall V V', incl V V' -> incl (listing V) (listing V')) ->
  forall sched s, inv1 s -> grows (listing (s_view s) :: map listing (sviews true sched s)).
Proof.
  intros Hmono. induction sched as [|l r IH]; intros s I; simpl; [exact Logic.I|].
  destruct (sstep true s l) as [s'|] eqn:E.
  - destruct (inv1_step _ _ _ I E) as [I' [Hv _]].
    split; [apply Hmono; exact Hv | apply IH; exact I'].
  - split; [apply incl_refl | apply IH; exact I].
Qed.

Lemma sviews_last ser d : forall sched s, sched <> [] ->
  last (sviews ser sched s) d = s_view (srun ser sched s).
Proof.
  induction sched as [|l r IH]; intros s Hne; [contradiction|].
  rewrite srun_cons. simpl sviews.
  destruct r as [|l' r'].
  - reflexivity.
  - change (last (?x :: sviews ser (l' :: r') ?s') d) with (last (sviews ser (l' :: r') s') d).
    apply IH. discriminate.
Qed.

Lemma last_map {A B} (f : A -> B) (l : list A) d d' : l <> [] -> last (map f l) d' = f (last l d).
Proof.
  induction l as [|a l IH]; intros Hne; [contradiction|].
  destruct l as [|b l]; [reflexivity|].
  change (last (map f (a :: b :: l)) d') with (last (map f (b :: l)) d').
  change (last (a :: b :: l) d) with (last (b :: l) d).
  apply IH. discriminate.
Qed.

Lemma storeconc_kv_replay : S_storeconc_kv_replay.
Proof.
  unfold S_storeconc_kv_replay. intros n batches sched listing Hmono Hok. simpl.
  split; [|split].
  - apply kv_run_represents.
    + eapply grows_tail. apply (sviews_grows listing Hmono sched _ (inv1_init n batches)).
    + intros vals e Hin He. apply in_map_iff in Hin. destruct Hin as [V [<- _]].
      exact (Hok V e He).
  - intros Hne. rewrite (last_map listing _ []).
    + f_equal. apply sviews_last. exact Hne.
    + destruct sched; [contradiction | simpl; discriminate].
  - intros Hd. exact (proj1 (storeconc_complete_at_rest n batches sched Hd)).
Qed.

Print Assumptions storeconc_view_monotone.
Print Assumptions storeconc_events_never_ahead.
Print Assumptions storeconc_events_exactly_once.
Print Assumptions storeconc_complete_at_rest.
Print Assumptions storeconc_refuted_unserialised.
Print Assumptions storeconc_kv_replay.

(** Proofs of the last section of [Spec/Statements.v]: joining a fetched multi-entry
    log ([S_join_multi]) and reloading a saved log ([S_reload_same_state]). *)
From Orbit Require Import Spec.Statements.
From Orbit Require Proofs.TraverseProofs.
From Orbit Require Import Proofs.JoinProofs.
From Orbit Require Proofs.GlobalProofs.

(** * Counting the hashes of [X] that are not yet traversed *)

Definition nt (X tr : list N) : nat := length (filter (fun c => negb (memN c tr)) X).

Lemma nt_mono X tr tr' :
  (forall c, In c tr -> In c tr') -> (nt X tr' <= nt X tr)%nat.
Proof.
  intros H. unfold nt. apply filter_length_le. intros x _ Hx.
  destruct (memN x tr) eqn:M; [|reflexivity].
  apply memN_In in M. apply H in M. apply memN_In in M. rewrite M in Hx. discriminate Hx.
Qed.

Lemma nt_addN X a tr :
  In a X -> memN a tr = false -> (nt X (addN a tr) < nt X tr)%nat.
Proof.
  intros Ha Hm. unfold nt. apply filter_length_lt with (z := a).
  - intros x _ Hx. destruct (memN x tr) eqn:M; [|reflexivity].
    apply memN_In in M.
    assert (M' : In x (addN a tr)) by (apply addN_In; right; exact M).
    apply memN_In in M'. rewrite M' in Hx. discriminate Hx.
  - exact Ha.
  - assert (M' : In a (addN a tr)) by (apply addN_In; left; reflexivity).
    apply memN_In in M'. rewrite M'. reflexivity.
  - rewrite Hm. reflexivity.
Qed.

(** * The inner fold of [diff_loop] that pushes the nexts of a collected entry *)

Lemma push_fold_spec entsB X : forall ns st tr st' tr',
  fold_left (fun '(s, t) n =>
               if negb (memN n t) && negb (has_entry n entsB)
               then (s ++ [n], addN n t) else (s, t)) ns (st, tr) = (st', tr') ->
  (forall c, In c ns -> In c X) ->
  (forall c, In c st -> In c st') /\
  (forall c, In c tr -> In c tr') /\
  (forall c, In c tr' -> In c tr \/ (In c ns /\ ~ In c (hashes entsB) /\ In c st')) /\
  (forall c, In c ns -> ~ In c (hashes entsB) -> In c tr') /\
  (length st' + nt X tr' <= length st + nt X tr)%nat.
Proof.
  induction ns as [|a ns IH]; intros st tr st' tr' H HX; simpl in H.
  - inversion H; subst. split; [auto|]. split; [auto|]. split; [auto|].
    split; [intros c []|lia].
  - assert (HX' : forall c, In c ns -> In c X) by (intros c Hc; apply HX; right; exact Hc).
    destruct (negb (memN a tr) && negb (has_entry a entsB)) eqn:C.
    + apply andb_true_iff in C. destruct C as [C1 C2].
      apply negb_true_iff in C1. apply negb_true_iff in C2.
      apply has_entry_false in C2.
      destruct (IH _ _ _ _ H HX') as [P1 [P2 [P3 [P4 P5]]]].
      assert (Ha' : In a st') by (apply P1; apply in_or_app; right; left; reflexivity).
      split; [|split; [|split; [|split]]].
      * intros c Hc. apply P1. apply in_or_app. left. exact Hc.
      * intros c Hc. apply P2. apply addN_In. right. exact Hc.
      * intros c Hc. destruct (P3 c Hc) as [Q|[Q1 [Q2 Q3]]].
        -- apply addN_In in Q. destruct Q as [Q|Q]; [|left; exact Q].
           subst c. right. split; [left; reflexivity|]. split; assumption.
        -- right. split; [right; exact Q1|]. split; assumption.
      * intros c [Hc|Hc] Hn.
        -- subst c. apply P2. apply addN_In. left. reflexivity.
        -- apply P4; assumption.
      * assert (L1 : (nt X (addN a tr) < nt X tr)%nat).
        { apply nt_addN; [apply HX; left; reflexivity | exact C1]. }
        rewrite app_length in P5. simpl in P5. lia.
    + destruct (IH _ _ _ _ H HX') as [P1 [P2 [P3 [P4 P5]]]].
      split; [exact P1|]. split; [exact P2|]. split; [|split; [|exact P5]].
      * intros c Hc. destruct (P3 c Hc) as [Q|[Q1 [Q2 Q3]]]; [left; exact Q|].
        right. split; [right; exact Q1|]. split; assumption.
      * intros c [Hc|Hc] Hn; [|apply P4; assumption].
        subst c. apply P2.
        apply has_entry_false in Hn. rewrite Hn in C. simpl in C.
        rewrite andb_true_r in C. apply negb_false_iff in C. apply memN_In. exact C.
Qed.

(** * [diff_loop] on an ancestry-closed pair *)

Section Diff.
  Variable U es L : list entry.
  Variable id : N.
  Hypothesis HWF : WF U.
  Hypothesis HesU : incl es U.
  Hypothesis HLU : incl L U.
  Hypothesis HclL : next_closed L.
  Hypothesis Hcl : next_closed (es ++ L).
  Hypothesis Hid : forall e, In e es -> elog e = id.

  (** the entries [difference] has to deliver *)
  Definition D (x : entry) : Prop := In x es /\ ~ In (eh x) (hashes L).

  Lemma hash_in_es x h : In x es -> In h (hashes es) -> eh x = h -> find_entry h es = Some x.
  Proof.
    intros Hx _ E. subst h. apply (TraverseProofs.find_entry_U U); assumption.
  Qed.

  Lemma es_same_hash x y : In x es -> In y es -> eh x = eh y -> x = y.
  Proof.
    intros Hx Hy E. apply (wf_hash U HWF); [apply HesU; exact Hx | apply HesU; exact Hy | exact E].
  Qed.

  Lemma in_L_by_hash x : In x es -> In (eh x) (hashes L) -> In x L.
  Proof.
    intros Hx Hh. apply In_hashes in Hh. destruct Hh as [y [Hy1 Hy2]].
    assert (y = x).
    { apply (wf_hash U HWF); [apply HLU; exact Hy1 | apply HesU; exact Hx | exact Hy2]. }
    subst y. exact Hy1.
  Qed.

  (** a link leaving a member of [es] towards something outside [L] stays inside [es] *)
  Lemma next_in_es y c : In y es -> In c (enext y) -> ~ In c (hashes L) -> In c (hashes es).
  Proof.
    intros Hy Hc Hn.
    assert (H : In c (hashes (es ++ L))).
    { apply (Hcl y c); [apply in_or_app; left; exact Hy | exact Hc]. }
    unfold hashes in H. rewrite map_app in H. apply in_app_or in H.
    destruct H as [H|H]; [exact H | contradiction].
  Qed.

  (** whoever references a member of [D] from inside [es] is in [D] *)
  Lemma D_up x y : D x -> In y es -> In (eh x) (enext y) -> D y.
  Proof.
    intros [Hx Hn] Hy Hc. split; [exact Hy|].
    intros Hh. apply Hn. apply (HclL y (eh x)); [|exact Hc].
    apply in_L_by_hash; assumption.
  Qed.

  (** a popped hash of a [D]-member is never skipped *)
  Lemma pop_D h : In h (hashes es) -> ~ In h (hashes L) ->
    exists eA, find_entry h es = Some eA /\ In eA es /\ eh eA = h /\
               negb (has_entry h L) && (elog eA =? id)%N = true.
  Proof.
    intros Hh Hn. apply In_hashes in Hh. destruct Hh as [x [Hx1 Hx2]].
    exists x. split; [|split; [exact Hx1|split; [exact Hx2|]]].
    - subst h. apply (TraverseProofs.find_entry_U U); assumption.
    - apply has_entry_false in Hn. rewrite Hn. simpl.
      apply N.eqb_eq. apply Hid. exact Hx1.
  Qed.

  Record Inv (stack trav : list N) (res : list entry) : Prop := {
    i_nodup : NoDup (hashes res);
    i_sound : forall x, In x res -> D x;
    i_trav  : forall c, In c trav -> In c (hashes es) /\ ~ In c (hashes L);
    i_pend  : forall c, In c trav -> In c (hashes res) \/ In c stack;
    i_push  : forall y c, In y res -> In c (enext y) -> ~ In c (hashes L) -> In c trav;
    i_heads : forall x, In x (find_heads es) -> D x -> In x res \/ In (eh x) stack
  }.

  Lemma oset_res_In eA res x :
    In eA es -> (forall z, In z res -> D z) ->
    (In x (oset eA res) <-> In x res \/ x = eA).
  Proof.
    intros HeA Hres. apply (TraverseProofs.oset_in_iff U); [exact HWF | apply HesU; exact HeA|].
    intros z Hz. apply HesU. apply Hres in Hz. destruct Hz as [Hz _]. exact Hz.
  Qed.

  Lemma diff_loop_inv : forall fuel stack trav res,
    Inv stack trav res ->
    (length stack + nt (all_nexts es) trav <= fuel)%nat ->
    exists trav', Inv [] trav' (diff_loop fuel es id L stack trav res).
  Proof.
    induction fuel as [|f IH]; intros stack trav res HI Hfuel.
    - destruct stack as [|h st]; [|simpl in Hfuel; lia].
      exists trav. exact HI.
    - destruct stack as [|h st]; [exists trav; exact HI|].
      cbn [diff_loop].
      destruct HI as [J1 J2 J3 J4 J5 J6].
      (* the skip case, shared by two branches *)
      assert (SKIP : (forall eA, find_entry h es = Some eA ->
                        negb (has_entry h L) && (elog eA =? id)%N = false) ->
                     Inv st trav res).
      { intros Hskip.
        assert (Hno : In h (hashes es) -> ~ In h (hashes L) -> False).
        { intros A B. destruct (pop_D h A B) as [eA [F [_ [_ C]]]].
          rewrite (Hskip eA F) in C. discriminate C. }
        constructor; try assumption.
        - intros c Hc. destruct (J4 c Hc) as [Q|[Q|Q]]; [left; exact Q| |right; exact Q].
          subst c. exfalso. destruct (J3 h Hc) as [A B]. exact (Hno A B).
        - intros x Hx HD. destruct (J6 x Hx HD) as [Q|[Q|Q]]; [left; exact Q| |right; exact Q].
          exfalso. destruct HD as [A B]. apply Hno.
          + rewrite Q. apply In_hashes_intro. exact A.
          + rewrite Q. exact B. }
      destruct (find_entry h es) as [eA|] eqn:F.
      + destruct (negb (has_entry h L) && (elog eA =? id)%N) eqn:C.
        * (* collect *)
          destruct (TraverseProofs.find_entry_some _ _ _ F) as [HeA Hh].
          apply andb_true_iff in C. destruct C as [C1 _].
          apply negb_true_iff in C1. apply has_entry_false in C1.
          assert (HDA : D eA) by (split; [exact HeA | rewrite Hh; exact C1]).
          destruct (fold_left _ (enext eA) (st, addN h trav)) as [st' tr''] eqn:FL.
          assert (HX : forall c, In c (enext eA) -> In c (all_nexts es)).
          { intros c Hc. apply all_nexts_In. exists eA. split; assumption. }
          destruct (push_fold_spec L (all_nexts es) _ _ _ _ _ FL HX) as [P1 [P2 [P3 [P4 P5]]]].
          assert (HO := oset_res_In eA res).
          apply IH.
          -- constructor.
             ++ apply oset_nodup. exact J1.
             ++ intros x Hx. apply (HO x HeA J2) in Hx. destruct Hx as [Hx|Hx].
                ** apply J2. exact Hx.
                ** subst x. exact HDA.
             ++ intros c Hc. destruct (P3 c Hc) as [Q|[Q1 [Q2 _]]].
                ** apply addN_In in Q. destruct Q as [Q|Q].
                   --- subst c. split; [|exact C1]. rewrite <- Hh. apply In_hashes_intro. exact HeA.
                   --- apply J3. exact Q.
                ** split; [|exact Q2]. apply (next_in_es eA); assumption.
             ++ intros c Hc.
                assert (Hself : In (eh eA) (hashes (oset eA res))).
                { apply In_hashes_intro. apply (HO eA HeA J2). right. reflexivity. }
                destruct (P3 c Hc) as [Q|[_ [_ Q]]]; [|right; exact Q].
                apply addN_In in Q. destruct Q as [Q|Q].
                ** subst c. left. rewrite <- Hh. exact Hself.
                ** destruct (J4 c Q) as [R|[R|R]].
                   --- left. apply In_hashes in R. destruct R as [z [Hz1 Hz2]].
                       rewrite <- Hz2. apply In_hashes_intro. apply (HO z HeA J2). left. exact Hz1.
                   --- subst c. left. rewrite <- Hh. exact Hself.
                   --- right. apply P1. exact R.
             ++ intros y c Hy Hc Hn. apply (HO y HeA J2) in Hy. destruct Hy as [Hy|Hy].
                ** apply P2. apply addN_In. right. apply (J5 y c); assumption.
                ** subst y. apply P4; assumption.
             ++ intros x Hx HD. destruct (J6 x Hx HD) as [Q|[Q|Q]].
                ** left. apply (HO x HeA J2). left. exact Q.
                ** left. apply (HO x HeA J2). right.
                   destruct HD as [A _]. apply es_same_hash; [exact A | exact HeA|].
                   rewrite Hh. symmetry. exact Q.
                ** right. apply P1. exact Q.
          -- assert (M : (nt (all_nexts es) (addN h trav) <= nt (all_nexts es) trav)%nat).
             { apply nt_mono. intros c Hc. apply addN_In. right. exact Hc. }
             simpl in Hfuel. lia.
        * apply IH.
          -- apply SKIP. intros eA' E. inversion E; subst eA'. exact C.
          -- simpl in Hfuel. lia.
      + apply IH.
        * apply SKIP. intros eA' E. discriminate E.
        * simpl in Hfuel. lia.
  Qed.

  (** at exit every member of [D] has been collected *)
  Lemma inv_complete trav res : Inv [] trav res -> forall x, D x -> In x res.
  Proof.
    intros [J1 J2 J3 J4 J5 J6].
    assert (G : forall n x, (length (filter (key_ltb x) es) < n)%nat -> D x -> In x res).
    { induction n as [|n IHn]; intros x Hn HD; [lia|].
      destruct (memN (eh x) (all_nexts es)) eqn:M.
      - apply memN_In in M. apply all_nexts_In in M. destruct M as [y [Hy Hc]].
        assert (HDy : D y) by (apply (D_up x y); assumption).
        destruct HD as [Hx Hnx].
        assert (Hlt : key_lt x y).
        { apply (wf_link U HWF); [apply HesU; exact Hy | apply HesU; exact Hx | exact Hc]. }
        assert (Hyres : In y res).
        { apply IHn; [|exact HDy].
          assert ((length (filter (key_ltb y) es) < length (filter (key_ltb x) es))%nat).
          { apply filter_length_lt with (z := y).
            - intros z _ Hz. apply key_ltb_spec. apply key_ltb_spec in Hz.
              apply key_lt_trans with (b := y); assumption.
            - exact Hy.
            - destruct (key_ltb y y) eqn:K; [|reflexivity].
              apply key_ltb_spec in K. exfalso. apply (key_lt_irrefl y). exact K.
            - apply key_ltb_spec. exact Hlt. }
          lia. }
        assert (Ht : In (eh x) trav) by (apply (J5 y (eh x)); assumption).
        destruct (J4 _ Ht) as [Q|[]].
        apply In_hashes in Q. destruct Q as [z [Hz1 Hz2]].
        assert (z = x).
        { apply es_same_hash; [|exact Hx|exact Hz2]. apply J2 in Hz1. destruct Hz1 as [A _]. exact A. }
        subst z. exact Hz1.
      - assert (Hh : In x (find_heads es)).
        { apply find_heads_In. destruct HD as [Hx _]. split; [exact Hx|].
          intros H. apply memN_In in H. rewrite H in M. discriminate M. }
        destruct (J6 x Hh HD) as [Q|[]]. exact Q. }
    intros x HD. apply (G (S (length (filter (key_ltb x) es)))); [lia | exact HD].
  Qed.

  Lemma difference_spec l :
    lid l = id -> lents l = L ->
    NoDup (hashes (difference es (find_heads es) l)) /\
    forall x, In x (difference es (find_heads es) l) <-> D x.
  Proof.
    intros E1 E2.
    assert (E : difference es (find_heads es) l =
                diff_loop (length (find_heads es) + length (all_nexts es) + 1) es id L
                          (hashes (find_heads es)) [] []).
    { unfold difference. rewrite E1, E2.
      destruct es as [|a es'].
      - symmetry. apply diff_loop_skip. intros h _. reflexivity.
      - destruct (find_heads (a :: es')); [|reflexivity].
        symmetry. apply diff_loop_skip. intros h []. }
    rewrite E.
    destruct (diff_loop_inv (length (find_heads es) + length (all_nexts es) + 1)
                            (hashes (find_heads es)) [] []) as [trav' HI].
    - constructor.
      + constructor.
      + intros x [].
      + intros c [].
      + intros c [].
      + intros y c [].
      + intros x Hx _. right. apply In_hashes_intro. exact Hx.
    - unfold hashes. rewrite map_length.
      assert ((nt (all_nexts es) [] <= length (all_nexts es))%nat).
      { unfold nt. generalize (all_nexts es). clear.
        intros t. induction t as [|a t IHt]; cbn [filter length]; [lia|].
        destruct (negb (memN a [])); cbn [length]; lia. }
      lia.
    - split; [apply (i_nodup _ _ _ HI)|].
      intros x. split; [apply (i_sound _ _ _ HI) | apply (inv_complete _ _ HI)].
  Qed.
End Diff.

(** * [oset_all] *)

Lemma oset_all_app : forall es m,
  NoDup (hashes (m ++ es)) -> oset_all es m = m ++ es.
Proof.
  induction es as [|a es IH]; intros m H.
  - simpl. rewrite app_nil_r. reflexivity.
  - change (oset_all (a :: es) m) with (oset_all es (oset a m)).
    assert (Hf : has_entry (eh a) m = false).
    { apply has_entry_false. intros Hin.
      unfold hashes in H. rewrite map_app in H. simpl in H.
      apply NoDup_remove_2 in H. apply H. apply in_or_app. left. exact Hin. }
    rewrite (oset_fresh a m Hf).
    rewrite IH; rewrite <- app_assoc; simpl; [reflexivity | exact H].
Qed.

Lemma oset_all_nil es : NoDup (hashes es) -> oset_all es [] = es.
Proof. intros H. rewrite oset_all_app; [reflexivity | exact H]. Qed.

Lemma oset_all_In U : WF U -> forall xs m, incl xs U -> incl m U ->
  forall x, In x (oset_all xs m) <-> In x m \/ In x xs.
Proof.
  intros HWF. induction xs as [|a xs IH]; intros m Hxs Hm x.
  - simpl. tauto.
  - change (oset_all (a :: xs) m) with (oset_all xs (oset a m)).
    assert (HaU : In a U) by (apply Hxs; left; reflexivity).
    assert (HO := TraverseProofs.oset_in_iff U a m HWF HaU Hm).
    rewrite IH.
    + rewrite HO. simpl. split.
      * intros [[H|H]|H]; auto.
      * intros [H|[H|H]]; auto.
    + intros y Hy. apply Hxs. right. exact Hy.
    + intros y Hy. apply HO in Hy. destruct Hy as [Hy|Hy]; [apply Hm; exact Hy | subst y; exact HaU].
Qed.

Lemma oset_all_nodup : forall xs m, NoDup (hashes m) -> NoDup (hashes (oset_all xs m)).
Proof.
  induction xs as [|a xs IH]; intros m H; [exact H|].
  change (oset_all (a :: xs) m) with (oset_all xs (oset a m)).
  apply IH. apply oset_nodup. exact H.
Qed.

Lemma loe_ents_multi id es : NoDup (hashes es) -> lents (log_of_entries id es) = es.
Proof. intros H. unfold log_of_entries. cbv zeta. cbn [lents]. apply oset_all_nil. exact H. Qed.

Lemma loe_heads_multi id es :
  NoDup (hashes es) -> lheads (log_of_entries id es) = find_heads es.
Proof.
  intros H. unfold log_of_entries. cbv zeta. cbn [lheads]. rewrite (oset_all_nil es H). reflexivity.
Qed.

(** * Every entry is dominated in time by a head *)

Lemma dominated U ents hs :
  WF U -> incl ents U ->
  (forall h, In h hs <-> In h ents /\ ~ In (eh h) (all_nexts ents)) ->
  forall e, In e ents -> exists h, In h hs /\ etime e <= etime h.
Proof.
  intros HWF HU Hhs.
  assert (G : forall n e, (length (filter (key_ltb e) ents) < n)%nat -> In e ents ->
                          exists h, In h hs /\ etime e <= etime h).
  { induction n as [|n IH]; intros e Hn He; [lia|].
    destruct (memN (eh e) (all_nexts ents)) eqn:M.
    - apply memN_In in M. apply all_nexts_In in M. destruct M as [y [Hy Hc]].
      assert (Hlt : key_lt e y).
      { apply (wf_link U HWF); [apply HU; exact Hy | apply HU; exact He | exact Hc]. }
      destruct (IH y) as [h [Hh1 Hh2]].
      + assert ((length (filter (key_ltb y) ents) < length (filter (key_ltb e) ents))%nat).
        { apply filter_length_lt with (z := y).
          - intros z _ Hz. apply key_ltb_spec. apply key_ltb_spec in Hz.
            apply key_lt_trans with (b := y); assumption.
          - exact Hy.
          - destruct (key_ltb y y) eqn:K; [|reflexivity].
            apply key_ltb_spec in K. exfalso. apply (key_lt_irrefl y). exact K.
          - apply key_ltb_spec. exact Hlt. }
        lia.
      + exact Hy.
      + exists h. split; [exact Hh1|]. unfold key_lt in Hlt. lia.
    - exists e. split; [|lia]. apply Hhs. split; [exact He|].
      intros H. apply memN_In in H. rewrite H in M. discriminate M. }
  intros e He. apply (G (S (length (filter (key_ltb e) ents)))); [lia | exact He].
Qed.

(** * Heads of the joined log *)

Lemma join_heads_multi U l es ents' next' nn :
  WF U -> log_ok U l -> incl es U ->
  (forall e, In e ents' <-> In e (lents l) \/ In e es) ->
  (forall c, In c next' <-> In c (all_nexts ents')) ->
  (forall c, In c nn -> In c next') ->
  forall h,
    In h (filter (fun e => negb (memN (eh e) nn) && negb (memN (eh e) next'))
                 (find_heads (oset_all (find_heads es) (lheads l))))
    <-> In h ents' /\ ~ In (eh h) (all_nexts ents').
Proof.
  intros HWF Hok HesU Hents Hnext Hnn h.
  set (m := oset_all (find_heads es) (lheads l)).
  assert (HhU : incl (lheads l) U).
  { intros e He. apply (ok_incl U l Hok). apply (ok_heads U l Hok) in He. tauto. }
  assert (HfU : incl (find_heads es) U).
  { intros e He. apply HesU. apply find_heads_In in He. tauto. }
  assert (HM : forall e, In e m <-> In e (lheads l) \/ In e (find_heads es)).
  { intros e. apply (oset_all_In U HWF); assumption. }
  assert (HA : forall e, In e m -> In e (lents l) \/ In e es).
  { intros e He. apply HM in He. destruct He as [He|He].
    - left. apply (ok_heads U l Hok) in He. tauto.
    - right. apply find_heads_In in He. tauto. }
  assert (HD : forall c, In c (all_nexts m) -> In c (all_nexts ents')).
  { intros c Hc. apply all_nexts_In in Hc. destruct Hc as [e [He1 He2]].
    apply all_nexts_In. exists e. split; [|exact He2].
    apply Hents. apply HA. exact He1. }
  assert (HE : forall c, In c (all_nexts (lents l)) -> In c (all_nexts ents')).
  { intros c Hc. apply all_nexts_In in Hc. destruct Hc as [e [He1 He2]].
    apply all_nexts_In. exists e. split; [|exact He2].
    apply Hents. left. exact He1. }
  assert (HF : forall c, In c (all_nexts es) -> In c (all_nexts ents')).
  { intros c Hc. apply all_nexts_In in Hc. destruct Hc as [e [He1 He2]].
    apply all_nexts_In. exists e. split; [|exact He2].
    apply Hents. right. exact He1. }
  rewrite filter_In, find_heads_In, andb_true_iff, !negb_true_iff.
  split.
  - intros [[Hm Hnm] [Hc1 Hc2]]. split.
    + apply Hents. apply HA. exact Hm.
    + intros Hin. apply Hnext in Hin. apply memN_In in Hin. congruence.
  - intros [Hin Hnin]. split; [split|split].
    + apply HM. apply Hents in Hin. destruct Hin as [Hin|Hin].
      * left. apply (ok_heads U l Hok). split; [exact Hin|].
        intros Hc. apply Hnin. apply HE. exact Hc.
      * right. apply find_heads_In. split; [exact Hin|].
        intros Hc. apply Hnin. apply HF. exact Hc.
    + intros Hc. apply Hnin. apply HD. exact Hc.
    + destruct (memN (eh h) nn) eqn:M; [|reflexivity].
      apply memN_In in M. exfalso. apply Hnin. apply Hnext. apply Hnn. exact M.
    + destruct (memN (eh h) next') eqn:M; [|reflexivity].
      apply memN_In in M. exfalso. apply Hnin. apply Hnext. exact M.
Qed.

(** * Joining a fetched multi-entry log *)

Lemma join_multi : S_join_multi.
Proof.
  intros U l es acc HWF Hok HclL HesU Hnd Hcl Hes.
  assert (HLU : incl (lents l) U) by (apply (ok_incl U l Hok)).
  assert (Hid : forall e, In e es -> elog e = lid l).
  { intros e He. destruct (Hes e He) as [A _]. exact A. }
  destruct (difference_spec U es (lents l) (lid l) HWF HesU HLU HclL Hcl Hid l eq_refl eq_refl)
    as [Dnd Din].
  unfold D in Din.
  rewrite join_unbounded by reflexivity.
  rewrite (loe_ents_multi (lid l) es Hnd), (loe_heads_multi (lid l) es Hnd).
  cbv zeta.
  set (new := difference es (find_heads es) l) in *.
  assert (Hacc : forallb acc new = true).
  { apply forallb_forall. intros x Hx. apply Din in Hx. destruct Hx as [Hx _].
    destruct (Hes x Hx) as [_ A]. exact A. }
  rewrite Hacc. cbn [negb].
  set (ents' := oset_all new (lents l)).
  set (next' := addN_all (flat_map enext new) (lnext l)).
  set (heads' := filter _ _).
  assert (HnewU : incl new U).
  { intros x Hx. apply HesU. apply Din in Hx. tauto. }
  assert (Hents0 : forall x, In x ents' <-> In x (lents l) \/ In x new).
  { intros x. apply (oset_all_In U HWF); assumption. }
  assert (Hents : forall x, In x ents' <-> In x (lents l) \/ In x es).
  { intros x. rewrite Hents0. split.
    - intros [H|H]; [left; exact H | right; apply Din in H; tauto].
    - intros [H|H]; [left; exact H|].
      destruct (has_entry (eh x) (lents l)) eqn:E.
      + left. apply has_entry_In in E. apply (in_L_by_hash U es (lents l) HWF HesU HLU); assumption.
      + right. apply has_entry_false in E. apply Din. split; assumption. }
  assert (Hnext : forall c, In c next' <-> In c (all_nexts ents')).
  { intros c. unfold next'. rewrite addN_all_In, (ok_next U l Hok).
    fold (all_nexts new). rewrite !all_nexts_In. split.
    - intros [[e [He Hc]]|[e [He Hc]]]; exists e; (split; [|exact Hc]); apply Hents0; auto.
    - intros [e [He Hc]]. apply Hents0 in He.
      destruct He as [He|He]; [right | left]; exists e; split; assumption. }
  assert (Hheads : forall h, In h heads' <-> In h ents' /\ ~ In (eh h) (all_nexts ents')).
  { apply (join_heads_multi U l es ents' next' (flat_map enext new)); try assumption.
    intros c Hc. unfold next'. apply addN_all_In. left. exact Hc. }
  assert (HeU : incl ents' U).
  { intros x Hx. apply Hents in Hx. destruct Hx as [Hx|Hx]; [apply HLU | apply HesU]; exact Hx. }
  eexists. split; [reflexivity|].
  split; [|split; [reflexivity|split]].
  - constructor; cbn [lents lheads lnext lclock lid].
    + exact HeU.
    + apply oset_all_nodup. apply (ok_nodup U l Hok).
    + intros e He. apply Hents in He. destruct He as [He|He].
      * apply (ok_logid U l Hok). exact He.
      * apply Hid. exact He.
    + exact Hheads.
    + unfold heads', hashes. apply NoDup_map_filter. apply find_heads_nodup.
      apply oset_all_nodup. apply (ok_hnodup U l Hok).
    + exact Hnext.
    + intros e He.
      destruct (dominated U ents' heads' HWF HeU Hheads e He) as [h [Hh1 Hh2]].
      destruct (max_time_ge heads' 0) as [_ Hmax].
      apply Hmax in Hh1. lia.
  - cbn [lents]. intros x. rewrite Hents, in_app_iff. tauto.
  - cbn [lents]. intros e c He Hc.
    assert (H : In c (hashes (es ++ lents l))).
    { apply (Hcl e c); [|exact Hc]. apply in_or_app. apply Hents in He. tauto. }
    apply In_hashes in H. destruct H as [z [Hz1 Hz2]].
    rewrite <- Hz2. apply In_hashes_intro. apply Hents. apply in_app_or in Hz1. tauto.
Qed.

(** * Reloading a saved log *)

Lemma reload_same_state : S_reload_same_state.
Proof.
  intros U l acc HWF Hok Hcl Hacc.
  assert (Hok0 : log_ok U (empty_log (lid l))).
  { apply (GlobalProofs.log_ok_mono []); [apply GlobalProofs.log_ok_empty | intros x []]. }
  destruct (join_multi U (empty_log (lid l)) (lents l) acc HWF Hok0) as [l' [HJ [Hok' [_ [Hs _]]]]].
  - intros e c [].
  - apply (ok_incl U l Hok).
  - apply (ok_nodup U l Hok).
  - cbn [empty_log lents]. rewrite app_nil_r. exact Hcl.
  - intros e He. split; [apply (ok_logid U l Hok); exact He | apply Hacc; exact He].
  - cbn [empty_log lents lid] in HJ, Hs.
    assert (Hs' : same_set (lents l') (lents l)).
    { intros x. rewrite (Hs x). simpl. tauto. }
    exists l'. split; [exact HJ|]. split; [exact Hok'|]. split; [exact Hs'|].
    destruct (GlobalProofs.values_canonical U l' HWF Hok') as [Sa Aa].
    destruct (GlobalProofs.values_canonical U l HWF Hok) as [Sb Ab].
    split.
    + apply TraverseProofs.sorted_unique; [exact Aa | exact Ab|].
      intros x. split; intros Hx.
      * apply Sb. apply Hs'. apply Sa. exact Hx.
      * apply Sa. apply Hs'. apply Sb. exact Hx.
    + unfold heads_sorted.
      destruct (GlobalProofs.heads_desc _ _ HWF Hok') as [Da Ea].
      destruct (GlobalProofs.heads_desc _ _ HWF Hok) as [Db Eb].
      apply GlobalProofs.desc_unique; [exact Da | exact Db|].
      pose proof (GlobalProofs.heads_same _ _ _ Hok' Hok Hs') as Hh.
      intros x. split; intros Hx.
      * apply Eb. apply Hh. apply Ea. exact Hx.
      * apply Ea. apply Hh. apply Eb. exact Hx.
Qed.

Print Assumptions join_multi.
Print Assumptions reload_same_state.

(** Proofs of the "Replicator and merge" statements of [Spec/Statements.v]. *)
From Orbit Require Import Spec.Statements.
From Coq Require Import Lia List Permutation.
Import ListNotations.
Local Open Scope nat_scope.

(** * The task table *)

Lemma tget_tset_same : forall h st t, tget h (tset h st t) = Some st.
Proof.
  intros h st t; induction t as [|[k s0] r IH]; simpl.
  - rewrite N.eqb_refl. reflexivity.
  - destruct (k =? h)%N eqn:E; simpl; rewrite E; [reflexivity | exact IH].
Qed.

Lemma tget_tset_other : forall h k st t, k <> h -> tget h (tset k st t) = tget h t.
Proof.
  intros h k st t Hne; induction t as [|[a s0] r IH]; simpl.
  - destruct (k =? h)%N eqn:E; [apply N.eqb_eq in E; contradiction | reflexivity].
  - destruct (a =? k)%N eqn:E1; simpl.
    + apply N.eqb_eq in E1. subst a.
      destruct (k =? h)%N eqn:E2; [apply N.eqb_eq in E2; contradiction | reflexivity].
    + destruct (a =? h)%N; [reflexivity | exact IH].
Qed.

Lemma tget_tset_not_none : forall x h st t, tget x t <> None -> tget x (tset h st t) <> None.
Proof.
  intros x h st t Hx. destruct (N.eq_dec h x) as [E|E].
  - subst. rewrite tget_tset_same. discriminate.
  - rewrite tget_tset_other by exact E. exact Hx.
Qed.

Lemma tset_keys_in : forall x h st t, In x (map fst (tset h st t)) -> x = h \/ In x (map fst t).
Proof.
  intros x h st t; induction t as [|[k s0] r IH]; simpl; intros H.
  - destruct H as [H|[]]. left; symmetry; exact H.
  - destruct (k =? h)%N; simpl in H.
    + right. exact H.
    + destruct H as [H|H]; [right; left; exact H|].
      destruct (IH H) as [H'|H']; [left; exact H' | right; right; exact H'].
Qed.

Lemma tset_keys_nodup : forall h st t, NoDup (map fst t) -> NoDup (map fst (tset h st t)).
Proof.
  intros h st t; induction t as [|[k s0] r IH]; simpl; intros H.
  - constructor; [intros [] | constructor].
  - inversion H as [|a l Hn Hr]; subst.
    destruct (k =? h)%N eqn:E; simpl.
    + constructor; assumption.
    + constructor; [|apply IH; exact Hr].
      intros Hin. apply tset_keys_in in Hin. destruct Hin as [Hin|Hin].
      * subst k. rewrite N.eqb_refl in E. discriminate.
      * contradiction.
Qed.

Lemma tget_In : forall k st t, NoDup (map fst t) -> In (k, st) t -> tget k t = Some st.
Proof.
  intros k st t; induction t as [|[a s0] r IH]; simpl; intros Hnd Hin; [contradiction|].
  inversion Hnd as [|x l Hn Hr]; subst.
  destruct Hin as [Hin|Hin].
  - inversion Hin; subst. rewrite N.eqb_refl. reflexivity.
  - destruct (a =? k)%N eqn:E.
    + apply N.eqb_eq in E. subst a. exfalso. apply Hn.
      apply in_map_iff. exists (k, st). split; [reflexivity | exact Hin].
    + apply IH; assumption.
Qed.

Lemma tget_In_conv : forall h st t, tget h t = Some st -> In (h, st) t.
Proof.
  intros h st t; induction t as [|[a s0] r IH]; simpl; intros H; [discriminate|].
  destruct (a =? h)%N eqn:E.
  - apply N.eqb_eq in E. subst a. inversion H; subst. left; reflexivity.
  - right. apply IH. exact H.
Qed.

Lemma tget_failed_in : forall h t,
  tget h t = Some TFailed ->
  In h (map fst (filter (fun p : N * tstate => match snd p with TFailed => true | _ => false end) t)).
Proof.
  intros h t; induction t as [|[a s0] r IH]; simpl; intros H; [discriminate|].
  destruct (a =? h)%N eqn:E.
  - apply N.eqb_eq in E. subst a. inversion H; subst. simpl. left; reflexivity.
  - destruct s0; simpl; try (apply IH; exact H). right. apply IH. exact H.
Qed.

(** * The three refutations: witnesses checked by computation *)

Lemma nth_error_nil_none : forall (A : Type) (i : nat), nth_error (@nil A) i = None.
Proof. intros A i; destruct i; reflexivity. Qed.

Lemma repl_refuted_cancel : S_repl_refuted_cancel.
Proof.
  unfold S_repl_refuted_cancel, wedge_witness.
  exists [mkU 1%N [] true], 1,
         [RLoad 1%N [1%N]; RCancel 1%N; RSlot 0; RLoad 2%N [1%N]], 1%N.
  split; [lia|].
  vm_compute rrun.
  split; [|split; [|split]].
  - unfold rstuck. split; [|split].
    + intros i. simpl. rewrite nth_error_nil_none. reflexivity.
    + intros i ok. simpl. rewrite nth_error_nil_none. reflexivity.
    + reflexivity.
  - exists (mkU 1%N [] true). split; reflexivity.
  - simpl. intros [].
  - exists 2%N, [1%N]. split; [reflexivity|]. split.
    + simpl. left; reflexivity.
    + simpl. intros [H|[]]. discriminate H.
Qed.

Lemma repl_refuted_fetch_failure : S_repl_refuted_fetch_failure.
Proof.
  unfold S_repl_refuted_fetch_failure, wedge_witness.
  exists [mkU 1%N [] true], 1,
         [RLoad 1%N [1%N]; RSlot 0; RFetched 0 false; RMerge; RLoad 2%N [1%N]], 1%N.
  split; [lia|].
  vm_compute rrun.
  split; [|split; [|split]].
  - unfold rstuck. split; [|split].
    + intros i. simpl. rewrite nth_error_nil_none. reflexivity.
    + intros i ok. simpl. rewrite nth_error_nil_none. reflexivity.
    + reflexivity.
  - exists (mkU 1%N [] true). split; reflexivity.
  - simpl. intros [].
  - exists 2%N, [1%N]. split; [reflexivity|]. split.
    + simpl. left; reflexivity.
    + simpl. intros [].
Qed.

Lemma repl_refuted_merge_abort : S_repl_refuted_merge_abort.
Proof.
  unfold S_repl_refuted_merge_abort, wedge_witness.
  exists [mkU 1%N [] false; mkU 2%N [] true], 2,
         [RLoad 1%N [1%N; 2%N]; RSlot 0; RSlot 1; RFetched 0 true; RFetched 0 true; RMerge;
          RLoad 2%N [2%N]], 2%N.
  split; [lia|].
  vm_compute rrun.
  split; [|split; [|split]].
  - unfold rstuck. split; [|split].
    + intros i. simpl. rewrite nth_error_nil_none. reflexivity.
    + intros i ok. simpl. rewrite nth_error_nil_none. reflexivity.
    + reflexivity.
  - exists (mkU 2%N [] true). split; reflexivity.
  - simpl. intros [].
  - exists 2%N, [2%N]. split; [reflexivity|]. split.
    + simpl. left; reflexivity.
    + simpl. intros [].
Qed.

(** * A failed fetch is retried by the next request *)

Lemma enqueue_log : forall ctx s k, r_log (enqueue ctx s k) = r_log s.
Proof.
  intros ctx s k. unfold enqueue.
  destruct (memN k (r_log s)); [reflexivity|].
  destruct (tget k (r_tasks s)) as [[]|]; reflexivity.
Qed.

Lemma enqueue_keeps_added : forall ctx s k h,
  tget h (r_tasks s) = Some TAdded -> In h (r_queue s) ->
  tget h (r_tasks (enqueue ctx s k)) = Some TAdded /\ In h (r_queue (enqueue ctx s k)).
Proof.
  intros ctx s k h Ht Hq. unfold enqueue.
  destruct (memN k (r_log s)); [split; assumption|].
  destruct (tget k (r_tasks s)) as [[]|] eqn:Ek; simpl; try (split; assumption).
  - assert (Hne : k <> h) by (intros E; subst k; rewrite Ek in Ht; discriminate).
    rewrite tget_tset_other by exact Hne. split; [exact Ht | apply in_or_app; left; exact Hq].
  - assert (Hne : k <> h) by (intros E; subst k; rewrite Ek in Ht; discriminate).
    rewrite tget_tset_other by exact Hne. split; [exact Ht | apply in_or_app; left; exact Hq].
Qed.

Lemma enqueue_all_keeps_added : forall ctx l s h,
  tget h (r_tasks s) = Some TAdded -> In h (r_queue s) ->
  tget h (r_tasks (enqueue_all ctx s l)) = Some TAdded /\ In h (r_queue (enqueue_all ctx s l)).
Proof.
  intros ctx l; induction l as [|k r IH]; intros s h Ht Hq; simpl.
  - split; assumption.
  - destruct (enqueue_keeps_added ctx s k h Ht Hq) as [Ht' Hq'].
    apply IH; assumption.
Qed.

Lemma enqueue_other_failed : forall ctx s k h,
  k <> h -> tget h (r_tasks (enqueue ctx s k)) = tget h (r_tasks s).
Proof.
  intros ctx s k h Hne. unfold enqueue.
  destruct (memN k (r_log s)); [reflexivity|].
  destruct (tget k (r_tasks s)) as [[]|]; simpl; try reflexivity;
    apply tget_tset_other; exact Hne.
Qed.

Lemma enqueue_all_retries : forall ctx l s h,
  In h l -> tget h (r_tasks s) = Some TFailed -> ~ In h (r_log s) ->
  tget h (r_tasks (enqueue_all ctx s l)) = Some TAdded /\ In h (r_queue (enqueue_all ctx s l)).
Proof.
  intros ctx l; induction l as [|k r IH]; intros s h Hin Ht Hl; simpl; [contradiction|].
  destruct (N.eq_dec k h) as [E|E].
  - subst k. apply enqueue_all_keeps_added.
    + unfold enqueue.
      destruct (memN h (r_log s)) eqn:Em; [apply memN_In in Em; contradiction|].
      rewrite Ht. simpl. apply tget_tset_same.
    + unfold enqueue.
      destruct (memN h (r_log s)) eqn:Em; [apply memN_In in Em; contradiction|].
      rewrite Ht. simpl. apply in_or_app. right. left. reflexivity.
  - destruct Hin as [Hin|Hin]; [contradiction|].
    apply IH.
    + exact Hin.
    + rewrite enqueue_other_failed by exact E. exact Ht.
    + rewrite enqueue_log. exact Hl.
Qed.

Lemma repl_retry : S_repl_retry.
Proof.
  unfold S_repl_retry. intros U s c heads h Ht Hl.
  eexists. split; [reflexivity|].
  change (m_retry rmech_fixed) with true. cbv iota.
  apply enqueue_all_keeps_added.
  - apply enqueue_all_retries; [apply tget_failed_in; exact Ht | exact Ht | exact Hl].
  - apply enqueue_all_retries; [apply tget_failed_in; exact Ht | exact Ht | exact Hl].
Qed.

(** * Cancellation is harmless with detached contexts *)

Definition set_cancel (c : list N) (s : rst) : rst :=
  mkRS (r_tasks s) (r_queue s) (r_workers s) (r_slots s) (r_buffer s) (r_pending s) c (r_log s).

Lemma enqueue_set_cancel : forall ctx c s h,
  enqueue ctx (set_cancel c s) h = set_cancel c (enqueue ctx s h).
Proof.
  intros ctx c s h. unfold enqueue, set_cancel. simpl.
  destruct (memN h (r_log s)); [reflexivity|].
  destruct (tget h (r_tasks s)) as [[]|]; reflexivity.
Qed.

Lemma enqueue_all_set_cancel : forall ctx c l s,
  enqueue_all ctx (set_cancel c s) l = set_cancel c (enqueue_all ctx s l).
Proof.
  intros ctx c l; induction l as [|k r IH]; intros s; simpl; [reflexivity|].
  rewrite enqueue_set_cancel. apply IH.
Qed.

Lemma idle_check_set_cancel : forall c s,
  idle_check (set_cancel c s) = set_cancel c (idle_check s).
Proof.
  intros c s. destruct s as [t q w sl b p c0 lg].
  unfold idle_check, is_idle, set_cancel. simpl.
  destruct (forallb _ t); [|reflexivity].
  destruct b; reflexivity.
Qed.

Lemma rstep_set_cancel : forall U c s l,
  (match l with RCancel _ => false | _ => true end) = true ->
  rstep rmech_fixed U (set_cancel c s) l = option_map (set_cancel c) (rstep rmech_fixed U s l).
Proof.
  intros U c s l Hl. destruct l as [ctx heads|ctx|i|i ok|]; try discriminate Hl.
  - unfold rstep. change (m_retry rmech_fixed) with true. cbv iota. simpl option_map.
    change (r_tasks (set_cancel c s)) with (r_tasks s).
    rewrite !enqueue_all_set_cancel. reflexivity.
  - unfold rstep. change (m_detach rmech_fixed) with true. simpl negb. simpl andb.
    change (r_workers (set_cancel c s)) with (r_workers s).
    destruct (nth_error (r_workers s) i) as [[wc item [|h]]|]; try reflexivity.
    simpl. destruct (r_slots s); [reflexivity|].
    destruct (hd_error (r_queue s)); reflexivity.
  - unfold rstep. change (m_detach rmech_fixed) with true. change (m_retry rmech_fixed) with true.
    simpl orb.
    change (r_workers (set_cancel c s)) with (r_workers s).
    destruct (nth_error (r_workers s) i) as [[wc item [|h]]|]; try reflexivity.
    rewrite andb_true_r.
    destruct ok; simpl.
    + destruct (ufind h U) as [e|]; simpl.
      * match goal with
        | |- context [enqueue_all wc ?a (u_links e)] =>
          change a with (set_cancel c (mkRS (r_tasks s) (r_queue s) (del_worker i (r_workers s))
                                            (S (r_slots s)) (r_buffer s ++ [Some h]) (r_pending s)
                                            (r_cancel s) (r_log s)))
        end.
        rewrite enqueue_all_set_cancel. simpl.
        rewrite <- idle_check_set_cancel. reflexivity.
      * rewrite <- idle_check_set_cancel. reflexivity.
    + rewrite <- idle_check_set_cancel. reflexivity.
  - unfold rstep. simpl. destruct (r_pending s); reflexivity.
Qed.

Lemma set_cancel_set_cancel : forall c c' s, set_cancel c (set_cancel c' s) = set_cancel c s.
Proof. reflexivity. Qed.

Lemma cancel_harmless_gen : forall U sched c s,
  drop_cancel (rrun rmech_fixed U sched (set_cancel c s)) =
  drop_cancel (rrun rmech_fixed U
     (filter (fun l => match l with RCancel _ => false | _ => true end) sched) s).
Proof.
  intros U sched; induction sched as [|l r IH]; intros c s.
  - reflexivity.
  - simpl filter. destruct (match l with RCancel _ => false | _ => true end) eqn:El.
    + simpl rrun. unfold rrun in *. simpl fold_left.
      rewrite rstep_set_cancel by exact El.
      destruct (rstep rmech_fixed U s l) as [s'|]; simpl option_map; cbv iota; apply IH.
    + destruct l as [ctx heads|ctx|i|i ok|]; try discriminate El.
      unfold rrun in *. simpl fold_left.
      change (mkRS (r_tasks (set_cancel c s)) (r_queue (set_cancel c s)) (r_workers (set_cancel c s))
                   (r_slots (set_cancel c s)) (r_buffer (set_cancel c s)) (r_pending (set_cancel c s))
                   (ctx :: r_cancel (set_cancel c s)) (r_log (set_cancel c s)))
        with (set_cancel (ctx :: c) s).
      apply IH.
Qed.

Lemma repl_cancel_harmless : S_repl_cancel_harmless.
Proof.
  unfold S_repl_cancel_harmless. intros U slots sched.
  change (rinit slots []) with (set_cancel [] (rinit slots [])) at 1.
  apply cancel_harmless_gen.
Qed.

(** * Invariants of the repaired machine *)

Fixpoint fetching (ws : list worker) : list N :=
  match ws with
  | [] => []
  | w :: r => match wk_pos w with WFetch h => h :: fetching r | WWait => fetching r end
  end.

Fixpoint nwait (ws : list worker) : nat :=
  match ws with
  | [] => 0
  | w :: r => match wk_pos w with WWait => S (nwait r) | WFetch _ => nwait r end
  end.

Lemma fetching_app : forall a b, fetching (a ++ b) = fetching a ++ fetching b.
Proof.
  intros a b; induction a as [|w r IH]; simpl; [reflexivity|].
  destruct (wk_pos w); simpl; rewrite IH; reflexivity.
Qed.

Lemma nwait_app : forall a b, nwait (a ++ b) = nwait a + nwait b.
Proof.
  intros a b; induction a as [|w r IH]; simpl; [reflexivity|].
  destruct (wk_pos w); simpl; rewrite IH; reflexivity.
Qed.

Lemma set_worker_split : forall (l1 l2 : list worker) w w',
  set_worker (length l1) w' (l1 ++ w :: l2) = l1 ++ w' :: l2.
Proof.
  intros l1 l2 w w'. unfold set_worker. induction l1 as [|a r IH]; simpl.
  - reflexivity.
  - f_equal. exact IH.
Qed.

Lemma del_worker_split : forall (l1 l2 : list worker) w,
  del_worker (length l1) (l1 ++ w :: l2) = l1 ++ l2.
Proof.
  intros l1 l2 w. unfold del_worker. induction l1 as [|a r IH]; simpl.
  - reflexivity.
  - f_equal. exact IH.
Qed.

Lemma NoDup_snoc : forall (l : list N) x, NoDup l -> ~ In x l -> NoDup (l ++ [x]).
Proof.
  intros l x Hnd Hx.
  apply (Permutation_NoDup (Permutation_cons_append l x)).
  constructor; assumption.
Qed.

Definition pres (t : list (N * tstate)) (lg : list N) (x : N) : Prop :=
  In x lg \/ tget x t <> None.
Definition present (s : rst) (x : N) : Prop := pres (r_tasks s) (r_log s) x.

Definition inb (buf : list (option N)) (pend : list (list (option N))) (x : N) : Prop :=
  In (Some x) buf \/ exists b, In b pend /\ In (Some x) b.
Definition inbuf (s : rst) (x : N) : Prop := inb (r_buffer s) (r_pending s) x.

(** [X]: hashes whose task is still [TFetching] although their worker has already left
    (the intermediate states inside one [RFetched] step) *)
Record core (U : list uent) (slots : nat) (X : list N) (s : rst) : Prop := mkCore {
  c_keys : NoDup (map fst (r_tasks s));
  c_slots : r_slots s + length (fetching (r_workers s)) = slots;
  c_qnd : NoDup (r_queue s);
  c_q : forall h, In h (r_queue s) <-> tget h (r_tasks s) = Some TAdded;
  c_qlen : length (r_queue s) = nwait (r_workers s);
  c_fnd : NoDup (X ++ fetching (r_workers s));
  c_f : forall h, In h (X ++ fetching (r_workers s)) <-> tget h (r_tasks s) = Some TFetching;
  c_links : forall h, tget h (r_tasks s) = Some TFetched ->
            exists e, ufind h U = Some e /\ forall k, In k (u_links e) -> present s k;
  c_done : forall h, tget h (r_tasks s) = Some TFetched ->
           inbuf s h \/ (uvalid U h -> In h (r_log s));
  c_log : forall h, In h (r_log s) -> tget h (r_tasks s) = Some TFetched;
  c_buf : forall h, inbuf s h -> tget h (r_tasks s) = Some TFetched \/ In h X
}.

Definition rinv (U : list uent) (slots : nat) (s : rst) : Prop :=
  core U slots [] s /\ (r_buffer s <> [] -> r_workers s <> []).

Lemma rinv_init : forall U slots, rinv U slots (rinit slots []).
Proof.
  intros U slots. split.
  - constructor; simpl.
    + constructor.
    + lia.
    + constructor.
    + intros h; split; [intros [] | discriminate].
    + reflexivity.
    + constructor.
    + intros h; split; [intros [] | discriminate].
    + discriminate.
    + discriminate.
    + intros h [].
    + intros h [[]|[b [[] _]]].
  - simpl. intros H; exfalso; apply H; reflexivity.
Qed.

(** ** enqueue *)

Lemma pres_tset : forall t lg h st x, pres t lg x -> pres (tset h st t) lg x.
Proof.
  intros t lg h st x [H|H]; [left; exact H | right; apply tget_tset_not_none; exact H].
Qed.

Lemma core_enqueue_do : forall U n X s ctx h,
  core U n X s -> ~ In h (r_log s) ->
  (tget h (r_tasks s) = Some TFailed \/ tget h (r_tasks s) = None) ->
  core U n X (mkRS (tset h TAdded (r_tasks s)) (r_queue s ++ [h])
                   (r_workers s ++ [mkWk ctx h WWait]) (r_slots s)
                   (r_buffer s) (r_pending s) (r_cancel s) (r_log s)).
Proof.
  intros U n X s ctx h C Hl Ht.
  destruct C as [Hkeys Hslots Hqnd Hq Hqlen Hfnd Hf Hlinks Hdone Hlog Hbuf].
  assert (HnA : tget h (r_tasks s) <> Some TAdded) by (destruct Ht as [E|E]; rewrite E; discriminate).
  assert (HnF : tget h (r_tasks s) <> Some TFetching) by (destruct Ht as [E|E]; rewrite E; discriminate).
  assert (HnD : tget h (r_tasks s) <> Some TFetched) by (destruct Ht as [E|E]; rewrite E; discriminate).
  constructor; simpl; unfold present, inbuf; simpl.
  - apply tset_keys_nodup. exact Hkeys.
  - rewrite fetching_app. simpl. rewrite app_nil_r. exact Hslots.
  - apply NoDup_snoc; [exact Hqnd|]. intros Hin. apply Hq in Hin. contradiction.
  - intros x. destruct (N.eq_dec h x) as [E|E].
    + subst x. rewrite tget_tset_same. split; [reflexivity|].
      intros _. apply in_or_app. right. left. reflexivity.
    + rewrite tget_tset_other by exact E. rewrite <- Hq. rewrite in_app_iff. simpl.
      split; [intros [H|[H|[]]]; [exact H | contradiction] | intros H; left; exact H].
  - rewrite app_length, nwait_app. simpl. rewrite Hqlen. reflexivity.
  - rewrite fetching_app. simpl. rewrite app_nil_r. exact Hfnd.
  - intros x. rewrite fetching_app. simpl. rewrite app_nil_r.
    destruct (N.eq_dec h x) as [E|E].
    + subst x. rewrite tget_tset_same. rewrite Hf. split; [intros H; contradiction | discriminate].
    + rewrite tget_tset_other by exact E. apply Hf.
  - intros x Hx. destruct (N.eq_dec h x) as [E|E].
    + subst x. rewrite tget_tset_same in Hx. discriminate.
    + rewrite tget_tset_other in Hx by exact E.
      destruct (Hlinks x Hx) as [e [He Hk]]. exists e. split; [exact He|].
      intros k Hin. apply pres_tset. apply Hk. exact Hin.
  - intros x Hx. destruct (N.eq_dec h x) as [E|E].
    + subst x. rewrite tget_tset_same in Hx. discriminate.
    + rewrite tget_tset_other in Hx by exact E. apply Hdone. exact Hx.
  - intros x Hx. destruct (N.eq_dec h x) as [E|E]; [subst x; contradiction|].
    rewrite tget_tset_other by exact E. apply Hlog. exact Hx.
  - intros x Hx. destruct (Hbuf x Hx) as [H|H].
    + left. destruct (N.eq_dec h x) as [E|E]; [subst x; contradiction|].
      rewrite tget_tset_other by exact E. exact H.
    + right. exact H.
Qed.

Lemma core_enqueue : forall U n X ctx s h, core U n X s -> core U n X (enqueue ctx s h).
Proof.
  intros U n X ctx s h C. unfold enqueue.
  destruct (memN h (r_log s)) eqn:Em; [exact C|].
  assert (Hl : ~ In h (r_log s)) by (intros H; apply memN_In in H; rewrite H in Em; discriminate).
  destruct (tget h (r_tasks s)) as [[]|] eqn:Et; try exact C.
  - apply core_enqueue_do; [exact C | exact Hl | left; exact Et].
  - apply core_enqueue_do; [exact C | exact Hl | right; exact Et].
Qed.

Lemma core_enqueue_all : forall U n X ctx l s, core U n X s -> core U n X (enqueue_all ctx s l).
Proof.
  intros U n X ctx l; induction l as [|k r IH]; intros s C; simpl; [exact C|].
  apply IH. apply core_enqueue. exact C.
Qed.

Lemma enqueue_workers_ne : forall ctx s h, r_workers s <> [] -> r_workers (enqueue ctx s h) <> [].
Proof.
  intros ctx s h Hw. unfold enqueue.
  destruct (memN h (r_log s)); [exact Hw|].
  destruct (tget h (r_tasks s)) as [[]|]; simpl; try exact Hw;
    intros E; apply app_eq_nil in E; destruct E as [_ E]; discriminate.
Qed.

Lemma enqueue_buffer : forall ctx s h, r_buffer (enqueue ctx s h) = r_buffer s.
Proof.
  intros ctx s h. unfold enqueue.
  destruct (memN h (r_log s)); [reflexivity|].
  destruct (tget h (r_tasks s)) as [[]|]; reflexivity.
Qed.

Lemma enqueue_pending : forall ctx s h, r_pending (enqueue ctx s h) = r_pending s.
Proof.
  intros ctx s h. unfold enqueue.
  destruct (memN h (r_log s)); [reflexivity|].
  destruct (tget h (r_tasks s)) as [[]|]; reflexivity.
Qed.

Lemma enqueue_all_buffer : forall ctx l s, r_buffer (enqueue_all ctx s l) = r_buffer s.
Proof.
  intros ctx l; induction l as [|k r IH]; intros s; simpl; [reflexivity|].
  rewrite IH. apply enqueue_buffer.
Qed.

Lemma enqueue_all_pending : forall ctx l s, r_pending (enqueue_all ctx s l) = r_pending s.
Proof.
  intros ctx l; induction l as [|k r IH]; intros s; simpl; [reflexivity|].
  rewrite IH. apply enqueue_pending.
Qed.

Lemma enqueue_all_log : forall ctx l s, r_log (enqueue_all ctx s l) = r_log s.
Proof.
  intros ctx l; induction l as [|k r IH]; intros s; simpl; [reflexivity|].
  rewrite IH. apply enqueue_log.
Qed.

Lemma rinv_enqueue : forall U n ctx s h, rinv U n s -> rinv U n (enqueue ctx s h).
Proof.
  intros U n ctx s h [C F]. split; [apply core_enqueue; exact C|].
  rewrite enqueue_buffer. intros Hb. apply enqueue_workers_ne. apply F. exact Hb.
Qed.

Lemma rinv_enqueue_all : forall U n ctx l s, rinv U n s -> rinv U n (enqueue_all ctx s l).
Proof.
  intros U n ctx l; induction l as [|k r IH]; intros s C; simpl; [exact C|].
  apply IH. apply rinv_enqueue. exact C.
Qed.

Lemma present_enqueue : forall ctx s h x, present s x -> present (enqueue ctx s h) x.
Proof.
  intros ctx s h x Hx. unfold enqueue.
  destruct (memN h (r_log s)); [exact Hx|].
  destruct (tget h (r_tasks s)) as [[]|]; try exact Hx;
    unfold present; simpl; apply pres_tset; exact Hx.
Qed.

Lemma present_enqueue_all : forall ctx l s x, present s x -> present (enqueue_all ctx s l) x.
Proof.
  intros ctx l; induction l as [|k r IH]; intros s x Hx; simpl; [exact Hx|].
  apply IH. apply present_enqueue. exact Hx.
Qed.

Lemma present_enqueue_self : forall ctx s h, present (enqueue ctx s h) h.
Proof.
  intros ctx s h. unfold enqueue.
  destruct (memN h (r_log s)) eqn:Em; [left; apply memN_In; exact Em|].
  destruct (tget h (r_tasks s)) as [[]|] eqn:Et; unfold present, pres; simpl;
    try (right; rewrite Et; discriminate);
    right; rewrite tget_tset_same; discriminate.
Qed.

Lemma present_enqueue_all_in : forall ctx l s h, In h l -> present (enqueue_all ctx s l) h.
Proof.
  intros ctx l; induction l as [|k r IH]; intros s h Hin; simpl; [contradiction|].
  destruct Hin as [E|Hin].
  - subst k. apply present_enqueue_all. apply present_enqueue_self.
  - apply IH. exact Hin.
Qed.

(** ** a waiting worker acquires a slot *)

Lemma core_slot : forall U n s i ctx item k h q,
  core U n [] s ->
  nth_error (r_workers s) i = Some (mkWk ctx item WWait) ->
  r_slots s = S k -> r_queue s = h :: q ->
  core U n [] (mkRS (tset h TFetching (r_tasks s)) q
                    (set_worker i (mkWk ctx item (WFetch h)) (r_workers s)) k
                    (r_buffer s) (r_pending s) (r_cancel s) (r_log s)).
Proof.
  intros U n s i ctx item k h q C Hn Hs Hqe.
  destruct C as [Hkeys Hslots Hqnd Hq Hqlen Hfnd Hf Hlinks Hdone Hlog Hbuf].
  simpl in Hfnd, Hf.
  destruct (nth_error_split _ _ Hn) as [l1 [l2 [Hw Hlen]]].
  subst i. rewrite Hw in *. rewrite set_worker_split.
  rewrite Hqe in *. rewrite Hs in *.
  rewrite fetching_app in Hslots, Hfnd, Hf. simpl in Hslots, Hfnd, Hf.
  rewrite nwait_app in Hqlen. simpl in Hqlen.
  inversion Hqnd as [|a l Hnq Hqnd']; subst a l.
  assert (HA : tget h (r_tasks s) = Some TAdded) by (apply Hq; left; reflexivity).
  assert (HnF : ~ In h (fetching l1 ++ fetching l2)).
  { intros Hin. apply Hf in Hin. rewrite HA in Hin. discriminate. }
  constructor; simpl; unfold present, inbuf; simpl.
  - apply tset_keys_nodup. exact Hkeys.
  - rewrite fetching_app. simpl. rewrite app_length in *. simpl. lia.
  - exact Hqnd'.
  - intros x. destruct (N.eq_dec h x) as [E|E].
    + subst x. rewrite tget_tset_same. split; [intros H; contradiction | discriminate].
    + rewrite tget_tset_other by exact E. rewrite <- Hq. simpl.
      split; [intros H; right; exact H | intros [H|H]; [contradiction | exact H]].
  - rewrite nwait_app. simpl. simpl in Hqlen. lia.
  - rewrite fetching_app. simpl.
    apply (Permutation_NoDup (Permutation_middle (fetching l1) (fetching l2) h)).
    constructor; assumption.
  - intros x. rewrite fetching_app. simpl. rewrite in_app_iff. simpl.
    destruct (N.eq_dec h x) as [E|E].
    + subst x. rewrite tget_tset_same. split; [reflexivity | intros _; right; left; reflexivity].
    + rewrite tget_tset_other by exact E. rewrite <- Hf. rewrite in_app_iff.
      split; [intros [H|[H|H]]; [left; exact H | contradiction | right; exact H]
             | intros [H|H]; [left; exact H | right; right; exact H]].
  - intros x Hx. destruct (N.eq_dec h x) as [E|E].
    + subst x. rewrite tget_tset_same in Hx. discriminate.
    + rewrite tget_tset_other in Hx by exact E.
      destruct (Hlinks x Hx) as [e [He Hk]]. exists e. split; [exact He|].
      intros k' Hin. apply pres_tset. apply Hk. exact Hin.
  - intros x Hx. destruct (N.eq_dec h x) as [E|E].
    + subst x. rewrite tget_tset_same in Hx. discriminate.
    + rewrite tget_tset_other in Hx by exact E. apply Hdone. exact Hx.
  - intros x Hx. apply Hlog in Hx. destruct (N.eq_dec h x) as [E|E].
    + subst x. rewrite HA in Hx. discriminate.
    + rewrite tget_tset_other by exact E. exact Hx.
  - intros x Hx. destruct (Hbuf x Hx) as [H|[]]. left.
    destruct (N.eq_dec h x) as [E|E].
    + subst x. rewrite HA in H. discriminate.
    + rewrite tget_tset_other by exact E. exact H.
Qed.

(** ** merge of a load-end batch *)

Lemma merge_mono : forall U b lg x, In x lg -> In x (merge_hashes true U lg b).
Proof.
  intros U b; induction b as [|[h|] r IH]; intros lg x Hx; simpl.
  - exact Hx.
  - destruct (ufind h U) as [e|]; [|apply IH; exact Hx].
    destruct (u_valid e); [|apply IH; exact Hx].
    apply IH. destruct (memN h lg); [exact Hx | apply in_or_app; left; exact Hx].
  - apply IH. exact Hx.
Qed.

Lemma merge_adds : forall U b lg h,
  In (Some h) b -> uvalid U h -> In h (merge_hashes true U lg b).
Proof.
  intros U b; induction b as [|[k|] r IH]; intros lg h Hin Hv; simpl.
  - contradiction.
  - destruct Hin as [E|Hin].
    + inversion E; subst k. destruct Hv as [e [He Hve]]. rewrite He, Hve.
      apply merge_mono. destruct (memN h lg) eqn:Em.
      * apply memN_In. exact Em.
      * apply in_or_app. right. left. reflexivity.
    + destruct (ufind k U) as [e|]; [|apply IH; assumption].
      destruct (u_valid e); apply IH; assumption.
  - destruct Hin as [E|Hin]; [discriminate|]. apply IH; assumption.
Qed.

Lemma merge_inv : forall c U b lg x,
  In x (merge_hashes c U lg b) -> In x lg \/ In (Some x) b.
Proof.
  intros c U b; induction b as [|[k|] r IH]; intros lg x Hx; simpl in Hx.
  - left. exact Hx.
  - destruct (ufind k U) as [e|].
    + destruct (u_valid e).
      * apply IH in Hx. destruct Hx as [Hx|Hx]; [|right; right; exact Hx].
        destruct (memN k lg); [left; exact Hx|].
        apply in_app_or in Hx. destruct Hx as [Hx|[Hx|[]]]; [left; exact Hx|].
        subst k. right. left. reflexivity.
      * destruct c; [|left; exact Hx].
        apply IH in Hx. destruct Hx as [Hx|Hx]; [left; exact Hx | right; right; exact Hx].
    + apply IH in Hx. destruct Hx as [Hx|Hx]; [left; exact Hx | right; right; exact Hx].
  - apply IH in Hx. destruct Hx as [Hx|Hx]; [left; exact Hx | right; right; exact Hx].
Qed.

Lemma core_merge : forall U n s b rest,
  core U n [] s -> r_pending s = b :: rest ->
  core U n [] (mkRS (r_tasks s) (r_queue s) (r_workers s) (r_slots s) (r_buffer s) rest (r_cancel s)
                    (merge_hashes true U (r_log s) b)).
Proof.
  intros U n s b rest C Hp.
  destruct C as [Hkeys Hslots Hqnd Hq Hqlen Hfnd Hf Hlinks Hdone Hlog Hbuf].
  unfold inbuf, inb in Hdone, Hbuf. rewrite Hp in Hdone, Hbuf.
  constructor; simpl; unfold present, inbuf, inb, pres; simpl; try assumption.
  - intros x Hx. destruct (Hlinks x Hx) as [e [He Hk]]. exists e. split; [exact He|].
    intros k Hin. destruct (Hk k Hin) as [H|H]; [left; apply merge_mono; exact H | right; exact H].
  - intros x Hx. destruct (Hdone x Hx) as [[H|[b' [Hb' Hin]]]|H].
    + left. left. exact H.
    + destruct Hb' as [E|Hb'].
      * subst b'. right. intros Hv. apply merge_adds; assumption.
      * left. right. exists b'. split; assumption.
    + right. intros Hv. apply merge_mono. apply H. exact Hv.
  - intros x Hx. apply merge_inv in Hx. destruct Hx as [Hx|Hx].
    + apply Hlog. exact Hx.
    + destruct (Hbuf x) as [H|[]]; [|exact H].
      right. exists b. split; [left; reflexivity | exact Hx].
  - intros x [H|[b' [Hb' Hin]]]; apply Hbuf.
    + left. exact H.
    + right. exists b'. split; [right; exact Hb' | exact Hin].
Qed.

(** ** a fetch returns *)

Definition s1_of (s : rst) (i : nat) (its : list (option N)) : rst :=
  mkRS (r_tasks s) (r_queue s) (del_worker i (r_workers s)) (S (r_slots s))
       (r_buffer s ++ its) (r_pending s) (r_cancel s) (r_log s).

Definition settask (h : N) (st : tstate) (s : rst) : rst :=
  mkRS (tset h st (r_tasks s)) (r_queue s) (r_workers s) (r_slots s) (r_buffer s)
       (r_pending s) (r_cancel s) (r_log s).

Lemma core_s1 : forall U n s i ctx item h its,
  core U n [] s ->
  nth_error (r_workers s) i = Some (mkWk ctx item (WFetch h)) ->
  (its = [Some h] \/ its = []) ->
  core U n [h] (s1_of s i its) /\ (its = [] -> ~ inbuf (s1_of s i its) h).
Proof.
  intros U n s i ctx item h its C Hn Hits.
  destruct C as [Hkeys Hslots Hqnd Hq Hqlen Hfnd Hf Hlinks Hdone Hlog Hbuf].
  simpl in Hfnd, Hf.
  destruct (nth_error_split _ _ Hn) as [l1 [l2 [Hw Hlen]]].
  subst i. unfold s1_of. rewrite Hw in *. rewrite del_worker_split.
  rewrite fetching_app in Hslots, Hfnd, Hf. simpl in Hslots, Hfnd, Hf.
  rewrite nwait_app in Hqlen. simpl in Hqlen.
  assert (HF : tget h (r_tasks s) = Some TFetching).
  { apply Hf. apply in_or_app. right. left. reflexivity. }
  split.
  - constructor; simpl; unfold present, inbuf, inb; simpl; try assumption.
    + rewrite fetching_app. rewrite app_length in *. simpl in Hslots. lia.
    + rewrite nwait_app. exact Hqlen.
    + rewrite fetching_app.
      apply (Permutation_NoDup (Permutation_sym (Permutation_middle (fetching l1) (fetching l2) h))).
      exact Hfnd.
    + intros x. rewrite fetching_app. rewrite <- Hf. rewrite !in_app_iff. simpl.
      split; [intros [H|[H|H]]; [right; left; exact H | left; exact H | right; right; exact H]
             | intros [H|[H|H]]; [right; left; exact H | left; exact H | right; right; exact H]].
    + intros x Hx. destruct (Hdone x Hx) as [[H|H]|H].
      * left. left. apply in_or_app. left. exact H.
      * left. right. exact H.
      * right. exact H.
    + intros x [H|H].
      * apply in_app_or in H. destruct H as [H|H].
        -- destruct (Hbuf x) as [H'|[]]; [left; exact H | left; exact H'].
        -- destruct Hits as [E|E]; subst its.
           ++ destruct H as [H|[]]. inversion H; subst x. right. left. reflexivity.
           ++ destruct H.
      * destruct (Hbuf x) as [H'|[]]; [right; exact H | left; exact H'].
  - intros E. subst its. unfold inbuf, inb. simpl. rewrite app_nil_r. intros H.
    destruct (Hbuf h H) as [H'|[]]. rewrite HF in H'. discriminate.
Qed.

Lemma core_finish : forall U n s h st,
  core U n [h] s ->
  (st = TFetched \/ st = TFailed) ->
  (st = TFetched -> exists e, ufind h U = Some e /\ (forall k, In k (u_links e) -> present s k) /\
                              In (Some h) (r_buffer s)) ->
  (st = TFailed -> ~ inbuf s h) ->
  core U n [] (settask h st s).
Proof.
  intros U n s h st C Hst Hok Hfail.
  destruct C as [Hkeys Hslots Hqnd Hq Hqlen Hfnd Hf Hlinks Hdone Hlog Hbuf].
  simpl in Hfnd, Hf.
  assert (HF : tget h (r_tasks s) = Some TFetching) by (apply Hf; left; reflexivity).
  inversion Hfnd as [|a l HnF Hfnd']; subst a l.
  assert (HstA : st <> TAdded) by (destruct Hst; subst st; discriminate).
  assert (HstF : st <> TFetching) by (destruct Hst; subst st; discriminate).
  unfold settask.
  constructor; simpl; unfold present, inbuf; simpl; try assumption.
  - apply tset_keys_nodup. exact Hkeys.
  - intros x. destruct (N.eq_dec h x) as [E|E].
    + subst x. rewrite tget_tset_same. rewrite Hq. rewrite HF.
      split; [discriminate | intros H; inversion H; contradiction].
    + rewrite tget_tset_other by exact E. apply Hq.
  - intros x. destruct (N.eq_dec h x) as [E|E].
    + subst x. rewrite tget_tset_same.
      split; [intros H; contradiction | intros H; inversion H; contradiction].
    + rewrite tget_tset_other by exact E. rewrite <- Hf.
      split; [intros H; right; exact H | intros [H|H]; [contradiction | exact H]].
  - intros x Hx. destruct (N.eq_dec h x) as [E|E].
    + subst x. rewrite tget_tset_same in Hx. inversion Hx as [Hst'].
      destruct (Hok Hst') as [e [He [Hk _]]]. exists e. split; [exact He|].
      intros k Hin. apply pres_tset. apply Hk. exact Hin.
    + rewrite tget_tset_other in Hx by exact E.
      destruct (Hlinks x Hx) as [e [He Hk]]. exists e. split; [exact He|].
      intros k Hin. apply pres_tset. apply Hk. exact Hin.
  - intros x Hx. destruct (N.eq_dec h x) as [E|E].
    + subst x. rewrite tget_tset_same in Hx. inversion Hx as [Hst'].
      destruct (Hok Hst') as [e [_ [_ Hb]]]. left. left. exact Hb.
    + rewrite tget_tset_other in Hx by exact E. apply Hdone. exact Hx.
  - intros x Hx. apply Hlog in Hx. destruct (N.eq_dec h x) as [E|E].
    + subst x. rewrite HF in Hx. discriminate.
    + rewrite tget_tset_other by exact E. exact Hx.
  - intros x Hx. left. destruct (N.eq_dec h x) as [E|E].
    + subst x. rewrite tget_tset_same. destruct Hst as [Hst|Hst]; [subst st; reflexivity|].
      exfalso. apply (Hfail Hst). exact Hx.
    + rewrite tget_tset_other by exact E.
      destruct (Hbuf x Hx) as [H|[H|[]]]; [exact H | contradiction].
Qed.

(** ** the idle check flushes the buffer *)

Lemma not_idle_ex : forall t : list (N * tstate),
  forallb (fun p => match snd p with TFetched | TFailed => true | _ => false end) t = false ->
  exists k st, In (k, st) t /\ (st = TAdded \/ st = TFetching).
Proof.
  induction t as [|[k st] r IH]; simpl; intros H; [discriminate|].
  destruct st; simpl in H.
  - exists k, TAdded. split; [left; reflexivity | left; reflexivity].
  - exists k, TFetching. split; [left; reflexivity | right; reflexivity].
  - destruct (IH H) as [k' [st' [Hin Hst]]]. exists k', st'. split; [right; exact Hin | exact Hst].
  - destruct (IH H) as [k' [st' [Hin Hst]]]. exists k', st'. split; [right; exact Hin | exact Hst].
Qed.

Lemma rinv_idle_check : forall U n s, core U n [] s -> rinv U n (idle_check s).
Proof.
  intros U n s C. unfold idle_check.
  destruct (is_idle s) eqn:Ei.
  - destruct (r_buffer s) as [|o bl] eqn:Eb.
    + split; [exact C|]. intros H. rewrite Eb in H. exfalso. apply H. reflexivity.
    + split; [|simpl; intros H; exfalso; apply H; reflexivity].
      destruct C as [Hkeys Hslots Hqnd Hq Hqlen Hfnd Hf Hlinks Hdone Hlog Hbuf].
      unfold inbuf, inb in Hdone, Hbuf. rewrite Eb in Hdone, Hbuf.
      constructor; simpl; unfold present, inbuf, inb; simpl; try assumption.
      * intros x Hx. destruct (Hdone x Hx) as [[H|[b' [Hb' Hin]]]|H].
        -- left. right. exists (o :: bl). split; [apply in_or_app; right; left; reflexivity | exact H].
        -- left. right. exists b'. split; [apply in_or_app; left; exact Hb' | exact Hin].
        -- right. exact H.
      * intros x [[]|[b' [Hb' Hin]]]. apply Hbuf.
        apply in_app_or in Hb'. destruct Hb' as [Hb'|[E|[]]].
        -- right. exists b'. split; assumption.
        -- subst b'. left. exact Hin.
  - split; [exact C|]. intros _.
    unfold is_idle in Ei. destruct (not_idle_ex _ Ei) as [k [st [Hin Hst]]].
    destruct C as [Hkeys Hslots Hqnd Hq Hqlen Hfnd Hf Hlinks Hdone Hlog Hbuf].
    apply (tget_In _ _ _ Hkeys) in Hin.
    intros Hw. rewrite Hw in *. simpl in Hqlen, Hf.
    destruct Hst as [E|E]; subst st.
    + apply Hq in Hin. destruct (r_queue s); [contradiction | discriminate].
    + apply Hf in Hin. contradiction.
Qed.

(** ** every enabled label preserves the invariant *)

Lemma rfetched_fixed : forall U s i ok s',
  rstep rmech_fixed U s (RFetched i ok) = Some s' ->
  exists ctx item h,
    nth_error (r_workers s) i = Some (mkWk ctx item (WFetch h)) /\
    (s' = idle_check (settask h TFailed (s1_of s i [])) \/
     exists e, ufind h U = Some e /\
               s' = idle_check (settask h TFetched (enqueue_all ctx (s1_of s i [Some h]) (u_links e)))).
Proof.
  intros U s i ok s' H. unfold rstep in H.
  destruct (nth_error (r_workers s) i) as [[ctx item [|h]]|] eqn:En; try discriminate.
  exists ctx, item, h. split; [reflexivity|].
  change (m_detach rmech_fixed) with true in H. change (m_retry rmech_fixed) with true in H.
  simpl orb in H. rewrite andb_true_r in H.
  destruct ok.
  - destruct (ufind h U) as [e|] eqn:Eu.
    + right. exists e. split; [reflexivity|]. inversion H. reflexivity.
    + left. inversion H. reflexivity.
  - left. inversion H. reflexivity.
Qed.

Lemma rinv_step : forall U n s l s',
  rinv U n s -> rstep rmech_fixed U s l = Some s' -> rinv U n s'.
Proof.
  intros U n s l s' I H. destruct l as [ctx heads|ctx|i|i ok|].
  - simpl in H. inversion H. apply rinv_enqueue_all. apply rinv_enqueue_all. exact I.
  - simpl in H. inversion H. destruct I as [C F].
    destruct C as [Hkeys Hslots Hqnd Hq Hqlen Hfnd Hf Hlinks Hdone Hlog Hbuf].
    split; [constructor; simpl; assumption | simpl; exact F].
  - unfold rstep in H.
    destruct (nth_error (r_workers s) i) as [[wc item [|h]]|] eqn:En; try discriminate.
    change (m_detach rmech_fixed) with true in H. simpl negb in H. simpl andb in H. cbv iota in H.
    destruct (r_slots s) as [|k] eqn:Es; [discriminate|].
    destruct (r_queue s) as [|h q] eqn:Eq; [discriminate|].
    simpl in H. rewrite N.eqb_refl in H. inversion H.
    destruct I as [C F]. split.
    + apply core_slot; [exact C | exact En | exact Es | exact Eq].
    + simpl. intros _.
      destruct (nth_error_split _ _ En) as [l1 [l2 [Hw Hlen]]].
      subst i. rewrite Hw. rewrite set_worker_split.
      intros E. apply app_eq_nil in E. destruct E as [_ E]. discriminate.
  - destruct I as [C F].
    destruct (rfetched_fixed _ _ _ _ _ H) as [ctx [item [h [En [E|[e [Eu E]]]]]]]; subst s'.
    + apply rinv_idle_check.
      destruct (core_s1 U n s i ctx item h [] C En (or_intror eq_refl)) as [C1 Hnb].
      apply core_finish.
      * exact C1.
      * right. reflexivity.
      * discriminate.
      * intros _. apply Hnb. reflexivity.
    + apply rinv_idle_check.
      destruct (core_s1 U n s i ctx item h [Some h] C En (or_introl eq_refl)) as [C1 _].
      apply core_finish.
      * apply core_enqueue_all. exact C1.
      * left. reflexivity.
      * intros _. exists e. split; [exact Eu|]. split.
        -- intros k Hin. apply present_enqueue_all_in. exact Hin.
        -- rewrite enqueue_all_buffer. simpl. apply in_or_app. right. left. reflexivity.
      * discriminate.
  - unfold rstep in H. destruct (r_pending s) as [|b rest] eqn:Ep; [discriminate|].
    inversion H. destruct I as [C F].
    split; [apply core_merge; assumption | simpl; exact F].
Qed.

Lemma rinv_run : forall U n sched s, rinv U n s -> rinv U n (rrun rmech_fixed U sched s).
Proof.
  intros U n sched; induction sched as [|l r IH]; intros s I; [exact I|].
  unfold rrun in *. simpl fold_left.
  destruct (rstep rmech_fixed U s l) as [s'|] eqn:E.
  - apply IH. apply (rinv_step _ _ _ _ _ I E).
  - apply IH. exact I.
Qed.

(** ** what was requested stays known *)

Lemma idle_check_tasks : forall s, r_tasks (idle_check s) = r_tasks s.
Proof.
  intros s. unfold idle_check. destruct (is_idle s); [|reflexivity].
  destruct (r_buffer s); reflexivity.
Qed.

Lemma idle_check_log : forall s, r_log (idle_check s) = r_log s.
Proof.
  intros s. unfold idle_check. destruct (is_idle s); [|reflexivity].
  destruct (r_buffer s); reflexivity.
Qed.

Lemma present_idle_check : forall s x, present s x -> present (idle_check s) x.
Proof.
  intros s x H. unfold present. rewrite idle_check_tasks, idle_check_log. exact H.
Qed.

Lemma present_step : forall U s l s' x,
  rstep rmech_fixed U s l = Some s' -> present s x -> present s' x.
Proof.
  intros U s l s' x H P. destruct l as [ctx heads|ctx|i|i ok|].
  - simpl in H. inversion H. apply present_enqueue_all. apply present_enqueue_all. exact P.
  - simpl in H. inversion H. exact P.
  - unfold rstep in H.
    destruct (nth_error (r_workers s) i) as [[wc item [|h]]|]; try discriminate.
    change (m_detach rmech_fixed) with true in H. simpl negb in H. simpl andb in H. cbv iota in H.
    destruct (r_slots s) as [|k]; [discriminate|].
    destruct (hd_error (r_queue s)) as [h|]; [|discriminate].
    inversion H. unfold present. simpl. apply pres_tset. exact P.
  - destruct (rfetched_fixed _ _ _ _ _ H) as [ctx [item [h [En [E|[e [Eu E]]]]]]]; subst s'.
    + apply present_idle_check. unfold present, settask. simpl. apply pres_tset. exact P.
    + apply present_idle_check. unfold present, settask. simpl. apply pres_tset.
      apply present_enqueue_all. exact P.
  - unfold rstep in H. destruct (r_pending s) as [|b rest]; [discriminate|].
    inversion H. destruct P as [P|P]; [left; simpl; apply merge_mono; exact P | right; exact P].
Qed.

Lemma present_run : forall U sched s x,
  present s x -> present (rrun rmech_fixed U sched s) x.
Proof.
  intros U sched; induction sched as [|l r IH]; intros s x P; [exact P|].
  unfold rrun in *. simpl fold_left.
  destruct (rstep rmech_fixed U s l) as [s'|] eqn:E.
  - apply IH. apply (present_step _ _ _ _ _ E P).
  - apply IH. exact P.
Qed.

Lemma heads_present : forall U sched s c heads head,
  In (RLoad c heads) sched -> In head heads ->
  present (rrun rmech_fixed U sched s) head.
Proof.
  intros U sched; induction sched as [|l r IH]; intros s c heads head Hin Hh; [contradiction|].
  destruct Hin as [E|Hin].
  - subst l. unfold rrun. simpl fold_left.
    apply (present_run U r). apply present_enqueue_all_in. exact Hh.
  - unfold rrun in *. simpl fold_left.
    destruct (rstep rmech_fixed U s l) as [s'|]; apply (IH _ c heads head Hin Hh).
Qed.

(** * Completeness at rest *)

Lemma repl_complete : S_repl_complete.
Proof.
  unfold S_repl_complete.
  intros U slots sched s Hslots Hs [Hw Hp] Hnf c heads head h Hin Hhead Hreach Hvalid.
  assert (I : rinv U slots s) by (subst s; apply rinv_run; apply rinv_init).
  assert (P : present s head) by (subst s; apply (heads_present U sched _ c heads head Hin Hhead)).
  destruct I as [C F].
  destruct C as [Hkeys Hsl Hqnd Hq Hqlen Hfnd Hf Hlinks Hdone Hlog Hbuf].
  rewrite Hw in Hqlen, Hf. simpl in Hqlen, Hf.
  assert (Hb : r_buffer s = []).
  { destruct (r_buffer s) as [|o bl] eqn:Eb; [reflexivity|].
    exfalso. apply F; [discriminate | exact Hw]. }
  assert (Hall : forall x, tget x (r_tasks s) <> None -> tget x (r_tasks s) = Some TFetched).
  { intros x Hx. destruct (tget x (r_tasks s)) as [[]|] eqn:Ex.
    - apply Hq in Ex. destruct (r_queue s); [contradiction | discriminate].
    - apply Hf in Ex. contradiction.
    - reflexivity.
    - apply tget_In_conv in Ex. exfalso. apply (Hnf _ _ Ex). reflexivity.
    - exfalso. apply Hx. reflexivity. }
  assert (Hfin : forall x, tget x (r_tasks s) = Some TFetched -> uvalid U x -> In x (r_log s)).
  { intros x Hx Hv. destruct (Hdone x Hx) as [[H|[b [Hb' _]]]|H].
    - rewrite Hb in H. contradiction.
    - rewrite Hp in Hb'. contradiction.
    - apply H. exact Hv. }
  clear Hin Hhead.
  induction Hreach as [x | x e x' x'' He Hl Hr IH].
  - destruct P as [P|P]; [exact P|]. apply Hfin; [apply Hall; exact P | exact Hvalid].
  - apply IH; [exact Hvalid|].
    assert (Hx : tget x (r_tasks s) = Some TFetched).
    { destruct P as [P|P]; [apply Hlog; exact P | apply Hall; exact P]. }
    destruct (Hlinks x Hx) as [e' [He' Hk]].
    rewrite He in He'. inversion He'; subst e'. apply Hk. exact Hl.
Qed.

(** * Progress *)

Lemma fetcher_dec : forall ws,
  fetching ws = [] \/ exists i ctx item h, nth_error ws i = Some (mkWk ctx item (WFetch h)).
Proof.
  induction ws as [|[ctx item [|h]] r IH]; simpl.
  - left. reflexivity.
  - destruct IH as [IH|[i [c [it [h IH]]]]]; [left; exact IH|].
    right. exists (S i), c, it, h. exact IH.
  - right. exists 0, ctx, item, h. reflexivity.
Qed.

Lemma repl_progress : S_repl_progress.
Proof.
  unfold S_repl_progress.
  intros U slots sched s Hslots Hs Hnq [H1 [H2 H3]].
  assert (I : rinv U slots s) by (subst s; apply rinv_run; apply rinv_init).
  destruct I as [C F].
  destruct C as [Hkeys Hsl Hqnd Hq Hqlen Hfnd Hf Hlinks Hdone Hlog Hbuf].
  unfold rstep in H3.
  destruct (r_pending s) as [|b rest] eqn:Ep; [|discriminate H3].
  destruct (fetcher_dec (r_workers s)) as [Hnone|[i [ctx [item [h En]]]]].
  - destruct (r_workers s) as [|[ctx item [|h]] r] eqn:Ew.
    + apply Hnq. split; [exact Ew | exact Ep].
    + specialize (H1 0). unfold rstep in H1. rewrite Ew in H1. simpl in H1.
      simpl in Hnone, Hsl, Hqlen. rewrite Hnone in Hsl. simpl in Hsl.
      destruct (r_slots s) as [|k]; [lia|].
      destruct (r_queue s) as [|q0 q]; [discriminate Hqlen|].
      simpl in H1. discriminate H1.
    + simpl in Hnone. discriminate Hnone.
  - specialize (H2 i true). unfold rstep in H2. rewrite En in H2. discriminate H2.
Qed.

Print Assumptions repl_complete.
Print Assumptions repl_cancel_harmless.
Print Assumptions repl_retry.
Print Assumptions repl_progress.
Print Assumptions repl_refuted_cancel.
Print Assumptions repl_refuted_fetch_failure.
Print Assumptions repl_refuted_merge_abort.

(** Proofs about [Model/LoadLimit.v]: loading a persisted log with a limit (C15). *)
From Orbit Require Import Spec.Statements Model.LoadLimit.
From Orbit Require Proofs.TraverseProofs.
From Orbit Require Import Proofs.JoinProofs Proofs.JoinMultiProofs.
From Orbit Require Proofs.GlobalProofs.
From Coq Require Import Permutation.

(** * [difference] on an arbitrary fetched bag

    [Proofs/JoinMultiProofs.v] characterises [difference] when the fetched bag together
    with the log is ancestry-closed.  A fetch bounded by a limit is not closed (links
    dangle at the cut) and the log it is joined into has been trimmed; what survives is:
    the result is duplicate-free, inside the bag and outside the log; it contains every
    head of the bag that is outside the log, and is closed under the links of its members
    that stay inside the bag and outside the log. *)
Section DiffGen.
  Variable U F L : list entry.
  Variable id : N.
  Hypothesis HWF : WF U.
  Hypothesis HFU : incl F U.
  Hypothesis Hid : forall e, In e F -> elog e = id.

  Definition G (x : entry) : Prop := In x F /\ ~ In (eh x) (hashes L).

  Lemma F_same_hash x y : In x F -> In y F -> eh x = eh y -> x = y.
  Proof.
    intros Hx Hy E. apply (wf_hash U HWF); [apply HFU; exact Hx | apply HFU; exact Hy | exact E].
  Qed.

  Record GInv (stack trav : list N) (res : list entry) : Prop := {
    g_nodup : NoDup (hashes res);
    g_sound : forall x, In x res -> G x;
    g_trav  : forall c, In c trav -> ~ In c (hashes L);
    g_pend  : forall c, In c trav -> In c (hashes res) \/ In c stack \/ ~ In c (hashes F);
    g_push  : forall y c, In y res -> In c (enext y) -> ~ In c (hashes L) -> In c trav;
    g_heads : forall x, In x (find_heads F) -> G x -> In x res \/ In (eh x) stack
  }.

  Lemma oset_res_In_g eA res x :
    In eA F -> (forall z, In z res -> G z) ->
    (In x (oset eA res) <-> In x res \/ x = eA).
  Proof.
    intros HeA Hres. apply (TraverseProofs.oset_in_iff U); [exact HWF | apply HFU; exact HeA|].
    intros z Hz. apply HFU. apply Hres in Hz. destruct Hz as [Hz _]. exact Hz.
  Qed.

  Lemma diff_loop_ginv : forall fuel stack trav res,
    GInv stack trav res ->
    (length stack + nt (all_nexts F) trav <= fuel)%nat ->
    exists trav', GInv [] trav' (diff_loop fuel F id L stack trav res).
  Proof.
    induction fuel as [|f IH]; intros stack trav res HI Hfuel.
    - destruct stack as [|h st]; [|simpl in Hfuel; lia].
      exists trav. exact HI.
    - destruct stack as [|h st]; [exists trav; exact HI|].
      cbn [diff_loop].
      destruct HI as [J1 J2 J3 J4 J5 J6].
      (* the skip case: [h] is not an entry of [F] outside [L] *)
      assert (SKIP : (In h (hashes F) -> ~ In h (hashes L) -> False) -> GInv st trav res).
      { intros Hno. constructor; try assumption.
        - intros c Hc. destruct (J4 c Hc) as [Q|[[Q|Q]|Q]].
          + left; exact Q.
          + subst c. right. right. intros A. exact (Hno A (J3 h Hc)).
          + right. left. exact Q.
          + right. right. exact Q.
        - intros x Hx HG. destruct (J6 x Hx HG) as [Q|[Q|Q]]; [left; exact Q| |right; exact Q].
          exfalso. destruct HG as [A B]. apply Hno.
          + rewrite Q. apply In_hashes_intro. exact A.
          + rewrite Q. exact B. }
      destruct (find_entry h F) as [eA|] eqn:FE.
      + destruct (TraverseProofs.find_entry_some _ _ _ FE) as [HeA Hh].
        destruct (negb (has_entry h L) && (elog eA =? id)%N) eqn:C.
        * (* collect *)
          apply andb_true_iff in C. destruct C as [C1 _].
          apply negb_true_iff in C1. apply has_entry_false in C1.
          assert (HGA : G eA) by (split; [exact HeA | rewrite Hh; exact C1]).
          destruct (fold_left _ (enext eA) (st, addN h trav)) as [st' tr''] eqn:FL.
          assert (HX : forall c, In c (enext eA) -> In c (all_nexts F)).
          { intros c Hc. apply all_nexts_In. exists eA. split; assumption. }
          destruct (push_fold_spec L (all_nexts F) _ _ _ _ _ FL HX) as [P1 [P2 [P3 [P4 P5]]]].
          assert (HO := oset_res_In_g eA res).
          assert (Hself : In (eh eA) (hashes (oset eA res))).
          { apply In_hashes_intro. apply (HO eA HeA J2). right. reflexivity. }
          apply IH.
          -- constructor.
             ++ apply oset_nodup. exact J1.
             ++ intros x Hx. apply (HO x HeA J2) in Hx. destruct Hx as [Hx|Hx].
                ** apply J2. exact Hx.
                ** subst x. exact HGA.
             ++ intros c Hc. destruct (P3 c Hc) as [Q|[_ [Q2 _]]]; [|exact Q2].
                apply addN_In in Q. destruct Q as [Q|Q]; [subst c; exact C1 | apply J3; exact Q].
             ++ intros c Hc.
                destruct (P3 c Hc) as [Q|[_ [_ Q]]]; [|right; left; exact Q].
                apply addN_In in Q. destruct Q as [Q|Q].
                ** subst c. left. rewrite <- Hh. exact Hself.
                ** destruct (J4 c Q) as [R|[[R|R]|R]].
                   --- left. apply In_hashes in R. destruct R as [z [Hz1 Hz2]].
                       rewrite <- Hz2. apply In_hashes_intro. apply (HO z HeA J2). left. exact Hz1.
                   --- subst c. left. rewrite <- Hh. exact Hself.
                   --- right. left. apply P1. exact R.
                   --- right. right. exact R.
             ++ intros y c Hy Hc Hn. apply (HO y HeA J2) in Hy. destruct Hy as [Hy|Hy].
                ** apply P2. apply addN_In. right. apply (J5 y c); assumption.
                ** subst y. apply P4; assumption.
             ++ intros x Hx HG. destruct (J6 x Hx HG) as [Q|[Q|Q]].
                ** left. apply (HO x HeA J2). left. exact Q.
                ** left. apply (HO x HeA J2). right.
                   destruct HG as [A _]. apply F_same_hash; [exact A | exact HeA|].
                   rewrite Hh. symmetry. exact Q.
                ** right. apply P1. exact Q.
          -- assert (M : (nt (all_nexts F) (addN h trav) <= nt (all_nexts F) trav)%nat).
             { apply nt_mono. intros c Hc. apply addN_In. right. exact Hc. }
             simpl in Hfuel. lia.
        * apply IH; [|simpl in Hfuel; lia].
          apply SKIP. intros _ B.
          apply has_entry_false in B. rewrite B in C. simpl in C.
          rewrite (Hid eA HeA), N.eqb_refl in C. discriminate C.
      + apply IH; [|simpl in Hfuel; lia].
        apply SKIP. intros A _. apply In_hashes in A. destruct A as [z [Hz1 Hz2]].
        destruct (TraverseProofs.find_entry_in z F Hz1) as [z' Hz'].
        rewrite Hz2 in Hz'. rewrite FE in Hz'. discriminate Hz'.
  Qed.

  Lemma difference_gen l :
    lid l = id -> lents l = L ->
    let new := difference F (find_heads F) l in
    NoDup (hashes new) /\
    (forall x, In x new -> G x) /\
    (forall x, In x (find_heads F) -> G x -> In x new) /\
    (forall y x, In y new -> In (eh x) (enext y) -> G x -> In x new).
  Proof.
    intros E1 E2.
    assert (E : difference F (find_heads F) l =
                diff_loop (length (find_heads F) + length (all_nexts F) + 1) F id L
                          (hashes (find_heads F)) [] []).
    { unfold difference. rewrite E1, E2.
      destruct F as [|a F'].
      - symmetry. apply diff_loop_skip. intros h _. reflexivity.
      - destruct (find_heads (a :: F')); [|reflexivity].
        symmetry. apply diff_loop_skip. intros h []. }
    cbv zeta. rewrite E.
    destruct (diff_loop_ginv (length (find_heads F) + length (all_nexts F) + 1)
                             (hashes (find_heads F)) [] []) as [trav' HI].
    - constructor.
      + constructor.
      + intros x [].
      + intros c [].
      + intros c [].
      + intros y c [].
      + intros x Hx _. right. apply In_hashes_intro. exact Hx.
    - unfold hashes. rewrite map_length.
      assert ((nt (all_nexts F) [] <= length (all_nexts F))%nat).
      { unfold nt. generalize (all_nexts F). clear.
        intros t. induction t as [|a t IHt]; cbn [filter length]; [lia|].
        destruct (negb (memN a [])); cbn [length]; lia. }
      lia.
    - destruct HI as [J1 J2 J3 J4 J5 J6].
      split; [exact J1|]. split; [exact J2|]. split.
      + intros x Hx HG. destruct (J6 x Hx HG) as [Q|[]]. exact Q.
      + intros y x Hy Hc [HxF HxL].
        assert (Ht : In (eh x) trav') by (apply (J5 y (eh x)); assumption).
        destruct (J4 _ Ht) as [Q|[[]|Q]].
        * apply In_hashes in Q. destruct Q as [z [Hz1 Hz2]].
          assert (z = x).
          { apply F_same_hash; [|exact HxF|exact Hz2]. apply J2 in Hz1. destruct Hz1 as [A _]. exact A. }
          subst z. exact Hz1.
        * exfalso. apply Q. apply In_hashes_intro. exact HxF.
  Qed.
End DiffGen.

(** * Ranks: the [n] greatest elements of a finite set, without sorting it *)

(** the number of members of [T] above [x] *)
Definition rank (T : list entry) (x : entry) : nat := length (filter (key_ltb x) T).

Lemma key_ltb_irrefl x : key_ltb x x = false.
Proof.
  destruct (key_ltb x x) eqn:K; [|reflexivity].
  apply key_ltb_spec in K. exfalso. exact (key_lt_irrefl x K).
Qed.

Lemma rank_incl T T' x : NoDup T -> incl T T' -> (rank T x <= rank T' x)%nat.
Proof.
  intros Hnd Hi. unfold rank. apply NoDup_incl_length.
  - apply NoDup_filter. exact Hnd.
  - intros y Hy. apply filter_In in Hy. destruct Hy as [Hy1 Hy2].
    apply filter_In. split; [apply Hi; exact Hy1 | exact Hy2].
Qed.

Lemma rank_mono T x y : key_lt x y -> (rank T y <= rank T x)%nat.
Proof.
  intros Hlt. unfold rank. apply filter_length_le.
  intros z _ Hz. apply key_ltb_spec. apply key_ltb_spec in Hz.
  apply key_lt_trans with (b := y); assumption.
Qed.

Lemma rank_strict T x y : key_lt x y -> In y T -> (rank T y < rank T x)%nat.
Proof.
  intros Hlt Hy. unfold rank. apply filter_length_lt with (z := y).
  - intros z _ Hz. apply key_ltb_spec. apply key_ltb_spec in Hz.
    apply key_lt_trans with (b := y); assumption.
  - exact Hy.
  - apply key_ltb_irrefl.
  - apply key_ltb_spec. exact Hlt.
Qed.

Lemma rank_le_length T x : (rank T x <= length T)%nat.
Proof.
  unfold rank. induction T as [|a T IH]; simpl; [lia|].
  destruct (key_ltb x a); simpl; lia.
Qed.

Lemma rank_lt_length T x : In x T -> (rank T x < length T)%nat.
Proof.
  induction T as [|a T IH]; intros Hx; [destruct Hx|].
  unfold rank in *. cbn [filter length]. destruct Hx as [Hx|Hx].
  - subst a. rewrite key_ltb_irrefl. pose proof (rank_le_length T x). unfold rank in *. lia.
  - specialize (IH Hx). destruct (key_ltb x a); cbn [length]; lia.
Qed.

Lemma asc_sorted_nodup l : asc_sorted l -> NoDup l.
Proof.
  induction l as [|a l IH]; intros Hs; [constructor|].
  destruct (TraverseProofs.asc_inv a l Hs) as [Hs1 Hs2].
  constructor; [|apply IH; exact Hs1].
  intros Hin. apply (key_lt_irrefl a). apply Hs2. exact Hin.
Qed.

Lemma asc_sorted_skipn l : asc_sorted l -> forall k, asc_sorted (skipn k l).
Proof.
  induction l as [|a l IH]; intros Hs k.
  - rewrite skipn_nil. constructor.
  - destruct k as [|k]; [exact Hs|]. simpl. apply IH.
    destruct (TraverseProofs.asc_inv a l Hs) as [Hs1 _]. exact Hs1.
Qed.

Lemma asc_sorted_filter p l : asc_sorted l -> asc_sorted (filter p l).
Proof.
  induction l as [|a l IH]; intros Hs; [constructor|].
  destruct (TraverseProofs.asc_inv a l Hs) as [Hs1 Hs2].
  simpl. destruct (p a); [|apply IH; exact Hs1].
  constructor; [apply IH; exact Hs1|].
  apply Forall_forall. intros x Hx. apply filter_In in Hx. apply Hs2. tauto.
Qed.

Lemma skipn_rank W : asc_sorted W -> forall k x,
  In x (skipn k W) <-> In x W /\ (rank W x < length W - k)%nat.
Proof.
  induction W as [|a W IH]; intros Hs k x.
  - rewrite skipn_nil. simpl. split; [tauto | intros [[] _]].
  - destruct (TraverseProofs.asc_inv a W Hs) as [Hs1 Hs2].
    destruct k as [|k].
    + rewrite skipn_O. split.
      * intros Hx. split; [exact Hx|]. rewrite Nat.sub_0_r. apply rank_lt_length. exact Hx.
      * tauto.
    + cbn [skipn length]. rewrite (IH Hs1 k x).
      replace (S (length W) - S k)%nat with (length W - k)%nat by lia.
      assert (Ra : rank (a :: W) a = length W).
      { unfold rank. cbn [filter]. rewrite key_ltb_irrefl.
        assert (E : forall T, (forall s, In s T -> key_lt a s) -> length (filter (key_ltb a) T) = length T).
        { induction T as [|b T IHT]; intros HT; [reflexivity|].
          cbn [filter]. assert (K : key_ltb a b = true) by (apply key_ltb_spec; apply HT; left; reflexivity).
          rewrite K. cbn [length]. rewrite IHT; [reflexivity|]. intros s Hs'. apply HT. right. exact Hs'. }
        apply E. exact Hs2. }
      split.
      * intros [Hx Hr]. split; [right; exact Hx|].
        unfold rank in *. cbn [filter].
        assert (K : key_ltb x a = false).
        { destruct (key_ltb x a) eqn:K; [|reflexivity]. apply key_ltb_spec in K.
          exfalso. apply (key_lt_irrefl x). apply key_lt_trans with (b := a); [exact K | apply Hs2; exact Hx]. }
        rewrite K. exact Hr.
      * intros [[Hx|Hx] Hr].
        -- subst x. rewrite Ra in Hr. lia.
        -- split; [exact Hx|].
           unfold rank in *. cbn [filter] in Hr.
           assert (K : key_ltb x a = false).
           { destruct (key_ltb x a) eqn:K; [|reflexivity]. apply key_ltb_spec in K.
             exfalso. apply (key_lt_irrefl x). apply key_lt_trans with (b := a); [exact K | apply Hs2; exact Hx]. }
           rewrite K in Hr. exact Hr.
Qed.

Lemma newest_In W n x : asc_sorted W ->
  (In x (newest n W) <-> In x W /\ (rank W x < n)%nat).
Proof.
  intros Hs. unfold newest. rewrite (skipn_rank W Hs). split.
  - intros [Hx Hr]. split; [exact Hx | lia].
  - intros [Hx Hr]. split; [exact Hx|]. pose proof (rank_lt_length W x Hx). lia.
Qed.

Lemma newest_length {A} n (W : list A) : length (newest n W) = Nat.min n (length W).
Proof. unfold newest. rewrite skipn_length. lia. Qed.

Lemma newest_all {A} n (W : list A) : (length W <= n)%nat -> newest n W = W.
Proof. intros H. unfold newest. replace (length W - n)%nat with 0%nat by lia. reflexivity. Qed.

Lemma newest_sorted W n : asc_sorted W -> asc_sorted (newest n W).
Proof. intros Hs. apply asc_sorted_skipn. exact Hs. Qed.

(** the [n] greatest of a set squeezed between the [n] greatest of [W] and [W] *)
Lemma newest_between U W V n :
  WF U -> incl W U -> asc_sorted W -> asc_sorted V -> incl V W ->
  (forall x, In x W -> (rank W x < n)%nat -> In x V) ->
  newest n V = newest n W.
Proof.
  intros HWF HWU HsW HsV HVW Htop.
  apply TraverseProofs.sorted_unique; [apply newest_sorted; exact HsV | apply newest_sorted; exact HsW|].
  intros x. rewrite (newest_In V n x HsV), (newest_In W n x HsW). split.
  - intros [Hx Hr]. split; [apply HVW; exact Hx|].
    destruct (Nat.lt_ge_cases (rank W x) n) as [Hlt|Hge]; [exact Hlt|]. exfalso.
    assert (HxW : In x W) by (apply HVW; exact Hx).
    assert (Hlen : (n < length W)%nat) by (pose proof (rank_lt_length W x HxW); lia).
    assert (Hall : forall y, In y (newest n W) -> In y (filter (key_ltb x) V)).
    { intros y Hy. apply (newest_In W n y HsW) in Hy. destruct Hy as [Hy Hry].
      apply filter_In. split; [apply Htop; assumption|].
      apply key_ltb_spec.
      destruct (TraverseProofs.key_total U x y HWF (HWU x HxW) (HWU y Hy)) as [K|[K|K]].
      - exact K.
      - subst y. lia.
      - pose proof (rank_mono W y x K). lia. }
    assert (Hnd : NoDup (newest n W)) by (apply asc_sorted_nodup; apply newest_sorted; exact HsW).
    pose proof (NoDup_incl_length Hnd Hall) as Hle.
    rewrite newest_length in Hle. unfold rank in Hr. lia.
  - intros [Hx Hr]. assert (HxV : In x V) by (apply Htop; assumption).
    split; [exact HxV|].
    pose proof (rank_incl V W x (asc_sorted_nodup V HsV) HVW). lia.
Qed.

(** * Loading a persisted log *)

(** The fetcher contract: for every head that is a persisted entry, whatever the limit and
    the exclusion list, [NewFromEntryHash] builds its log from a duplicate-free bag that
    holds, in any order, exactly the entries [ideal_fetch] lists: the [n] greatest (by
    key) of the head's ancestry for [n > 0], the whole ancestry for [n < 0]. *)
Definition fetch_ok (es : list entry) (fetch : fetcher) : Prop :=
  forall h n X, In h (hashes es) ->
    NoDup (hashes (fetch es h n X)) /\ same_set (fetch es h n X) (ideal_fetch es h n X).

Lemma values_sorted_reach U l :
  WF U -> incl (lents l) U -> incl (lheads l) U -> NoDup (hashes (lents l)) ->
  asc_sorted (values l) /\ forall x, In x (values l) <-> reach (lents l) (lheads l) x.
Proof.
  intros HWF HeU HhU Hnd.
  destruct (TraverseProofs.traverse_spec U (lents l) (lheads l) HWF HeU HhU Hnd) as [Hin Hdesc].
  unfold values. split.
  - apply GlobalProofs.desc_rev_asc. exact Hdesc.
  - intros x. rewrite <- in_rev. apply Hin.
Qed.

Lemma skipn_incl {A} (k : nat) (l : list A) x : In x (skipn k l) -> In x l.
Proof.
  revert l. induction k as [|k IH]; intros l Hx; [exact Hx|].
  destruct l as [|a l]; [exact Hx|]. right. apply IH. exact Hx.
Qed.

Lemma nodup_app {A} (a b : list A) :
  NoDup a -> NoDup b -> (forall x, In x a -> ~ In x b) -> NoDup (a ++ b).
Proof.
  induction a as [|x a IH]; intros Ha Hb Hd; [exact Hb|].
  inversion Ha as [|? ? Hn Ha']; subst. simpl. constructor.
  - intros Hin. apply in_app_or in Hin. destruct Hin as [Hin|Hin]; [exact (Hn Hin)|].
    apply (Hd x); [left; reflexivity | exact Hin].
  - apply IH; [exact Ha' | exact Hb|]. intros y Hy. apply Hd. right. exact Hy.
Qed.

Lemma filter_split_length {A} (p : A -> bool) (l : list A) :
  length l = (length (filter p l) + length (filter (fun x => negb (p x)) l))%nat.
Proof.
  induction l as [|a l IH]; [reflexivity|]. simpl. destruct (p a); simpl; lia.
Qed.

Section Load.
  Variable U es : list entry.
  Variable id : N.
  Variable acc : entry -> bool.
  Variable fetch : fetcher.
  Hypothesis HWF : WF U.
  Hypothesis HesU : incl es U.
  Hypothesis Hcl : next_closed es.
  Hypothesis Hnd : NoDup (hashes es).
  Hypothesis Hid : forall e, In e es -> elog e = id.
  Hypothesis Hacc : forall e, In e es -> acc e = true.
  Hypothesis FC : fetch_ok es fetch.

  Lemma es_hash_inj x y : In x es -> In y es -> eh x = eh y -> x = y.
  Proof.
    intros Hx Hy E. apply (wf_hash U HWF); [apply HesU; exact Hx | apply HesU; exact Hy | exact E].
  Qed.

  Lemma in_by_hash T x : incl T es -> In x es -> In (eh x) (hashes T) -> In x T.
  Proof.
    intros HT Hx Hh. apply In_hashes in Hh. destruct Hh as [z [Hz1 Hz2]].
    assert (z = x) by (apply es_hash_inj; [apply HT; exact Hz1 | exact Hx | exact Hz2]).
    subst z. exact Hz1.
  Qed.

  Lemma nodup_hashes_sub T : incl T es -> NoDup T -> NoDup (hashes T).
  Proof.
    intros HT HN. induction T as [|a T IH]; [constructor|].
    inversion HN as [|? ? Hn Hd]; subst. cbn [hashes map]. constructor.
    - intros Hin. apply Hn. apply in_by_hash.
      + intros z Hz. apply HT. right. exact Hz.
      + apply HT. left. reflexivity.
      + exact Hin.
    - apply IH; [|exact Hd]. intros z Hz. apply HT. right. exact Hz.
  Qed.

  (** ** The ancestry of a head *)

  Section Anc.
    Variable h : N.
    Variable e : entry.
    Hypothesis Hfind : find_entry h es = Some e.

    Let A := ancestry es h.

    Lemma anc_root_in : In e es /\ eh e = h.
    Proof. apply TraverseProofs.find_entry_some. exact Hfind. Qed.

    Lemma anc_spec : asc_sorted A /\ forall x, In x A <-> reach es [e] x.
    Proof.
      destruct anc_root_in as [He _].
      assert (HrU : incl [e] U) by (intros z [Hz|[]]; subst z; apply HesU; exact He).
      destruct (TraverseProofs.traverse_spec U es [e] HWF HesU HrU Hnd) as [Hin Hdesc].
      unfold A, ancestry. rewrite Hfind. split.
      - apply GlobalProofs.desc_rev_asc. exact Hdesc.
      - intros x. rewrite <- in_rev. apply Hin.
    Qed.

    Lemma anc_sorted : asc_sorted A.
    Proof. apply anc_spec. Qed.

    Lemma anc_incl : incl A es.
    Proof.
      intros x Hx. apply anc_spec in Hx.
      apply (GlobalProofs.reach_in_ents es [e]); [|exact Hx].
      intros z [Hz|[]]. subst z. apply anc_root_in.
    Qed.

    Lemma anc_root : In e A.
    Proof. apply anc_spec. apply reach_root. left. reflexivity. Qed.

    Lemma anc_le x : In x A -> x = e \/ key_lt x e.
    Proof.
      intros Hx. apply anc_spec in Hx.
      induction Hx as [x Hr | y x Hy IH Hn Hx].
      - destruct Hr as [Hr|[]]. left. symmetry. exact Hr.
      - right.
        assert (HyE : In y es).
        { apply (GlobalProofs.reach_in_ents es [e]); [|exact Hy].
          intros z [Hz|[]]. subst z. apply anc_root_in. }
        assert (Hlt : key_lt x y).
        { apply (wf_link U HWF); [apply HesU; exact HyE | apply HesU; exact Hx | exact Hn]. }
        destruct IH as [IH|IH]; [subst y; exact Hlt | apply key_lt_trans with (b := y); assumption].
    Qed.

    Lemma anc_closed : next_closed A.
    Proof.
      intros x c Hx Hc.
      assert (HxE : In x es) by (apply anc_incl; exact Hx).
      pose proof (Hcl x c HxE Hc) as Hh. apply In_hashes in Hh. destruct Hh as [y [Hy1 Hy2]].
      rewrite <- Hy2. apply In_hashes_intro. apply anc_spec.
      apply reach_next with (e := x); [apply anc_spec; exact Hx | rewrite Hy2; exact Hc | exact Hy1].
    Qed.

    Lemma anc_rank_root : rank A e = 0%nat.
    Proof.
      unfold rank.
      assert (E : forall T, (forall x, In x T -> x = e \/ key_lt x e) -> filter (key_ltb e) T = []).
      { induction T as [|a T IH]; intros HT; [reflexivity|]. cbn [filter].
        assert (K : key_ltb e a = false).
        { destruct (key_ltb e a) eqn:K; [|reflexivity]. apply key_ltb_spec in K. exfalso.
          destruct (HT a (or_introl eq_refl)) as [Q|Q].
          - subst a. exact (key_lt_irrefl e K).
          - apply (key_lt_irrefl e). apply key_lt_trans with (b := a); assumption. }
        rewrite K. apply IH. intros x Hx. apply HT. right. exact Hx. }
      rewrite (E A anc_le). reflexivity.
    Qed.
  End Anc.

  (** ** The entries seen after a list of heads: the union of their ancestries, sorted *)

  (** the persisted entries in key order *)
  Definition E : list entry := rev (sort_desc es).

  Lemma es_nodup : NoDup es.
  Proof. apply (NoDup_map_inv eh). exact Hnd. Qed.

  Lemma E_spec : asc_sorted E /\ same_set E es.
  Proof.
    destruct (TraverseProofs.sort_desc_spec U es HWF HesU es_nodup) as [Hd Hs].
    unfold E. split.
    - apply GlobalProofs.desc_rev_asc. exact Hd.
    - intros x. rewrite <- in_rev. apply Hs.
  Qed.

  Definition seen (H : list N) (x : entry) : bool :=
    existsb (fun h => has_entry (eh x) (ancestry es h)) H.

  Definition SH (H : list N) : list entry := filter (seen H) E.

  Lemma ancestry_incl h : incl (ancestry es h) es.
  Proof.
    destruct (find_entry h es) as [e|] eqn:F.
    - exact (anc_incl h e F).
    - unfold ancestry. rewrite F. intros x [].
  Qed.

  Lemma ancestry_sorted h : asc_sorted (ancestry es h).
  Proof.
    destruct (find_entry h es) as [e|] eqn:F.
    - exact (anc_sorted h e F).
    - unfold ancestry. rewrite F. constructor.
  Qed.

  Lemma ancestry_closed h : next_closed (ancestry es h).
  Proof.
    destruct (find_entry h es) as [e|] eqn:F.
    - exact (anc_closed h e F).
    - unfold ancestry. rewrite F. intros x c [].
  Qed.

  Lemma SH_In H x : In x (SH H) <-> In x es /\ exists h, In h H /\ In x (ancestry es h).
  Proof.
    unfold SH, seen. rewrite filter_In, existsb_exists.
    destruct E_spec as [_ HE]. rewrite (HE x). split.
    - intros [Hx [h [Hh Hhas]]]. split; [exact Hx|]. exists h. split; [exact Hh|].
      apply has_entry_In in Hhas. apply in_by_hash; [apply ancestry_incl | exact Hx | exact Hhas].
    - intros [Hx [h [Hh Hin]]]. split; [exact Hx|]. exists h. split; [exact Hh|].
      apply has_entry_In. apply In_hashes_intro. exact Hin.
  Qed.

  Lemma SH_sorted H : asc_sorted (SH H).
  Proof. apply asc_sorted_filter. apply E_spec. Qed.

  Lemma SH_nodup H : NoDup (SH H).
  Proof. apply asc_sorted_nodup. apply SH_sorted. Qed.

  Lemma SH_incl H : incl (SH H) es.
  Proof. intros x Hx. apply SH_In in Hx. tauto. Qed.

  Lemma SH_closed H : next_closed (SH H).
  Proof.
    intros x c Hx Hc. apply SH_In in Hx. destruct Hx as [HxE [h [Hh Hin]]].
    pose proof (ancestry_closed h x c Hin Hc) as Hh'.
    apply In_hashes in Hh'. destruct Hh' as [y [Hy1 Hy2]].
    rewrite <- Hy2. apply In_hashes_intro. apply SH_In.
    split; [apply (ancestry_incl h); exact Hy1|]. exists h. split; assumption.
  Qed.

  Lemma SH_app H h x : In x (SH (H ++ [h])) <-> In x (SH H) \/ In x (ancestry es h).
  Proof.
    rewrite !SH_In. split.
    - intros [Hx [h' [Hh' Hin]]]. apply in_app_or in Hh'. destruct Hh' as [Hh'|[Hh'|[]]].
      + left. split; [exact Hx|]. exists h'. split; assumption.
      + subst h'. right. exact Hin.
    - intros [[Hx [h' [Hh' Hin]]]|Hin].
      + split; [exact Hx|]. exists h'. split; [apply in_or_app; left; exact Hh' | exact Hin].
      + split; [apply (ancestry_incl h); exact Hin|]. exists h.
        split; [apply in_or_app; right; left; reflexivity | exact Hin].
  Qed.

  Lemma SH_nil : SH [] = [].
  Proof.
    unfold SH, seen. cbn [existsb]. induction E as [|a T IH]; [reflexivity | exact IH].
  Qed.

  (** when the heads cover the persisted log, everything has been seen *)
  Lemma SH_all H :
    (forall x, In x es -> exists h, In h H /\ In x (ancestry es h)) -> SH H = E.
  Proof.
    intros Hcov. apply TraverseProofs.sorted_unique; [apply SH_sorted | apply E_spec|].
    intros x. rewrite SH_In. destruct E_spec as [_ HE]. rewrite (HE x). split; [tauto|].
    intros Hx. split; [exact Hx | apply Hcov; exact Hx].
  Qed.

  (** ** The invariant of the fold over the heads, for a positive limit [n]

      After the heads [H] the log holds exactly the [n] greatest seen entries; every
      entry of the log that no log entry links to is a head; the keys of [Next] are links
      of seen entries; and as long as fewer than [n] entries are held nothing has been
      trimmed: the log is a well-formed, ancestry-closed log. *)
  Record LInv (n : nat) (H : list N) (l : log) : Prop := {
    li_id : lid l = id;
    li_es : incl (lents l) es;
    li_nd : NoDup (hashes (lents l));
    li_top : forall x, In x (lents l) <-> In x (SH H) /\ (rank (SH H) x < n)%nat;
    li_hd_in : incl (lheads l) (lents l);
    li_hd : forall g, In g (lents l) -> ~ In (eh g) (all_nexts (lents l)) -> In g (lheads l);
    li_next : forall c, In c (lnext l) -> In c (all_nexts (SH H));
    li_ok : (length (lents l) < n)%nat -> log_ok U l /\ next_closed (lents l)
  }.

  Lemma LInv_init n : LInv n [] (empty_log id).
  Proof.
    constructor; cbn [empty_log lid lents lheads lnext].
    - reflexivity.
    - intros x [].
    - constructor.
    - intros x. rewrite SH_nil. simpl. tauto.
    - intros x [].
    - intros g [].
    - intros c [].
    - intros _. split.
      + apply (GlobalProofs.log_ok_mono []); [apply GlobalProofs.log_ok_empty | intros x []].
      + intros x c [].
  Qed.

  (** every entry of such a log is reachable from its heads *)
  Lemma linv_reachable l :
    incl (lents l) es ->
    (forall g, In g (lents l) -> ~ In (eh g) (all_nexts (lents l)) -> In g (lheads l)) ->
    forall x, In x (lents l) -> reach (lents l) (lheads l) x.
  Proof.
    intros Hes Hhd.
    assert (Gn : forall k x, (rank (lents l) x < k)%nat -> In x (lents l) -> reach (lents l) (lheads l) x).
    { induction k as [|k IH]; intros x Hk Hx; [lia|].
      destruct (memN (eh x) (all_nexts (lents l))) eqn:M.
      - apply memN_In in M. apply all_nexts_In in M. destruct M as [y [Hy Hc]].
        assert (Hlt : key_lt x y).
        { apply (wf_link U HWF); [apply HesU; apply Hes; exact Hy | apply HesU; apply Hes; exact Hx | exact Hc]. }
        apply reach_next with (e := y); [|exact Hc|exact Hx].
        apply IH; [|exact Hy]. pose proof (rank_strict (lents l) x y Hlt Hy). lia.
      - apply reach_root. apply Hhd; [exact Hx|].
        intros Hin. apply memN_In in Hin. rewrite Hin in M. discriminate M. }
    intros x Hx. apply (Gn (S (rank (lents l) x))); [lia | exact Hx].
  Qed.

  (** so its listing is its entry set in key order *)
  Lemma linv_values n H l : LInv n H l ->
    asc_sorted (values l) /\ same_set (values l) (lents l).
  Proof.
    intros HI.
    assert (HeU : incl (lents l) U) by (intros x Hx; apply HesU; apply (li_es _ _ _ HI); exact Hx).
    assert (HhU : incl (lheads l) U) by (intros x Hx; apply HeU; apply (li_hd_in _ _ _ HI); exact Hx).
    destruct (values_sorted_reach U l HWF HeU HhU (li_nd _ _ _ HI)) as [Hs Hr].
    split; [exact Hs|]. intros x. rewrite Hr. split.
    - apply GlobalProofs.reach_in_ents. apply (li_hd_in _ _ _ HI).
    - apply linv_reachable; [apply (li_es _ _ _ HI) | apply (li_hd _ _ _ HI)].
  Qed.

  Lemma linv_values_eq n H l : LInv n H l -> values l = newest n (SH H).
  Proof.
    intros HI. destruct (linv_values n H l HI) as [Hs Hsame].
    apply TraverseProofs.sorted_unique; [exact Hs | apply newest_sorted; apply SH_sorted|].
    intros x. rewrite (Hsame x), (newest_In (SH H) n x (SH_sorted H)). apply (li_top _ _ _ HI).
  Qed.

  (** ** [Join] with a size *)

  Lemma join_sized l0 other size ac :
    lid other = lid l0 -> 0 <= size ->
    join l0 other size ac =
    let new := difference (lents other) (lheads other) l0 in
    if negb (forallb ac new) then Err EDenied else
    let next' := addN_all (flat_map enext new) (lnext l0) in
    let heads' := filter (fun e => negb (memN (eh e) (flat_map enext new)) && negb (memN (eh e) next'))
                         (find_heads (oset_all (lheads other) (lheads l0))) in
    let l1 := mkLog (lid l0) (oset_all new (lents l0)) heads' next' (lclock l0) in
    match last_n (values l1) size with
    | Ok tmp => Ok (mkLog (lid l0) (oset_all tmp []) (find_heads (oset_all tmp [])) next'
                          (Z.max (lclock l0) (max_time (find_heads (oset_all tmp [])) 0)))
    | Err e => Err e
    | Panic p => Panic p
    end.
  Proof.
    intros E Hs. unfold join. rewrite E, N.eqb_refl. cbn [negb].
    assert (Hb : (0 <=? size) = true) by (apply Z.leb_le; exact Hs).
    rewrite Hb. cbv zeta.
    destruct (negb (forallb ac (difference (lents other) (lheads other) l0))); [reflexivity|].
    destruct (last_n _ size); reflexivity.
  Qed.

  Lemma last_n_ok {A} (v : list A) (k : nat) :
    (k <= length v)%nat -> last_n v (Z.of_nat k) = Ok (newest k v).
  Proof.
    intros Hk. unfold last_n, newest.
    assert (Hb : (Z.of_nat k <=? Z.of_nat (length v)) = true) by (apply Z.leb_le; lia).
    rewrite Hb. f_equal. f_equal. lia.
  Qed.

  (** ** One head, positive limit *)

  Section Step.
    Variable n : nat.
    Variable H : list N.
    Variable l : log.
    Variable h : N.
    Variable e : entry.
    Hypothesis Hn : (0 < n)%nat.
    Hypothesis HI : LInv n H l.
    Hypothesis He : In e es.
    Hypothesis Hhe : eh e = h.

    Let L := lents l.
    Let A := ancestry es h.
    Let F := fetch es h (Z.of_nat n) (lents l).
    Let S0 := SH H.
    Let S1 := SH (H ++ [h]).
    Let new := difference F (find_heads F) l.

    Lemma st_find : find_entry h es = Some e.
    Proof. rewrite <- Hhe. apply (TraverseProofs.find_entry_U U); assumption. Qed.

    Lemma st_h_in : In h (hashes es).
    Proof. rewrite <- Hhe. apply In_hashes_intro. exact He. Qed.

    Lemma st_F_nd : NoDup (hashes F).
    Proof. apply (FC h (Z.of_nat n) (lents l) st_h_in). Qed.

    Lemma st_F_in x : In x F <-> In x A /\ (rank A x < n)%nat.
    Proof.
      destruct (FC h (Z.of_nat n) (lents l) st_h_in) as [_ Hs].
      fold F in Hs. rewrite (Hs x). unfold ideal_fetch. fold A.
      assert (Hb : (Z.of_nat n <? 0) = false) by (apply Z.ltb_ge; lia).
      rewrite Hb.
      replace (Z.to_nat (Z.max (Z.of_nat n) 1)) with n by lia.
      apply newest_In. apply ancestry_sorted.
    Qed.

    Lemma st_A_es : incl A es.
    Proof. apply ancestry_incl. Qed.

    Lemma st_F_es : incl F es.
    Proof. intros x Hx. apply st_A_es. apply st_F_in in Hx. tauto. Qed.

    Lemma st_F_U : incl F U.
    Proof. intros x Hx. apply HesU. apply st_F_es. exact Hx. Qed.

    Lemma st_L_es : incl L es.
    Proof. apply (li_es _ _ _ HI). Qed.

    Lemma st_L_U : incl L U.
    Proof. intros x Hx. apply HesU. apply st_L_es. exact Hx. Qed.

    Lemma st_L_in x : In x L <-> In x S0 /\ (rank S0 x < n)%nat.
    Proof. apply (li_top _ _ _ HI). Qed.

    Lemma st_S0_S1 : incl S0 S1.
    Proof. intros x Hx. apply SH_app. left. exact Hx. Qed.

    Lemma st_A_S1 : incl A S1.
    Proof. intros x Hx. apply SH_app. right. exact Hx. Qed.

    Lemma st_S1_cases x : In x S1 -> In x S0 \/ In x A.
    Proof. intros Hx. apply SH_app in Hx. exact Hx. Qed.

    Lemma st_e_A : In e A.
    Proof. exact (anc_root h e st_find). Qed.

    Lemma st_notin_hash x : In x es -> ~ In x L -> ~ In (eh x) (hashes L).
    Proof. intros Hx Hn' Hh. apply Hn'. apply in_by_hash; [apply st_L_es | exact Hx | exact Hh]. Qed.

    Lemma st_L_dec x : In x es -> In x L \/ ~ In x L.
    Proof.
      intros Hx. destruct (has_entry (eh x) L) eqn:B.
      - left. apply has_entry_In in B. apply in_by_hash; [apply st_L_es | exact Hx | exact B].
      - right. intros Hin. apply has_entry_false in B. apply B. apply In_hashes_intro. exact Hin.
    Qed.

    (** the greatest [n] seen entries come from the log or from the fetch *)
    Lemma st_top_S0 x : In x S0 -> (rank S1 x < n)%nat -> In x L.
    Proof.
      intros Hx Hr. apply st_L_in. split; [exact Hx|].
      pose proof (rank_incl S0 S1 x (SH_nodup H) st_S0_S1). lia.
    Qed.

    Lemma st_top_A x : In x A -> (rank S1 x < n)%nat -> In x F.
    Proof.
      intros Hx Hr. apply st_F_in. split; [exact Hx|].
      pose proof (rank_incl A S1 x (asc_sorted_nodup A (ancestry_sorted h)) st_A_S1). lia.
    Qed.

    Lemma st_new_spec :
      NoDup (hashes new) /\
      (forall x, In x new -> In x F /\ ~ In (eh x) (hashes L)) /\
      (forall x, In x (find_heads F) -> In x F /\ ~ In (eh x) (hashes L) -> In x new) /\
      (forall y x, In y new -> In (eh x) (enext y) -> In x F /\ ~ In (eh x) (hashes L) -> In x new).
    Proof.
      apply (difference_gen U F L id HWF st_F_U).
      - intros x Hx. apply Hid. apply st_F_es. exact Hx.
      - apply (li_id _ _ _ HI).
      - reflexivity.
    Qed.

    (** every entry among the [n] greatest seen ones that the log does not hold yet is
        delivered by [difference] *)
    Lemma st_claim x : reach es [e] x -> (rank S1 x < n)%nat -> ~ In x L -> In x new.
    Proof.
      destruct st_new_spec as [_ [_ [N3 N4]]].
      intros Hr. induction Hr as [x Hroot | y x Hy IH Hc Hx]; intros Hrk HnL.
      - destruct Hroot as [Hroot|[]]. subst x.
        assert (HeF : In e F).
        { apply st_F_in. split; [exact st_e_A|]. unfold A. rewrite (anc_rank_root h e st_find). exact Hn. }
        apply N3.
        + apply find_heads_In. split; [exact HeF|].
          intros Hin. apply all_nexts_In in Hin. destruct Hin as [y [Hy Hc]].
          assert (HyA : In y A) by (apply st_F_in in Hy; tauto).
          assert (Hlt : key_lt e y).
          { apply (wf_link U HWF); [apply HesU; apply st_A_es; exact HyA | apply HesU; exact He | exact Hc]. }
          destruct (anc_le h e st_find y HyA) as [Q|Q].
          * subst y. exact (key_lt_irrefl e Hlt).
          * apply (key_lt_irrefl e). apply key_lt_trans with (b := y); assumption.
        + split; [exact HeF | apply st_notin_hash; assumption].
      - assert (HyA : In y A) by (apply (anc_spec h e st_find); exact Hy).
        assert (HxA : In x A).
        { apply (anc_spec h e st_find). apply reach_next with (e := y); assumption. }
        assert (HyE : In y es) by (apply st_A_es; exact HyA).
        assert (Hlt : key_lt x y).
        { apply (wf_link U HWF); [apply HesU; exact HyE | apply HesU; exact Hx | exact Hc]. }
        assert (Hry : (rank S1 y < n)%nat) by (pose proof (rank_mono S1 x y Hlt); lia).
        assert (HynL : ~ In y L).
        { intros HyL. apply HnL.
          assert (HyS0 : In y S0) by (apply st_L_in in HyL; tauto).
          pose proof (SH_closed H y (eh x) HyS0 Hc) as Hh.
          apply st_top_S0; [|exact Hrk].
          apply in_by_hash; [apply SH_incl | exact Hx | exact Hh]. }
        apply (N4 y x (IH Hry HynL) Hc).
        split; [apply st_top_A; assumption | apply st_notin_hash; assumption].
    Qed.

    (** *** the log [Join] builds before trimming *)
    Let nn := flat_map enext new.
    Let next' := addN_all nn (lnext l).
    Let heads' := filter (fun x => negb (memN (eh x) nn) && negb (memN (eh x) next'))
                         (find_heads (oset_all (find_heads F) (lheads l))).
    Let ents' := oset_all new L.
    Let l1 := mkLog (lid l) ents' heads' next' (lclock l).

    Lemma st_new_F : incl new F.
    Proof. destruct st_new_spec as [_ [N2 _]]. intros x Hx. apply N2 in Hx. tauto. Qed.

    Lemma st_new_U : incl new U.
    Proof. intros x Hx. apply st_F_U. apply st_new_F. exact Hx. Qed.

    Lemma st_ents_in x : In x ents' <-> In x L \/ In x new.
    Proof. apply (oset_all_In U HWF); [apply st_new_U | apply st_L_U]. Qed.

    Lemma st_ents_nd : NoDup (hashes ents').
    Proof. apply oset_all_nodup. apply (li_nd _ _ _ HI). Qed.

    Lemma st_L_S1 : incl L S1.
    Proof. intros x Hx. apply st_S0_S1. apply st_L_in in Hx. tauto. Qed.

    Lemma st_F_S1 : incl F S1.
    Proof. intros x Hx. apply st_A_S1. apply st_F_in in Hx. tauto. Qed.

    Lemma st_ents_S1 : incl ents' S1.
    Proof.
      intros x Hx. apply st_ents_in in Hx. destruct Hx as [Hx|Hx];
        [apply st_L_S1 | apply st_F_S1; apply st_new_F]; exact Hx.
    Qed.

    Lemma st_ents_U : incl ents' U.
    Proof. intros x Hx. apply HesU. apply (SH_incl (H ++ [h])). apply st_ents_S1. exact Hx. Qed.

    Lemma st_top_ents x : In x S1 -> (rank S1 x < n)%nat -> In x ents'.
    Proof.
      intros Hx Hr. apply st_ents_in. destruct (st_S1_cases x Hx) as [Hx0|HxA].
      - left. apply st_top_S0; assumption.
      - destruct (st_L_dec x (st_A_es x HxA)) as [HL|HL]; [left; exact HL | right].
        apply st_claim; [|exact Hr|exact HL]. apply (anc_spec h e st_find). exact HxA.
    Qed.

    Lemma st_fheads_in x : In x (find_heads F) -> In x ents'.
    Proof.
      intros Hx. assert (HxF : In x F) by (apply find_heads_In in Hx; tauto).
      apply st_ents_in. destruct (st_L_dec x (st_F_es x HxF)) as [HL|HL]; [left; exact HL | right].
      destruct st_new_spec as [_ [_ [N3 _]]]. apply N3; [exact Hx|].
      split; [exact HxF | apply st_notin_hash; [apply st_F_es; exact HxF | exact HL]].
    Qed.

    Lemma st_merged_in x :
      In x (oset_all (find_heads F) (lheads l)) <-> In x (lheads l) \/ In x (find_heads F).
    Proof.
      apply (oset_all_In U HWF).
      - intros y Hy. apply st_F_U. apply find_heads_In in Hy. tauto.
      - intros y Hy. apply st_L_U. apply (li_hd_in _ _ _ HI). exact Hy.
    Qed.

    Lemma st_heads_ents : incl heads' ents'.
    Proof.
      intros x Hx. unfold heads' in Hx. apply filter_In in Hx. destruct Hx as [Hx _].
      apply find_heads_In in Hx. destruct Hx as [Hx _]. apply st_merged_in in Hx.
      destruct Hx as [Hx|Hx].
      - apply st_ents_in. left. apply (li_hd_in _ _ _ HI). exact Hx.
      - apply st_fheads_in. exact Hx.
    Qed.

    Lemma st_nexts_S1 T c : incl T S1 -> In c (all_nexts T) -> In c (all_nexts S1).
    Proof.
      intros HT Hc. apply all_nexts_In in Hc. destruct Hc as [y [Hy Hc]].
      apply all_nexts_In. exists y. split; [apply HT; exact Hy | exact Hc].
    Qed.

    Lemma st_next'_S1 c : In c next' -> In c (all_nexts S1).
    Proof.
      intros Hc. unfold next' in Hc. apply addN_all_In in Hc. destruct Hc as [Hc|Hc].
      - apply (st_nexts_S1 new); [|exact Hc]. intros y Hy. apply st_F_S1. apply st_new_F. exact Hy.
      - apply (li_next _ _ _ HI) in Hc. apply (st_nexts_S1 S0); [apply st_S0_S1 | exact Hc].
    Qed.

    (** an entry among the [n] greatest that nothing seen links to is a head of [l1] *)
    Lemma st_global_head g :
      In g S1 -> (rank S1 g < n)%nat -> ~ In (eh g) (all_nexts S1) -> In g heads'.
    Proof.
      intros Hg Hr Hnl.
      assert (Hge : In g ents') by (apply st_top_ents; assumption).
      unfold heads'. apply filter_In. split.
      - apply find_heads_In. split.
        + apply st_merged_in. apply st_ents_in in Hge. destruct Hge as [HgL|Hgn].
          * left. apply (li_hd _ _ _ HI); [exact HgL|].
            intros Hc. apply Hnl. apply (st_nexts_S1 L); [apply st_L_S1 | exact Hc].
          * right. apply find_heads_In. split; [apply st_new_F; exact Hgn|].
            intros Hc. apply Hnl. apply (st_nexts_S1 F); [apply st_F_S1 | exact Hc].
        + intros Hc. apply Hnl. apply (st_nexts_S1 (oset_all (find_heads F) (lheads l))); [|exact Hc].
          intros y Hy. apply st_merged_in in Hy. destruct Hy as [Hy|Hy].
          * apply st_L_S1. apply (li_hd_in _ _ _ HI). exact Hy.
          * apply st_F_S1. apply find_heads_In in Hy. tauto.
      - apply andb_true_iff. split; apply negb_true_iff.
        + destruct (memN (eh g) nn) eqn:M; [|reflexivity]. exfalso. apply Hnl.
          apply memN_In in M. apply st_next'_S1. unfold next'. apply addN_all_In. left. exact M.
        + destruct (memN (eh g) next') eqn:M; [|reflexivity]. exfalso. apply Hnl.
          apply memN_In in M. apply st_next'_S1. exact M.
    Qed.

    Lemma st_reach x : In x S1 -> (rank S1 x < n)%nat -> reach ents' heads' x.
    Proof.
      assert (Gk : forall k x, (rank S1 x < k)%nat -> In x S1 -> (rank S1 x < n)%nat -> reach ents' heads' x).
      { induction k as [|k IH]; intros y Hk Hy Hr; [lia|].
        destruct (memN (eh y) (all_nexts S1)) eqn:M.
        - apply memN_In in M. apply all_nexts_In in M. destruct M as [z [Hz Hc]].
          assert (Hlt : key_lt y z).
          { apply (wf_link U HWF); [apply HesU; apply (SH_incl (H ++ [h])); exact Hz
                                   | apply HesU; apply (SH_incl (H ++ [h])); exact Hy | exact Hc]. }
          pose proof (rank_strict S1 y z Hlt Hz) as Hs.
          apply reach_next with (e := z); [|exact Hc|apply st_top_ents; assumption].
          apply IH; [lia | exact Hz | lia].
        - apply reach_root. apply st_global_head; [exact Hy | exact Hr|].
          intros Hin. apply memN_In in Hin. rewrite Hin in M. discriminate M. }
      intros Hx Hr. apply (Gk (S (rank S1 x))); [lia | exact Hx | exact Hr].
    Qed.

    Lemma st_values1 :
      asc_sorted (values l1) /\ incl (values l1) S1 /\
      (forall x, In x S1 -> (rank S1 x < n)%nat -> In x (values l1)).
    Proof.
      assert (HhU : incl heads' U) by (intros x Hx; apply st_ents_U; apply st_heads_ents; exact Hx).
      destruct (values_sorted_reach U l1 HWF st_ents_U HhU st_ents_nd) as [Hs Hr].
      split; [exact Hs|]. split.
      - intros x Hx. apply Hr in Hx. apply st_ents_S1.
        apply (GlobalProofs.reach_in_ents ents' heads'); [apply st_heads_ents | exact Hx].
      - intros x Hx Hrk. apply Hr. apply st_reach; assumption.
    Qed.

    Lemma st_newest : newest n (values l1) = newest n S1.
    Proof.
      destruct st_values1 as [V1 [V2 V3]].
      apply (newest_between U S1 (values l1) n HWF); try assumption.
      - intros x Hx. apply HesU. apply (SH_incl (H ++ [h])). exact Hx.
      - apply SH_sorted.
    Qed.

    (** *** what [Load] hands to [Join] as size *)
    Let other := log_of_entries (lid l) F.
    Let p := fun x : entry => negb (has_entry (eh x) (lents l)) && (elog x =? lid l)%N.
    Let capN := (length (filter p F) + length L)%nat.

    Lemma st_other : lents other = F /\ lheads other = find_heads F /\ lid other = lid l.
    Proof.
      split; [apply loe_ents_multi; exact st_F_nd|].
      split; [apply loe_heads_multi; exact st_F_nd | reflexivity].
    Qed.

    Lemma st_capacity : join_capacity l other = Z.of_nat capN.
    Proof.
      unfold join_capacity. destruct st_other as [E1 _]. rewrite E1.
      unfold capN, p, L. lia.
    Qed.

    Lemma st_p_spec x : In x F -> (p x = true <-> ~ In x L).
    Proof.
      intros Hx. unfold p. rewrite (li_id _ _ _ HI), (Hid x (st_F_es x Hx)), N.eqb_refl, andb_true_r.
      rewrite negb_true_iff, has_entry_false. split.
      - intros Hh Hin. apply Hh. apply In_hashes_intro. exact Hin.
      - intros Hn'. apply st_notin_hash; [apply st_F_es; exact Hx | exact Hn'].
    Qed.

    Lemma st_L_nodup : NoDup L.
    Proof. apply (NoDup_map_inv eh). apply (li_nd _ _ _ HI). Qed.

    Lemma st_F_nodup : NoDup F.
    Proof. apply (NoDup_map_inv eh). exact st_F_nd. Qed.

    Lemma st_cap_list_nodup : NoDup (L ++ filter p F).
    Proof.
      apply nodup_app; [exact st_L_nodup | apply NoDup_filter; exact st_F_nodup|].
      intros x HxL HxF. apply filter_In in HxF. destruct HxF as [HxF Hp].
      apply (st_p_spec x HxF) in Hp. exact (Hp HxL).
    Qed.

    Lemma st_cap_le : (capN <= length S1)%nat.
    Proof.
      unfold capN. rewrite Nat.add_comm, <- app_length.
      apply NoDup_incl_length; [exact st_cap_list_nodup|].
      intros x Hx. apply in_app_or in Hx. destruct Hx as [Hx|Hx].
      - apply st_L_S1. exact Hx.
      - apply st_F_S1. apply filter_In in Hx. tauto.
    Qed.

    Lemma st_acc_new : forallb acc new = true.
    Proof.
      apply forallb_forall. intros x Hx. apply Hacc. apply st_F_es. apply st_new_F. exact Hx.
    Qed.

    (** *** the limit does not exceed what the joined log can hold: [Join] trims *)
    Lemma st_case_trim :
      (n <= capN)%nat ->
      exists l', load_head true fetch es acc (Z.of_nat n) l h = Ok l' /\ LInv n (H ++ [h]) l'.
    Proof.
      intros Hcap.
      destruct st_other as [E1 [E2 E3]].
      destruct st_values1 as [V1 [V2 V3]].
      assert (HlenS1 : (n <= length S1)%nat) by (pose proof st_cap_le; lia).
      assert (HlenV : (n <= length (values l1))%nat).
      { pose proof (f_equal (@length entry) st_newest) as Hl.
        rewrite !newest_length in Hl. lia. }
      set (tmp := newest n S1).
      assert (Htmp_es : incl tmp es).
      { intros x Hx. apply (SH_incl (H ++ [h])). apply (newest_In S1 n x (SH_sorted _)) in Hx. tauto. }
      assert (Htmp_nd : NoDup (hashes tmp)).
      { apply nodup_hashes_sub; [exact Htmp_es|]. apply asc_sorted_nodup. apply newest_sorted. apply SH_sorted. }
      assert (HJ : join l other (Z.of_nat n) acc =
                   Ok (mkLog (lid l) tmp (find_heads tmp) next'
                             (Z.max (lclock l) (max_time (find_heads tmp) 0)))).
      { rewrite join_sized; [|exact E3|lia]. rewrite E1, E2. cbv zeta.
        fold new. rewrite st_acc_new. cbn [negb].
        change (last_n (values l1) (Z.of_nat n)) with (last_n (values l1) (Z.of_nat n)).
        fold nn. fold next'. fold heads'. fold L. fold ents'. fold l1.
        rewrite (last_n_ok (values l1) n HlenV). rewrite st_newest. fold tmp.
        rewrite (oset_all_nil tmp Htmp_nd). reflexivity. }
      eexists. split.
      - unfold load_head. fold F. fold other. unfold join_size. rewrite st_capacity.
        assert (Hb : (Z.of_nat capN <? Z.of_nat n) = false) by (apply Z.ltb_ge; lia).
        rewrite Hb. cbn [andb]. rewrite HJ. reflexivity.
      - constructor; cbn [lid lents lheads lnext].
        + apply (li_id _ _ _ HI).
        + exact Htmp_es.
        + exact Htmp_nd.
        + intros x. apply (newest_In S1 n x (SH_sorted _)).
        + intros x Hx. apply find_heads_In in Hx. tauto.
        + intros g Hg Hnl. apply find_heads_In. split; assumption.
        + exact st_next'_S1.
        + intros Hlt. exfalso. unfold tmp in Hlt. rewrite newest_length in Hlt. lia.
    Qed.

    (** *** the limit exceeds it: nothing has been trimmed so far, [Join] is untrimmed *)
    Lemma st_same_length (T W : list entry) (k : nat) :
      NoDup T -> asc_sorted W -> (forall x, In x T <-> In x W /\ (rank W x < k)%nat) ->
      length T = Nat.min k (length W).
    Proof.
      intros HT HW Hs. rewrite <- newest_length.
      apply Permutation_length. apply NoDup_Permutation.
      - exact HT.
      - apply asc_sorted_nodup. apply newest_sorted. exact HW.
      - intros x. rewrite (Hs x). symmetry. apply newest_In. exact HW.
    Qed.

    Lemma st_case_all :
      (capN < n)%nat ->
      exists l', load_head true fetch es acc (Z.of_nat n) l h = Ok l' /\ LInv n (H ++ [h]) l'.
    Proof.
      intros Hcap.
      assert (HlenL : (length L < n)%nat) by (unfold capN in Hcap; lia).
      destruct (li_ok _ _ _ HI HlenL) as [Hok HclL].
      (* the log holds everything seen *)
      assert (HL0 : length L = Nat.min n (length S0)).
      { apply st_same_length; [exact st_L_nodup | apply SH_sorted | exact st_L_in]. }
      assert (HS0 : forall x, In x S0 -> In x L).
      { intros x Hx. apply st_L_in. split; [exact Hx|]. pose proof (rank_lt_length S0 x Hx). lia. }
      (* the fetch holds the whole ancestry *)
      assert (HlenF : (length F <= capN)%nat).
      { unfold capN. rewrite (filter_split_length p F) at 1.
        apply Nat.add_le_mono_l. apply NoDup_incl_length; [apply NoDup_filter; exact st_F_nodup|].
        intros x Hx. apply filter_In in Hx. destruct Hx as [HxF Hp].
        destruct (st_L_dec x (st_F_es x HxF)) as [HL|HL]; [exact HL|].
        apply (st_p_spec x HxF) in HL. rewrite HL in Hp. discriminate Hp. }
      assert (HF0 : length F = Nat.min n (length A)).
      { apply st_same_length; [exact st_F_nodup | apply ancestry_sorted | exact st_F_in]. }
      assert (HA : forall x, In x A -> In x F).
      { intros x Hx. apply st_F_in. split; [exact Hx|]. pose proof (rank_lt_length A x Hx). lia. }
      (* hence everything seen now fits below the limit *)
      assert (HlenS1 : (length S1 <= capN)%nat).
      { unfold capN. rewrite Nat.add_comm, <- app_length.
        apply NoDup_incl_length; [apply SH_nodup|].
        intros x Hx. apply in_or_app. destruct (st_S1_cases x Hx) as [Hx0|HxA].
        - left. apply HS0. exact Hx0.
        - destruct (st_L_dec x (st_A_es x HxA)) as [HL|HL]; [left; exact HL | right].
          apply filter_In. split; [apply HA; exact HxA|]. apply st_p_spec; [apply HA; exact HxA | exact HL]. }
      assert (HclFL : next_closed (F ++ lents l)).
      { intros x c Hx Hc. unfold hashes. rewrite map_app. apply in_or_app.
        apply in_app_or in Hx. destruct Hx as [Hx|Hx].
        - left. assert (HxA : In x A) by (apply st_F_in in Hx; tauto).
          pose proof (ancestry_closed h x c HxA Hc) as Hh.
          apply In_hashes in Hh. destruct Hh as [y [Hy1 Hy2]].
          apply In_hashes. exists y. split; [apply HA; exact Hy1 | exact Hy2].
        - right. apply (HclL x c Hx Hc). }
      destruct (join_multi U l F acc HWF Hok HclL st_F_U st_F_nd HclFL) as [l' [HJ [Hok' [Hid' [Hset Hcl']]]]].
      { intros x Hx. split; [rewrite (li_id _ _ _ HI); apply Hid | apply Hacc]; apply st_F_es; exact Hx. }
      assert (Hin' : forall x, In x (lents l') <-> In x S1).
      { intros x. rewrite (Hset x), in_app_iff. split.
        - intros [Hx|Hx]; [apply st_L_S1 | apply st_F_S1]; exact Hx.
        - intros Hx. destruct (st_S1_cases x Hx) as [Hx0|HxA]; [left; apply HS0 | right; apply HA]; assumption. }
      exists l'. split.
      - unfold load_head. fold F. fold other. unfold join_size. rewrite st_capacity.
        assert (Hb : (Z.of_nat capN <? Z.of_nat n) = true) by (apply Z.ltb_lt; lia).
        rewrite Hb. cbn [andb]. unfold other. rewrite HJ. reflexivity.
      - constructor.
        + rewrite Hid'. apply (li_id _ _ _ HI).
        + intros x Hx. apply (SH_incl (H ++ [h])). apply Hin'. exact Hx.
        + apply (ok_nodup U l' Hok').
        + intros x. rewrite (Hin' x). split; [|tauto].
          intros Hx. split; [exact Hx|]. pose proof (rank_lt_length S1 x Hx) as Hr. fold S1. lia.
        + apply (GlobalProofs.heads_incl U). exact Hok'.
        + intros g Hg Hnl. apply (ok_heads U l' Hok'). split; assumption.
        + intros c Hc. apply (ok_next U l' Hok') in Hc.
          apply (st_nexts_S1 (lents l')); [|exact Hc]. intros x Hx. apply Hin'. exact Hx.
        + intros _. split; assumption.
    Qed.

    Lemma st_step :
      exists l', load_head true fetch es acc (Z.of_nat n) l h = Ok l' /\ LInv n (H ++ [h]) l'.
    Proof.
      destruct (Nat.lt_ge_cases capN n) as [Hc|Hc]; [apply st_case_all | apply st_case_trim]; exact Hc.
    Qed.
  End Step.

  Lemma load_heads_pos n : (0 < n)%nat -> forall hs H l,
    LInv n H l -> (forall h, In h hs -> In h (hashes es)) ->
    exists l', load_heads true fetch es acc (Z.of_nat n) l hs = Ok l' /\ LInv n (H ++ hs) l'.
  Proof.
    intros Hn. induction hs as [|h hs IH]; intros H l HI Hhs.
    - exists l. split; [reflexivity|]. rewrite app_nil_r. exact HI.
    - assert (Hh : In h (hashes es)) by (apply Hhs; left; reflexivity).
      apply In_hashes in Hh. destruct Hh as [e [He1 He2]].
      destruct (st_step n H l h e Hn HI He1 He2) as [l1 [HL1 HI1]].
      destruct (IH (H ++ [h]) l1 HI1) as [l2 [HL2 HI2]].
      { intros h' Hh'. apply Hhs. right. exact Hh'. }
      exists l2. split.
      + cbn [load_heads]. rewrite HL1. exact HL2.
      + rewrite <- app_assoc in HI2. exact HI2.
  Qed.

  (** ** Everything: a negative limit *)

  Record CInv (H : list N) (l : log) : Prop := {
    ci_id : lid l = id;
    ci_ok : log_ok U l;
    ci_cl : next_closed (lents l);
    ci_set : forall x, In x (lents l) <-> In x (SH H)
  }.

  Lemma CInv_init : CInv [] (empty_log id).
  Proof.
    constructor.
    - reflexivity.
    - apply (GlobalProofs.log_ok_mono []); [apply GlobalProofs.log_ok_empty | intros x []].
    - intros x c [].
    - intros x. rewrite SH_nil. simpl. tauto.
  Qed.

  Lemma load_heads_all : forall hs H l,
    CInv H l -> (forall h, In h hs -> In h (hashes es)) ->
    exists l', load_heads true fetch es acc (-1) l hs = Ok l' /\ CInv (H ++ hs) l'.
  Proof.
    induction hs as [|h hs IH]; intros H l HI Hhs.
    - exists l. split; [reflexivity|]. rewrite app_nil_r. exact HI.
    - assert (Hh : In h (hashes es)) by (apply Hhs; left; reflexivity).
      destruct HI as [I1 I2 I3 I4].
      set (F := fetch es h (-1) (lents l)).
      destruct (FC h (-1) (lents l) Hh) as [Fnd Fs]. fold F in Fnd, Fs.
      assert (HF : forall x, In x F <-> In x (ancestry es h)).
      { intros x. rewrite (Fs x). unfold ideal_fetch. reflexivity. }
      assert (HFes : incl F es) by (intros x Hx; apply (ancestry_incl h); apply HF; exact Hx).
      assert (HFU : incl F U) by (intros x Hx; apply HesU; apply HFes; exact Hx).
      assert (HclFL : next_closed (F ++ lents l)).
      { intros x c Hx Hc. unfold hashes. rewrite map_app. apply in_or_app.
        apply in_app_or in Hx. destruct Hx as [Hx|Hx].
        - left. pose proof (ancestry_closed h x c (proj1 (HF x) Hx) Hc) as Hh'.
          apply In_hashes in Hh'. destruct Hh' as [y [Hy1 Hy2]].
          apply In_hashes. exists y. split; [apply HF; exact Hy1 | exact Hy2].
        - right. apply (I3 x c Hx Hc). }
      destruct (join_multi U l F acc HWF I2 I3 HFU Fnd HclFL) as [l1 [HJ [Hok1 [Hid1 [Hset1 Hcl1]]]]].
      { intros x Hx. split; [rewrite I1; apply Hid | apply Hacc]; apply HFes; exact Hx. }
      assert (HI1 : CInv (H ++ [h]) l1).
      { constructor; [rewrite Hid1; exact I1 | exact Hok1 | exact Hcl1|].
        intros x. rewrite (Hset1 x), in_app_iff, SH_app, (I4 x), (HF x). tauto. }
      destruct (IH (H ++ [h]) l1 HI1) as [l2 [HL2 HI2]].
      { intros h' Hh'. apply Hhs. right. exact Hh'. }
      exists l2. split.
      + cbn [load_heads]. unfold load_head. fold F.
        assert (Hsz : join_size true l (log_of_entries (lid l) F) (-1) = -1).
        { unfold join_size. destruct (true && _); reflexivity. }
        rewrite Hsz, HJ. exact HL2.
      + rewrite <- app_assoc in HI2. exact HI2.
  Qed.

  (** ** The reference fetcher meets the contract *)
  Lemma ideal_fetch_ok : fetch_ok es ideal_fetch.
  Proof.
    intros h n X _. split; [|intros x; tauto].
    assert (Hsub : incl (ideal_fetch es h n X) (ancestry es h)).
    { unfold ideal_fetch. destruct (n <? 0); [intros x Hx; exact Hx|].
      unfold newest. intros x Hx. apply (skipn_incl _ _ _ Hx). }
    assert (Hs : asc_sorted (ideal_fetch es h n X)).
    { unfold ideal_fetch. destruct (n <? 0); [apply ancestry_sorted|].
      apply newest_sorted. apply ancestry_sorted. }
    apply nodup_hashes_sub.
    - intros x Hx. apply (ancestry_incl h). apply Hsub. exact Hx.
    - apply asc_sorted_nodup. exact Hs.
  Qed.

  (** ** [Load] with both repairs *)

  Variable heads : list N.
  Hypothesis Hheads : forall h, In h heads -> In h (hashes es).

  Lemma load_pos n : 0 < n ->
    exists l, load_limit true true fetch id acc es heads n = Ok l /\ LInv (Z.to_nat n) heads l.
  Proof.
    intros Hn. unfold load_limit, norm_limit.
    assert (Hb : (n <=? 0) = false) by (apply Z.leb_gt; exact Hn).
    rewrite Hb. cbn [andb].
    destruct (load_heads_pos (Z.to_nat n) ltac:(lia) heads [] (empty_log id) (LInv_init _) Hheads)
      as [l [HL HI]].
    rewrite Z2Nat.id in HL by lia. exists l. split; [exact HL | exact HI].
  Qed.

  Lemma load_nonpos n : n <= 0 ->
    exists l, load_limit true true fetch id acc es heads n = Ok l /\ CInv heads l.
  Proof.
    intros Hn. unfold load_limit, norm_limit.
    assert (Hb : (n <=? 0) = true) by (apply Z.leb_le; exact Hn).
    rewrite Hb. cbn [andb].
    destruct (load_heads_all heads [] (empty_log id) CInv_init Hheads) as [l [HL HI]].
    exists l. split; [exact HL | exact HI].
  Qed.

  Lemma load_never_panics_sec n : is_panic (load_limit true true fetch id acc es heads n) = false.
  Proof.
    destruct (Z.lt_ge_cases 0 n) as [Hn|Hn].
    - destruct (load_pos n Hn) as [l [HL _]]. rewrite HL. reflexivity.
    - destruct (load_nonpos n Hn) as [l [HL _]]. rewrite HL. reflexivity.
  Qed.

  (** the cached heads cover the persisted log *)
  Hypothesis Hcover : forall x, In x es -> exists h, In h heads /\ In x (ancestry es h).

  Lemma sorted_is_E s : asc_sorted s -> same_set s es -> s = E.
  Proof.
    intros Hs Hsame. destruct E_spec as [HE1 HE2].
    apply TraverseProofs.sorted_unique; [exact Hs | exact HE1|].
    intros x. rewrite (Hsame x). symmetry. apply HE2.
  Qed.

  Lemma load_exact_sec n s : 0 < n -> asc_sorted s -> same_set s es ->
    exists l, load_limit true true fetch id acc es heads n = Ok l /\
              values l = newest (Z.to_nat n) s.
  Proof.
    intros Hn Hs Hsame. destruct (load_pos n Hn) as [l [HL HI]].
    exists l. split; [exact HL|].
    rewrite (linv_values_eq _ _ _ HI), (SH_all heads Hcover), (sorted_is_E s Hs Hsame). reflexivity.
  Qed.

  Lemma load_all_sec n s : n <= 0 -> asc_sorted s -> same_set s es ->
    exists l, load_limit true true fetch id acc es heads n = Ok l /\ values l = s.
  Proof.
    intros Hn Hs Hsame. destruct (load_nonpos n Hn) as [l [HL [I1 I2 I3 I4]]].
    exists l. split; [exact HL|].
    destruct (GlobalProofs.values_canonical U l HWF I2) as [Va Vb].
    apply TraverseProofs.sorted_unique; [exact Vb | exact Hs|].
    intros x. rewrite (Va x), (I4 x), (SH_all heads Hcover), (Hsame x).
    destruct E_spec as [_ HE]. apply HE.
  Qed.
End Load.

(** * The statements of C15 and their proofs *)

(** What is persisted: [es] is a duplicate-free, ancestry-closed set of entries of a
    well-formed universe, written for log [id] and acceptable to the access controller;
    the cached heads are persisted entries; the fetcher meets its contract. *)
Definition load_setting (U es : list entry) (id : N) (acc : entry -> bool) (fetch : fetcher)
           (heads : list N) : Prop :=
  WF U /\ incl es U /\ next_closed es /\ NoDup (hashes es) /\
  (forall e, In e es -> elog e = id) /\ (forall e, In e es -> acc e = true) /\
  fetch_ok es fetch /\ (forall h, In h heads -> In h (hashes es)).

(** every persisted entry is in the ancestry of a cached head *)
Definition heads_cover (es : list entry) (heads : list N) : Prop :=
  forall x, In x es -> exists h, In h heads /\ In x (ancestry es h).

(** a log written by one writer, in the order it was written *)
Definition writer_chain (es : list entry) : Prop :=
  StronglySorted (fun a b => ecid a = ecid b /\ etime a < etime b) es.

Definition S_load_never_panics : Prop :=
  forall U es id acc fetch heads n,
    load_setting U es id acc fetch heads ->
    is_panic (load_limit true true fetch id acc es heads n) = false.

(** master statement: the listing is exactly the [n] greatest persisted entries, in key order *)
Definition S_load_exact : Prop :=
  forall U es id acc fetch heads n s,
    load_setting U es id acc fetch heads -> heads_cover es heads -> 0 < n ->
    asc_sorted s -> same_set s es ->
    listing (load_limit true true fetch id acc es heads n) = newest (Z.to_nat n) s.

Definition S_load_count : Prop :=
  forall U es id acc fetch heads n,
    load_setting U es id acc fetch heads -> heads_cover es heads -> 0 < n ->
    length (listing (load_limit true true fetch id acc es heads n)) =
    Nat.min (Z.to_nat n) (length es).

Definition S_load_sorted_newest : Prop :=
  forall U es id acc fetch heads n,
    load_setting U es id acc fetch heads -> heads_cover es heads -> 0 < n ->
    let lst := listing (load_limit true true fetch id acc es heads n) in
    asc_sorted lst /\ incl lst es /\
    forall m, In m es -> (forall x, In x es -> x = m \/ key_lt x m) -> In m lst.

Definition S_load_single_writer_suffix : Prop :=
  forall U es id acc fetch heads n,
    load_setting U es id acc fetch heads -> heads_cover es heads -> 0 < n ->
    writer_chain es ->
    listing (load_limit true true fetch id acc es heads n) = newest (Z.to_nat n) es.

Definition S_load_nonpositive_all : Prop :=
  forall U es id acc fetch heads n s,
    load_setting U es id acc fetch heads -> heads_cover es heads -> n <= 0 ->
    asc_sorted s -> same_set s es ->
    listing (load_limit true true fetch id acc es heads n) = s.

(** without the clamp (the pinned commit): a persisted log and a limit that crash the process *)
Definition S_load_refuted_panic : Prop :=
  exists U es id heads n,
    load_setting U es id (fun _ => true) ideal_fetch heads /\ heads_cover es heads /\ 0 < n /\
    load_limit true false ideal_fetch id (fun _ => true) es heads n = Panic PSliceBounds.

(** without the normalisation (the pinned commit): limit 0 lists nothing of a non-empty log *)
Definition S_load_refuted_zero : Prop :=
  exists U es id heads,
    load_setting U es id (fun _ => true) ideal_fetch heads /\ heads_cover es heads /\ es <> [] /\
    is_ok (load_limit false true ideal_fetch id (fun _ => true) es heads 0) = true /\
    listing (load_limit false true ideal_fetch id (fun _ => true) es heads 0) = [].

Lemma load_never_panics : S_load_never_panics.
Proof.
  intros U es id acc fetch heads n [H1 [H2 [H3 [H4 [H5 [H6 [H7 H8]]]]]]].
  apply (load_never_panics_sec U es id acc fetch H1 H2 H3 H4 H5 H6 H7 heads H8).
Qed.

Lemma load_exact : S_load_exact.
Proof.
  intros U es id acc fetch heads n s [H1 [H2 [H3 [H4 [H5 [H6 [H7 H8]]]]]]] Hc Hn Hs Hsame.
  destruct (load_exact_sec U es id acc fetch H1 H2 H3 H4 H5 H6 H7 heads H8 Hc n s Hn Hs Hsame)
    as [l [HL HV]].
  rewrite HL. exact HV.
Qed.

Lemma sorted_version U es : WF U -> incl es U -> NoDup (hashes es) ->
  asc_sorted (E es) /\ same_set (E es) es /\ length (E es) = length es.
Proof.
  intros H1 H2 H4. destruct (E_spec U es H1 H2 H4) as [A B].
  split; [exact A|]. split; [exact B|].
  unfold E. rewrite rev_length. apply TraverseProofs.sort_desc_length.
Qed.

Lemma load_count : S_load_count.
Proof.
  intros U es id acc fetch heads n HS Hc Hn.
  pose proof HS as [H1 [H2 [H3 [H4 HR]]]].
  destruct (sorted_version U es H1 H2 H4) as [A [B C]].
  rewrite (load_exact U es id acc fetch heads n (E es) HS Hc Hn A B).
  rewrite newest_length, C. reflexivity.
Qed.

Lemma load_sorted_newest : S_load_sorted_newest.
Proof.
  intros U es id acc fetch heads n HS Hc Hn lst.
  pose proof HS as [H1 [H2 [H3 [H4 HR]]]].
  destruct (sorted_version U es H1 H2 H4) as [A [B C]].
  assert (El : lst = newest (Z.to_nat n) (E es)).
  { unfold lst. apply (load_exact U es id acc fetch heads n (E es)); assumption. }
  rewrite El. split; [apply newest_sorted; exact A|]. split.
  - intros x Hx. apply B. unfold newest in Hx. apply (skipn_incl _ _ _ Hx).
  - intros m Hm Hmax. apply (newest_In (E es) (Z.to_nat n) m A). split; [apply B; exact Hm|].
    assert (R0 : rank (E es) m = 0%nat).
    { unfold rank.
      assert (Ef : forall T, (forall x, In x T -> x = m \/ key_lt x m) -> filter (key_ltb m) T = []).
      { induction T as [|a T IH]; intros HT; [reflexivity|]. cbn [filter].
        assert (K : key_ltb m a = false).
        { destruct (key_ltb m a) eqn:K; [|reflexivity]. apply key_ltb_spec in K. exfalso.
          destruct (HT a (or_introl eq_refl)) as [Q|Q].
          - subst a. exact (key_lt_irrefl m K).
          - apply (key_lt_irrefl m). apply key_lt_trans with (b := a); assumption. }
        rewrite K. apply IH. intros x Hx. apply HT. right. exact Hx. }
      rewrite Ef; [reflexivity|]. intros x Hx. apply Hmax. apply B. exact Hx. }
    lia.
Qed.

Lemma writer_chain_sorted es : writer_chain es -> asc_sorted es.
Proof.
  induction es as [|a es IH]; intros Hc; [constructor|].
  apply StronglySorted_inv in Hc. destruct Hc as [Hc1 Hc2].
  constructor; [apply IH; exact Hc1|].
  apply Forall_forall. intros x Hx. rewrite Forall_forall in Hc2.
  destruct (Hc2 x Hx) as [_ Ht]. left. exact Ht.
Qed.

Lemma load_single_writer_suffix : S_load_single_writer_suffix.
Proof.
  intros U es id acc fetch heads n HS Hc Hn Hch.
  apply (load_exact U es id acc fetch heads n es); try assumption.
  - apply writer_chain_sorted. exact Hch.
  - intros x. tauto.
Qed.

Lemma load_nonpositive_all : S_load_nonpositive_all.
Proof.
  intros U es id acc fetch heads n s [H1 [H2 [H3 [H4 [H5 [H6 [H7 H8]]]]]]] Hc Hn Hs Hsame.
  destruct (load_all_sec U es id acc fetch H1 H2 H3 H4 H5 H6 H7 heads H8 Hc n s Hn Hs Hsame)
    as [l [HL HV]].
  rewrite HL. exact HV.
Qed.

(** ** Refutations: a one-entry log *)

Definition w_e1 : entry := mkEntry 1 1 1 1 [] [] 1 1 1 (OAdd 1).

Lemma w_setting : load_setting [w_e1] [w_e1] 1 (fun _ => true) ideal_fetch [1%N] /\
                  heads_cover [w_e1] [1%N].
Proof.
  assert (HWF : WF [w_e1]).
  { constructor.
    - intros a b [Ha|[]] [Hb|[]]. subst. reflexivity.
    - intros a b [Ha|[]] [Hb|[]]. subst. reflexivity.
    - intros e n [He|[]] _ Hn. subst e. destruct Hn.
    - intros e c [He|[]] Hc. subst e. destruct Hc. }
  assert (Hcl : next_closed [w_e1]) by (intros e c [He|[]] Hc; subst e; destruct Hc).
  assert (Hnd : NoDup (hashes [w_e1])) by (repeat constructor; intros []).
  split.
  - split; [exact HWF|]. split; [intros x Hx; exact Hx|]. split; [exact Hcl|]. split; [exact Hnd|].
    split; [intros e [He|[]]; subst; reflexivity|]. split; [intros; reflexivity|].
    split.
    + apply (ideal_fetch_ok [w_e1] [w_e1] HWF); [intros x Hx; exact Hx | exact Hnd].
    + intros h [Hh|[]]. subst h. left. reflexivity.
  - intros x [Hx|[]]. subst x. exists 1%N. split; [left; reflexivity|].
    vm_compute. left. reflexivity.
Qed.

Lemma load_refuted_panic : S_load_refuted_panic.
Proof.
  exists [w_e1], [w_e1], 1%N, [1%N], 2.
  destruct w_setting as [A B]. split; [exact A|]. split; [exact B|]. split; [lia|].
  vm_compute. reflexivity.
Qed.

Lemma load_refuted_zero : S_load_refuted_zero.
Proof.
  exists [w_e1], [w_e1], 1%N, [1%N].
  destruct w_setting as [A B]. split; [exact A|]. split; [exact B|]. split; [discriminate|].
  split; vm_compute; reflexivity.
Qed.

Print Assumptions load_never_panics.
Print Assumptions load_exact.
Print Assumptions load_count.
Print Assumptions load_sorted_newest.
Print Assumptions load_single_writer_suffix.
Print Assumptions load_nonpositive_all.
Print Assumptions load_refuted_panic.
Print Assumptions load_refuted_zero.

(** Proofs about the message handlers of [Model/Message.v] (C12). *)
From Orbit Require Import Model.Message.

(** * Statements *)

(** With validation, no decoded message (and no undecodable one) makes a handler panic. *)
Definition S_msg_total : Prop :=
  forall (ch : channel) (m : option dmsg),
    match handle_msg true ch m with Panic _ => False | _ => True end.

(** With validation, replication is started only for a non-empty list of heads of the
    message that are all well-formed, authorised and valid. *)
Definition S_msg_started_good : Prop :=
  forall (ch : channel) (m : dmsg) (l : list dhead),
    handle_msg true ch (Some m) = Ok (SStarted l) ->
    l <> [] /\ forall h, In h l -> In h (m_heads m) /\ good h = true.

(** A message none of whose heads is well-formed, authorised and valid never starts
    replication: the handler returns without touching the store. *)
Definition S_msg_no_effect : Prop :=
  forall (ch : channel) (m : dmsg),
    (forall h, In h (m_heads m) -> good h = false) ->
    forall l, handle_msg true ch (Some m) <> Ok (SStarted l).

(** With validation every message of any sequence is handled, and its result is the one
    the handler computes for that message alone, whatever was received before it. *)
Definition S_msg_next_handled : Prop :=
  forall (pre : list (channel * option dmsg)) (ch : channel) (m : option dmsg),
    run_msgs true (pre ++ [(ch, m)]) = run_msgs true pre ++ [handle_msg true ch m].

(** The pinned commit: a single [null] head, or a single [{}] head, panics in [Sync], on
    either channel; and a later message is then never handled. *)
Definition null_head : dhead := mkDH true IdAbsent false false false false false true true false.
Definition empty_head : dhead := mkDH false IdAbsent false false false false false true true false.

Definition S_msg_refuted_without_validation : Prop :=
  exists m : dmsg, sync_heads false (m_heads m) = Panic PNilDeref /\
                   forall ch, handle_msg false ch (Some m) = Panic PNilDeref.

Definition S_msg_refuted_next : Prop :=
  exists pre x, (length (run_msgs false (pre ++ [x])) < length (pre ++ [x]))%nat.

(** * Proofs *)

Lemma wellformed_fields h :
  wellformed h = true ->
  d_null h = false /\ d_ident h = IdFull /\ d_clock h = true /\ d_clock_id h = true /\ d_hash h = true.
Proof.
  unfold wellformed. intros H.
  repeat (apply andb_true_iff in H; destruct H as [H ?]).
  apply negb_true_iff in H.
  destruct (d_ident h); try discriminate. auto.
Qed.

Lemma sync_step_true_cases h :
  (sync_step true h = HSkip) \/ (sync_step true h = HReject) \/
  (sync_step true h = HAccept /\ good h = true).
Proof.
  unfold sync_step. simpl.
  destruct (wellformed h) eqn:W; simpl; [| left; reflexivity].
  destruct (wellformed_fields h W) as (Hn & Hi & Hc & Hci & Hh).
  rewrite Hn. unfold can_append. rewrite Hi.
  destruct (d_writer h) eqn:Hw; simpl; [| left; reflexivity].
  destruct (d_verifies h) eqn:Hv; [| left; reflexivity].
  unfold write_and_compare. rewrite Hi, Hc, Hh. simpl.
  destruct (d_valid h) eqn:Hva.
  - right; right. split; [reflexivity |].
    unfold good, authorised. rewrite W, Hw, Hv, Hva. reflexivity.
  - right; left. reflexivity.
Qed.

Lemma sync_loop_true hs :
  match sync_loop true hs with
  | Panic _ => False
  | Err _ => True
  | Ok acc => forall h, In h acc -> In h hs /\ good h = true
  end.
Proof.
  induction hs as [|h hs IH]; simpl.
  - intros h [].
  - destruct (sync_step_true_cases h) as [E | [E | [E G]]]; rewrite E.
    + destruct (sync_loop true hs); try exact IH.
      intros x Hx. destruct (IH x Hx). auto.
    + exact I.
    + destruct (sync_loop true hs) as [acc | e | p]; try exact IH.
      intros x [<- | Hx]; [auto |]. destruct (IH x Hx). auto.
Qed.

Lemma sync_heads_true hs :
  match sync_heads true hs with
  | Panic _ => False
  | Err _ => True
  | Ok SNothing => True
  | Ok (SStarted l) => l <> [] /\ forall h, In h l -> In h hs /\ good h = true
  end.
Proof.
  unfold sync_heads. destruct hs as [|h0 hs0]; [exact I |].
  pose proof (sync_loop_true (h0 :: hs0)) as L.
  destruct (sync_loop true (h0 :: hs0)) as [acc | e | p]; try exact L.
  destruct acc as [|a acc]; [exact I |].
  split; [discriminate | exact L].
Qed.

(** the handlers are [sync_heads] or nothing *)
Lemma handle_msg_cases v ch m :
  handle_msg v ch m = Ok SNothing \/
  exists d, m = Some d /\ handle_msg v ch m = sync_heads v (m_heads d).
Proof.
  destruct m as [d|]; [| destruct ch; left; reflexivity].
  destruct ch; simpl.
  - destruct (m_heads d) eqn:E; [left; reflexivity |].
    right. exists d. rewrite E. auto.
  - destruct (m_address_known d); simpl; [| left; reflexivity].
    destruct (m_heads d) eqn:E; [left; reflexivity |].
    right. exists d. rewrite E. auto.
Qed.

Lemma msg_total : S_msg_total.
Proof.
  intros ch m. destruct (handle_msg_cases true ch m) as [E | [d [_ E]]]; rewrite E; [exact I |].
  pose proof (sync_heads_true (m_heads d)) as H.
  destruct (sync_heads true (m_heads d)); auto.
Qed.

Lemma msg_started_good : S_msg_started_good.
Proof.
  intros ch m l H.
  destruct (handle_msg_cases true ch (Some m)) as [E | [d [Ed E]]].
  - rewrite E in H. discriminate.
  - inversion Ed; subst d. rewrite E in H.
    pose proof (sync_heads_true (m_heads m)) as S. rewrite H in S. exact S.
Qed.

Lemma msg_no_effect : S_msg_no_effect.
Proof.
  intros ch m Hbad l H.
  destruct (msg_started_good ch m l H) as [Hne Hall].
  destruct l as [|h l]; [apply Hne; reflexivity |].
  destruct (Hall h (or_introl eq_refl)) as [Hin Hg].
  rewrite (Hbad h Hin) in Hg. discriminate.
Qed.

Lemma handle_true_not_panic ch m : is_panic (handle_msg true ch m) = false.
Proof.
  pose proof (msg_total ch m) as H. destruct (handle_msg true ch m); simpl; [reflexivity | reflexivity | contradiction].
Qed.

Lemma msg_next_handled : S_msg_next_handled.
Proof.
  intros pre ch m. induction pre as [|[c x] pre IH]; simpl.
  - rewrite handle_true_not_panic. reflexivity.
  - rewrite handle_true_not_panic. rewrite IH. reflexivity.
Qed.

(** consequence: a run with validation handles every message *)
Lemma run_msgs_true_length ms : length (run_msgs true ms) = length ms.
Proof.
  induction ms as [|[c x] ms IH]; simpl; [reflexivity |].
  rewrite handle_true_not_panic. simpl. rewrite IH. reflexivity.
Qed.

Lemma msg_refuted_without_validation : S_msg_refuted_without_validation.
Proof.
  exists (mkDM true [null_head]). split; [reflexivity |].
  intros ch; destruct ch; reflexivity.
Qed.

(** the same with [{"heads":[{}]}] *)
Lemma msg_refuted_empty_object :
  forall ch, handle_msg false ch (Some (mkDM true [empty_head])) = Panic PNilDeref.
Proof. intros ch; destruct ch; reflexivity. Qed.

Lemma msg_refuted_next : S_msg_refuted_next.
Proof.
  exists [(ChTopic, Some (mkDM true [null_head])); (ChTopic, None)], (ChTopic, None).
  vm_compute. repeat constructor.
Qed.

(** Proofs of the statements of [Spec/GlobalExt.v]: the global system extended with the
    load routes (a replica joins a whole fetched log).  Mirrors [Proofs/GlobalProofs.v]
    and reuses its state-level lemmas; the new step rests on [JoinMultiProofs.join_multi]. *)
From Orbit Require Import Spec.GlobalExt.
From Orbit Require Proofs.TraverseProofs.
From Orbit Require Proofs.JoinProofs.
From Orbit Require Import Proofs.ReplayProofs.
From Orbit Require Proofs.JoinMultiProofs.
From Orbit Require Import Proofs.GlobalProofs.

Local Arguments bytes_eqb : simpl never.

Section Global2.
  Variable marks cont : bool.
  Variable acc : entry -> bool.
  Variable n : nat.
  Variable dbid : N.

  Notation GI := (ginv acc n dbid).
  Notation GR2 okop := (greach2 marks cont acc okop n dbid).
  Notation run2 := (gstep2_run marks cont acc).

  (** * The load step *)

  Lemma load_facts g r rs es :
    GI g -> incl es (guniv g) -> NoDup (hashes es) ->
    next_closed (lents (rlog rs)) -> next_closed (es ++ lents (rlog rs)) ->
    nth_error (greps g) r = Some rs ->
    exists l', join (rlog rs) (log_of_entries (lid (rlog rs)) es) (-1) acc = Ok l' /\
               log_ok (guniv g) l' /\ lid l' = dbid /\
               incl (lents (rlog rs)) (lents l').
  Proof.
    intros [Hwf Hlen Hlogs Huniv Hown Hcids Hord] Hes Hnd Hc1 Hc2 Hr.
    destruct (Hlogs r rs Hr) as [Hok Hid].
    destruct (JoinMultiProofs.join_multi (guniv g) (rlog rs) es acc Hwf Hok Hc1 Hes Hnd Hc2)
      as [l' [HJ [Hok' [Hid' [Hss _]]]]].
    - intros e He. rewrite Hid. apply Huniv. apply Hes. exact He.
    - exists l'. split; [exact HJ|]. split; [exact Hok'|].
      split; [rewrite Hid'; exact Hid|].
      intros y Hy. apply Hss. apply in_or_app. left. exact Hy.
  Qed.

  Lemma ginv_load okop g r es :
    GI g -> admissible2 okop g (G2Load r es) -> GI (run2 g (G2Load r es)).
  Proof.
    intros Hg [Hes [Hnd Hcl]]. unfold gstep2_run.
    destruct (nth_error (greps g) r) as [rs|] eqn:Hr; [|exact Hg].
    destruct (Hcl rs eq_refl) as [Hc1 Hc2].
    destruct (load_facts g r rs es Hg Hes Hnd Hc1 Hc2 Hr) as [l' [HJ [Hok' [Hid' Hincl']]]].
    rewrite HJ.
    destruct Hg as [Hwf Hlen Hlogs Huniv Hown Hcids Hord].
    constructor; simpl.
    - exact Hwf.
    - rewrite set_nth_length. exact Hlen.
    - intros i rs0 Hi.
      destruct (nth_error_set_nth_cases _ _ _ _ _ _ Hr Hi) as [[Ei Ers]|[Ei Hi']].
      + subst i rs0. simpl. split; [exact Hok' | exact Hid'].
      + apply (Hlogs i rs0 Hi').
    - exact Huniv.
    - intros i rs0 x Hi Hx Hc.
      destruct (nth_error_set_nth_cases _ _ _ _ _ _ Hr Hi) as [[Ei Ers]|[Ei Hi']].
      + subst i rs0. simpl. apply Hincl'. apply (Hown r rs x Hr Hx Hc).
      + apply (Hown i rs0 x Hi' Hx Hc).
    - exact Hcids.
    - exact Hord.
  Qed.

  Lemma ginv_step2 okop g s : GI g -> admissible2 okop g s -> GI (run2 g s).
  Proof.
    intros Hg Hadm. destruct s as [s0|r es].
    - destruct s0 as [r h refs o|r batch]; simpl in Hadm.
      + destruct Hadm as [Hh _].
        apply (ginv_write marks cont acc n dbid g r h refs o Hg Hh).
      + apply (ginv_merge marks cont acc n dbid g r batch Hg Hadm).
    - apply (ginv_load okop); assumption.
  Qed.

  Lemma greach2_inv_s okop g : GR2 okop g -> GI g.
  Proof.
    intros H. induction H as [|g s H IH Hadm].
    - apply ginv_init.
    - apply (ginv_step2 okop); assumption.
  Qed.

  (** every created entry carries an operation the store type can write *)
  Lemma greach2_ops okop g : GR2 okop g -> forall e, In e (guniv g) -> okop (eop e).
  Proof.
    intros H. induction H as [|g s H IH Hadm]; [intros e []|].
    destruct s as [[r h refs o|r batch]|r es]; unfold gstep2_run, gstep_run.
    - destruct (nth_error (greps g) r) as [rs|]; [|exact IH].
      destruct (fst (append _ _ _ _ _ _ _ _ _)) as [[e l']|er|p] eqn:Happ; try exact IH.
      simpl. intros x Hx. apply in_app_or in Hx. destruct Hx as [Hx|[Hx|[]]].
      + apply IH. exact Hx.
      + subst x. apply append_inv in Happ. destruct Happ as [Eo _]. rewrite Eo.
        destruct Hadm as [_ Ho]. exact Ho.
    - destruct (nth_error (greps g) r) as [rs|]; [|exact IH].
      destruct (merge_batch cont acc (rlog rs) batch) as [l' ok]. simpl. exact IH.
    - destruct (nth_error (greps g) r) as [rs|]; [|exact IH].
      destruct (join (rlog rs) (log_of_entries (lid (rlog rs)) es) (-1) acc) as [l'|er|p];
        simpl; exact IH.
  Qed.

  (** what a step does to one replica (state-level: from the invariant) *)
  Lemma gstep2_char okop g s i rs' :
    GI g -> admissible2 okop g s ->
    nth_error (greps (run2 g s)) i = Some rs' ->
    exists rs, nth_error (greps g) i = Some rs /\
      (rs' = rs \/
       (rkv rs' = kv_update (values (rlog rs')) (rkv rs) /\
        rdoc rs' = doc_update marks (values (rlog rs')) (rdoc rs) /\
        incl (lents (rlog rs)) (lents (rlog rs')))).
  Proof.
    intros Hg Hadm.
    destruct s as [[r h refs o|r batch]|r es]; unfold gstep2_run, gstep_run.
    - destruct Hadm as [Hh Ho].
      destruct (nth_error (greps g) r) as [rs|] eqn:Hr;
        [|intros Hi; exists rs'; split; [exact Hi | left; reflexivity]].
      destruct (fst (append (rlog rs) h (writer_of r) (writer_of r) (writer_of r) (writer_of r)
                            o refs acc)) as [[e l']|er|p] eqn:Happ;
        try (intros Hi; exists rs'; split; [exact Hi | left; reflexivity]).
      simpl. intros Hi.
      destruct (write_facts acc n dbid g r rs h o refs e l' Hg Hh Hr Happ)
        as [_ [_ [_ [Hents' _]]]].
      destruct (nth_error_set_nth_cases _ _ _ _ _ _ Hr Hi) as [[Ei Ers]|[Ei Hi']].
      + subst i rs'. exists rs. split; [exact Hr|]. right. simpl.
        split; [reflexivity|]. split; [reflexivity|].
        rewrite Hents'. intros y Hy. apply in_or_app. left. exact Hy.
      + exists rs'. split; [exact Hi' | left; reflexivity].
    - simpl in Hadm.
      destruct (nth_error (greps g) r) as [rs|] eqn:Hr;
        [|intros Hi; exists rs'; split; [exact Hi | left; reflexivity]].
      destruct (merge_facts cont acc n dbid g r rs batch Hg Hadm Hr) as [l' [Hm [_ [_ Hincl']]]].
      rewrite Hm. simpl. intros Hi.
      destruct (nth_error_set_nth_cases _ _ _ _ _ _ Hr Hi) as [[Ei Ers]|[Ei Hi']].
      + subst i rs'. exists rs. split; [exact Hr|]. right. simpl.
        split; [reflexivity|]. split; [reflexivity | exact Hincl'].
      + exists rs'. split; [exact Hi' | left; reflexivity].
    - destruct Hadm as [Hes [Hnd Hcl]].
      destruct (nth_error (greps g) r) as [rs|] eqn:Hr;
        [|intros Hi; exists rs'; split; [exact Hi | left; reflexivity]].
      destruct (Hcl rs eq_refl) as [Hc1 Hc2].
      destruct (load_facts g r rs es Hg Hes Hnd Hc1 Hc2 Hr) as [l' [HJ [_ [_ Hincl']]]].
      rewrite HJ. simpl. intros Hi.
      destruct (nth_error_set_nth_cases _ _ _ _ _ _ Hr Hi) as [[Ei Ers]|[Ei Hi']].
      + subst i rs'. exists rs. split; [exact Hr|]. right. simpl.
        split; [reflexivity|]. split; [reflexivity | exact Hincl'].
      + exists rs'. split; [exact Hi' | left; reflexivity].
  Qed.

  (** * Convergence of the logs (state-level) *)

  Lemma convergence_state g a b ra rb :
    GI g ->
    nth_error (greps g) a = Some ra -> nth_error (greps g) b = Some rb ->
    same_set (lents (rlog ra)) (lents (rlog rb)) ->
    values (rlog ra) = values (rlog rb) /\ heads_sorted (rlog ra) = heads_sorted (rlog rb).
  Proof.
    intros Hg Ha Hb Hs.
    destruct (ginv_values acc n dbid g a ra Hg Ha) as [Sa [Aa _]].
    destruct (ginv_values acc n dbid g b rb Hg Hb) as [Sb [Ab _]].
    destruct Hg as [Hwf Hlen Hlogs Huniv Hown Hcids Hord].
    destruct (Hlogs a ra Ha) as [Hoka _]. destruct (Hlogs b rb Hb) as [Hokb _].
    split.
    - apply TraverseProofs.sorted_unique; [exact Aa | exact Ab|].
      intros x. split; intros Hx.
      + apply Sb. apply Hs. apply Sa. exact Hx.
      + apply Sa. apply Hs. apply Sb. exact Hx.
    - unfold heads_sorted.
      destruct (heads_desc _ _ Hwf Hoka) as [Da Ea].
      destruct (heads_desc _ _ Hwf Hokb) as [Db Eb].
      apply desc_unique; [exact Da | exact Db|].
      pose proof (heads_same _ _ _ Hoka Hokb Hs) as Hh.
      intros x. split; intros Hx.
      + apply Eb. apply Hh. apply Ea. exact Hx.
      + apply Ea. apply Hh. apply Eb. exact Hx.
  Qed.

  Lemma convergence2_log_s okop g a b ra rb :
    GR2 okop g ->
    nth_error (greps g) a = Some ra -> nth_error (greps g) b = Some rb ->
    same_set (lents (rlog ra)) (lents (rlog rb)) ->
    values (rlog ra) = values (rlog rb) /\ heads_sorted (rlog ra) = heads_sorted (rlog rb).
  Proof.
    intros HR. apply convergence_state. apply (greach2_inv_s okop). exact HR.
  Qed.

  (** the listing of a replica only grows along a step *)
  Lemma step2_values_incl g g' i rs rs' :
    GI g -> GI g' ->
    nth_error (greps g) i = Some rs ->
    nth_error (greps g') i = Some rs' ->
    incl (lents (rlog rs)) (lents (rlog rs')) ->
    incl (values (rlog rs)) (values (rlog rs')).
  Proof.
    intros Hg Hg' Hi Hi' Hincl.
    destruct (ginv_values acc n dbid g i rs Hg Hi) as [S1 _].
    destruct (ginv_values acc n dbid g' i rs' Hg' Hi') as [S2 _].
    intros x Hx. apply S2. apply Hincl. apply S1. exact Hx.
  Qed.

  (** * The views *)

  Lemma kv_view2_s g i rs :
    GR2 kv_okop g -> nth_error (greps g) i = Some rs ->
    represents (rkv rs) (kv_replay (values (rlog rs))).
  Proof.
    intros H. revert i rs. induction H as [|g s H IH Hadm]; intros i rs' Hi.
    - simpl in Hi. apply init_rs in Hi. subst rs'. simpl.
      split; [constructor | intros k; reflexivity].
    - assert (HR' : GR2 kv_okop (run2 g s)) by (apply greach2_step; assumption).
      pose proof (greach2_inv_s _ _ H) as Hg.
      pose proof (greach2_inv_s _ _ HR') as Hg'.
      destruct (gstep2_char _ g s i rs' Hg Hadm Hi) as [rs [Hrs [E|[Ekv [_ Hincl]]]]].
      + subst rs'. apply (IH i rs Hrs).
      + rewrite Ekv. apply (kv_reindex_step (values (rlog rs))).
        * apply (IH i rs Hrs).
        * apply (step2_values_incl g (run2 g s) i rs rs' Hg Hg' Hrs Hi Hincl).
        * intros e He. apply kv_okop_ok. apply (greach2_ops kv_okop _ HR').
          destruct (ginv_values acc n dbid _ i rs' Hg' Hi) as [S2 [_ I2]].
          apply I2. apply S2. exact He.
  Qed.

  Lemma convergence2_kv_s g a b ra rb :
    GR2 kv_okop g ->
    nth_error (greps g) a = Some ra -> nth_error (greps g) b = Some rb ->
    same_set (lents (rlog ra)) (lents (rlog rb)) ->
    forall k, alookup bytes_eqb k (rkv ra) = alookup bytes_eqb k (rkv rb).
  Proof.
    intros HR Ha Hb Hs k.
    destruct (kv_view2_s g a ra HR Ha) as [_ La].
    destruct (kv_view2_s g b rb HR Hb) as [_ Lb].
    destruct (convergence2_log_s kv_okop g a b ra rb HR Ha Hb Hs) as [Ev _].
    rewrite La, Lb, Ev. reflexivity.
  Qed.

  (** * Monotonicity *)

  Lemma step2_monotone_s okop g s i rs rs' :
    GR2 okop g -> admissible2 okop g s ->
    nth_error (greps g) i = Some rs ->
    nth_error (greps (run2 g s)) i = Some rs' ->
    incl (values (rlog rs)) (values (rlog rs')) /\
    forall x y, before x y (values (rlog rs)) -> before x y (values (rlog rs')).
  Proof.
    intros HR Hadm Hi Hi'.
    assert (HR' : GR2 okop (run2 g s)) by (apply greach2_step; assumption).
    pose proof (greach2_inv_s _ _ HR) as Hg.
    pose proof (greach2_inv_s _ _ HR') as Hg'.
    destruct (gstep2_char okop g s i rs' Hg Hadm Hi') as [rs0 [Hrs0 Hc]].
    rewrite Hi in Hrs0. inversion Hrs0. subst rs0.
    assert (Hincl : incl (lents (rlog rs)) (lents (rlog rs'))).
    { destruct Hc as [E|[_ [_ Hincl]]]; [subst rs'; intros y Hy; exact Hy | exact Hincl]. }
    pose proof (step2_values_incl g (run2 g s) i rs rs' Hg Hg' Hi Hi' Hincl) as HV.
    destruct (ginv_values acc n dbid g i rs Hg Hi) as [_ [A1 _]].
    destruct (ginv_values acc n dbid _ i rs' Hg' Hi') as [_ [A2 _]].
    split; [exact HV|].
    intros x y Hb. destruct (before_in x y _ Hb) as [Hx Hy].
    apply asc_lt_before; [exact A2 | apply HV; exact Hx | apply HV; exact Hy|].
    apply (asc_before_lt _ x y A1 Hb).
  Qed.

End Global2.

Section Doc2.
  Variable cont : bool.
  Variable acc : entry -> bool.
  Variable n : nat.
  Variable dbid : N.

  Notation GRD := (greach2 true cont acc doc_okop n dbid).
  Notation rund := (gstep2_run true cont acc).

  Lemma doc_view2_s g i rs :
    GRD g -> nth_error (greps g) i = Some rs ->
    represents (rdoc rs) (doc_replay (values (rlog rs))).
  Proof.
    intros H. revert i rs. induction H as [|g s H IH Hadm]; intros i rs' Hi.
    - simpl in Hi. apply init_rs in Hi. subst rs'. simpl.
      split; [constructor | intros k; reflexivity].
    - assert (HR' : GRD (rund g s)) by (apply greach2_step; assumption).
      pose proof (greach2_inv_s _ _ _ _ _ _ _ H) as Hg.
      pose proof (greach2_inv_s _ _ _ _ _ _ _ HR') as Hg'.
      destruct (gstep2_char true cont acc n dbid _ g s i rs' Hg Hadm Hi)
        as [rs [Hrs [E|[_ [Edoc Hincl]]]]].
      + subst rs'. apply (IH i rs Hrs).
      + rewrite Edoc. apply (doc_reindex_step (values (rlog rs))).
        * apply (IH i rs Hrs).
        * apply (step2_values_incl acc n dbid g (rund g s) i rs rs' Hg Hg' Hrs Hi Hincl).
        * intros e He. apply doc_okop_ok.
          apply (greach2_ops true cont acc n dbid doc_okop _ HR').
          destruct (ginv_values acc n dbid _ i rs' Hg' Hi) as [S2 [_ I2]].
          apply I2. apply S2. exact He.
  Qed.

  Lemma convergence2_doc_s g a b ra rb :
    GRD g ->
    nth_error (greps g) a = Some ra -> nth_error (greps g) b = Some rb ->
    same_set (lents (rlog ra)) (lents (rlog rb)) ->
    forall k, alookup bytes_eqb k (rdoc ra) = alookup bytes_eqb k (rdoc rb).
  Proof.
    intros HR Ha Hb Hs k.
    destruct (doc_view2_s g a ra HR Ha) as [_ La].
    destruct (doc_view2_s g b rb HR Hb) as [_ Lb].
    destruct (convergence2_log_s true cont acc n dbid doc_okop g a b ra rb HR Ha Hb Hs)
      as [Ev _].
    rewrite La, Lb, Ev. reflexivity.
  Qed.
End Doc2.

(** * The statements of [Spec/GlobalExt.v] *)

Lemma greach2_inv : S_greach2_inv.
Proof.
  intros marks cont acc n dbid okop g H.
  apply (greach2_inv_s marks cont acc n dbid okop g H).
Qed.

Lemma convergence2_log : S_convergence2_log.
Proof.
  intros marks cont acc n dbid okop g a b ra rb.
  apply (convergence2_log_s marks cont acc n dbid okop).
Qed.

Lemma kv_view2 : S_kv_view2.
Proof.
  intros marks cont acc n dbid g i rs.
  apply (kv_view2_s marks cont acc n dbid).
Qed.

Lemma doc_view2 : S_doc_view2.
Proof.
  intros cont acc n dbid g i rs.
  apply (doc_view2_s cont acc n dbid).
Qed.

Lemma convergence2_kv : S_convergence2_kv.
Proof.
  intros marks cont acc n dbid g a b ra rb.
  apply (convergence2_kv_s marks cont acc n dbid).
Qed.

Lemma convergence2_doc : S_convergence2_doc.
Proof.
  intros cont acc n dbid g a b ra rb.
  apply (convergence2_doc_s cont acc n dbid).
Qed.

Lemma step2_monotone : S_step2_monotone.
Proof.
  intros marks cont acc n dbid okop g s i rs rs'.
  apply (step2_monotone_s marks cont acc n dbid okop).
Qed.

Print Assumptions greach2_inv.
Print Assumptions convergence2_log.
Print Assumptions kv_view2.
Print Assumptions doc_view2.
Print Assumptions convergence2_kv.
Print Assumptions convergence2_doc.
Print Assumptions step2_monotone.

From Orbit Require Import Spec.Statements.
From Coq Require Import Permutation.

(** * Key order *)

Lemma key_lt_irrefl a : ~ key_lt a a.
Proof. unfold key_lt. intros [H|[_ H]]; lia. Qed.

Lemma key_lt_trans a b c : key_lt a b -> key_lt b c -> key_lt a c.
Proof.
  unfold key_lt. intros [H1|[H1 H1']] [H2|[H2 H2']]; try (left; lia).
  right; split; lia.
Qed.

Lemma key_ltb_spec a b : key_ltb a b = true <-> key_lt a b.
Proof.
  unfold key_ltb, key_lt.
  rewrite orb_true_iff, andb_true_iff, Z.ltb_lt, Z.eqb_eq, N.ltb_lt. tauto.
Qed.

(** * Entries, lookups *)

Lemma In_hashes h l : In h (hashes l) <-> exists e, In e l /\ eh e = h.
Proof.
  unfold hashes. rewrite in_map_iff. split; intros [e [H1 H2]]; exists e; auto.
Qed.

Lemma In_hashes_intro e l : In e l -> In (eh e) (hashes l).
Proof. intros H. apply In_hashes. exists e; auto. Qed.

Lemma has_entry_In h l : has_entry h l = true <-> In h (hashes l).
Proof.
  unfold has_entry. induction l as [|a l IH]; simpl.
  - split; [discriminate | tauto].
  - destruct (eh a =? h)%N eqn:E.
    + apply N.eqb_eq in E. split; auto.
    + apply N.eqb_neq in E. rewrite IH.
      split; [auto | intros [H|H]; [contradiction | exact H]].
Qed.

Lemma has_entry_false h l : has_entry h l = false <-> ~ In h (hashes l).
Proof.
  rewrite <- has_entry_In. destruct (has_entry h l); split; intros H; congruence.
Qed.

Lemma find_entry_none h l : ~ In h (hashes l) -> find_entry h l = None.
Proof.
  intros H. apply has_entry_false in H. unfold has_entry in H.
  destruct (find_entry h l); [discriminate | reflexivity].
Qed.

(** * oset / addN *)

Lemma oset_In x m e :
  In e (oset x m) <-> In e m \/ (e = x /\ has_entry (eh x) m = false).
Proof.
  unfold oset. destruct (has_entry (eh x) m) eqn:E.
  - split; [auto | intros [H|[_ H]]; [auto | discriminate]].
  - rewrite in_app_iff. simpl. split.
    + intros [H|[H|[]]]; auto.
    + intros [H|[H _]]; auto.
Qed.

Lemma oset_fresh x m : has_entry (eh x) m = false -> oset x m = m ++ [x].
Proof. intros H. unfold oset. rewrite H. reflexivity. Qed.

Lemma oset_nodup x m : NoDup (hashes m) -> NoDup (hashes (oset x m)).
Proof.
  intros H. unfold oset. destruct (has_entry (eh x) m) eqn:E; [exact H|].
  apply has_entry_false in E.
  unfold hashes in *. rewrite map_app. simpl.
  apply Permutation_NoDup with (l := eh x :: map eh m).
  - apply Permutation_cons_append.
  - constructor; assumption.
Qed.

Lemma addN_In c x l : In c (addN x l) <-> c = x \/ In c l.
Proof.
  unfold addN. destruct (memN x l) eqn:E.
  - apply memN_In in E. split; [auto | intros [H|H]; subst; auto].
  - rewrite in_app_iff. simpl. split.
    + intros [H|[H|[]]]; auto.
    + intros [H|H]; auto.
Qed.

Lemma addN_all_In xs : forall l c, In c (addN_all xs l) <-> In c xs \/ In c l.
Proof.
  induction xs as [|a xs IH]; intros l c; simpl.
  - tauto.
  - unfold addN_all in IH. rewrite IH, addN_In. split.
    + intros [H|[H|H]]; auto.
    + intros [[H|H]|H]; auto.
Qed.

(** * Sorting functions are permutations *)

Lemma insert_cid_perm x l : Permutation (insert_cid x l) (x :: l).
Proof.
  induction l as [|y l IH]; simpl.
  - apply Permutation_refl.
  - destruct (ecid x <? ecid y)%N.
    + apply Permutation_refl.
    + apply perm_trans with (l' := y :: x :: l).
      * apply perm_skip. exact IH.
      * apply perm_swap.
Qed.

Lemma sort_cid_perm l : Permutation (sort_cid l) l.
Proof.
  induction l as [|x l IH]; simpl.
  - apply perm_nil.
  - apply perm_trans with (l' := x :: sort_cid l).
    + apply insert_cid_perm.
    + apply perm_skip. exact IH.
Qed.

Lemma sort_cid_In h l : In h (sort_cid l) <-> In h l.
Proof.
  split; apply Permutation_in; [|apply Permutation_sym]; apply sort_cid_perm.
Qed.

Lemma insert_desc_perm x l : Permutation (insert_desc x l) (x :: l).
Proof.
  induction l as [|y l IH]; simpl.
  - apply Permutation_refl.
  - destruct (gt_lww y x).
    + apply perm_trans with (l' := y :: x :: l).
      * apply perm_skip. exact IH.
      * apply perm_swap.
    + apply Permutation_refl.
Qed.

Lemma sort_desc_perm l : Permutation (sort_desc l) l.
Proof.
  induction l as [|x l IH]; simpl.
  - apply perm_nil.
  - apply perm_trans with (l' := x :: sort_desc l).
    + apply insert_desc_perm.
    + apply perm_skip. exact IH.
Qed.

Lemma sort_desc_In h l : In h (sort_desc l) <-> In h l.
Proof.
  split; apply Permutation_in; [|apply Permutation_sym]; apply sort_desc_perm.
Qed.

Lemma NoDup_map_filter {A B} (f : A -> B) (p : A -> bool) l :
  NoDup (map f l) -> NoDup (map f (filter p l)).
Proof.
  induction l as [|a l IH]; simpl; intros H.
  - constructor.
  - inversion H as [|? ? Hn Hd]; subst.
    destruct (p a); simpl.
    + constructor.
      * intros Hin. apply Hn. apply in_map_iff in Hin.
        destruct Hin as [b [Hb1 Hb2]]. apply filter_In in Hb2.
        rewrite <- Hb1. apply in_map. tauto.
      * apply IH. exact Hd.
    + apply IH. exact Hd.
Qed.

(** * max_time *)

Lemma max_time_ge es : forall d,
  d <= max_time es d /\ (forall e, In e es -> etime e <= max_time es d).
Proof.
  unfold max_time. induction es as [|a es IH]; intros d; simpl.
  - split; [lia | tauto].
  - destruct (IH (Z.max (etime a) d)) as [H1 H2]. split.
    + lia.
    + intros e [He|He].
      * subst. lia.
      * apply H2. exact He.
Qed.

(** * find_heads / all_nexts *)

Lemma all_nexts_In c m : In c (all_nexts m) <-> exists e, In e m /\ In c (enext e).
Proof. unfold all_nexts. apply in_flat_map. Qed.

Lemma all_nexts_app a b : all_nexts (a ++ b) = all_nexts a ++ all_nexts b.
Proof. unfold all_nexts. apply flat_map_app. Qed.

Lemma find_heads_In h m :
  In h (find_heads m) <-> In h m /\ ~ In (eh h) (all_nexts m).
Proof.
  unfold find_heads. rewrite sort_cid_In, filter_In, negb_true_iff.
  rewrite <- memN_In. destruct (memN (eh h) (all_nexts m)); split; intros [H1 H2]; split; auto; congruence.
Qed.

Lemma find_heads_nodup m : NoDup (hashes m) -> NoDup (hashes (find_heads m)).
Proof.
  intros H. unfold find_heads, hashes.
  apply Permutation_NoDup with (l := map eh (filter (fun e => negb (memN (eh e) (all_nexts m))) m)).
  - apply Permutation_map. apply Permutation_sym. apply sort_cid_perm.
  - apply NoDup_map_filter. exact H.
Qed.

(** * difference *)

Lemma diff_loop_skip entsA lidB entsB : forall fuel st trav res,
  (forall h, In h st -> find_entry h entsA = None) ->
  diff_loop fuel entsA lidB entsB st trav res = res.
Proof.
  induction fuel as [|f IH]; intros st trav res H; simpl.
  - reflexivity.
  - destruct st as [|h st]; [reflexivity|].
    rewrite (H h) by (left; reflexivity).
    apply IH. intros h' Hh'. apply H. right. exact Hh'.
Qed.

Lemma push_fold_stack entsB : forall ns st tr st' tr',
  fold_left (fun '(s, t) n =>
               if negb (memN n t) && negb (has_entry n entsB)
               then (s ++ [n], addN n t) else (s, t)) ns (st, tr) = (st', tr') ->
  forall c, In c st' -> In c st \/ In c ns.
Proof.
  induction ns as [|n ns IH]; intros st tr st' tr' H c Hc; simpl in H.
  - inversion H; subst. left. exact Hc.
  - destruct (negb (memN n tr) && negb (has_entry n entsB)).
    + destruct (IH _ _ _ _ H c Hc) as [H1|H1].
      * apply in_app_iff in H1. simpl in H1. destruct H1 as [H1|[H1|[]]]; auto.
        right. left. exact H1.
      * right. right. exact H1.
    + destruct (IH _ _ _ _ H c Hc) as [H1|H1]; auto. right. right. exact H1.
Qed.

Lemma self_link_absurd U x : WF U -> In x U -> ~ In (eh x) (enext x).
Proof.
  intros HWF Hx H. apply (key_lt_irrefl x). apply (wf_link U HWF x x); assumption.
Qed.

Lemma diff_loop_single x lidB entsB f :
  ~ In (eh x) (enext x) -> elog x = lidB ->
  diff_loop (S f) [x] lidB entsB [eh x] [] [] =
  if has_entry (eh x) entsB then [] else [x].
Proof.
  intros Hself Hlog.
  cbn [diff_loop find_entry]. rewrite N.eqb_refl. rewrite Hlog, N.eqb_refl.
  destruct (has_entry (eh x) entsB) eqn:Hhas; cbn [negb andb].
  - destruct f; reflexivity.
  - destruct (fold_left _ (enext x) _) as [st' tr'] eqn:F.
    change (oset x []) with [x].
    apply diff_loop_skip. intros h Hh.
    destruct (push_fold_stack _ _ _ _ _ _ F h Hh) as [H1|H1]; [destruct H1|].
    simpl. destruct (eh x =? h)%N eqn:E; [|reflexivity].
    apply N.eqb_eq in E. subst h. contradiction.
Qed.

Lemma diff_single x b :
  ~ In (eh x) (enext x) -> elog x = lid b ->
  difference [x] [x] b = if has_entry (eh x) (lents b) then [] else [x].
Proof.
  intros Hself Hlog. unfold difference.
  replace (length [x] + length (all_nexts [x]) + 1)%nat
    with (S (S (length (all_nexts [x])))) by (simpl; lia).
  change (hashes [x]) with [eh x].
  apply diff_loop_single; assumption.
Qed.

(** * log_of_entries of a single entry *)

Lemma loe_ents id x : lents (log_of_entries id [x]) = [x].
Proof. reflexivity. Qed.

Lemma loe_heads id x : ~ In (eh x) (enext x) -> lheads (log_of_entries id [x]) = [x].
Proof.
  intros Hself. unfold log_of_entries. cbn [lheads].
  change (oset_all [x] []) with [x].
  unfold find_heads. cbn [filter all_nexts flat_map]. rewrite app_nil_r.
  destruct (memN (eh x) (enext x)) eqn:E.
  - apply memN_In in E. contradiction.
  - reflexivity.
Qed.

(** * join with unbounded size *)

Lemma join_unbounded l other acc :
  lid other = lid l ->
  join l other (-1) acc =
  let new := difference (lents other) (lheads other) l in
  if negb (forallb acc new) then Err EDenied else
  let next' := addN_all (flat_map enext new) (lnext l) in
  let heads' := filter (fun e => negb (memN (eh e) (flat_map enext new)) && negb (memN (eh e) next'))
                       (find_heads (oset_all (lheads other) (lheads l))) in
  Ok (mkLog (lid l) (oset_all new (lents l)) heads' next'
            (Z.max (lclock l) (max_time heads' 0))).
Proof.
  intros E. unfold join. rewrite E, N.eqb_refl. reflexivity.
Qed.

(** heads of the joined log, characterised on sets *)
Lemma join_heads U l x ents' next' nn :
  WF U -> log_ok U l -> In x U ->
  (forall e, In e ents' <-> In e (lents l) \/ e = x) ->
  (forall c, In c next' <-> In c (all_nexts ents')) ->
  (forall c, In c nn -> In c next') ->
  forall h,
    In h (filter (fun e => negb (memN (eh e) nn) && negb (memN (eh e) next'))
                 (find_heads (oset_all [x] (lheads l))))
    <-> In h ents' /\ ~ In (eh h) (all_nexts ents').
Proof.
  intros HWF Hok HxU Hents Hnext Hnn h.
  change (oset_all [x] (lheads l)) with (oset x (lheads l)).
  set (m := oset x (lheads l)).
  assert (HA : forall e, In e m -> In e (lents l) \/ e = x).
  { intros e He. apply oset_In in He. destruct He as [He|[He _]]; [|auto].
    left. apply (ok_heads U l Hok) in He. tauto. }
  assert (HB : forall e, In e (lheads l) -> In e m).
  { intros e He. apply oset_In. auto. }
  assert (HC : In x m).
  { apply oset_In. destruct (has_entry (eh x) (lheads l)) eqn:Hh; [|auto].
    left. apply has_entry_In in Hh. apply In_hashes in Hh.
    destruct Hh as [y [Hy1 Hy2]].
    assert (y = x).
    { apply (wf_hash U HWF); auto.
      apply (ok_incl U l Hok). apply (ok_heads U l Hok) in Hy1. tauto. }
    subst y. exact Hy1. }
  assert (HD : forall c, In c (all_nexts m) -> In c (all_nexts ents')).
  { intros c Hc. apply all_nexts_In in Hc. destruct Hc as [e [He1 He2]].
    apply all_nexts_In. exists e. split; [|exact He2].
    apply Hents. apply HA. exact He1. }
  assert (HE : forall c, In c (all_nexts (lents l)) -> In c (all_nexts ents')).
  { intros c Hc. apply all_nexts_In in Hc. destruct Hc as [e [He1 He2]].
    apply all_nexts_In. exists e. split; [|exact He2].
    apply Hents. left. exact He1. }
  rewrite filter_In, find_heads_In, andb_true_iff, !negb_true_iff.
  split.
  - intros [[Hm Hnm] [Hc1 Hc2]]. split.
    + apply Hents. apply HA. exact Hm.
    + intros Hin. apply Hnext in Hin. apply memN_In in Hin. congruence.
  - intros [Hin Hnin]. split; [split|split].
    + apply Hents in Hin. destruct Hin as [Hin|Hin].
      * apply HB. apply (ok_heads U l Hok). split; [exact Hin|].
        intros Hc. apply Hnin. apply HE. exact Hc.
      * subst h. exact HC.
    + intros Hc. apply Hnin. apply HD. exact Hc.
    + destruct (memN (eh h) nn) eqn:M; [|reflexivity].
      apply memN_In in M. exfalso. apply Hnin. apply Hnext. apply Hnn. exact M.
    + destruct (memN (eh h) next') eqn:M; [|reflexivity].
      apply memN_In in M. exfalso. apply Hnin. apply Hnext. exact M.
Qed.

Lemma join_heads_nodup U l x p :
  log_ok U l ->
  NoDup (hashes (filter p (find_heads (oset_all [x] (lheads l))))).
Proof.
  intros Hok. unfold hashes. apply NoDup_map_filter.
  apply find_heads_nodup.
  change (oset_all [x] (lheads l)) with (oset x (lheads l)).
  apply oset_nodup. apply (ok_hnodup U l Hok).
Qed.

Lemma join_single_spec : S_join_single_spec.
Proof.
  intros U l x acc HWF Hok HxU Hlog.
  assert (Hself : ~ In (eh x) (enext x)) by (apply (self_link_absurd U); assumption).
  rewrite join_unbounded by reflexivity.
  rewrite loe_ents, (loe_heads _ _ Hself).
  rewrite (diff_single x l Hself Hlog).
  cbv zeta.
  destruct (has_entry (eh x) (lents l)) eqn:Hhas.
  - (* x already present *)
    cbn [forallb negb flat_map].
    change (addN_all [] (lnext l)) with (lnext l).
    change (oset_all [] (lents l)) with (lents l).
    assert (HxL : In x (lents l)).
    { apply has_entry_In in Hhas. apply In_hashes in Hhas.
      destruct Hhas as [y [Hy1 Hy2]].
      assert (y = x) by (apply (wf_hash U HWF); auto; apply (ok_incl U l Hok); exact Hy1).
      subst y. exact Hy1. }
    split; [|split; [reflexivity | left; split; reflexivity]].
    constructor; cbn [lents lheads lnext lclock lid].
    + apply (ok_incl U l Hok).
    + apply (ok_nodup U l Hok).
    + apply (ok_logid U l Hok).
    + apply (join_heads U l x (lents l) (lnext l) []); auto.
      * intros e. split; [auto | intros [H|H]; [exact H | subst; exact HxL]].
      * apply (ok_next U l Hok).
      * intros c [].
    + apply (join_heads_nodup U). exact Hok.
    + apply (ok_next U l Hok).
    + intros e He. apply (ok_clock U l Hok) in He. lia.
  - (* x is new *)
    cbn [forallb]. rewrite andb_true_r.
    destruct (acc x) eqn:Hacc; cbn [negb]; [|split; reflexivity].
    cbn [flat_map]. rewrite app_nil_r.
    change (oset_all [x] (lents l)) with (oset x (lents l)).
    rewrite (oset_fresh x (lents l) Hhas).
    assert (Hents : forall e, In e (lents l ++ [x]) <-> In e (lents l) \/ e = x).
    { intros e. rewrite in_app_iff. simpl. split.
      - intros [H|[H|[]]]; auto.
      - intros [H|H]; auto. }
    assert (Hnext : forall c, In c (addN_all (enext x) (lnext l)) <->
                              In c (all_nexts (lents l ++ [x]))).
    { intros c. rewrite addN_all_In, all_nexts_app, in_app_iff.
      unfold all_nexts at 2. cbn [flat_map]. rewrite app_nil_r.
      rewrite (ok_next U l Hok). tauto. }
    assert (Hheads := join_heads U l x (lents l ++ [x]) (addN_all (enext x) (lnext l)) (enext x)
                        HWF Hok HxU Hents Hnext
                        (fun c Hc => proj2 (addN_all_In (enext x) (lnext l) c) (or_introl Hc))).
    split; [|split; [reflexivity | right; split; [reflexivity | split; reflexivity]]].
    constructor; cbn [lents lheads lnext lclock lid].
    + intros e He. apply Hents in He. destruct He as [He|He].
      * apply (ok_incl U l Hok). exact He.
      * subst e. exact HxU.
    + rewrite <- (oset_fresh x (lents l) Hhas). apply oset_nodup. apply (ok_nodup U l Hok).
    + intros e He. apply Hents in He. destruct He as [He|He].
      * apply (ok_logid U l Hok). exact He.
      * subst e. exact Hlog.
    + exact Hheads.
    + apply (join_heads_nodup U). exact Hok.
    + exact Hnext.
    + intros e He.
      set (hs := filter _ _) in *.
      destruct (max_time_ge hs 0) as [_ Hmax].
      apply Hents in He. destruct He as [He|He].
      * apply (ok_clock U l Hok) in He. lia.
      * subst e.
        destruct (memN (eh x) (all_nexts (lents l ++ [x]))) eqn:M.
        -- apply memN_In in M. apply all_nexts_In in M.
           destruct M as [y [Hy1 Hy2]].
           apply Hents in Hy1. destruct Hy1 as [Hy1|Hy1]; [|subst y; contradiction].
           assert (Hlt : key_lt x y).
           { apply (wf_link U HWF); auto. apply (ok_incl U l Hok). exact Hy1. }
           apply (ok_clock U l Hok) in Hy1. unfold key_lt in Hlt. lia.
        -- assert (Hx : In x hs).
           { apply Hheads. split.
             - apply Hents. auto.
             - intros Hin. apply memN_In in Hin. congruence. }
           apply Hmax in Hx. lia.
Qed.

(** * append *)

Lemma append_denied : S_append_denied.
Proof.
  intros l h w o refs acc e1 l1 Happ Hacc.
  unfold append in Happ. cbv zeta in Happ. rewrite Hacc in Happ.
  inversion Happ; subst. cbn. auto.
Qed.

Lemma append_ok : S_append_ok.
Proof.
  intros U l h w o refs acc e l' HWF Hok Hfresh Hw Happ.
  unfold append in Happ. cbv zeta in Happ.
  destruct (acc _) eqn:Hacc in Happ; cbn [fst] in Happ; [|discriminate].
  inversion Happ as [[He Hl']]. clear Happ. subst e l'.
  set (t := Z.max (lclock l) (max_time (heads_sorted l) 0) + 1) in *.
  set (nx := rev (hashes (heads_sorted l))) in *.
  set (e0 := mkEntry h (lid l) t w nx refs w w w o) in *.
  assert (Ht : lclock l < t) by (unfold t; lia).
  assert (Hnx : forall c, In c nx <-> In c (hashes (lheads l))).
  { intros c. unfold nx, heads_sorted. rewrite <- in_rev. unfold hashes.
    split; apply Permutation_in; apply Permutation_map;
      [|apply Permutation_sym]; apply sort_desc_perm. }
  assert (HnxU : forall c, In c nx ->
             exists y, In y (lheads l) /\ In y U /\ eh y = c /\ etime y <= lclock l).
  { intros c Hc. apply Hnx in Hc. apply In_hashes in Hc. destruct Hc as [y [Hy1 Hy2]].
    exists y. assert (HyL : In y (lents l)) by (apply (ok_heads U l Hok) in Hy1; tauto).
    split; [exact Hy1|]. split; [apply (ok_incl U l Hok); exact HyL|].
    split; [exact Hy2|]. apply (ok_clock U l Hok). exact HyL. }
  assert (Hhas : has_entry h (lents l) = false).
  { apply has_entry_false. intros Hin. apply Hfresh. apply In_hashes in Hin.
    destruct Hin as [y [Hy1 Hy2]]. apply In_hashes. exists y. split; [|exact Hy2].
    apply (ok_incl U l Hok). exact Hy1. }
  assert (HinU : forall a, In a (U ++ [e0]) <-> In a U \/ a = e0).
  { intros a. rewrite in_app_iff. simpl. split.
    - intros [H|[H|[]]]; auto.
    - intros [H|H]; auto. }
  assert (HnxFresh : ~ In h nx).
  { intros Hin. apply HnxU in Hin. destruct Hin as [y [_ [Hy2 [Hy3 _]]]].
    apply Hfresh. rewrite <- Hy3. apply In_hashes_intro. exact Hy2. }
  assert (HoldFresh : forall y, In y U -> ~ In h (enext y)).
  { intros y Hy Hin. apply Hfresh. apply (wf_closed U HWF y); assumption. }
  replace (oset e0 (lents l)) with (lents l ++ [e0])
    by (symmetry; apply oset_fresh; exact Hhas).
  assert (HentsIn : forall a, In a (lents l ++ [e0]) <-> In a (lents l) \/ a = e0).
  { intros a. rewrite in_app_iff. simpl. split.
    - intros [H|[H|[]]]; auto.
    - intros [H|H]; auto. }
  assert (Hkey : forall x, In x (lents l) -> key_lt x e0).
  { intros x Hx. apply (ok_clock U l Hok) in Hx. unfold key_lt. left.
    change (etime e0) with t. lia. }
  split; [|split].
  - (* WF *)
    constructor.
    + intros a b Ha Hb Hab. apply HinU in Ha. apply HinU in Hb.
      destruct Ha as [Ha|Ha]; destruct Hb as [Hb|Hb].
      * apply (wf_hash U HWF); assumption.
      * subst b. exfalso. apply Hfresh. change (eh e0) with h in Hab.
        rewrite <- Hab. apply In_hashes_intro. exact Ha.
      * subst a. exfalso. apply Hfresh. change (eh e0) with h in Hab.
        rewrite Hab. apply In_hashes_intro. exact Hb.
      * subst. reflexivity.
    + intros a b Ha Hb Hab1 Hab2. apply HinU in Ha. apply HinU in Hb.
      destruct Ha as [Ha|Ha]; destruct Hb as [Hb|Hb].
      * apply (wf_key U HWF); assumption.
      * subst b. exfalso. change (etime e0) with t in Hab1. change (ecid e0) with w in Hab2.
        assert (etime a <= lclock l) by (apply Hw; assumption). lia.
      * subst a. exfalso. change (etime e0) with t in Hab1. change (ecid e0) with w in Hab2.
        assert (etime b <= lclock l) by (apply Hw; [assumption | symmetry; assumption]). lia.
      * subst. reflexivity.
    + intros e1 n He1 Hn Hlink. apply HinU in He1. apply HinU in Hn.
      destruct He1 as [He1|He1]; destruct Hn as [Hn|Hn].
      * apply (wf_link U HWF); assumption.
      * subst n. exfalso. apply (HoldFresh e1 He1). exact Hlink.
      * subst e1. change (enext e0) with nx in Hlink. apply HnxU in Hlink.
        destruct Hlink as [y [_ [Hy2 [Hy3 Hy4]]]].
        assert (y = n) by (apply (wf_hash U HWF); assumption). subst y.
        unfold key_lt. left. change (etime e0) with t. lia.
      * subst e1 n. exfalso. apply HnxFresh. exact Hlink.
    + intros e1 c He1 Hc. apply HinU in He1. unfold hashes. rewrite map_app, in_app_iff. left.
      destruct He1 as [He1|He1].
      * apply (wf_closed U HWF e1); assumption.
      * subst e1. change (enext e0) with nx in Hc. apply HnxU in Hc.
        destruct Hc as [y [_ [Hy2 [Hy3 _]]]]. rewrite <- Hy3.
        apply (In_hashes_intro y U). exact Hy2.
  - (* log_ok *)
    constructor; cbn [lents lheads lnext lclock lid].
    + intros a Ha. apply HentsIn in Ha. apply HinU. destruct Ha as [Ha|Ha]; [left|right; exact Ha].
      apply (ok_incl U l Hok). exact Ha.
    + rewrite <- (oset_fresh e0 (lents l) Hhas). apply oset_nodup. apply (ok_nodup U l Hok).
    + intros a Ha. apply HentsIn in Ha. destruct Ha as [Ha|Ha].
      * apply (ok_logid U l Hok). exact Ha.
      * subst a. reflexivity.
    + intros a. rewrite HentsIn, all_nexts_app, in_app_iff.
      unfold all_nexts at 2. cbn [flat_map]. rewrite app_nil_r.
      change (enext e0) with nx. split.
      * intros [Ha|[]]. subst a. split; [right; reflexivity|].
        change (eh e0) with h. intros [Hin|Hin].
        -- apply all_nexts_In in Hin. destruct Hin as [y [Hy1 Hy2]].
           apply (HoldFresh y); [apply (ok_incl U l Hok); exact Hy1 | exact Hy2].
        -- apply HnxFresh. exact Hin.
      * intros [[Ha|Ha] Hnin]; [|left; symmetry; exact Ha].
        exfalso. apply Hnin. right. apply Hnx. apply In_hashes_intro.
        apply (ok_heads U l Hok). split; [exact Ha|]. intros Hc. apply Hnin. left. exact Hc.
    + simpl. constructor; [intros [] | constructor].
    + intros c. rewrite addN_all_In, all_nexts_app, in_app_iff.
      unfold all_nexts at 2. cbn [flat_map]. rewrite app_nil_r.
      change (enext e0) with nx. rewrite (ok_next U l Hok). tauto.
    + intros a Ha. apply HentsIn in Ha. destruct Ha as [Ha|Ha].
      * apply (ok_clock U l Hok) in Ha. lia.
      * subst a. change (etime e0) with t. lia.
  - cbn [lents lheads lnext lclock lid].
    repeat split; try reflexivity.
    + exact Hacc.
    + exact Hkey.
Qed.

(** * every entry is reachable from the heads *)

Lemma filter_length_le {A} (p q : A -> bool) l :
  (forall x, In x l -> p x = true -> q x = true) ->
  (length (filter p l) <= length (filter q l))%nat.
Proof.
  induction l as [|a l IH]; intros H; simpl.
  - lia.
  - assert (IH' : (length (filter p l) <= length (filter q l))%nat).
    { apply IH. intros x Hx. apply H. right. exact Hx. }
    destruct (p a) eqn:Pa.
    + rewrite (H a (or_introl eq_refl) Pa). simpl. lia.
    + destruct (q a); simpl; lia.
Qed.

Lemma filter_length_lt {A} (p q : A -> bool) l z :
  (forall x, In x l -> p x = true -> q x = true) ->
  In z l -> p z = false -> q z = true ->
  (length (filter p l) < length (filter q l))%nat.
Proof.
  induction l as [|a l IH]; intros H Hz Pz Qz; simpl.
  - destruct Hz.
  - assert (Hle : (length (filter p l) <= length (filter q l))%nat).
    { apply filter_length_le. intros x Hx. apply H. right. exact Hx. }
    destruct Hz as [Hz|Hz].
    + subst a. rewrite Pz, Qz. simpl. lia.
    + assert (IH' : (length (filter p l) < length (filter q l))%nat).
      { apply IH; auto. intros x Hx. apply H. right. exact Hx. }
      destruct (p a) eqn:Pa.
      * rewrite (H a (or_introl eq_refl) Pa). simpl. lia.
      * destruct (q a); simpl; lia.
Qed.

Lemma all_reachable : S_all_reachable.
Proof.
  intros U l HWF Hok.
  assert (G : forall n e, (length (filter (key_ltb e) (lents l)) < n)%nat ->
                          In e (lents l) -> reach (lents l) (lheads l) e).
  { induction n as [|n IH]; intros e Hn He; [lia|].
    destruct (memN (eh e) (all_nexts (lents l))) eqn:M.
    - apply memN_In in M. apply all_nexts_In in M. destruct M as [y [Hy Hc]].
      assert (Hlt : key_lt e y).
      { apply (wf_link U HWF); auto; apply (ok_incl U l Hok); assumption. }
      apply reach_next with (e := y); [|exact Hc|exact He].
      apply IH; [|exact Hy].
      assert ((length (filter (key_ltb y) (lents l)) < length (filter (key_ltb e) (lents l)))%nat).
      { apply filter_length_lt with (z := y).
        - intros x _ Hx. apply key_ltb_spec. apply key_ltb_spec in Hx.
          apply key_lt_trans with (b := y); assumption.
        - exact Hy.
        - destruct (key_ltb y y) eqn:K; [|reflexivity].
          apply key_ltb_spec in K. exfalso. apply (key_lt_irrefl y). exact K.
        - apply key_ltb_spec. exact Hlt. }
      lia.
    - apply reach_root. apply (ok_heads U l Hok). split; [exact He|].
      intros H. apply memN_In in H. congruence. }
  intros e He. apply (G (S (length (filter (key_ltb e) (lents l))))); [lia | exact He].
Qed.

Print Assumptions append_ok.
Print Assumptions append_denied.
Print Assumptions join_single_spec.
Print Assumptions all_reachable.

(** Proofs of the window-query statements (C08): [S_query_window], [S_get_entry]. *)
From Orbit Require Import Spec.Statements.
Require Import List ZArith Lia Arith.
Import ListNotations.

Local Open Scope nat_scope.

(** * [split_at] *)

Lemma split_at_spec :
  forall (h : N) (L pre : list entry) (x : entry) (post : list entry),
    split_at h L = Some (pre, x, post) ->
    L = pre ++ x :: post /\ eh x = h /\ ~ In h (hashes pre).
Proof.
  intros h L.
  induction L as [|e L' IH]; intros pre x post Hs; simpl in Hs.
  - discriminate Hs.
  - destruct (N.eqb (eh e) h) eqn:Heq.
    + inversion Hs; subst pre x post.
      apply N.eqb_eq in Heq.
      split; [reflexivity|]. split; [exact Heq|]. simpl. intros Hin; exact Hin.
    + destruct (split_at h L') as [[[pre' x'] post']|] eqn:Hs'; [|discriminate Hs].
      inversion Hs; subst pre x post.
      destruct (IH pre' x' post' eq_refl) as [HL [Hx Hnin]].
      apply N.eqb_neq in Heq.
      split; [simpl; rewrite HL; reflexivity|].
      split; [exact Hx|].
      simpl. intros [Hin|Hin]; [apply Heq; exact Hin|apply Hnin; exact Hin].
Qed.

Lemma split_at_complete :
  forall (h : N) (pre : list entry) (x : entry) (post : list entry),
    ~ In h (hashes pre) -> eh x = h ->
    split_at h (pre ++ x :: post) = Some (pre, x, post).
Proof.
  intros h pre.
  induction pre as [|e pre' IH]; intros x post Hnin Hx; simpl.
  - apply N.eqb_eq in Hx. rewrite Hx. reflexivity.
  - simpl in Hnin.
    assert (Hne : eh e <> h) by (intros Heq; apply Hnin; left; exact Heq).
    apply N.eqb_neq in Hne. rewrite Hne.
    rewrite (IH x post); [reflexivity| |exact Hx].
    intros Hin; apply Hnin; right; exact Hin.
Qed.

(** * [index_of] *)

Lemma index_of_app :
  forall (h : N) (pre : list entry) (x : entry) (post : list entry) (i : nat),
    ~ In h (hashes pre) -> eh x = h ->
    index_of h (pre ++ x :: post) i = Some (i + length pre).
Proof.
  intros h pre.
  induction pre as [|e pre' IH]; intros x post i Hnin Hx; simpl.
  - apply N.eqb_eq in Hx. rewrite Hx. f_equal. lia.
  - simpl in Hnin.
    assert (Hne : eh e <> h) by (intros Heq; apply Hnin; left; exact Heq).
    apply N.eqb_neq in Hne. rewrite Hne.
    rewrite (IH x post (S i)); [f_equal; lia| |exact Hx].
    intros Hin; apply Hnin; right; exact Hin.
Qed.

(** * [take_amount], [evlog_amount] *)

Lemma take_amount_firstn :
  forall (A : Type) (fuel : nat) (l : list A) (n : nat),
    length l <= fuel -> take_amount l (Z.of_nat n) fuel = firstn n l.
Proof.
  intros A fuel.
  induction fuel as [|f IH]; intros l n Hlen.
  - destruct l as [|y l']; [|simpl in Hlen; lia].
    simpl. destruct n; reflexivity.
  - destruct l as [|y l'].
    + simpl. destruct n; reflexivity.
    + simpl in Hlen.
      destruct n as [|m].
      * reflexivity.
      * cbn [take_amount firstn].
        assert (Hnz : (Z.of_nat (S m) =? 0)%Z = false) by (apply Z.eqb_neq; lia).
        rewrite Hnz.
        replace (Z.of_nat (S m) - 1)%Z with (Z.of_nat m) by lia.
        rewrite (IH l' m); [reflexivity|lia].
Qed.

Lemma evlog_amount_window_amount :
  forall (a : option Z) (len : nat),
    evlog_amount a len = Z.of_nat (window_amount a len).
Proof.
  intros a len. unfold evlog_amount, window_amount.
  destruct a as [x|]; [|reflexivity].
  destruct (Z.eqb_spec x 0) as [Hx0|Hx0]; [reflexivity|].
  destruct (Z.ltb_spec (-1) x) as [Hlt|Hge];
    destruct (Z.ltb_spec x 0) as [Hneg|Hpos]; lia.
Qed.

(** * list facts *)

Lemma skipn_length_app :
  forall (A : Type) (a b : list A), skipn (length a) (a ++ b) = b.
Proof.
  intros A a b. induction a as [|y a' IH]; simpl; [reflexivity|exact IH].
Qed.

Lemma skipn_S_length_app :
  forall (A : Type) (a : list A) (x : A) (b : list A),
    skipn (S (length a)) (a ++ x :: b) = b.
Proof.
  intros A a x b. induction a as [|y a' IH]; [reflexivity|].
  change (skipn (S (length a')) (a' ++ x :: b) = b). exact IH.
Qed.

Lemma rev_firstn_rev_lastn :
  forall (A : Type) (n : nat) (l : list A), rev (firstn n (rev l)) = lastn n l.
Proof.
  intros A n l. unfold lastn. rewrite firstn_rev. apply rev_involutive.
Qed.

Lemma rev_split :
  forall (A : Type) (pre : list A) (x : A) (post : list A),
    rev (pre ++ x :: post) = rev post ++ x :: rev pre.
Proof.
  intros A pre x post. rewrite rev_app_distr. simpl. rewrite <- app_assoc. reflexivity.
Qed.

Lemma hashes_app :
  forall a b : list entry, hashes (a ++ b) = hashes a ++ hashes b.
Proof. intros a b. unfold hashes. apply map_app. Qed.

Lemma NoDup_split_post :
  forall (pre : list entry) (x : entry) (post : list entry),
    NoDup (hashes (pre ++ x :: post)) -> ~ In (eh x) (hashes post).
Proof.
  intros pre x post Hnd.
  rewrite hashes_app in Hnd. simpl in Hnd.
  apply NoDup_remove_2 in Hnd.
  intros Hin. apply Hnd. apply in_or_app. right. exact Hin.
Qed.

Lemma skipn_length_le :
  forall (A : Type) (n : nat) (l : list A), length (skipn n l) <= length l.
Proof. intros A n l. rewrite skipn_length. lia. Qed.

(** * [evlog_read] on a split listing *)

Lemma evlog_read_split :
  forall (pre : list entry) (x : entry) (post : list entry) (n : nat) (incl : bool),
    ~ In (eh x) (hashes pre) ->
    evlog_read (pre ++ x :: post) (Some (eh x)) (Z.of_nat n) incl =
    firstn n (if incl then x :: post else post).
Proof.
  intros pre x post n incl Hnin.
  unfold evlog_read.
  rewrite (index_of_app (eh x) pre x post 0 Hnin eq_refl).
  simpl (0 + length pre).
  rewrite take_amount_firstn by apply skipn_length_le.
  destruct incl.
  - rewrite skipn_length_app. reflexivity.
  - rewrite skipn_S_length_app. reflexivity.
Qed.

Lemma evlog_read_none :
  forall (ops : list entry) (n : nat),
    evlog_read ops None (Z.of_nat n) true = firstn n ops.
Proof.
  intros ops n. unfold evlog_read. simpl skipn.
  apply take_amount_firstn. lia.
Qed.

(** * The statements *)

Lemma query_window : S_query_window.
Proof.
  unfold S_query_window.
  intros L b a w Hnd Hw.
  unfold evlog_query.
  rewrite evlog_amount_window_amount.
  unfold window in Hw.
  set (n := window_amount a (length L)) in *.
  destruct b as [|h|h|h|h].
  - (* BNone *)
    inversion Hw; subst w.
    rewrite evlog_read_none. apply rev_firstn_rev_lastn.
  - (* BGt *)
    destruct (split_at h L) as [[[pre x] post]|] eqn:Hs; [|discriminate Hw].
    inversion Hw; subst w.
    destruct (split_at_spec h L pre x post Hs) as [HL [Hx Hnin]].
    subst L h.
    rewrite (evlog_read_split pre x post n false Hnin). reflexivity.
  - (* BGte *)
    destruct (split_at h L) as [[[pre x] post]|] eqn:Hs; [|discriminate Hw].
    inversion Hw; subst w.
    destruct (split_at_spec h L pre x post Hs) as [HL [Hx Hnin]].
    subst L h.
    rewrite (evlog_read_split pre x post n true Hnin). reflexivity.
  - (* BLt *)
    destruct (split_at h L) as [[[pre x] post]|] eqn:Hs; [|discriminate Hw].
    inversion Hw; subst w.
    destruct (split_at_spec h L pre x post Hs) as [HL [Hx Hnin]].
    subst L h.
    assert (Hpost : ~ In (eh x) (hashes (rev post))).
    { intros Hin. apply (NoDup_split_post pre x post Hnd).
      unfold hashes in *. rewrite map_rev in Hin. apply in_rev in Hin. exact Hin. }
    rewrite rev_split.
    rewrite (evlog_read_split (rev post) x (rev pre) n false Hpost).
    apply rev_firstn_rev_lastn.
  - (* BLte *)
    destruct (split_at h L) as [[[pre x] post]|] eqn:Hs; [|discriminate Hw].
    inversion Hw; subst w.
    destruct (split_at_spec h L pre x post Hs) as [HL [Hx Hnin]].
    subst L h.
    assert (Hpost : ~ In (eh x) (hashes (rev post))).
    { intros Hin. apply (NoDup_split_post pre x post Hnd).
      unfold hashes in *. rewrite map_rev in Hin. apply in_rev in Hin. exact Hin. }
    rewrite rev_split.
    rewrite (evlog_read_split (rev post) x (rev pre) n true Hpost).
    replace (x :: rev pre) with (rev (pre ++ [x]))
      by (rewrite rev_app_distr; reflexivity).
    apply rev_firstn_rev_lastn.
Qed.

Lemma get_entry : S_get_entry.
Proof.
  unfold S_get_entry.
  intros L x Hnd Hin.
  apply query_window; [exact Hnd|].
  destruct (in_split x L Hin) as [pre [post HL]].
  subst L.
  assert (Hnin : ~ In (eh x) (hashes pre)).
  { rewrite hashes_app in Hnd. simpl in Hnd.
    apply NoDup_remove_2 in Hnd.
    intros Hp. apply Hnd. apply in_or_app. left. exact Hp. }
  unfold window.
  rewrite (split_at_complete (eh x) pre x post Hnin eq_refl).
  reflexivity.
Qed.

Print Assumptions query_window.
Print Assumptions get_entry.

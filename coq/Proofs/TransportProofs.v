From Orbit Require Import Spec.Statements.

(** Proofs for the transport adapters (C20). *)

(** ** peers_diff *)

Lemma negb_memN_true p l : negb (memN p l) = true <-> ~ In p l.
Proof.
  rewrite negb_true_iff. split.
  - intros E H. apply memN_In in H. congruence.
  - intros H. destruct (memN p l) eqn:E; [|reflexivity].
    apply memN_In in E. contradiction.
Qed.

Lemma peers_diff_exact : S_peers_diff_exact.
Proof.
  unfold S_peers_diff_exact, peers_diff. intros old new Ho Hn.
  split; [apply NoDup_filter; exact Hn|].
  split; [apply NoDup_filter; exact Ho|].
  split; intros p; rewrite filter_In, negb_memN_true; reflexivity.
Qed.

(** ** watch *)

Lemma fold_join :
  forall js m p,
    In p (fold_left apply_event (map PJoin js) m) <-> In p m \/ In p js.
Proof.
  induction js as [|a js IH]; intros m p; simpl.
  - tauto.
  - rewrite IH. destruct (memN a m) eqn:E.
    + apply memN_In in E. split.
      * intros [H|H]; [left; exact H | right; right; exact H].
      * intros [H|[H|H]]; [left; exact H | subst a; left; exact E | right; exact H].
    + rewrite in_app_iff. simpl. tauto.
Qed.

Lemma fold_leave :
  forall ls m p,
    In p (fold_left apply_event (map PLeave ls) m) <-> In p m /\ ~ In p ls.
Proof.
  induction ls as [|a ls IH]; intros m p; simpl.
  - tauto.
  - rewrite IH, filter_In, negb_true_iff, N.eqb_neq. split.
    + intros [[H1 H2] H3]. split; [exact H1|]. intros [H|H]; [congruence | contradiction].
    + intros [H1 H2]. split; [split; [exact H1|] |].
      * intros H. apply H2. left. symmetry. exact H.
      * intros H. apply H2. right. exact H.
Qed.

Lemma poll_events_eq old new :
  poll_events old new =
  map PJoin (filter (fun p => negb (memN p old)) new) ++
  map PLeave (filter (fun p => negb (memN p new)) old).
Proof. reflexivity. Qed.

Lemma In_dec_N (p : N) l : In p l \/ ~ In p l.
Proof.
  destruct (memN p l) eqn:E.
  - left. apply memN_In. exact E.
  - right. intros H. apply memN_In in H. congruence.
Qed.

Lemma poll_replay :
  forall old new m,
    (forall p, In p m <-> In p old) ->
    forall p, In p (fold_left apply_event (poll_events old new) m) <-> In p new.
Proof.
  intros old new m Hm p.
  rewrite poll_events_eq, fold_left_app, fold_leave, fold_join.
  rewrite !filter_In, !negb_memN_true, Hm.
  destruct (In_dec_N p old) as [Ho|Ho]; destruct (In_dec_N p new) as [Hn|Hn]; tauto.
Qed.

Lemma last_cons_default {A} : forall (rest : list A) s d, last (s :: rest) d = last rest s.
Proof.
  induction rest as [|a rest IH]; intros s d.
  - reflexivity.
  - change (last (a :: rest) d = last (a :: rest) s).
    rewrite (IH a d), (IH a s). reflexivity.
Qed.

Lemma watch_gen :
  forall snaps old m,
    (forall p, In p m <-> In p old) ->
    forall p, In p (fold_left apply_event (watch old snaps) m) <-> In p (last snaps old).
Proof.
  induction snaps as [|s rest IH]; intros old m Hm p.
  - simpl. apply Hm.
  - rewrite last_cons_default. simpl watch. rewrite fold_left_app.
    apply IH. intros q. apply poll_replay. exact Hm.
Qed.

Lemma watch_tracks_membership : S_watch_tracks_membership.
Proof.
  unfold S_watch_tracks_membership. intros snaps _ p.
  apply watch_gen. intros q. tauto.
Qed.

Lemma filter_none {A} (f : A -> bool) l :
  (forall x, In x l -> f x = false) -> filter f l = [].
Proof.
  induction l as [|a l IH]; intros H; simpl.
  - reflexivity.
  - rewrite (H a (or_introl eq_refl)). apply IH. intros x Hx. apply H. right. exact Hx.
Qed.

Lemma watch_no_spurious : S_watch_no_spurious.
Proof.
  unfold S_watch_no_spurious. intros old new Heq.
  rewrite poll_events_eq.
  rewrite (filter_none (fun p => negb (memN p old)) new).
  - rewrite (filter_none (fun p => negb (memN p new)) old).
    + reflexivity.
    + intros x Hx. apply negb_false_iff. apply memN_In. apply Heq. exact Hx.
  - intros x Hx. apply negb_false_iff. apply memN_In. apply Heq. exact Hx.
Qed.

(** ** forward *)

Lemma filter_idem {A} (f : A -> bool) l : filter f (filter f l) = filter f l.
Proof.
  induction l as [|a l IH]; simpl.
  - reflexivity.
  - destruct (f a) eqn:E; simpl.
    + rewrite E, IH. reflexivity.
    + exact IH.
Qed.

Lemma filter_all {A} (f : A -> bool) l :
  (forall x, In x l -> f x = true) -> filter f l = l.
Proof.
  induction l as [|a l IH]; intros H; simpl.
  - reflexivity.
  - rewrite (H a (or_introl eq_refl)). f_equal. apply IH.
    intros x Hx. apply H. right. exact Hx.
Qed.

Lemma forward_spec : S_forward_spec.
Proof.
  unfold S_forward_spec, forward. intros self msgs.
  split; [|split; [|split]].
  - intros m Hm. apply filter_In in Hm as [_ Hm].
    apply negb_true_iff, N.eqb_neq in Hm. exact Hm.
  - apply filter_idem.
  - intros m Hm Hne. apply filter_In. split; [exact Hm|].
    apply negb_true_iff, N.eqb_neq. exact Hne.
  - intros H. apply filter_all. intros m Hm.
    apply negb_true_iff, N.eqb_neq. apply H. exact Hm.
Qed.

(** ** channel ids *)

Lemma bytes_ltb_asym : forall a b, bytes_ltb a b = true -> bytes_ltb b a = false.
Proof.
  induction a as [|x a IH]; intros [|y b] H; simpl in *; try reflexivity; try discriminate.
  destruct (N.ltb_spec x y) as [Hxy|Hxy]; destruct (N.ltb_spec y x) as [Hyx|Hyx];
    try reflexivity; try discriminate; try lia.
  apply IH. exact H.
Qed.

Lemma bytes_ltb_total :
  forall a b, bytes_ltb a b = false -> bytes_ltb b a = false -> a = b.
Proof.
  induction a as [|x a IH]; intros [|y b] H1 H2; simpl in *; try reflexivity; try discriminate.
  destruct (N.ltb_spec x y) as [Hxy|Hxy]; [discriminate|].
  destruct (N.ltb_spec y x) as [Hyx|Hyx]; [discriminate|].
  assert (x = y) by lia. subst y. f_equal. apply IH; assumption.
Qed.

Lemma channel_sym : S_channel_sym.
Proof.
  unfold S_channel_sym, channel_id. intros a b.
  destruct (bytes_ltb b a) eqn:E1; destruct (bytes_ltb a b) eqn:E2.
  - apply bytes_ltb_asym in E1. congruence.
  - reflexivity.
  - reflexivity.
  - rewrite (bytes_ltb_total a b E2 E1). reflexivity.
Qed.

Lemma channel_inj : S_channel_inj.
Proof.
  unfold S_channel_inj, channel_id. intros a b c d H.
  destruct (bytes_ltb b a); destruct (bytes_ltb d c); injection H as H1 H2; subst; auto.
Qed.

Print Assumptions peers_diff_exact.
Print Assumptions watch_tracks_membership.
Print Assumptions watch_no_spurious.
Print Assumptions forward_spec.
Print Assumptions channel_sym.
Print Assumptions channel_inj.

From Orbit Require Import Spec.Statements.
From Coq Require Import Sorting.Permutation.

(** * Order facts about [key_lt] / [gt_lww] *)

Lemma key_lt_irrefl a : ~ key_lt a a.
Proof. unfold key_lt. lia. Qed.

Lemma key_lt_trans a b c : key_lt a b -> key_lt b c -> key_lt a c.
Proof. unfold key_lt. lia. Qed.

Lemma key_lt_asym a b : key_lt a b -> key_lt b a -> False.
Proof. unfold key_lt. lia. Qed.

(** non-strict order *)
Definition kle (a b : entry) : Prop := key_lt a b \/ a = b.

Lemma kle_refl a : kle a a.
Proof. right; reflexivity. Qed.

Lemma kle_trans a b c : kle a b -> kle b c -> kle a c.
Proof.
  intros [H1|H1] [H2|H2]; subst.
  - left; eapply key_lt_trans; eauto.
  - left; assumption.
  - left; assumption.
  - right; reflexivity.
Qed.

Lemma key_lt_kle_trans a b c : key_lt a b -> kle b c -> key_lt a c.
Proof. intros H1 [H2|H2]; subst; [eapply key_lt_trans; eauto | assumption]. Qed.

Lemma kle_key_lt_trans a b c : kle a b -> key_lt b c -> key_lt a c.
Proof. intros [H1|H1] H2; subst; [eapply key_lt_trans; eauto | assumption]. Qed.

(** [gt_lww a b] is exactly "not [key_lt a b]" (ties give [true]). *)
Lemma gt_lww_false_iff a b : gt_lww a b = false <-> key_lt a b.
Proof.
  unfold gt_lww, cmp_lww, key_lt.
  destruct (Z.ltb_spec (etime a) (etime b)) as [H1|H1]; simpl.
  - split; intros _; [lia | reflexivity].
  - destruct (Z.ltb_spec (etime b) (etime a)) as [H2|H2]; simpl.
    + split; intros H; [discriminate | lia].
    + destruct (N.ltb_spec (ecid a) (ecid b)) as [H3|H3]; simpl.
      * split; intros _; [lia | reflexivity].
      * destruct (N.ltb_spec (ecid b) (ecid a)) as [H4|H4]; simpl;
          (split; intros H; [discriminate | lia]).
Qed.

Lemma gt_lww_true_iff a b : gt_lww a b = true <-> ~ key_lt a b.
Proof.
  rewrite <- gt_lww_false_iff. destruct (gt_lww a b); split; intros H; congruence.
Qed.

Lemma key_total U a b : WF U -> In a U -> In b U -> key_lt a b \/ a = b \/ key_lt b a.
Proof.
  intros HWF Ha Hb. unfold key_lt.
  destruct (Z.lt_trichotomy (etime a) (etime b)) as [H|[H|H]]; [lia | | lia].
  destruct (N.lt_trichotomy (ecid a) (ecid b)) as [H'|[H'|H']]; [lia | | lia].
  right; left. apply (wf_key U HWF); assumption.
Qed.

Lemma gt_lww_true_U U a b : WF U -> In a U -> In b U ->
  (gt_lww a b = true <-> kle b a).
Proof.
  intros HWF Ha Hb. rewrite gt_lww_true_iff. split.
  - intros Hn. destruct (key_total U a b HWF Ha Hb) as [H|[H|H]].
    + contradiction.
    + right; symmetry; assumption.
    + left; assumption.
  - intros [H|H] Hlt.
    + eapply key_lt_asym; eauto.
    + subst. eapply key_lt_irrefl; eauto.
Qed.

Lemma gt_lww_refl a : gt_lww a a = true.
Proof. apply gt_lww_true_iff. apply key_lt_irrefl. Qed.

(** * [sort_desc]: permutation and sortedness *)

Definition ndesc (l : list entry) : Prop := StronglySorted (fun a b => kle b a) l.

Lemma insert_desc_perm x l : Permutation (insert_desc x l) (x :: l).
Proof.
  induction l as [|y l IH]; simpl.
  - apply Permutation_refl.
  - destruct (gt_lww y x).
    + eapply Permutation_trans; [apply perm_skip; exact IH | apply perm_swap].
    + apply Permutation_refl.
Qed.

Lemma sort_desc_perm l : Permutation (sort_desc l) l.
Proof.
  induction l as [|x l IH]; simpl.
  - apply perm_nil.
  - eapply Permutation_trans; [apply insert_desc_perm | apply perm_skip; exact IH].
Qed.

Lemma sort_desc_in l x : In x (sort_desc l) <-> In x l.
Proof.
  split; intros H.
  - eapply Permutation_in; [apply sort_desc_perm | exact H].
  - eapply Permutation_in; [apply Permutation_sym; apply sort_desc_perm | exact H].
Qed.

Lemma sort_desc_length l : length (sort_desc l) = length l.
Proof. apply Permutation_length. apply sort_desc_perm. Qed.

Lemma ndesc_inv a l : ndesc (a :: l) -> ndesc l /\ forall s, In s l -> kle s a.
Proof.
  intros H. apply StronglySorted_inv in H. destruct H as [H1 H2].
  split; [exact H1|]. rewrite Forall_forall in H2. exact H2.
Qed.

Lemma ndesc_cons a l : ndesc l -> (forall s, In s l -> kle s a) -> ndesc (a :: l).
Proof.
  intros H1 H2. apply SSorted_cons; [exact H1|]. apply Forall_forall. exact H2.
Qed.

Lemma insert_desc_ndesc U x l : WF U -> In x U -> incl l U ->
  ndesc l -> ndesc (insert_desc x l).
Proof.
  intros HWF Hx. induction l as [|y l IH]; intros Hl Hs; simpl.
  - apply ndesc_cons; [apply SSorted_nil | intros s []].
  - apply ndesc_inv in Hs. destruct Hs as [Hs1 Hs2].
    assert (HyU : In y U) by (apply Hl; left; reflexivity).
    assert (Hl' : incl l U) by (intros z Hz; apply Hl; right; exact Hz).
    destruct (gt_lww y x) eqn:G.
    + apply (gt_lww_true_U U y x HWF HyU Hx) in G.
      apply ndesc_cons; [apply IH; assumption|].
      intros s Hin.
      apply (Permutation_in s (insert_desc_perm x l)) in Hin.
      destruct Hin as [Hin|Hin]; [subst; exact G | apply Hs2; exact Hin].
    + apply gt_lww_false_iff in G.
      apply ndesc_cons.
      * apply ndesc_cons; assumption.
      * intros s [Hin|Hin].
        -- subst. left; exact G.
        -- left. eapply kle_key_lt_trans; [apply Hs2; exact Hin | exact G].
Qed.

Lemma sort_desc_ndesc U l : WF U -> incl l U -> ndesc (sort_desc l).
Proof.
  intros HWF. induction l as [|x l IH]; intros Hl; simpl.
  - apply SSorted_nil.
  - apply (insert_desc_ndesc U); try assumption.
    + apply Hl; left; reflexivity.
    + intros z Hz. apply (proj1 (sort_desc_in l z)) in Hz. apply Hl; right; exact Hz.
    + apply IH. intros z Hz; apply Hl; right; exact Hz.
Qed.

Lemma ndesc_nodup_desc l : ndesc l -> NoDup l -> desc_sorted l.
Proof.
  induction l as [|a l IH]; intros Hs Hn.
  - apply SSorted_nil.
  - apply ndesc_inv in Hs. destruct Hs as [Hs1 Hs2].
    inversion Hn as [|? ? Hnotin Hn']; subst.
    apply SSorted_cons; [apply IH; assumption|].
    apply Forall_forall. intros s Hin.
    destruct (Hs2 s Hin) as [H|H]; [exact H | subst; contradiction].
Qed.

Lemma sort_desc_spec : S_sort_desc_spec.
Proof.
  intros U l HWF Hl Hnd. split.
  - apply ndesc_nodup_desc.
    + apply (sort_desc_ndesc U); assumption.
    + eapply Permutation_NoDup; [apply Permutation_sym; apply sort_desc_perm | exact Hnd].
  - intros x. apply sort_desc_in.
Qed.

(** * Uniqueness of the ascending sort *)

Lemma asc_inv a l : asc_sorted (a :: l) -> asc_sorted l /\ forall s, In s l -> key_lt a s.
Proof.
  intros H. apply StronglySorted_inv in H. destruct H as [H1 H2].
  split; [exact H1|]. rewrite Forall_forall in H2. exact H2.
Qed.

Lemma sorted_unique : S_sorted_unique.
Proof.
  intros a. induction a as [|x a IH]; intros b Ha Hb Hs.
  - destruct b as [|y b]; [reflexivity|].
    exfalso. apply (proj2 (Hs y)). left; reflexivity.
  - destruct b as [|y b].
    + exfalso. apply (proj1 (Hs x)). left; reflexivity.
    + apply asc_inv in Ha. destruct Ha as [Ha1 Ha2].
      apply asc_inv in Hb. destruct Hb as [Hb1 Hb2].
      assert (Exy : x = y).
      { assert (Hx : In x (y :: b)) by (apply Hs; left; reflexivity).
        assert (Hy : In y (x :: a)) by (apply Hs; left; reflexivity).
        destruct Hx as [Hx|Hx]; [symmetry; exact Hx|].
        destruct Hy as [Hy|Hy]; [exact Hy|].
        exfalso. eapply key_lt_asym; [apply Ha2; exact Hy | apply Hb2; exact Hx]. }
      subst y. f_equal. apply IH; try assumption.
      intros z; split; intros Hz.
      * assert (Hz' : In z (x :: b)) by (apply Hs; right; exact Hz).
        destruct Hz' as [Hz'|Hz']; [|exact Hz'].
        subst z. exfalso. eapply key_lt_irrefl. apply Ha2. exact Hz.
      * assert (Hz' : In z (x :: a)) by (apply Hs; right; exact Hz).
        destruct Hz' as [Hz'|Hz']; [|exact Hz'].
        subst z. exfalso. eapply key_lt_irrefl. apply Hb2. exact Hz.
Qed.

(** * [find_entry], [has_entry], [oset] *)

Lemma find_entry_some h l n : find_entry h l = Some n -> In n l /\ eh n = h.
Proof.
  induction l as [|a l IH]; simpl; intros H; [discriminate|].
  destruct (eh a =? h)%N eqn:E.
  - inversion H; subst. apply N.eqb_eq in E. split; [left; reflexivity | exact E].
  - destruct (IH H) as [H1 H2]. split; [right; exact H1 | exact H2].
Qed.

Lemma find_entry_in n l : In n l -> exists n', find_entry (eh n) l = Some n'.
Proof.
  induction l as [|a l IH]; simpl; intros H; [contradiction|].
  destruct (eh a =? eh n)%N eqn:E; [eexists; reflexivity|].
  destruct H as [H|H].
  - subst a. rewrite N.eqb_refl in E. discriminate.
  - apply IH; exact H.
Qed.

Lemma find_entry_U U l n : WF U -> incl l U -> In n l -> find_entry (eh n) l = Some n.
Proof.
  intros HWF Hl Hn. destruct (find_entry_in n l Hn) as [n' F].
  rewrite F. f_equal. destruct (find_entry_some _ _ _ F) as [H1 H2].
  apply (wf_hash U HWF); [apply Hl; exact H1 | apply Hl; exact Hn | exact H2].
Qed.

Lemma has_entry_false_notin e l : has_entry (eh e) l = false -> ~ In e l.
Proof.
  unfold has_entry. intros H Hin. destruct (find_entry_in e l Hin) as [n' F].
  rewrite F in H. discriminate.
Qed.

Lemma has_entry_true_ex h l : has_entry h l = true -> exists x, In x l /\ eh x = h.
Proof.
  unfold has_entry. destruct (find_entry h l) as [x|] eqn:F; intros H; [|discriminate].
  exists x. apply find_entry_some; exact F.
Qed.

Lemma oset_cases e m :
  (has_entry (eh e) m = true /\ oset e m = m) \/
  (has_entry (eh e) m = false /\ oset e m = m ++ [e]).
Proof. unfold oset. destruct (has_entry (eh e) m); [left | right]; split; reflexivity. Qed.

Lemma oset_in_iff U e m : WF U -> In e U -> incl m U ->
  forall x, In x (oset e m) <-> In x m \/ x = e.
Proof.
  intros HWF He Hm x. destruct (oset_cases e m) as [[Hh Ho]|[Hh Ho]]; rewrite Ho.
  - split; [intros H; left; exact H|]. intros [H|H]; [exact H|].
    subst x. destruct (has_entry_true_ex _ _ Hh) as [y [Hy1 Hy2]].
    assert (y = e) by (apply (wf_hash U HWF); [apply Hm; exact Hy1 | exact He | exact Hy2]).
    subst y. exact Hy1.
  - rewrite in_app_iff. simpl. split.
    + intros [H|[H|[]]]; [left; exact H | right; symmetry; exact H].
    + intros [H|H]; [left; exact H | right; left; symmetry; exact H].
Qed.

Lemma desc_sorted_app l e :
  desc_sorted l -> (forall r, In r l -> key_lt e r) -> desc_sorted (l ++ [e]).
Proof.
  induction l as [|a l IH]; intros Hs Hlt; simpl.
  - apply SSorted_cons; [apply SSorted_nil | apply Forall_nil].
  - apply StronglySorted_inv in Hs. destruct Hs as [Hs1 Hs2].
    apply SSorted_cons.
    + apply IH; [exact Hs1|]. intros r Hr; apply Hlt; right; exact Hr.
    + apply Forall_app. split; [exact Hs2|].
      apply Forall_cons; [apply Hlt; left; reflexivity | apply Forall_nil].
Qed.

(** * The termination measure *)

Definition untrav (ents : list entry) (t : list N) : nat :=
  length (filter (fun n => negb (memN (eh n) t)) ents).

Lemma untrav_le_length ents t : (untrav ents t <= length ents)%nat.
Proof.
  unfold untrav. induction ents as [|a ents IH]; simpl; [lia|].
  destruct (negb (memN (eh a) t)); simpl; lia.
Qed.

Lemma untrav_mono ents t t' : incl t t' -> (untrav ents t' <= untrav ents t)%nat.
Proof.
  intros Hi. unfold untrav. induction ents as [|a ents IH]; simpl; [lia|].
  destruct (memN (eh a) t) eqn:M1; destruct (memN (eh a) t') eqn:M2; simpl; try lia.
  exfalso. apply memN_In in M1. apply Hi in M1. apply memN_In in M1. congruence.
Qed.

Lemma untrav_strict ents t t' n :
  incl t t' -> In n ents -> memN (eh n) t = false -> In (eh n) t' ->
  (S (untrav ents t') <= untrav ents t)%nat.
Proof.
  intros Hi Hn M Hin. induction ents as [|a ents IH]; [contradiction|].
  assert (Hmono := untrav_mono ents t t' Hi).
  unfold untrav in *. simpl.
  destruct Hn as [Hn|Hn].
  - subst a. rewrite M. apply memN_In in Hin. rewrite Hin. simpl. lia.
  - specialize (IH Hn).
    destruct (memN (eh a) t) eqn:M1; destruct (memN (eh a) t') eqn:M2; simpl; try lia.
    exfalso. apply memN_In in M1. apply Hi in M1. apply memN_In in M1. congruence.
Qed.

(** * [push_nexts] *)

Lemma push_nexts_spec ents : forall ns stack trav s' t' m,
  push_nexts ents ns stack trav = (s', t', m) ->
  (length s' + untrav ents t' <= length stack + untrav ents trav)%nat /\
  incl stack s' /\ incl trav t' /\
  (forall x, In x s' -> In x stack \/ (In x ents /\ In (eh x) ns)) /\
  (forall h, In h t' -> In h trav \/ exists x, In x s' /\ eh x = h) /\
  (forall c n, In c ns -> find_entry c ents = Some n -> In (eh n) t') /\
  (m = false -> s' = stack).
Proof.
  induction ns as [|c ns IH]; intros stack trav s' t' m H; simpl in H.
  - inversion H; subst. repeat split.
    + lia.
    + apply incl_refl.
    + apply incl_refl.
    + intros x Hx; left; exact Hx.
    + intros h Hh; left; exact Hh.
    + intros c n [].
  - destruct (find_entry c ents) as [n|] eqn:F.
    + destruct (memN (eh n) trav) eqn:M.
      * apply IH in H. destruct H as (H1 & H2 & H3 & H4 & H5 & H6 & H7).
        repeat split; try assumption.
        -- intros x Hx. destruct (H4 x Hx) as [Hx'|[Hx1 Hx2]];
             [left; exact Hx' | right; split; [exact Hx1 | right; exact Hx2]].
        -- intros c' n' [Hc|Hc] F'.
           ++ subst c'. rewrite F in F'. inversion F'; subst n'.
              apply H3. apply memN_In. exact M.
           ++ eapply H6; eauto.
      * destruct (push_nexts ents ns (n :: stack) (eh n :: trav)) as [[s t] m0] eqn:P.
        inversion H; subst s' t' m. clear H.
        apply IH in P. destruct P as (H1 & H2 & H3 & H4 & H5 & H6 & H7).
        destruct (find_entry_some _ _ _ F) as [Fn1 Fn2].
        repeat split.
        -- assert (Hst : (S (untrav ents (eh n :: trav)) <= untrav ents trav)%nat).
           { apply (untrav_strict ents trav (eh n :: trav) n).
             - intros z Hz; right; exact Hz.
             - exact Fn1.
             - exact M.
             - left; reflexivity. }
           simpl in H1. lia.
        -- intros z Hz. apply H2. right; exact Hz.
        -- intros z Hz. apply H3. right; exact Hz.
        -- intros x Hx. destruct (H4 x Hx) as [[Hx'|Hx']|[Hx1 Hx2]].
           ++ subst x. right. split; [exact Fn1 | left; symmetry; exact Fn2].
           ++ left; exact Hx'.
           ++ right; split; [exact Hx1 | right; exact Hx2].
        -- intros h Hh. destruct (H5 h Hh) as [[Hh'|Hh']|Hh'].
           ++ right. exists n. split; [apply H2; left; reflexivity | exact Hh'].
           ++ left; exact Hh'.
           ++ right; exact Hh'.
        -- intros c' n' [Hc|Hc] F'.
           ++ subst c'. rewrite F in F'. inversion F'; subst n'.
              apply H3. left; reflexivity.
           ++ eapply H6; eauto.
        -- intros Hd; discriminate.
    + apply IH in H. destruct H as (H1 & H2 & H3 & H4 & H5 & H6 & H7).
      repeat split; try assumption.
      * intros x Hx. destruct (H4 x Hx) as [Hx'|[Hx1 Hx2]];
          [left; exact Hx' | right; split; [exact Hx1 | right; exact Hx2]].
      * intros c' n' [Hc|Hc] F'.
        -- subst c'. rewrite F in F'. discriminate.
        -- eapply H6; eauto.
Qed.

(** * The loop invariant *)

Section Trav.
  Variables U ents roots : list entry.
  Hypothesis HWF : WF U.
  Hypothesis Hents : incl ents U.
  Hypothesis Hroots : incl roots U.

  Record Inv (stack : list entry) (trav : list N) (result : list entry) : Prop := {
    i_stackU : forall x, In x stack -> In x U /\ reach ents roots x;
    i_resU : forall x, In x result -> In x U /\ reach ents roots x;
    i_res_sorted : desc_sorted result;
    i_stack_sorted : ndesc stack;
    i_above : forall r s, In r result -> In s stack -> kle s r;
    i_trav : forall h, In h trav -> exists x, (In x result \/ In x stack) /\ eh x = h;
    i_closed : forall r n, In r result -> In n ents -> In (eh n) (enext r) ->
                           In n result \/ In n stack;
    i_roots : forall r, In r roots -> In r result \/ In r stack
  }.

  Lemma trav_loop_S f e st trav result count :
    trav_loop (S f) ents (e :: st) trav result (-1) count =
    let '(st', trav'', m) := push_nexts ents (enext e) st (eh e :: trav) in
    trav_loop f ents (if m then sort_desc st' else st') trav'' (oset e result) (-1) (count + 1).
  Proof. reflexivity. Qed.

  Lemma step_inv e st trav result st' trav'' (m : bool) :
    Inv (e :: st) trav result ->
    push_nexts ents (enext e) st (eh e :: trav) = (st', trav'', m) ->
    Inv (if m then sort_desc st' else st') trav'' (oset e result) /\
    (S (length (if m then sort_desc st' else st') + untrav ents trav'')
       <= length (e :: st) + untrav ents trav)%nat.
  Proof.
    intros I P.
    destruct I as [IsU IrU Irs Iss Iab Itr Icl Iro].
    apply push_nexts_spec in P.
    destruct P as (P1 & P2 & P3 & P4 & P5 & P6 & P7).
    destruct (IsU e (or_introl eq_refl)) as [HeU Hereach].
    apply ndesc_inv in Iss. destruct Iss as [Iss1 Iss2].
    assert (HresU : incl result U) by (intros z Hz; apply IrU; exact Hz).
    assert (Hres' : forall x, In x (oset e result) <-> In x result \/ x = e)
      by (apply (oset_in_iff U); assumption).
    set (st'' := if m then sort_desc st' else st').
    assert (Hin'' : forall x, In x st'' <-> In x st').
    { intros x. unfold st''. destruct m; [apply sort_desc_in | reflexivity]. }
    assert (Hlen'' : length st'' = length st').
    { unfold st''. destruct m; [apply sort_desc_length | reflexivity]. }
    (* members of the new stack *)
    assert (Hst' : forall x, In x st' ->
               (In x U /\ reach ents roots x) /\
               (In x st \/ (In x ents /\ In (eh x) (enext e) /\ key_lt x e))).
    { intros x Hx. destruct (P4 x Hx) as [Hx'|[Hx1 Hx2]].
      - split; [apply IsU; right; exact Hx' | left; exact Hx'].
      - assert (HxU : In x U) by (apply Hents; exact Hx1).
        split.
        + split; [exact HxU|]. eapply reach_next; eauto.
        + right. split; [exact Hx1|]. split; [exact Hx2|].
          apply (wf_link U HWF e x); assumption. }
    assert (Hst'U : incl st' U) by (intros z Hz; apply Hst'; exact Hz).
    split.
    - constructor.
      + intros x Hx. apply Hin'' in Hx. apply Hst'; exact Hx.
      + intros x Hx. apply Hres' in Hx. destruct Hx as [Hx|Hx].
        * apply IrU; exact Hx.
        * subst x. split; assumption.
      + destruct (oset_cases e result) as [[Hh Ho]|[Hh Ho]]; rewrite Ho.
        * exact Irs.
        * apply desc_sorted_app; [exact Irs|].
          intros r Hr. destruct (Iab r e Hr (or_introl eq_refl)) as [H|H].
          -- exact H.
          -- subst r. exfalso. eapply has_entry_false_notin; eauto.
      + unfold st''. destruct m.
        * apply (sort_desc_ndesc U); assumption.
        * rewrite (P7 eq_refl). exact Iss1.
      + intros r s Hr Hs. apply Hres' in Hr. apply Hin'' in Hs.
        destruct (Hst' s Hs) as [_ [Hs'|(Hs1 & Hs2 & Hs3)]].
        * destruct Hr as [Hr|Hr].
          -- apply Iab; [exact Hr | right; exact Hs'].
          -- subst r. apply Iss2; exact Hs'.
        * destruct Hr as [Hr|Hr].
          -- left. eapply key_lt_kle_trans; [exact Hs3|].
             apply Iab; [exact Hr | left; reflexivity].
          -- subst r. left; exact Hs3.
      + intros h Hh. destruct (P5 h Hh) as [[Hh'|Hh']|[x [Hx1 Hx2]]].
        * exists e. split; [left; apply Hres'; right; reflexivity | exact Hh'].
        * destruct (Itr h Hh') as [x [[Hx|[Hx|Hx]] Hx2]].
          -- exists x. split; [left; apply Hres'; left; exact Hx | exact Hx2].
          -- subst x. exists e. split; [left; apply Hres'; right; reflexivity | exact Hx2].
          -- exists x. split; [right; apply Hin''; apply P2; exact Hx | exact Hx2].
        * exists x. split; [right; apply Hin''; exact Hx1 | exact Hx2].
      + (* closure *)
        assert (Hnew : forall n, In n ents -> In (eh n) trav'' ->
                                 In n (oset e result) \/ In n st'').
        { intros n Hn Hh. destruct (P5 (eh n) Hh) as [Hh'|[x [Hx1 Hx2]]].
          - assert (Hex : exists x, (In x (oset e result) \/ In x st'') /\ eh x = eh n).
            { destruct Hh' as [Hh'|Hh'].
              - exists e. split; [left; apply Hres'; right; reflexivity | exact Hh'].
              - destruct (Itr _ Hh') as [x [[Hx|[Hx|Hx]] Hx2]].
                + exists x. split; [left; apply Hres'; left; exact Hx | exact Hx2].
                + subst x. exists e. split; [left; apply Hres'; right; reflexivity | exact Hx2].
                + exists x. split; [right; apply Hin''; apply P2; exact Hx | exact Hx2]. }
            destruct Hex as [x [Hx Hx2]].
            assert (HxU : In x U).
            { destruct Hx as [Hx|Hx].
              - apply Hres' in Hx. destruct Hx as [Hx|Hx]; [apply HresU; exact Hx | subst x; exact HeU].
              - apply Hin'' in Hx. apply Hst'U; exact Hx. }
            assert (x = n) by (apply (wf_hash U HWF); [exact HxU | apply Hents; exact Hn | exact Hx2]).
            subst x. exact Hx.
          - assert (x = n).
            { apply (wf_hash U HWF); [apply Hst'U; exact Hx1 | apply Hents; exact Hn | exact Hx2]. }
            subst x. right. apply Hin''. exact Hx1. }
        intros r n Hr Hn Hlink. apply Hres' in Hr. destruct Hr as [Hr|Hr].
        * destruct (Icl r n Hr Hn Hlink) as [H|[H|H]].
          -- left. apply Hres'. left; exact H.
          -- subst n. left. apply Hres'. right; reflexivity.
          -- right. apply Hin''. apply P2. exact H.
        * subst r. apply Hnew; [exact Hn|].
          apply (P6 (eh n) n Hlink). apply (find_entry_U U); assumption.
      + intros r Hr. destruct (Iro r Hr) as [H|[H|H]].
        * left. apply Hres'. left; exact H.
        * subst r. left. apply Hres'. right; reflexivity.
        * right. apply Hin''. apply P2. exact H.
    - fold st''. rewrite Hlen''.
      assert (Hm : (untrav ents (eh e :: trav) <= untrav ents trav)%nat).
      { apply untrav_mono. intros z Hz; right; exact Hz. }
      simpl. lia.
  Qed.

  Lemma trav_loop_inv : forall fuel stack trav result count,
    Inv stack trav result ->
    (length stack + untrav ents trav <= fuel)%nat ->
    exists trav', Inv [] trav' (trav_loop fuel ents stack trav result (-1) count).
  Proof.
    induction fuel as [|f IH]; intros stack trav result count I Hm.
    - destruct stack as [|e st]; [|simpl in Hm; lia].
      exists trav. exact I.
    - destruct stack as [|e st].
      + exists trav. exact I.
      + rewrite trav_loop_S.
        destruct (push_nexts ents (enext e) st (eh e :: trav)) as [[st' trav''] m] eqn:P.
        destruct (step_inv e st trav result st' trav'' m I P) as [I' Hm'].
        apply IH; [exact I'|]. lia.
  Qed.

  Lemma init_inv : Inv (sort_desc roots) [] [].
  Proof.
    constructor.
    - intros x Hx. apply (proj1 (sort_desc_in roots x)) in Hx. split; [apply Hroots; exact Hx|].
      apply reach_root; exact Hx.
    - intros x [].
    - apply SSorted_nil.
    - apply (sort_desc_ndesc U); assumption.
    - intros r s [].
    - intros h [].
    - intros r n [].
    - intros r Hr. right. apply sort_desc_in. exact Hr.
  Qed.

  Lemma traverse_correct :
    (forall e, In e (traverse ents roots (-1)) <-> reach ents roots e) /\
    desc_sorted (traverse ents roots (-1)).
  Proof.
    unfold traverse.
    destruct (trav_loop_inv (length ents + length roots + 1) (sort_desc roots) [] [] 0 init_inv)
      as [trav' I].
    { rewrite sort_desc_length. assert (H := untrav_le_length ents []). lia. }
    set (R := trav_loop (length ents + length roots + 1) ents (sort_desc roots) [] [] (-1) 0) in *.
    destruct I as [IsU IrU Irs Iss Iab Itr Icl Iro].
    split; [|exact Irs].
    intros e; split.
    - intros He. apply IrU; exact He.
    - intros Hr. induction Hr as [e He | e n Hr IHr Hlink Hn].
      + destruct (Iro e He) as [H|[]]; exact H.
      + destruct (Icl e n IHr Hn Hlink) as [H|[]]; exact H.
  Qed.
End Trav.

Lemma traverse_spec : S_traverse_spec.
Proof.
  intros U ents roots HWF Hents Hroots _.
  apply (traverse_correct U); assumption.
Qed.

Print Assumptions sort_desc_spec.
Print Assumptions sorted_unique.
Print Assumptions traverse_spec.

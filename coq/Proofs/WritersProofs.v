From Orbit Require Import Spec.Statements.
From Coq Require Import Permutation.
Local Open Scope nat_scope.

(** Proofs for the concurrent local writers (C17). *)

Lemma returned_eq s : returned s = flat_map wt_acks (w_thr s).
Proof. reflexivity. Qed.

Lemma set_thr_split :
  forall (l1 l2 : list wthr) x t,
    set_thr (length l1) t (l1 ++ x :: l2) = l1 ++ t :: l2.
Proof.
  intros l1 l2 x t. unfold set_thr. induction l1 as [|a l1 IH]; simpl.
  - reflexivity.
  - f_equal. exact IH.
Qed.

Lemma sorted_snoc :
  forall (l : list nat) y,
    StronglySorted lt l -> (forall x, In x l -> x < y) -> StronglySorted lt (l ++ [y]).
Proof.
  induction l as [|a l IH]; intros y Hs Hy; simpl.
  - constructor; constructor.
  - apply StronglySorted_inv in Hs. destruct Hs as [Hs Ha].
    constructor.
    + apply IH; [exact Hs|]. intros x Hx. apply Hy. right. exact Hx.
    + apply Forall_app. split; [exact Ha|].
      constructor; [|constructor]. apply Hy. left. reflexivity.
Qed.

(** per-thread invariant of the atomic runs: the thread is between two writes, its
    acknowledged and outstanding writes add up to its count, its entries are in append order *)
Definition tinv (t : wthr) (c : nat) : Prop :=
  wt_pc t = WIdle /\ length (wt_acks t) + wt_left t = c /\ StronglySorted lt (wt_acks t).

Definition winv (counts : list nat) (s : wst) : Prop :=
  Forall2 tinv (w_thr s) counts /\
  w_cache s = w_log s /\ w_view s = w_log s /\
  NoDup (returned s) /\
  (forall e, In e (returned s) -> 1 <= e <= w_log s) /\
  length (returned s) = w_log s.

Lemma init_flat counts : flat_map wt_acks (map (fun c => mkWT WIdle c []) counts) = [].
Proof. induction counts as [|c cs IH]; simpl; [reflexivity | exact IH]. Qed.

Lemma init_tinv counts : Forall2 tinv (map (fun c => mkWT WIdle c []) counts) counts.
Proof.
  induction counts as [|c cs IH]; simpl; constructor; [|exact IH].
  unfold tinv. simpl. split; [reflexivity|]. split; [reflexivity | constructor].
Qed.

Lemma winv_init counts : winv counts (winitc counts).
Proof.
  unfold winv, winitc. rewrite returned_eq. simpl. rewrite init_flat.
  split; [apply init_tinv|].
  split; [reflexivity|]. split; [reflexivity|].
  split; [constructor|].
  split; [intros e He; destruct He | reflexivity].
Qed.

Lemma winv_step counts s i s' : winv counts s -> wstep true s i = Some s' -> winv counts s'.
Proof.
  intros (Hthr & Hc & Hv & Hnd & Hrng & Hl) Hstep.
  rewrite returned_eq in Hnd, Hrng, Hl.
  destruct s as [thr lg c v]. unfold wstep in Hstep. simpl in *.
  destruct (nth_error thr i) as [t|] eqn:En; [|discriminate].
  destruct (nth_error_split _ _ En) as (l1 & l2 & Hsplit & Hi).
  subst i thr.
  apply Forall2_app_inv_l in Hthr. destruct Hthr as (c1 & c2' & H1 & H2 & Hcounts).
  inversion H2 as [|t0 ct l2' c2 Ht H2' E1 E2]. subst t0 l2' c2' counts.
  destruct Ht as (Hpc & Hsum & Hsorted).
  rewrite Hpc in Hstep.
  destruct (wt_left t) as [|k] eqn:Eleft; [discriminate|].
  injection Hstep as <-.
  rewrite set_thr_split.
  unfold winv. rewrite returned_eq. simpl.
  rewrite flat_map_app in *. simpl in *.
  set (R1 := flat_map wt_acks l1) in *. set (R2 := flat_map wt_acks l2) in *.
  assert (HP : Permutation (S lg :: R1 ++ wt_acks t ++ R2)
                           (R1 ++ (wt_acks t ++ [S lg]) ++ R2)).
  { apply Permutation_trans with ((R1 ++ wt_acks t) ++ S lg :: R2).
    - apply Permutation_cons_app. rewrite app_assoc. apply Permutation_refl.
    - rewrite <- !app_assoc. simpl. apply Permutation_refl. }
  assert (Hnd' : NoDup (S lg :: R1 ++ wt_acks t ++ R2)).
  { constructor; [|exact Hnd]. intros H. apply Hrng in H. lia. }
  split.
  { apply Forall2_app; [exact H1|]. constructor; [|exact H2'].
    unfold tinv. simpl. split; [reflexivity|]. split.
    - rewrite app_length. simpl. lia.
    - apply sorted_snoc; [exact Hsorted|].
      intros x Hx.
      assert (Hin : In x (R1 ++ wt_acks t ++ R2)).
      { apply in_app_iff. right. apply in_app_iff. left. exact Hx. }
      apply Hrng in Hin. lia. }
  split; [reflexivity|]. split; [reflexivity|].
  split.
  { exact (Permutation_NoDup HP Hnd'). }
  split.
  { intros e He. apply (Permutation_in _ (Permutation_sym HP)) in He.
    destruct He as [He | He]; [lia|]. apply Hrng in He. lia. }
  rewrite <- (Permutation_length HP). simpl. f_equal. exact Hl.
Qed.

Lemma winv_run counts : forall sched s, winv counts s -> winv counts (wrun true sched s).
Proof.
  induction sched as [|i sched IH]; intros s Hs; simpl.
  - exact Hs.
  - destruct (wstep true s i) as [s'|] eqn:E.
    + apply IH. exact (winv_step _ _ _ _ Hs E).
    + apply IH. exact Hs.
Qed.

(** when every thread is done the per-thread invariant gives the per-thread result *)
Lemma done_acks :
  forall thr counts,
    Forall2 tinv thr counts -> (forall t, In t thr -> thr_done t) ->
    Forall2 (fun a c => length a = c /\ StronglySorted lt a) (map wt_acks thr) counts /\
    length (flat_map wt_acks thr) = list_sum counts.
Proof.
  induction 1 as [|t c thr counts Ht Hrest IH]; intros Hdone; simpl.
  - split; [constructor | reflexivity].
  - destruct IH as [IH1 IH2]; [intros t' Ht'; apply Hdone; right; exact Ht'|].
    destruct Ht as (Hpc & Hsum & Hsorted).
    destruct (Hdone t (or_introl eq_refl)) as [_ Hleft].
    rewrite Hleft in Hsum.
    split.
    + constructor; [|exact IH1]. split; [lia | exact Hsorted].
    + rewrite app_length, IH2. lia.
Qed.

Lemma writers_atomic : S_writers_atomic.
Proof.
  unfold S_writers_atomic. intros counts sched. simpl. intros Hdone.
  destruct (winv_run counts sched (winitc counts) (winv_init counts))
    as (Hthr & Hc & Hv & Hnd & Hrng & Hl).
  set (s := wrun true sched (winitc counts)) in *.
  destruct (done_acks _ _ Hthr Hdone) as [Hacks Hlen].
  assert (Hrl : length (returned s) = list_sum counts) by (rewrite returned_eq; exact Hlen).
  split; [exact Hnd|]. split; [exact Hrl|]. split; [exact Hrng|].
  split; [lia|]. split; [exact Hv|]. split; [unfold recovered; exact Hc|].
  exact Hacks.
Qed.

Lemma list_sum_repeat_1 n : list_sum (repeat 1 n) = n.
Proof. induction n as [|n IH]; simpl; [reflexivity | f_equal; exact IH]. Qed.

Lemma writers_atomic_single : S_writers_atomic_single.
Proof.
  unfold S_writers_atomic_single. intros n sched. simpl. intros Hdone.
  destruct (writers_atomic (repeat 1 n) sched Hdone) as (H1 & H2 & H3 & H4 & H5 & H6 & _).
  rewrite list_sum_repeat_1 in H2, H4.
  repeat split; try assumption; apply H3; assumption.
Qed.

Ltac all_done_by_compute :=
  unfold all_done; vm_compute;
  intros t Ht; repeat (destruct Ht as [Ht | Ht]; [subst t; split; reflexivity|]); destruct Ht.

Lemma writers_refuted_recovery : S_writers_refuted_recovery.
Proof.
  unfold S_writers_refuted_recovery.
  exists 2, [0; 1; 1; 0; 0; 0; 1; 1]. simpl. split.
  - all_done_by_compute.
  - vm_compute. lia.
Qed.

Lemma writers_refuted_view : S_writers_refuted_view.
Proof.
  unfold S_writers_refuted_view.
  exists 2, [0; 0; 0; 1; 1; 1; 1; 0]. simpl. split.
  - all_done_by_compute.
  - vm_compute. lia.
Qed.

(** thread 0 makes two writes, thread 1 one: T0 completes its first write and appends its
    second entry (2); T1 appends 3, persists it, rebuilds the view and returns; only then
    T0 persists 2: recovery restores 1..2, entry 3 was acknowledged and is gone. *)
Lemma writers_refuted_batch : S_writers_refuted_batch.
Proof.
  unfold S_writers_refuted_batch.
  exists [2; 1], [0; 0; 0; 0; 0; 1; 1; 1; 1; 0; 0; 0]. simpl. split; [|split].
  - all_done_by_compute.
  - exists 2. split; [left; reflexivity | lia].
  - vm_compute. lia.
Qed.

(** every instant of an atomic run: the invariant says the cached head is the log's head and
    every acknowledged entry is at most that *)
Lemma writers_crash_safe : S_writers_crash_safe.
Proof.
  unfold S_writers_crash_safe. intros counts sched. simpl. intros e He.
  destruct (winv_run counts sched (winitc counts) (winv_init counts))
    as (_ & Hc & _ & _ & Hrng & _).
  unfold recovered. rewrite Hc. apply Hrng. exact He.
Qed.

(** T0 appends 1; T1 appends 2, persists it, rebuilds the view and returns (2 acknowledged);
    T0 persists 1: the cached head is 1, a crash now loses entry 2. *)
Lemma writers_refuted_crash : S_writers_refuted_crash.
Proof.
  unfold S_writers_refuted_crash.
  exists [1; 1], [0; 1; 1; 1; 1; 0]. simpl. exists 2. split.
  - vm_compute. left. reflexivity.
  - vm_compute. lia.
Qed.

Print Assumptions writers_atomic.
Print Assumptions writers_atomic_single.
Print Assumptions writers_refuted_recovery.
Print Assumptions writers_refuted_view.
Print Assumptions writers_refuted_batch.
Print Assumptions writers_crash_safe.
Print Assumptions writers_refuted_crash.

From Orbit Require Import Spec.Statements.
From Coq Require Import Permutation.
Local Open Scope nat_scope.

(** Proofs for the concurrent local writers (C17). *)

Definition retf (p : wpc) : list nat :=
  match p with WDone e => [e] | _ => [] end.

Lemma returned_retf s : returned s = flat_map retf (w_pcs s).
Proof. reflexivity. Qed.

Lemma set_pc_split :
  forall (l1 l2 : list wpc) x p,
    set_pc (length l1) p (l1 ++ x :: l2) = l1 ++ p :: l2.
Proof.
  intros l1 l2 x p. unfold set_pc. induction l1 as [|a l1 IH]; simpl.
  - reflexivity.
  - f_equal. exact IH.
Qed.

Lemma retf_repeat_start n : flat_map retf (repeat WStart n) = [].
Proof. induction n as [|n IH]; simpl; [reflexivity | exact IH]. Qed.

Lemma retf_all_done_length :
  forall l, (forall p, In p l -> exists e, p = WDone e) ->
            length (flat_map retf l) = length l.
Proof.
  induction l as [|a l IH]; intros H; simpl.
  - reflexivity.
  - destruct (H a (or_introl eq_refl)) as [e ->]. simpl. f_equal.
    apply IH. intros p Hp. apply H. right. exact Hp.
Qed.

Definition winv (n : nat) (s : wst) : Prop :=
  length (w_pcs s) = n /\
  (forall p, In p (w_pcs s) -> p = WStart \/ exists e, p = WDone e) /\
  w_cache s = w_log s /\ w_view s = w_log s /\
  NoDup (returned s) /\
  (forall e, In e (returned s) -> 1 <= e <= w_log s) /\
  length (returned s) = w_log s.

Lemma winv_init n : winv n (winit n).
Proof.
  unfold winv, winit. rewrite returned_retf. simpl. rewrite retf_repeat_start.
  split; [apply repeat_length|].
  split; [intros p Hp; left; apply repeat_spec in Hp; exact Hp|].
  split; [reflexivity|]. split; [reflexivity|].
  split; [constructor|].
  split; [intros e He; destruct He | reflexivity].
Qed.

Lemma winv_step n s i s' : winv n s -> wstep true s i = Some s' -> winv n s'.
Proof.
  intros (Hlen & Hpc & Hc & Hv & Hnd & Hrng & Hl) Hstep.
  rewrite returned_retf in Hnd, Hrng, Hl.
  destruct s as [pcs lg c v]. unfold wstep in Hstep. simpl in *.
  destruct (nth_error pcs i) as [p|] eqn:En; [|discriminate].
  destruct (Hpc p (nth_error_In _ _ En)) as [Hp | [e Hp]]; subst p; [|discriminate].
  injection Hstep as <-.
  destruct (nth_error_split _ _ En) as (l1 & l2 & Hsplit & Hi).
  subst i pcs. rewrite set_pc_split.
  unfold winv. rewrite returned_retf. simpl.
  rewrite flat_map_app in *. simpl in *.
  assert (HP : Permutation (S lg :: flat_map retf l1 ++ flat_map retf l2)
                           (flat_map retf l1 ++ S lg :: flat_map retf l2))
    by apply Permutation_middle.
  assert (Hnd' : NoDup (S lg :: flat_map retf l1 ++ flat_map retf l2)).
  { constructor; [|exact Hnd]. intros H. apply Hrng in H. lia. }
  split.
  { rewrite app_length in *. simpl in *. exact Hlen. }
  split.
  { intros p Hp. apply in_app_iff in Hp. destruct Hp as [Hp | [Hp | Hp]].
    - apply Hpc. apply in_app_iff. left. exact Hp.
    - right. exists (S lg). symmetry. exact Hp.
    - apply Hpc. apply in_app_iff. right. right. exact Hp. }
  split; [reflexivity|]. split; [reflexivity|].
  split.
  { exact (Permutation_NoDup HP Hnd'). }
  split.
  { intros e He. apply (Permutation_in _ (Permutation_sym HP)) in He.
    destruct He as [He | He]; [lia|]. apply Hrng in He. lia. }
  rewrite <- (Permutation_length HP). simpl. f_equal. exact Hl.
Qed.

Lemma winv_run n : forall sched s, winv n s -> winv n (wrun true sched s).
Proof.
  induction sched as [|i sched IH]; intros s Hs; simpl.
  - exact Hs.
  - destruct (wstep true s i) as [s'|] eqn:E.
    + apply IH. exact (winv_step _ _ _ _ Hs E).
    + apply IH. exact Hs.
Qed.

Lemma writers_atomic : S_writers_atomic.
Proof.
  unfold S_writers_atomic. intros n sched. simpl. intros Hdone.
  destruct (winv_run n sched (winit n) (winv_init n))
    as (Hlen & Hpc & Hc & Hv & Hnd & Hrng & Hl).
  set (s := wrun true sched (winit n)) in *.
  assert (Hrl : length (returned s) = n).
  { rewrite returned_retf. rewrite retf_all_done_length; [exact Hlen | exact Hdone]. }
  split; [exact Hnd|]. split; [exact Hrl|]. split; [exact Hrng|].
  split; [lia|]. split; [exact Hv|]. unfold recovered. exact Hc.
Qed.

Lemma writers_refuted_recovery : S_writers_refuted_recovery.
Proof.
  unfold S_writers_refuted_recovery.
  exists 2, [0; 1; 1; 0; 0; 0; 1; 1]. simpl. split.
  - unfold all_done. vm_compute. intros p [Hp | [Hp | []]]; subst p; eexists; reflexivity.
  - vm_compute. lia.
Qed.

Lemma writers_refuted_view : S_writers_refuted_view.
Proof.
  unfold S_writers_refuted_view.
  exists 2, [0; 0; 0; 1; 1; 1; 1; 0]. simpl. split.
  - unfold all_done. vm_compute. intros p [Hp | [Hp | []]]; subst p; eexists; reflexivity.
  - vm_compute. lia.
Qed.

Print Assumptions writers_atomic.
Print Assumptions writers_refuted_recovery.
Print Assumptions writers_refuted_view.

From Orbit Require Import Spec.Statements.
From Coq Require Import Lia ZifyN ZifyNat ZifyBool.
Ltac Zify.zify_post_hook ::= Z.div_mod_to_equations.

(** * Numeric facts about the constants, then make them opaque *)

Lemma two64_eq : two64 = (2 ^ 64)%N.
Proof. vm_compute. reflexivity. Qed.
Lemma two63_eq : two63 = (2 ^ 63)%N.
Proof. vm_compute. reflexivity. Qed.
Lemma two64_val : two64 = 18446744073709551616%N.
Proof. reflexivity. Qed.
Lemma two63_val : two63 = 9223372036854775808%N.
Proof. reflexivity. Qed.
Lemma frame_cap_val : frame_cap = 4194304%N.
Proof. reflexivity. Qed.
Lemma frame_cap_lt_two63 : (frame_cap < two63)%N.
Proof. vm_compute. reflexivity. Qed.
Lemma two63_lt_two64 : (two63 < two64)%N.
Proof. vm_compute. reflexivity. Qed.
Lemma pow2_63_val : (2 ^ 63 = 9223372036854775808)%N.
Proof. vm_compute. reflexivity. Qed.
Lemma pow2_64_val : (2 ^ 64 = 18446744073709551616)%N.
Proof. vm_compute. reflexivity. Qed.

(** the nat numeral 65536 is an application of [Nat.of_num_uint]: bound it in N *)
Lemma lt_65536_N : forall n, (n < 65536)%nat -> (N.of_nat n < 65536)%N.
Proof.
  intros n H. cbn [Nat.of_num_uint Nat.of_uint Nat.of_uint_acc] in H.
  rewrite !Nat.tail_mul_spec in H. lia.
Qed.

Local Opaque two64 two63 frame_cap.

(** * Unfolding equations *)

Lemma put_S f x :
  put_uvarint_fuel (S f) x =
  if (x <? 128)%N then [x] else ((x mod 128 + 128)%N :: put_uvarint_fuel f (x / 128)%N).
Proof. reflexivity. Qed.

Lemma read_S_cons f i x s b rest :
  read_uvarint_loop (S f) i x s (b :: rest) =
  if (b <? 128)%N then
    if ((i =? 9)%N && (1 <? b)%N)%bool then inr RdOverflow
    else inl ((x + b * 2 ^ s)%N, rest)
  else read_uvarint_loop f (i + 1)%N (x + (b mod 128) * 2 ^ s)%N (s + 7)%N rest.
Proof. reflexivity. Qed.

(** * uvarint round trip *)

Lemma pow_step s : (2 ^ (s + 7) = 128 * 2 ^ s)%N.
Proof. rewrite N.pow_add_r. change (2 ^ 7)%N with 128%N. lia. Qed.

Lemma pow_mono_63 i : (i <= 9)%N -> (2 ^ (7 * i) <= 2 ^ 63)%N.
Proof. intros. apply N.pow_le_mono_r; lia. Qed.

Lemma pow_ge_70 i : (10 <= i)%N -> (2 ^ 70 <= 2 ^ (7 * i))%N.
Proof. intros. apply N.pow_le_mono_r; lia. Qed.

Lemma uvarint_loop :
  forall (f : nat) (i acc v s : N) (rest : bytes),
    (N.of_nat f + i = 10)%N -> (1 <= f)%nat -> s = (7 * i)%N ->
    (v * 2 ^ s + acc < 2 ^ 64)%N ->
    read_uvarint_loop f i acc s (put_uvarint_fuel f v ++ rest)
    = inl ((acc + v * 2 ^ s)%N, rest).
Proof.
  induction f as [|f IH]; intros i acc v s rest Hfi Hf Hs Hlt; [lia|].
  rewrite put_S.
  destruct (v <? 128)%N eqn:Hv.
  - cbn [app]. rewrite read_S_cons, Hv.
    destruct (i =? 9)%N eqn:Hi; cbn [andb]; [|reflexivity].
    destruct (1 <? v)%N eqn:H1; [|reflexivity].
    exfalso. apply N.eqb_eq in Hi. apply N.ltb_lt in H1. subst i s.
    change (7 * 9)%N with 63%N in Hlt.
    rewrite pow2_63_val, pow2_64_val in Hlt. lia.
  - apply N.ltb_ge in Hv. cbn [app]. rewrite read_S_cons.
    assert (Hb : ((v mod 128 + 128) <? 128)%N = false) by (apply N.ltb_ge; lia).
    rewrite Hb.
    assert (Hm : ((v mod 128 + 128) mod 128 = v mod 128)%N) by lia.
    rewrite Hm.
    assert (Hpos : (1 <= 2 ^ s)%N).
    { pose proof (N.pow_nonzero 2 s). lia. }
    (* i <= 8, since v >= 128 *)
    assert (Hi8 : (i <= 8)%N).
    { destruct (N.le_gt_cases i 8) as [?|Hgt]; [assumption|exfalso].
      assert (Hi9 : i = 9%N) by lia. subst i s.
      change (7 * 9)%N with 63%N in Hlt.
      rewrite pow2_63_val, pow2_64_val in Hlt. lia. }
    pose proof (pow_step s) as Hp.
    set (P := (2 ^ s)%N) in *.
    set (q := (v / 128)%N) in *. set (r := (v mod 128)%N) in *.
    assert (Hqr : v = (128 * q + r)%N).
    { subst q r. apply N.div_mod. lia. }
    rewrite IH; [|lia|lia|lia|lia].
    f_equal. f_equal. rewrite Hp, Hqr. lia.
Qed.

Lemma uvarint_roundtrip : S_uvarint_roundtrip.
Proof.
  intros x rest Hx. unfold read_uvarint, put_uvarint.
  rewrite two64_eq in Hx.
  assert (H0 : (x * 2 ^ 0 + 0 < 2 ^ 64)%N).
  { change (2 ^ 0)%N with 1%N. lia. }
  rewrite uvarint_loop; [|lia|lia|lia|exact H0].
  change (2 ^ 0)%N with 1%N. f_equal. f_equal. lia.
Qed.

(** * Frames *)

Lemma to_int64_small n : (n < two63)%N -> to_int64 n = Z.of_N n.
Proof.
  intros H. unfold to_int64. apply N.ltb_lt in H. rewrite H. reflexivity.
Qed.

Lemma firstn_len_app {A} (p rest : list A) :
  firstn (N.to_nat (N.of_nat (length p))) (p ++ rest) = p.
Proof.
  rewrite Nat2N.id. rewrite firstn_app, Nat.sub_diag, firstn_all. cbn [firstn].
  apply app_nil_r.
Qed.

Lemma frame_decode_encode uc p rest :
  (N.of_nat (length p) < two63)%N ->
  frame_decode uc (frame_encode p ++ rest) =
    if (uc && (frame_cap <? N.of_nat (length p))%N)%bool then Err EBadInput
    else if (Z.of_N frame_cap <? Z.of_N (N.of_nat (length p)))%Z then Err EBadInput
    else Ok p.
Proof.
  intros Hlt. unfold frame_decode, frame_encode.
  rewrite <- app_assoc.
  pose proof two63_lt_two64.
  rewrite uvarint_roundtrip by lia.
  destruct (uc && (frame_cap <? N.of_nat (length p))%N)%bool; [reflexivity|].
  cbv zeta. rewrite to_int64_small by assumption.
  destruct (Z.of_N frame_cap <? Z.of_N (N.of_nat (length p)))%Z; [reflexivity|].
  assert (H1 : (Z.of_N (N.of_nat (length p)) <? 0)%Z = false) by lia.
  rewrite H1.
  assert (H2 : (N.of_nat (length (p ++ rest)) <? N.of_nat (length p))%N = false).
  { rewrite app_length. lia. }
  rewrite H2. rewrite firstn_len_app. reflexivity.
Qed.

Lemma frame_roundtrip : S_frame_roundtrip.
Proof.
  intros uc p rest Hle. pose proof frame_cap_lt_two63.
  rewrite frame_decode_encode by lia.
  assert (H1 : (frame_cap <? N.of_nat (length p))%N = false) by lia.
  rewrite H1, andb_false_r.
  assert (H2 : (Z.of_N frame_cap <? Z.of_N (N.of_nat (length p)))%Z = false) by lia.
  rewrite H2. reflexivity.
Qed.

Lemma frame_oversize_refused : S_frame_oversize_refused.
Proof.
  intros uc p rest Hgt Hlt.
  rewrite frame_decode_encode by lia.
  assert (H2 : (Z.of_N frame_cap <? Z.of_N (N.of_nat (length p)))%Z = true) by lia.
  rewrite H2. destruct (uc && _)%bool; reflexivity.
Qed.

Lemma frame_total : S_frame_total.
Proof.
  intros bs _. unfold frame_decode.
  destruct (read_uvarint bs) as [[len64 rest]|e]; [|exact I].
  cbn [andb].
  destruct (frame_cap <? len64)%N eqn:Hc; [exact I|].
  apply N.ltb_ge in Hc. pose proof frame_cap_lt_two63.
  cbv zeta. rewrite to_int64_small by lia.
  destruct (Z.of_N frame_cap <? Z.of_N len64)%Z; [exact I|].
  assert (H1 : (Z.of_N len64 <? 0)%Z = false) by lia.
  rewrite H1.
  destruct (N.of_nat (length rest) <? len64)%N; [exact I|].
  pose proof (firstn_le_length (N.to_nat len64) rest). lia.
Qed.

Lemma frame_refuted_signed : S_frame_refuted_signed.
Proof.
  exists [128;128;128;128;128;128;128;128;128;1]%N. split.
  - unfold bytes_ok. repeat (constructor; [lia|]). constructor.
  - vm_compute. reflexivity.
Qed.

(** * Snapshot frames *)

Lemma snap_decode_S c hi lo rest :
  snap_decode (S c) (hi :: lo :: rest) =
  if (length rest <? N.to_nat (hi * 256 + lo))%nat then None
  else match snap_decode c (skipn (N.to_nat (hi * 256 + lo)) rest) with
       | Some fs => Some (firstn (N.to_nat (hi * 256 + lo)) rest :: fs)
       | None => None
       end.
Proof. reflexivity. Qed.

Lemma u16_recompose n : (n < 65536)%N -> ((n / 256) mod 256 * 256 + n mod 256 = n)%N.
Proof. intros. lia. Qed.

Lemma snap_decode_frames :
  forall (frames : list bytes) (tail : bytes),
    Forall (fun f => (N.of_nat (length f) < 65536)%N) frames ->
    snap_decode (length frames) (flat_map snap_frame frames ++ tail) = Some frames.
Proof.
  induction frames as [|f frames IH]; intros tail HF; [reflexivity|].
  inversion HF as [|? ? Hf HF']; subst.
  cbn [flat_map length]. unfold snap_frame at 1. unfold u16_bytes.
  rewrite <- !app_assoc. cbn [app].
  rewrite snap_decode_S. rewrite u16_recompose by assumption.
  rewrite Nat2N.id.
  assert (H1 : (length (f ++ flat_map snap_frame frames ++ tail) <? length f)%nat = false).
  { rewrite app_length. lia. }
  rewrite H1.
  rewrite skipn_app, Nat.sub_diag, skipn_all. cbn [skipn app].
  rewrite IH by assumption.
  rewrite firstn_app, Nat.sub_diag, firstn_all. cbn [firstn].
  rewrite app_nil_r. reflexivity.
Qed.

Lemma snap_encode_Ok ro frames bs :
  snap_encode ro frames = Ok bs -> bs = flat_map snap_frame frames ++ [0%N].
Proof.
  unfold snap_encode.
  destruct (ro && _)%bool; intros H; [discriminate|].
  inversion H. reflexivity.
Qed.

Lemma snap_roundtrip : S_snap_roundtrip.
Proof.
  intros ro frames bs HF Henc.
  apply snap_encode_Ok in Henc. subst bs.
  apply snap_decode_frames.
  eapply Forall_impl; [|exact HF]. intros f Hf. apply lt_65536_N. exact Hf.
Qed.

Lemma snap_save_ok_or_error : S_snap_save_ok_or_error.
Proof.
  intros frames bs Henc.
  assert (HF : Forall (fun f => (N.of_nat (length f) < 65536)%N) frames).
  { pose proof Henc as Henc'. unfold snap_encode in Henc'. cbn [andb] in Henc'.
    destruct (existsb (fun f => (65536 <=? N.of_nat (length f))%N) frames) eqn:He;
      [discriminate|].
    apply Forall_forall. intros f Hin.
    destruct (65536 <=? N.of_nat (length f))%N eqn:Hc.
    - exfalso. assert (existsb (fun f => (65536 <=? N.of_nat (length f))%N) frames = true).
      { apply existsb_exists. exists f. split; assumption. }
      congruence.
    - apply N.leb_gt in Hc. exact Hc. }
  apply snap_encode_Ok in Henc. subst bs.
  apply snap_decode_frames. exact HF.
Qed.

Lemma snap_decode_1_zero tail : snap_decode 1 (0%N :: 0%N :: tail) = Some [[]].
Proof. reflexivity. Qed.

Lemma some_nil_neq (F : bytes) : length F <> 0%nat -> Some [@nil N] <> Some [F].
Proof.
  intros HF H. inversion H as [H0]. apply HF. rewrite <- H0. reflexivity.
Qed.

Lemma snap_refuted_truncation : S_snap_refuted_truncation.
Proof.
  set (F := repeat 7%N (N.to_nat 65536)).
  exists [F], (flat_map snap_frame [F] ++ [0%N]). split.
  - reflexivity.
  - cbn [flat_map length]. unfold snap_frame, u16_bytes.
    assert (HL : length F = N.to_nat 65536) by (subst F; apply repeat_length).
    rewrite HL, N2Nat.id.
    change ((65536 / 256) mod 256)%N with 0%N.
    change (65536 mod 256)%N with 0%N.
    rewrite <- !app_assoc. cbn [app].
    rewrite snap_decode_1_zero.
    apply some_nil_neq. rewrite HL. lia.
Qed.

(** * GetQueue *)

Lemma get_queue_total : S_get_queue_total.
Proof. intros qlen tasks. reflexivity. Qed.

Lemma get_queue_keeps_unfinished : S_get_queue_keeps_unfinished.
Proof.
  unfold S_get_queue_keeps_unfinished. intros qlen tasks h st Hin Hst.
  eexists. split; [apply get_queue_total|].
  apply in_map_iff. exists (h, st). split; [reflexivity|].
  apply filter_In. split; [exact Hin|].
  simpl. destruct (N.eqb_spec st 2) as [E|E]; [contradiction | reflexivity].
Qed.

Lemma get_queue_refuted : S_get_queue_refuted.
Proof.
  exists 0%nat, [(1%N, 2%N)]. split.
  - cbn [length]. lia.
  - reflexivity.
Qed.

Print Assumptions uvarint_roundtrip.
Print Assumptions frame_roundtrip.
Print Assumptions frame_oversize_refused.
Print Assumptions frame_total.
Print Assumptions frame_refuted_signed.
Print Assumptions snap_roundtrip.
Print Assumptions snap_save_ok_or_error.
Print Assumptions snap_refuted_truncation.
Print Assumptions get_queue_total.
Print Assumptions get_queue_refuted.
Print Assumptions get_queue_keeps_unfinished.

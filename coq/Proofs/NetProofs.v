(** Proofs of the network-convergence statements (C02). *)
From Orbit Require Import Spec.Statements.
From Coq Require Import Lia List.
Import ListNotations.

Local Open Scope nat_scope.

(** * [ufind], hashes of the universe *)

Lemma ufind_some_in U : forall h e, ufind h U = Some e -> In h (map u_hash U) /\ u_hash e = h.
Proof.
  induction U as [|a U IH]; intros h e H; simpl in H.
  - discriminate.
  - destruct (N.eqb (u_hash a) h) eqn:E.
    + apply N.eqb_eq in E. inversion H; subst e. split; [left; exact E | exact E].
    + destruct (IH h e H) as [H1 H2]. split; [right; exact H1 | exact H2].
Qed.

Lemma ufind_in U : forall h, In h (map u_hash U) -> exists e, ufind h U = Some e.
Proof.
  induction U as [|a U IH]; intros h H; simpl in H.
  - contradiction.
  - simpl. destruct (N.eqb (u_hash a) h) eqn:E.
    + exists a. reflexivity.
    + destruct H as [H|H].
      * apply N.eqb_neq in E. contradiction.
      * apply IH. exact H.
Qed.

Lemma ufind_none_notin U h : ufind h U = None -> ~ In h (map u_hash U).
Proof.
  intros H Hin. destruct (ufind_in U h Hin) as [e He]. rewrite He in H. discriminate.
Qed.

Lemma ufind_app U V h :
  ufind h (U ++ V) = match ufind h U with Some e => Some e | None => ufind h V end.
Proof.
  induction U as [|a U IH]; simpl.
  - reflexivity.
  - destruct (N.eqb (u_hash a) h); [reflexivity | exact IH].
Qed.

(** * reachability *)

Lemma ureach_trans U a b c : ureach U a b -> ureach U b c -> ureach U a c.
Proof.
  intros H; induction H as [h | h e h' h'' Hf Hl Hr IH]; intros Hc.
  - exact Hc.
  - eapply ureach_step; [exact Hf | exact Hl | apply IH; exact Hc].
Qed.

Lemma ureach_app U V a b : ureach U a b -> ureach (U ++ V) a b.
Proof.
  intros H; induction H as [h | h e h' h'' Hf Hl Hr IH].
  - apply ureach_refl.
  - eapply ureach_step; [| exact Hl | exact IH].
    rewrite ufind_app, Hf. reflexivity.
Qed.

Lemma ureach_src_exists U a b : ureach U a b -> In b (map u_hash U) -> In a (map u_hash U).
Proof.
  intros H Hb. destruct H as [h | h e h' h'' Hf Hl Hr].
  - exact Hb.
  - apply (ufind_some_in U h e Hf).
Qed.

(** * [closure] and [anc_set] *)

Definition weight (U : list uent) (acc : list N) : nat :=
  length (flat_map u_links (filter (fun e => negb (memN (u_hash e) acc)) U)).

Lemma weight_le U acc : weight U acc <= length (flat_map u_links U).
Proof.
  unfold weight. induction U as [|a U IH]; simpl.
  - lia.
  - destruct (negb (memN (u_hash a) acc)); simpl; rewrite ?app_length; lia.
Qed.

Lemma memN_app_false x a b : memN x (a ++ b) = memN x a || memN x b.
Proof. unfold memN. apply existsb_app. Qed.

Lemma weight_push U : forall h e acc,
  ufind h U = Some e -> memN h acc = false ->
  weight U (acc ++ [h]) + length (u_links e) <= weight U acc.
Proof.
  unfold weight. induction U as [|a U IH]; intros h e acc Hf Hm; simpl in Hf.
  - discriminate.
  - assert (Hmono : length (flat_map u_links (filter (fun e0 => negb (memN (u_hash e0) (acc ++ [h]))) U))
                    <= length (flat_map u_links (filter (fun e0 => negb (memN (u_hash e0) acc)) U))).
    { clear. induction U as [|b U IHU]; simpl; [lia|].
      rewrite memN_app_false. destruct (memN (u_hash b) acc); simpl.
      - exact IHU.
      - destruct (N.eqb (u_hash b) h); simpl; rewrite ?app_length; lia. }
    simpl. rewrite memN_app_false.
    destruct (N.eqb (u_hash a) h) eqn:E.
    + apply N.eqb_eq in E. inversion Hf; subst e. rewrite E, Hm. simpl.
      rewrite N.eqb_refl. simpl. rewrite app_length. lia.
    + specialize (IH h e acc Hf Hm).
      destruct (memN (u_hash a) acc); simpl.
      * exact IH.
      * rewrite E. simpl. rewrite ?app_length. lia.
Qed.

Lemma closure_in_U U : forall fuel todo acc,
  (forall x, In x acc -> In x (map u_hash U)) ->
  forall x, In x (closure fuel U todo acc) -> In x (map u_hash U).
Proof.
  induction fuel as [|f IH]; intros todo acc Hacc x Hx; simpl in Hx.
  - apply Hacc; exact Hx.
  - destruct todo as [|h r].
    + apply Hacc; exact Hx.
    + destruct (memN h acc).
      * apply (IH r acc Hacc x Hx).
      * destruct (ufind h U) as [e|] eqn:Hf.
        -- apply (IH (u_links e ++ r) (acc ++ [h])); [| exact Hx].
           intros y Hy. apply in_app_or in Hy. destruct Hy as [Hy|Hy].
           ++ apply Hacc; exact Hy.
           ++ destruct Hy as [Hy|[]]. subst y. apply (ufind_some_in U h e Hf).
        -- apply (IH r acc Hacc x Hx).
Qed.

Lemma closure_spec U : forall fuel todo acc,
  length todo + weight U acc < fuel ->
  (forall x e y, In x acc -> ufind x U = Some e -> In y (u_links e) ->
                 In y (map u_hash U) -> In y acc \/ In y todo) ->
  (forall x, In x acc -> In x (closure fuel U todo acc)) /\
  (forall x, In x todo -> In x (map u_hash U) -> In x (closure fuel U todo acc)) /\
  (forall x e y, In x (closure fuel U todo acc) -> ufind x U = Some e -> In y (u_links e) ->
                 In y (map u_hash U) -> In y (closure fuel U todo acc)).
Proof.
  induction fuel as [|f IH]; intros todo acc Hfuel Hinv.
  - lia.
  - destruct todo as [|h r]; simpl.
    + split; [intros x Hx; exact Hx|]. split; [intros x []|].
      intros x e y Hx Hf Hy HyU. destruct (Hinv x e y Hx Hf Hy HyU) as [H|[]]. exact H.
    + destruct (memN h acc) eqn:Hm.
      * apply memN_In in Hm.
        assert (Hfuel' : length r + weight U acc < f) by (simpl in Hfuel; lia).
        assert (Hinv' : forall x e y, In x acc -> ufind x U = Some e -> In y (u_links e) ->
                                      In y (map u_hash U) -> In y acc \/ In y r).
        { intros x e y Hx Hf Hy HyU. destruct (Hinv x e y Hx Hf Hy HyU) as [H|[H|H]].
          - left; exact H.
          - subst y. left; exact Hm.
          - right; exact H. }
        destruct (IH r acc Hfuel' Hinv') as [R1 [R2 R3]].
        split; [exact R1|]. split; [|exact R3].
        intros x [Hx|Hx] HxU.
        -- subst x. apply R1. exact Hm.
        -- apply R2; assumption.
      * destruct (ufind h U) as [e|] eqn:Hf.
        -- pose proof (weight_push U h e acc Hf Hm) as Hw.
           assert (Hfuel' : length (u_links e ++ r) + weight U (acc ++ [h]) < f)
             by (rewrite app_length; simpl in Hfuel; lia).
           assert (Hinv' : forall x e0 y, In x (acc ++ [h]) -> ufind x U = Some e0 ->
                                          In y (u_links e0) -> In y (map u_hash U) ->
                                          In y (acc ++ [h]) \/ In y (u_links e ++ r)).
           { intros x e0 y Hx Hf0 Hy HyU. apply in_app_or in Hx. destruct Hx as [Hx|Hx].
             - destruct (Hinv x e0 y Hx Hf0 Hy HyU) as [H|[H|H]].
               + left. apply in_or_app. left; exact H.
               + subst y. left. apply in_or_app. right. left. reflexivity.
               + right. apply in_or_app. right; exact H.
             - destruct Hx as [Hx|[]]. subst x. rewrite Hf in Hf0. inversion Hf0; subst e0.
               right. apply in_or_app. left; exact Hy. }
           destruct (IH (u_links e ++ r) (acc ++ [h]) Hfuel' Hinv') as [R1 [R2 R3]].
           split; [|split; [|exact R3]].
           ++ intros x Hx. apply R1. apply in_or_app. left; exact Hx.
           ++ intros x [Hx|Hx] HxU.
              ** subst x. apply R1. apply in_or_app. right. left. reflexivity.
              ** apply R2; [apply in_or_app; right; exact Hx | exact HxU].
        -- assert (Hfuel' : length r + weight U acc < f) by (simpl in Hfuel; lia).
           assert (Hinv' : forall x e y, In x acc -> ufind x U = Some e -> In y (u_links e) ->
                                         In y (map u_hash U) -> In y acc \/ In y r).
           { intros x e y Hx Hf0 Hy HyU. destruct (Hinv x e y Hx Hf0 Hy HyU) as [H|[H|H]].
             - left; exact H.
             - subst y. exfalso. apply (ufind_none_notin U h Hf). exact HyU.
             - right; exact H. }
           destruct (IH r acc Hfuel' Hinv') as [R1 [R2 R3]].
           split; [exact R1|]. split; [|exact R3].
           intros x [Hx|Hx] HxU.
           ++ subst x. exfalso. apply (ufind_none_notin U h Hf). exact HxU.
           ++ apply R2; assumption.
Qed.

Lemma anc_set_in_U U hs x : In x (anc_set U hs) -> In x (map u_hash U).
Proof.
  unfold anc_set. apply closure_in_U. intros y [].
Qed.

Lemma anc_set_complete U hs h x :
  In h hs -> ureach U h x -> In x (map u_hash U) -> In x (anc_set U hs).
Proof.
  intros Hh Hr Hx. unfold anc_set.
  set (fuel := length hs + length (flat_map u_links U) + 1).
  assert (Hfuel : length hs + weight U [] < fuel)
    by (unfold fuel; pose proof (weight_le U []); lia).
  assert (Hinv : forall x e y, In x (@nil N) -> ufind x U = Some e -> In y (u_links e) ->
                               In y (map u_hash U) -> In y (@nil N) \/ In y hs)
    by (intros ? ? ? []).
  destruct (closure_spec U fuel hs [] Hfuel Hinv) as [_ [R2 R3]].
  assert (Hh0 : In h (closure fuel U hs [])).
  { apply R2; [exact Hh|]. apply (ureach_src_exists U h x Hr Hx). }
  clear Hh Hfuel Hinv R2.
  induction Hr as [h | h e h' h'' Hf Hl Hr IH].
  - exact Hh0.
  - apply IH; [exact Hx|].
    apply (R3 h e h' Hh0 Hf Hl). apply (ureach_src_exists U h' h'' Hr Hx).
Qed.

(** * acyclicity: links point to earlier entries *)

Fixpoint rank (h : N) (U : list uent) : nat :=
  match U with
  | [] => 0
  | e :: r => if (u_hash e =? h)%N then 0 else S (rank h r)
  end.

Lemma rank_found U : forall h e, ufind h U = Some e -> rank h U < length U.
Proof.
  induction U as [|a U IH]; intros h e H; simpl in *.
  - discriminate.
  - destruct (N.eqb (u_hash a) h); [lia|]. specialize (IH h e H). lia.
Qed.

Lemma rank_app_found U V : forall h e, ufind h U = Some e -> rank h (U ++ V) = rank h U.
Proof.
  induction U as [|a U IH]; intros h e H; simpl in *.
  - discriminate.
  - destruct (N.eqb (u_hash a) h); [reflexivity|]. rewrite (IH h e H). reflexivity.
Qed.

Lemma rank_app_notfound U V : forall h, ufind h U = None -> rank h (U ++ V) = length U + rank h V.
Proof.
  induction U as [|a U IH]; intros h H; simpl in *.
  - reflexivity.
  - destruct (N.eqb (u_hash a) h); [discriminate|]. rewrite (IH h H). reflexivity.
Qed.

Definition acyc (U : list uent) : Prop :=
  forall h e y, ufind h U = Some e -> In y (u_links e) -> rank y U < rank h U.

Lemma acyc_nil : acyc [].
Proof. intros h e y H. discriminate. Qed.

Lemma acyc_snoc U e0 :
  acyc U -> ~ In (u_hash e0) (map u_hash U) ->
  (forall y, In y (u_links e0) -> In y (map u_hash U)) ->
  acyc (U ++ [e0]).
Proof.
  intros HA Hfresh Hlinks h e y Hf Hy.
  rewrite ufind_app in Hf. destruct (ufind h U) as [e'|] eqn:HfU.
  - inversion Hf; subst e'.
    pose proof (HA h e y HfU Hy) as Hlt.
    rewrite (rank_app_found U [e0] h e HfU).
    destruct (ufind y U) as [ey|] eqn:Hfy.
    + rewrite (rank_app_found U [e0] y ey Hfy). exact Hlt.
    + exfalso. pose proof (rank_found U h e HfU) as Hh.
      pose proof (rank_app_notfound U [] y Hfy) as Hr. rewrite app_nil_r in Hr.
      simpl in Hr. lia.
  - simpl in Hf. destruct (N.eqb (u_hash e0) h) eqn:E; [|discriminate].
    inversion Hf; subst e.
    rewrite (rank_app_notfound U [e0] h HfU).
    destruct (ufind_in U y (Hlinks y Hy)) as [ey Hey].
    rewrite (rank_app_found U [e0] y ey Hey).
    pose proof (rank_found U y ey Hey). lia.
Qed.

Lemma heads_cover U log :
  acyc U ->
  forall k x, length U - rank x U <= k -> In x log ->
  exists c, In c (heads_of U log) /\ ureach U c x.
Proof.
  intros HA. induction k as [|k IH]; intros x Hk Hx.
  - destruct (existsb (fun y => memN x (links_of U y)) log) eqn:Hex.
    + exfalso. apply existsb_exists in Hex. destruct Hex as [y [Hy Hm]].
      unfold links_of in Hm. destruct (ufind y U) as [e|] eqn:Hf; [|discriminate].
      apply memN_In in Hm. pose proof (HA y e x Hf Hm). pose proof (rank_found U y e Hf). lia.
    + exists x. split; [|apply ureach_refl].
      unfold heads_of. apply filter_In. split; [exact Hx|]. rewrite Hex. reflexivity.
  - destruct (existsb (fun y => memN x (links_of U y)) log) eqn:Hex.
    + apply existsb_exists in Hex. destruct Hex as [y [Hy Hm]].
      unfold links_of in Hm. destruct (ufind y U) as [e|] eqn:Hf; [|discriminate].
      apply memN_In in Hm. pose proof (HA y e x Hf Hm) as H1.
      pose proof (rank_found U y e Hf) as H2.
      assert (Hk' : length U - rank y U <= k) by lia.
      destruct (IH y Hk' Hy) as [c [Hc Hr]].
      exists c. split; [exact Hc|].
      apply (ureach_trans U c y x Hr).
      eapply ureach_step; [exact Hf | exact Hm | apply ureach_refl].
    + exists x. split; [|apply ureach_refl].
      unfold heads_of. apply filter_In. split; [exact Hx|]. rewrite Hex. reflexivity.
Qed.

Lemma heads_of_sub U log x : In x (heads_of U log) -> In x log.
Proof. unfold heads_of. intros H. apply filter_In in H. apply H. Qed.

(** * [unionN], [set_rep] *)

Lemma unionN_In b : forall a x, In x (unionN a b) <-> In x a \/ In x b.
Proof.
  unfold unionN. induction b as [|y b IH]; intros a x; simpl.
  - tauto.
  - rewrite IH. destruct (memN y a) eqn:Hm.
    + apply memN_In in Hm. split.
      * intros [H|H]; [left; exact H | right; right; exact H].
      * intros [H|[H|H]]; [left; exact H | subst y; left; exact Hm | right; exact H].
    + rewrite in_app_iff. simpl. tauto.
Qed.

Lemma set_rep_length (x : nrep) : forall i l, length (set_rep i x l) = length l.
Proof.
  induction i as [|i IH]; intros [|a l]; try reflexivity.
  change (set_rep (S i) x (a :: l)) with (a :: set_rep i x l).
  simpl. rewrite IH. reflexivity.
Qed.

Lemma nth_error_set_rep_eq (x : nrep) : forall i l,
  i < length l -> nth_error (set_rep i x l) i = Some x.
Proof.
  induction i as [|i IH]; intros [|a l] H; simpl in H; try lia.
  - reflexivity.
  - change (set_rep (S i) x (a :: l)) with (a :: set_rep i x l).
    simpl. apply IH. lia.
Qed.

Lemma nth_error_set_rep_neq (x : nrep) : forall i l j,
  i <> j -> nth_error (set_rep i x l) j = nth_error l j.
Proof.
  induction i as [|i IH]; intros [|a l] j H.
  - reflexivity.
  - destruct j as [|j]; [exfalso; apply H; reflexivity | reflexivity].
  - reflexivity.
  - change (set_rep (S i) x (a :: l)) with (a :: set_rep i x l).
    destruct j as [|j]; simpl; [reflexivity|].
    apply IH. intros E. apply H. rewrite E. reflexivity.
Qed.

Lemma nth_error_set_rep_cases (x z : nrep) i l j y :
  nth_error l i = Some z ->
  nth_error (set_rep i x l) j = Some y ->
  (j = i /\ y = x) \/ (j <> i /\ nth_error l j = Some y).
Proof.
  intros Hz H. destruct (Nat.eq_dec i j) as [E|E].
  - subst j. left. rewrite nth_error_set_rep_eq in H.
    + inversion H. split; reflexivity.
    + apply nth_error_Some. rewrite Hz. discriminate.
  - right. rewrite nth_error_set_rep_neq in H by exact E.
    split; [intros E'; apply E; symmetry; exact E' | exact H].
Qed.

(** * the run invariant *)

Record ninv (s : nstate) : Prop := mkNI {
  ni_acyc : acyc (n_univ s);
  ni_reps : forall i rp, nth_error (n_reps s) i = Some rp ->
      (forall x, In x (n_log rp) -> In x (map u_hash (n_univ s))) /\
      (forall x, In x (n_log rp) -> exists c, In c (n_cached rp) /\ ureach (n_univ s) c x) /\
      (forall h, In (h, i) (n_owner s) -> In h (n_log rp));
  ni_own : forall h, In h (map u_hash (n_univ s)) ->
      exists i, In (h, i) (n_owner s) /\ i < length (n_reps s)
}.

Lemma ninv_init n : ninv (ninit n).
Proof.
  constructor; simpl.
  - apply acyc_nil.
  - intros i rp H. apply nth_error_In in H. apply repeat_spec in H. subst rp. simpl.
    split; [intros x []|]. split; [intros x []|]. intros h [].
  - intros h [].
Qed.

Lemma ninv_step s st : ninv s -> ninv (nstep_run s st).
Proof.
  intros [HA HR HO]. destruct st as [r h | r got]; simpl.
  - (* NWrite *)
    destruct (nth_error (n_reps s) r) as [rp|] eqn:Hr; [|constructor; assumption].
    destruct (memN h (map u_hash (n_univ s))) eqn:Hm; [constructor; assumption|].
    assert (Hfresh : ~ In h (map u_hash (n_univ s))).
    { intros Hin. apply memN_In in Hin. rewrite Hin in Hm. discriminate. }
    destruct (HR r rp Hr) as [Rsub [Rcov Rown]].
    set (e := mkU h (heads_of (n_univ s) (n_log rp)) true).
    assert (Hrlt : r < length (n_reps s)) by (apply nth_error_Some; rewrite Hr; discriminate).
    constructor; simpl.
    + apply acyc_snoc.
      * exact HA.
      * exact Hfresh.
      * intros y Hy. simpl in Hy. apply Rsub. apply (heads_of_sub _ _ _ Hy).
    + intros i rp' Hi. rewrite map_app. simpl.
      destruct (nth_error_set_rep_cases _ _ _ _ _ _ Hr Hi) as [[Ei Erp]|[Ei Hi']].
      * subst i rp'. simpl. split; [|split].
        -- intros x Hx. apply in_app_or in Hx. apply in_or_app. destruct Hx as [Hx|Hx].
           ++ left. apply Rsub; exact Hx.
           ++ right. exact Hx.
        -- intros x Hx. apply in_app_or in Hx. destruct Hx as [Hx|Hx].
           ++ destruct (Rcov x Hx) as [c [Hc Hreach]]. exists c. split; [right; exact Hc|].
              apply ureach_app. exact Hreach.
           ++ destruct Hx as [Hx|[]]. subst x. exists h. split; [left; reflexivity|].
              apply ureach_refl.
        -- intros h' Hh'. apply in_app_or in Hh'. apply in_or_app. destruct Hh' as [Hh'|Hh'].
           ++ left. apply Rown; exact Hh'.
           ++ destruct Hh' as [Hh'|[]]. inversion Hh'. right. left. reflexivity.
      * destruct (HR i rp' Hi') as [Rsub' [Rcov' Rown']]. split; [|split].
        -- intros x Hx. apply in_or_app. left. apply Rsub'; exact Hx.
        -- intros x Hx. destruct (Rcov' x Hx) as [c [Hc Hreach]]. exists c.
           split; [exact Hc|]. apply ureach_app. exact Hreach.
        -- intros h' Hh'. apply in_app_or in Hh'. destruct Hh' as [Hh'|Hh'].
           ++ apply Rown'; exact Hh'.
           ++ destruct Hh' as [Hh'|[]]. inversion Hh'. exfalso. apply Ei. symmetry. assumption.
    + intros h' Hh'. rewrite map_app in Hh'. apply in_app_or in Hh'.
      rewrite set_rep_length. destruct Hh' as [Hh'|Hh'].
      * destruct (HO h' Hh') as [i [Hi Hlt]]. exists i. split; [|exact Hlt].
        apply in_or_app. left; exact Hi.
      * destruct Hh' as [Hh'|[]]. simpl in Hh'. subst h'. exists r. split; [|exact Hrlt].
        apply in_or_app. right. left. reflexivity.
  - (* NGain *)
    destruct (nth_error (n_reps s) r) as [rp|] eqn:Hr; [|constructor; assumption].
    destruct (HR r rp Hr) as [Rsub [Rcov Rown]].
    constructor; simpl.
    + exact HA.
    + intros i rp' Hi.
      destruct (nth_error_set_rep_cases _ _ _ _ _ _ Hr Hi) as [[Ei Erp]|[Ei Hi']].
      * subst i rp'. simpl. split; [|split].
        -- intros x Hx. apply unionN_In in Hx. destruct Hx as [Hx|Hx].
           ++ apply Rsub; exact Hx.
           ++ apply filter_In in Hx. destruct Hx as [_ Hx]. apply memN_In in Hx. exact Hx.
        -- intros x Hx.
           destruct (heads_cover (n_univ s) _ HA _ x (le_n _) Hx) as [c [Hc Hreach]].
           exists c. split; [|exact Hreach]. apply unionN_In. right. exact Hc.
        -- intros h' Hh'. apply unionN_In. left. apply Rown; exact Hh'.
      * apply HR. exact Hi'.
    + intros h' Hh'. rewrite set_rep_length. apply HO. exact Hh'.
Qed.

Lemma ninv_run steps : forall s, ninv s -> ninv (nrun steps s).
Proof.
  unfold nrun. induction steps as [|st steps IH]; intros s H; simpl.
  - exact H.
  - apply IH. apply ninv_step. exact H.
Qed.

Lemma cover_of_inv s i rp :
  ninv s -> nth_error (n_reps s) i = Some rp ->
  (forall h, In h (n_log rp) -> In h (anc_set (n_univ s) (n_cached rp))) /\
  (forall h, In (h, i) (n_owner s) -> In h (n_log rp)).
Proof.
  intros [HA HR HO] Hi. destruct (HR i rp Hi) as [Rsub [Rcov Rown]].
  split; [|exact Rown].
  intros h Hh. destruct (Rcov h Hh) as [c [Hc Hreach]].
  apply (anc_set_complete _ _ c h Hc Hreach). apply Rsub; exact Hh.
Qed.

Lemma net_cover : S_net_cover.
Proof.
  unfold S_net_cover. intros n steps i rp. cbv zeta. intros Hi.
  apply cover_of_inv; [|exact Hi].
  apply ninv_run. apply ninv_init.
Qed.

(** * the final phase *)

Lemma final_rep_log U : forall senders b x,
  In x (n_log (final_rep U senders b)) <->
  In x (n_log b) \/ exists a, In a senders /\ In x (anc_set U (n_cached a)).
Proof.
  unfold final_rep. induction senders as [|a senders IH]; intros b x; simpl.
  - split; [intros H; left; exact H|]. intros [H|[a [[] _]]]. exact H.
  - rewrite IH. unfold exchange. simpl. rewrite unionN_In. split.
    + intros [[H|H]|[a' [Ha' Hx]]].
      * left; exact H.
      * right. exists a. split; [left; reflexivity | exact H].
      * right. exists a'. split; [right; exact Ha' | exact Hx].
    + intros [H|[a' [[Ha'|Ha'] Hx]]].
      * left; left; exact H.
      * subst a'. left; right; exact Hx.
      * right. exists a'. split; assumption.
Qed.

Lemma final_log_exact s b rb :
  ninv s -> nth_error (n_reps (final_phase s)) b = Some rb ->
  forall x, In x (n_log rb) <-> In x (map u_hash (n_univ s)).
Proof.
  intros Hinv Hb x. pose proof Hinv as [HA HR HO].
  simpl in Hb. destruct (nth_error (n_reps s) b) as [rb0|] eqn:Hb0.
  2:{ rewrite nth_error_map, Hb0 in Hb. discriminate. }
  rewrite nth_error_map, Hb0 in Hb. simpl in Hb. inversion Hb; subst rb. clear Hb.
  rewrite final_rep_log. split.
  - intros [H|[a [Ha H]]].
    + destruct (HR b rb0 Hb0) as [Rsub _]. apply Rsub; exact H.
    + apply (anc_set_in_U _ _ _ H).
  - intros Hx. right. destruct (HO x Hx) as [i [Hown Hlt]].
    destruct (nth_error (n_reps s) i) as [rpi|] eqn:Hi.
    2:{ apply nth_error_None in Hi. lia. }
    exists rpi. split; [apply (nth_error_In _ _ Hi)|].
    destruct (cover_of_inv s i rpi Hinv Hi) as [Hcov Hown'].
    apply Hcov. apply Hown'. exact Hown.
Qed.

Lemma net_converges : S_net_converges.
Proof.
  unfold S_net_converges. intros n steps a b ra rb Hn. cbv zeta. intros Ha Hb.
  assert (Hinv : ninv (nrun steps (ninit n))) by (apply ninv_run; apply ninv_init).
  pose proof (final_log_exact _ a ra Hinv Ha) as Ea.
  pose proof (final_log_exact _ b rb Hinv Hb) as Eb.
  split.
  - intros x. rewrite Ea, Eb. tauto.
  - intros h Hh. apply Ea. exact Hh.
Qed.

(** * refutation without remote heads *)

Lemma net_refuted_without_remote_heads : S_net_refuted_without_remote_heads.
Proof.
  unfold S_net_refuted_without_remote_heads.
  exists [mkU 1%N [] true], (mkNR [1%N] [1%N]), (mkNR [] []).
  split.
  - intros h Hh. exact Hh.
  - intros H. specialize (H 1%N). vm_compute in H.
    destruct H as [_ H]. destruct (H (or_introl eq_refl)).
Qed.

Print Assumptions net_cover.
Print Assumptions net_converges.
Print Assumptions net_refuted_without_remote_heads.

(** Proofs about the address model (C14). *)
From Orbit Require Import Model.Address.
Local Open Scope N_scope.

(** * path.Clean at segment level *)

Lemma all_names_app a b : all_names (a ++ b) = all_names a && all_names b.
Proof. apply forallb_app. Qed.

Lemma all_names_rev a : all_names (rev a) = all_names a.
Proof.
  induction a as [|x a IH]; simpl; [reflexivity|].
  rewrite all_names_app, IH. simpl. rewrite andb_true_r. apply andb_comm.
Qed.

Lemma all_names_tl a : all_names a = true -> all_names (tl a) = true.
Proof. destruct a; simpl; [auto|]. intros E. apply andb_true_iff in E. tauto. Qed.

(** the cleaned path consists of plain segments only *)
Lemma clean_acc_names l : forall acc, all_names acc = true -> all_names (clean_acc acc l) = true.
Proof.
  induction l as [|s l IH]; intros acc Ha; simpl.
  - rewrite all_names_rev. exact Ha.
  - destruct s; apply IH; auto using all_names_tl.
Qed.

Lemma clean_rooted_names l : all_names (clean_rooted l) = true.
Proof. apply clean_acc_names. reflexivity. Qed.

(** cleaning a path of plain segments changes nothing *)
Lemma clean_acc_id l : forall acc, all_names l = true -> clean_acc acc l = rev acc ++ l.
Proof.
  induction l as [|s l IH]; intros acc Hl; simpl.
  - symmetry. apply app_nil_r.
  - simpl in Hl. destruct s; try discriminate. rewrite IH by exact Hl.
    simpl. rewrite <- app_assoc. reflexivity.
Qed.

Lemma clean_rooted_id l : all_names l = true -> clean_rooted l = l.
Proof. intros. unfold clean_rooted. rewrite clean_acc_id by assumption. reflexivity. Qed.

Lemma clean_rooted_idem l : clean_rooted (clean_rooted l) = clean_rooted l.
Proof. apply clean_rooted_id, clean_rooted_names. Qed.

(** [no_dotdot] is defined in Model/Address.v (the model of address.IsValid uses it) *)
Lemma all_names_no_dotdot l : all_names l = true -> no_dotdot l = true.
Proof.
  induction l as [|s l IH]; simpl; [reflexivity|].
  destruct s; try discriminate. exact IH.
Qed.

Lemma norm_path_names p : all_names p = true -> norm_path p = p.
Proof. destruct p as [|[] [|]]; try reflexivity; discriminate. Qed.

Lemma no_dotdot_norm_path p : no_dotdot p = true -> no_dotdot (norm_path p) = true.
Proof. destruct p as [|[] [|]]; auto. Qed.

(** without ".." the kept prefix is never touched *)
Lemma clean_acc_no_dotdot l : forall acc, no_dotdot l = true ->
  clean_acc acc l = rev acc ++ clean_acc [] l.
Proof.
  induction l as [|s l IH]; intros acc Hl; simpl.
  - symmetry. apply app_nil_r.
  - simpl in Hl. destruct s; try discriminate; simpl in Hl; try (apply IH; exact Hl).
    rewrite (IH (SName n :: acc)), (IH [SName n]) by exact Hl.
    simpl. rewrite <- app_assoc. reflexivity.
Qed.

Lemma join_no_dotdot root name : no_dotdot name = true ->
  join_orbitdb root name = SName orbitdb_tok :: SName root :: clean_rooted name.
Proof.
  intros Hn. unfold join_orbitdb, clean_rooted. simpl.
  rewrite clean_acc_no_dotdot by exact Hn. reflexivity.
Qed.

(** * Create/Open decision table *)

Lemma create_rules :
  (forall have ow, create_decision have ow = Refused <-> (have = true /\ ow = false)) /\
  (forall have lo, open_decision have lo = Refused <-> (lo = true /\ have = false)) /\
  (* a create that proceeds leaves the marker; a second create without overwrite is refused,
     with overwrite it proceeds; a local-only open then proceeds *)
  (forall have ow, lrun have [LCreate ow; LCreate false; LCreate true; LOpen true]
                   = [create_decision have ow; Refused; Proceeds; Proceeds]) /\
  (* an instance that never created the database: opening does not leave the marker *)
  (forall lo, lrun false [LOpen lo; LOpen true] = [open_decision false lo; Refused]).
Proof.
  split; [|split; [|split]].
  - intros [] []; simpl; split; intros E; try discriminate; auto; destruct E; discriminate.
  - intros [] []; simpl; split; intros E; try discriminate; auto; destruct E; discriminate.
  - intros [] []; reflexivity.
  - intros []; reflexivity.
Qed.

(** * The table with directories *)

Lemma open_sees_falls_back have d : open_sees true have d = have.
Proof. unfold open_sees. destruct (dopt_is_instance d); reflexivity. Qed.

(** with the fallback the Directory options are irrelevant to every decision *)
Lemma dir_irrelevant : forall memory ops have,
  drun true memory have ops = drun true memory have (map undir ops).
Proof.
  intros memory ops. induction ops as [|o ops IH]; intros have; [reflexivity |].
  destruct o as [ow d | lo d |]; simpl.
  - destruct (create_decision have ow); simpl; rewrite IH; reflexivity.
  - rewrite !open_sees_falls_back. rewrite IH. reflexivity.
  - rewrite IH. reflexivity.
Qed.

(** on disk closing the handles changes nothing *)
Lemma dir_close_on_disk : forall fb have ops,
  drun fb false have (DCloseAll :: ops) = Proceeds :: drun fb false have ops.
Proof. intros. simpl. rewrite andb_true_r. reflexivity. Qed.

(** without Directory options and without closing: the plain table, in memory and on disk,
    with and without the fallback *)
Lemma dir_plain_table : forall fb memory ops have,
  drun fb memory have (map dop_of_lop ops) = lrun have ops.
Proof.
  intros fb memory ops. induction ops as [|o ops IH]; intros have; [reflexivity |].
  destruct o as [ow | lo]; simpl.
  - destruct (create_decision have ow); simpl; rewrite IH; reflexivity.
  - rewrite IH. reflexivity.
Qed.

(** an instance in memory: the rules hold while a handle is open; closing forgets the database *)
Lemma dir_memory_rules : forall fb have ow d1 d2 d3 d4 d5,
  drun fb true have [DCreate ow d1; DCreate false d2; DCreate true d3; DOpen true DUnset; DCloseAll;
                     DOpen true d4; DCreate false d5]
  = [create_decision have ow; Refused; Proceeds; Proceeds; Proceeds; Refused; Proceeds].
Proof. intros [] [] [] d1 d2 d3 [| |k] d5; reflexivity. Qed.

(** the table with the fallback satisfies the property for every sequence of operations, every
    choice of Directory options, on disk and in memory *)
Lemma dir_spec_sound : forall memory ops have seen,
  (have = true -> seen = true) ->
  dlocal_ok memory have seen ops (map decision_code (drun true memory have ops)) = true.
Proof.
  intros memory ops. induction ops as [|o ops IH]; intros have seen Hs; [reflexivity |].
  destruct o as [ow d | lo d |]; simpl.
  - destruct have, ow; simpl.
    all: try rewrite (Hs eq_refl); simpl; rewrite ?orb_true_r; apply IH; auto.
  - rewrite open_sees_falls_back.
    destruct have, lo; simpl.
    all: try rewrite (Hs eq_refl); simpl.
    all: try (destruct seen; simpl); rewrite ?orb_true_r; apply IH; auto; try discriminate.
  - apply IH. destruct memory; simpl; rewrite ?andb_false_r, ?andb_true_r; [discriminate | exact Hs].
Qed.

(** before the repair of Open: a database created with a Directory option other than the
    instance's directory is not found by a local-only Open with the SAME option, which the
    property rejects; with the repair it is found.  Regression witness. *)
Lemma dir_refuted_no_fallback : forall memory ow k,
  let ops := [DCreate ow (DOther k); DOpen true (DOther k)] in
  drun false memory false ops = [Proceeds; Refused] /\
  dlocal_ok memory false false ops (map decision_code (drun false memory false ops)) = false /\
  drun true memory false ops = [Proceeds; Proceeds].
Proof. intros [] [] k; repeat split; reflexivity. Qed.

Section AddressProofs.
  (** the mechanism switch of address.IsValid: every lemma of this section that mentions
      [rd] holds for both values (the code as it stands and the pinned commit) *)
  Variable rd : bool.
  Variable cid_decode : N -> option N.
  Variable Hac : list N -> N.
  Variable H : list seg * N * N -> N.
  Variable types : list N.

  (** the canonical text of a CID decodes to itself *)
  Hypothesis decode_canon : forall n c, cid_decode n = Some c -> cid_decode c = Some c.
  (** content addresses are canonical CIDs, and content addressing is injective *)
  Hypothesis H_cid : forall x, cid_decode (H x) = Some (H x).
  Hypothesis H_inj : forall x y, H x = H y -> x = y.
  Hypothesis Hac_inj : forall x y, Hac x = Hac y -> x = y.

  Notation determine := (determine_address rd cid_decode Hac H types).
  Notation manifest := (manifest_cid Hac H).
  Notation parse := (parse_split rd cid_decode).

  (** ** the address is a function of name, type and effective write list *)
  Lemma addr_function :
    (forall rc c1 c2 name typ w, w <> [] -> determine rc c1 name typ w = determine rc c2 name typ w) /\
    (forall rc c name typ, determine rc c name typ [] = determine rc c name typ [c]).
  Proof.
    split.
    - intros rc c1 c2 name typ w Hw. unfold determine_address, manifest_cid.
      destruct w; [congruence|]. reflexivity.
    - reflexivity.
  Qed.

  (** ** a printed clean address parses to its parts, whatever the switch *)
  Lemma parse_clean (rd' : bool) x c rest :
    cid_decode x = Some c -> all_names rest = true ->
    parse_split rd' cid_decode (print_rooted (SName orbitdb_tok :: SName x :: rest)) = Ok (c, rest).
  Proof.
    intros Hx Hr. unfold parse_split, print_rooted. cbn [trim_orbitdb]. rewrite N.eqb_refl.
    rewrite Hx, (all_names_no_dotdot _ Hr), andb_false_r, (norm_path_names _ Hr). reflexivity.
  Qed.

  (** ** shape of a successful parse of a printed cleaned path *)
  Lemma parse_printed cs r p :
    all_names cs = true ->
    parse (print_rooted cs) = Ok (r, p) ->
    exists x, cs = SName orbitdb_tok :: SName x :: p /\ cid_decode x = Some r.
  Proof.
    intros Hc. destruct cs as [|a [|b rest]].
    - unfold parse_split, print_rooted. simpl. discriminate.
    - unfold parse_split, print_rooted. simpl in *. destruct a; try discriminate.
    - simpl in Hc. destruct a as [| | |o]; try discriminate.
      destruct b as [| | |x]; try discriminate. simpl in Hc.
      destruct (o =? orbitdb_tok) eqn:Eo.
      + apply N.eqb_eq in Eo. subst o. destruct (cid_decode x) as [c|] eqn:Ex.
        * rewrite (parse_clean rd x c rest Ex Hc). intros E. inversion E; subst.
          exists x. auto.
        * unfold parse_split, print_rooted. cbn [trim_orbitdb]. rewrite N.eqb_refl, Ex. discriminate.
      + unfold parse_split, print_rooted. cbn [trim_orbitdb]. rewrite Eo. discriminate.
  Qed.

  Lemma determine_ok rc c name typ w r p :
    determine rc c name typ w = Ok (r, p) ->
    parse (print_rooted (join_orbitdb (manifest c name typ w) name)) = Ok (r, p) /\
    (rc = true -> r = manifest c name typ w).
  Proof.
    unfold determine_address, e_unknown_type, e_name_is_address, e_not_an_address, e_root_mismatch.
    destruct (negb (memN typ types)); [discriminate|].
    destruct (is_valid rd cid_decode name); [discriminate|].
    destruct (parse_split _ _ _) as [[r' p']| |]; try discriminate.
    destruct rc; simpl.
    - destruct (r' =? _) eqn:E; simpl; [|discriminate].
      intros X; inversion X; subst. apply N.eqb_eq in E. auto.
    - intros X; inversion X; subst. split; [reflexivity|discriminate].
  Qed.

  (** ** with the root check: the root is the CID of the manifest of exactly these inputs *)
  Lemma addr_root_is_manifest c name typ w r p :
    determine true c name typ w = Ok (r, p) -> r = manifest c name typ w.
  Proof. intros E. apply determine_ok in E. tauto. Qed.

  (** ** with the root check: different inputs give different addresses *)
  Lemma addr_injective c1 c2 n1 n2 t1 t2 w1 w2 a :
    determine true c1 n1 t1 w1 = Ok a ->
    determine true c2 n2 t2 w2 = Ok a ->
    n1 = n2 /\ t1 = t2 /\ effective_write c1 w1 = effective_write c2 w2.
  Proof.
    destruct a as [r p]. intros E1 E2.
    apply addr_root_is_manifest in E1. apply addr_root_is_manifest in E2.
    unfold manifest_cid in *. rewrite E1 in E2. apply H_inj in E2.
    inversion E2 as [[En Et Ea]]. apply Hac_inj in Ea. auto.
  Qed.

  (** ** an address with a canonical root and a clean path prints and parses back to itself,
      whatever the switch of the parser *)
  Lemma addr_roundtrip_clean (rd' : bool) (a : N * list seg) :
    cid_decode (fst a) = Some (fst a) -> all_names (snd a) = true ->
    addr_parse rd' cid_decode (addr_string a) = Ok a.
  Proof.
    destruct a as [r p]. cbn [fst snd]. intros Hr Hp.
    unfold addr_parse, addr_string, join_orbitdb. cbn [fst snd].
    rewrite clean_rooted_id by exact Hp.
    apply parse_clean; assumption.
  Qed.

  (** ** every produced address (checked or not, by either version of IsValid) has a
      canonical root and a clean path, and prints and parses back to itself (with either
      version of Parse) *)
  Lemma addr_produced_clean rc c name typ w a :
    determine rc c name typ w = Ok a ->
    cid_decode (fst a) = Some (fst a) /\ all_names (snd a) = true.
  Proof.
    destruct a as [r p]. intros E. apply determine_ok in E as [E _].
    apply parse_printed in E as [x [Ecs Ex]]; [|apply clean_rooted_names].
    pose proof (clean_rooted_names (SName orbitdb_tok :: SName (manifest c name typ w) :: name)) as Hn.
    fold (join_orbitdb (manifest c name typ w) name) in Hn. rewrite Ecs in Hn. simpl in Hn.
    cbn [fst snd]. split; [exact (decode_canon _ _ Ex)|exact Hn].
  Qed.

  Lemma addr_roundtrip (rd' : bool) rc c name typ w a :
    determine rc c name typ w = Ok a ->
    addr_parse rd' cid_decode (addr_string a) = Ok a.
  Proof.
    intros E. apply addr_produced_clean in E as [Hr Hp].
    apply addr_roundtrip_clean; assumption.
  Qed.

  (** ** an address whose path has no ".." prints and parses back to the same root and the
      cleaned path (with either version of Parse) *)
  Lemma addr_reprint_no_dotdot (rd' : bool) (a : N * list seg) :
    cid_decode (fst a) = Some (fst a) -> no_dotdot (snd a) = true ->
    addr_parse rd' cid_decode (addr_string a) = Ok (fst a, clean_rooted (snd a)).
  Proof.
    destruct a as [r p]. cbn [fst snd]. intros Hr Hp.
    unfold addr_parse, addr_string. cbn [fst snd].
    rewrite join_no_dotdot by exact Hp.
    apply parse_clean; [exact Hr|apply clean_rooted_names].
  Qed.

  (** ** names without ".." are unaffected by the missing check *)
  Lemma addr_unchecked_same_without_dotdot c name typ w :
    no_dotdot name = true ->
    determine false c name typ w = determine true c name typ w.
  Proof.
    intros Hn. unfold determine_address.
    destruct (negb (memN typ types)); [reflexivity|].
    destruct (is_valid rd cid_decode name); [reflexivity|].
    rewrite join_no_dotdot by exact Hn. unfold manifest_cid.
    rewrite (parse_clean rd _ _ _ (H_cid _) (clean_rooted_names name)).
    rewrite N.eqb_refl. reflexivity.
  Qed.

  (** ** no root check: two different names, one address.
      For any segment [c0] that is a CID (for instance the manifest CID of another
      database) the names "../c0/y" and "./../c0/y" are accepted for every creator,
      registered type and write list, and both give the address /orbitdb/c0/y.
      Neither name is an address for either version of IsValid (the first part is not a
      CID), and the ".." is gone from the joined path before Parse sees it: the witness
      does not depend on [rd]. *)
  Lemma addr_refuted_unchecked (c0 c0' y : N) :
    cid_decode c0 = Some c0' ->
    exists n1 n2, n1 <> n2 /\
      forall c typ w, memN typ types = true ->
        determine false c n1 typ w = Ok (c0', [SName y]) /\
        determine false c n2 typ w = Ok (c0', [SName y]).
  Proof.
    intros Hc.
    exists [SDotDot; SName c0; SName y], [SDot; SDotDot; SName c0; SName y].
    split; [discriminate|]. intros c typ w Ht.
    unfold determine_address. rewrite Ht. simpl.
    unfold is_valid, parse_split, join_orbitdb, clean_rooted. simpl.
    rewrite Hc. simpl. rewrite andb_false_r. auto.
  Qed.

  (** hence the root of an address produced without the root check need not be its manifest *)
  Lemma addr_refuted_root_unchecked (c0 c0' c typ : N) (w : list N) :
    cid_decode c0 = Some c0' -> memN typ types = true ->
    exists name r p,
      determine false c name typ w = Ok (r, p) /\ r <> manifest c name typ w.
  Proof.
    intros Hc Ht.
    destruct (addr_refuted_unchecked c0 c0' 0 Hc) as [n1 [n2 [Hne Hd]]].
    destruct (Hd c typ w Ht) as [D1 D2].
    destruct (N.eq_dec c0' (manifest c n1 typ w)) as [E|NE].
    - exists n2, c0', [SName 0]. split; [exact D2|].
      intros E2. rewrite E in E2. unfold manifest_cid in E2. apply H_inj in E2.
      apply Hne. congruence.
    - exists n1, c0', [SName 0]. auto.
  Qed.

  (** * What the ".." test of IsValid changes *)

  (** ** with the test, a parsed address has a canonical root and no ".." in its path; so
      (by [addr_reprint_no_dotdot]) its printed form designates the same root *)
  Lemma parsed_no_dotdot s a :
    parse_split true cid_decode s = Ok a ->
    cid_decode (fst a) = Some (fst a) /\ no_dotdot (snd a) = true.
  Proof.
    unfold parse_split. destruct (trim_orbitdb s) as [|[| | |x] rest]; try discriminate.
    destruct (cid_decode x) as [c|] eqn:Ex; [|discriminate].
    destruct (no_dotdot rest) eqn:Hn; simpl; [|discriminate].
    intros E. inversion E; subst. cbn [fst snd].
    split; [exact (decode_canon _ _ Ex)|apply no_dotdot_norm_path; exact Hn].
  Qed.

  Lemma parsed_reprint s a :
    addr_parse true cid_decode s = Ok a ->
    no_dotdot (snd a) = true /\
    forall rd' : bool,
      addr_parse rd' cid_decode (addr_string a) = Ok (fst a, clean_rooted (snd a)).
  Proof.
    intros E. apply parsed_no_dotdot in E as [Hr Hp].
    split; [exact Hp|]. intros rd'. apply addr_reprint_no_dotdot; assumption.
  Qed.

  (** ** without the test (pinned commit) the printed form of a parsed address can designate
      another root: "c0/../c1/y" parses to root c0 and prints as /orbitdb/c1/y *)
  Lemma parsed_reprint_refuted_untested (c0 c0' c1 c1' y : N) :
    cid_decode c0 = Some c0' -> cid_decode c1 = Some c1' ->
    exists s a,
      addr_parse false cid_decode s = Ok a /\ fst a = c0' /\
      addr_parse true cid_decode s = Err EBadInput /\
      forall rd' : bool, addr_parse rd' cid_decode (addr_string a) = Ok (c1', [SName y]).
  Proof.
    intros H0 H1.
    exists [SName c0; SDotDot; SName c1; SName y], (c0', [SDotDot; SName c1; SName y]).
    unfold addr_parse, addr_string, parse_split, join_orbitdb, clean_rooted. simpl.
    rewrite H0. simpl. rewrite H1. simpl.
    repeat split; auto. intros rd'. rewrite andb_false_r. reflexivity.
  Qed.

  (** ** DetermineAddress: the name "c0/x/.." (c0 a CID) was refused as being an address; with
      the test it is not an address any more, path.Join cleans it to "c0", and (content
      addresses being CIDs) the result is the address (manifest, "c0") *)
  Lemma name_with_dotdot_not_address (c0 c0' x : N) rc c typ w :
    cid_decode c0 = Some c0' -> memN typ types = true ->
    let name := [SName c0; SName x; SDotDot] in
    determine_address false cid_decode Hac H types rc c name typ w = Err EDenied /\
    determine_address true cid_decode Hac H types rc c name typ w
      = Ok (manifest c name typ w, [SName c0]).
  Proof.
    intros H0 Ht name. unfold determine_address. rewrite Ht. simpl.
    unfold is_valid, parse_split. subst name. simpl. rewrite H0. simpl.
    split; [reflexivity|].
    unfold join_orbitdb, clean_rooted, manifest_cid. simpl. rewrite H_cid. simpl.
    rewrite N.eqb_refl, andb_false_r. reflexivity.
  Qed.

End AddressProofs.

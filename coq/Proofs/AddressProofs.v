(** Proofs about the address model (C14). *)
From Orbit Require Import Model.Address.
Local Open Scope N_scope.

(** * path.Clean at segment level *)

Lemma all_names_app a b : all_names (a ++ b) = all_names a && all_names b.
Proof. apply forallb_app. Qed.

Lemma all_names_rev a : all_names (rev a) = all_names a.
Proof.
  induction a as [|x a IH]; simpl; [reflexivity|].
  rewrite all_names_app, IH. simpl. rewrite andb_true_r. apply andb_comm.
Qed.

Lemma all_names_tl a : all_names a = true -> all_names (tl a) = true.
Proof. destruct a; simpl; [auto|]. intros E. apply andb_true_iff in E. tauto. Qed.

(** the cleaned path consists of plain segments only *)
Lemma clean_acc_names l : forall acc, all_names acc = true -> all_names (clean_acc acc l) = true.
Proof.
  induction l as [|s l IH]; intros acc Ha; simpl.
  - rewrite all_names_rev. exact Ha.
  - destruct s; apply IH; auto using all_names_tl.
Qed.

Lemma clean_rooted_names l : all_names (clean_rooted l) = true.
Proof. apply clean_acc_names. reflexivity. Qed.

(** cleaning a path of plain segments changes nothing *)
Lemma clean_acc_id l : forall acc, all_names l = true -> clean_acc acc l = rev acc ++ l.
Proof.
  induction l as [|s l IH]; intros acc Hl; simpl.
  - symmetry. apply app_nil_r.
  - simpl in Hl. destruct s; try discriminate. rewrite IH by exact Hl.
    simpl. rewrite <- app_assoc. reflexivity.
Qed.

Lemma clean_rooted_id l : all_names l = true -> clean_rooted l = l.
Proof. intros. unfold clean_rooted. rewrite clean_acc_id by assumption. reflexivity. Qed.

Lemma clean_rooted_idem l : clean_rooted (clean_rooted l) = clean_rooted l.
Proof. apply clean_rooted_id, clean_rooted_names. Qed.

Definition no_dotdot (l : list seg) : bool :=
  forallb (fun s => match s with SDotDot => false | _ => true end) l.

(** without ".." the kept prefix is never touched *)
Lemma clean_acc_no_dotdot l : forall acc, no_dotdot l = true ->
  clean_acc acc l = rev acc ++ clean_acc [] l.
Proof.
  induction l as [|s l IH]; intros acc Hl; simpl.
  - symmetry. apply app_nil_r.
  - simpl in Hl. destruct s; try discriminate; simpl in Hl; try (apply IH; exact Hl).
    rewrite (IH (SName n :: acc)), (IH [SName n]) by exact Hl.
    simpl. rewrite <- app_assoc. reflexivity.
Qed.

Lemma join_no_dotdot root name : no_dotdot name = true ->
  join_orbitdb root name = SName orbitdb_tok :: SName root :: clean_rooted name.
Proof.
  intros Hn. unfold join_orbitdb, clean_rooted. simpl.
  rewrite clean_acc_no_dotdot by exact Hn. reflexivity.
Qed.

(** * Create/Open decision table *)

Lemma create_rules :
  (forall have ow, create_decision have ow = Refused <-> (have = true /\ ow = false)) /\
  (forall have lo, open_decision have lo = Refused <-> (lo = true /\ have = false)) /\
  (* a create that proceeds leaves the marker; a second create without overwrite is refused,
     with overwrite it proceeds; a local-only open then proceeds *)
  (forall have ow, lrun have [LCreate ow; LCreate false; LCreate true; LOpen true]
                   = [create_decision have ow; Refused; Proceeds; Proceeds]) /\
  (* an instance that never created the database: opening does not leave the marker *)
  (forall lo, lrun false [LOpen lo; LOpen true] = [open_decision false lo; Refused]).
Proof.
  split; [|split; [|split]].
  - intros [] []; simpl; split; intros E; try discriminate; auto; destruct E; discriminate.
  - intros [] []; simpl; split; intros E; try discriminate; auto; destruct E; discriminate.
  - intros [] []; reflexivity.
  - intros []; reflexivity.
Qed.

Section AddressProofs.
  Variable cid_decode : N -> option N.
  Variable Hac : list N -> N.
  Variable H : list seg * N * N -> N.
  Variable types : list N.

  (** the canonical text of a CID decodes to itself *)
  Hypothesis decode_canon : forall n c, cid_decode n = Some c -> cid_decode c = Some c.
  (** content addresses are canonical CIDs, and content addressing is injective *)
  Hypothesis H_cid : forall x, cid_decode (H x) = Some (H x).
  Hypothesis H_inj : forall x y, H x = H y -> x = y.
  Hypothesis Hac_inj : forall x y, Hac x = Hac y -> x = y.

  Notation determine := (determine_address cid_decode Hac H types).
  Notation manifest := (manifest_cid Hac H).
  Notation parse := (parse_split cid_decode).

  (** ** the address is a function of name, type and effective write list *)
  Lemma addr_function :
    (forall rc c1 c2 name typ w, w <> [] -> determine rc c1 name typ w = determine rc c2 name typ w) /\
    (forall rc c name typ, determine rc c name typ [] = determine rc c name typ [c]).
  Proof.
    split.
    - intros rc c1 c2 name typ w Hw. unfold determine_address, manifest_cid.
      destruct w; [congruence|]. reflexivity.
    - reflexivity.
  Qed.

  (** ** shape of a successful parse of a printed cleaned path *)
  Lemma parse_printed cs r p :
    all_names cs = true ->
    parse (print_rooted cs) = Ok (r, p) ->
    exists x, cs = SName orbitdb_tok :: SName x :: p /\ cid_decode x = Some r.
  Proof.
    intros Hc. unfold parse_split, print_rooted.
    destruct cs as [|a [|b rest]].
    - simpl. discriminate.
    - simpl in *. destruct a; try discriminate.
    - simpl in Hc. destruct a as [| | |o]; try discriminate.
      destruct b as [| | |x]; try discriminate. simpl in Hc.
      cbn [trim_orbitdb]. destruct (o =? orbitdb_tok) eqn:Eo.
      + apply N.eqb_eq in Eo. subst o. destruct (cid_decode x) as [c|] eqn:Ex; [|discriminate].
        intros E. inversion E; subst. exists x. split; [|exact Ex].
        f_equal. f_equal. destruct rest as [|[] [|]]; try reflexivity; discriminate.
      + discriminate.
  Qed.

  Lemma determine_ok rc c name typ w r p :
    determine rc c name typ w = Ok (r, p) ->
    parse (print_rooted (join_orbitdb (manifest c name typ w) name)) = Ok (r, p) /\
    (rc = true -> r = manifest c name typ w).
  Proof.
    unfold determine_address, e_unknown_type, e_name_is_address, e_not_an_address, e_root_mismatch.
    destruct (negb (memN typ types)); [discriminate|].
    destruct (is_valid cid_decode name); [discriminate|].
    destruct (parse_split _ _) as [[r' p']| |]; try discriminate.
    destruct rc; simpl.
    - destruct (r' =? _) eqn:E; simpl; [|discriminate].
      intros X; inversion X; subst. apply N.eqb_eq in E. auto.
    - intros X; inversion X; subst. split; [reflexivity|discriminate].
  Qed.

  (** ** with the root check: the root is the CID of the manifest of exactly these inputs *)
  Lemma addr_root_is_manifest c name typ w r p :
    determine true c name typ w = Ok (r, p) -> r = manifest c name typ w.
  Proof. intros E. apply determine_ok in E. tauto. Qed.

  (** ** with the root check: different inputs give different addresses *)
  Lemma addr_injective c1 c2 n1 n2 t1 t2 w1 w2 a :
    determine true c1 n1 t1 w1 = Ok a ->
    determine true c2 n2 t2 w2 = Ok a ->
    n1 = n2 /\ t1 = t2 /\ effective_write c1 w1 = effective_write c2 w2.
  Proof.
    destruct a as [r p]. intros E1 E2.
    apply addr_root_is_manifest in E1. apply addr_root_is_manifest in E2.
    unfold manifest_cid in *. rewrite E1 in E2. apply H_inj in E2.
    inversion E2 as [[En Et Ea]]. apply Hac_inj in Ea. auto.
  Qed.

  (** ** every produced address (checked or not) prints and parses back to itself *)
  Lemma addr_roundtrip rc c name typ w a :
    determine rc c name typ w = Ok a ->
    addr_parse cid_decode (addr_string a) = Ok a.
  Proof.
    destruct a as [r p]. intros E. apply determine_ok in E as [E _].
    apply parse_printed in E as [x [Ecs Ex]]; [|apply clean_rooted_names].
    pose proof (clean_rooted_names (SName orbitdb_tok :: SName (manifest c name typ w) :: name)) as Hn.
    fold (join_orbitdb (manifest c name typ w) name) in Hn. rewrite Ecs in Hn. simpl in Hn.
    unfold addr_parse, addr_string, join_orbitdb. cbn [fst snd].
    rewrite clean_rooted_id by exact Hn.
    unfold parse_split, print_rooted. cbn [trim_orbitdb]. rewrite N.eqb_refl.
    rewrite (decode_canon _ _ Ex). f_equal. f_equal.
    destruct p as [|[] [|]]; try reflexivity; discriminate.
  Qed.

  (** ** names without ".." are unaffected by the missing check *)
  Lemma addr_unchecked_same_without_dotdot c name typ w :
    no_dotdot name = true ->
    determine false c name typ w = determine true c name typ w.
  Proof.
    intros Hn. unfold determine_address.
    destruct (negb (memN typ types)); [reflexivity|].
    destruct (is_valid cid_decode name); [reflexivity|].
    rewrite join_no_dotdot by exact Hn.
    unfold parse_split, print_rooted. cbn [trim_orbitdb]. rewrite N.eqb_refl.
    unfold manifest_cid. rewrite H_cid. rewrite N.eqb_refl. reflexivity.
  Qed.

  (** ** this commit (no root check): two different names, one address.
      For any segment [c0] that is a CID (for instance the manifest CID of another
      database) the names "../c0/y" and "./../c0/y" are accepted for every creator,
      registered type and write list, and both give the address /orbitdb/c0/y. *)
  Lemma addr_refuted_unchecked (c0 c0' y : N) :
    cid_decode c0 = Some c0' ->
    exists n1 n2, n1 <> n2 /\
      forall c typ w, memN typ types = true ->
        determine false c n1 typ w = Ok (c0', [SName y]) /\
        determine false c n2 typ w = Ok (c0', [SName y]).
  Proof.
    intros Hc.
    exists [SDotDot; SName c0; SName y], [SDot; SDotDot; SName c0; SName y].
    split; [discriminate|]. intros c typ w Ht.
    unfold determine_address. rewrite Ht. simpl.
    unfold is_valid, parse_split, join_orbitdb, clean_rooted. simpl.
    rewrite Hc. simpl. auto.
  Qed.

  (** hence the root of an address produced by this commit need not be its manifest *)
  Lemma addr_refuted_root_unchecked (c0 c0' c typ : N) (w : list N) :
    cid_decode c0 = Some c0' -> memN typ types = true ->
    exists name r p,
      determine false c name typ w = Ok (r, p) /\ r <> manifest c name typ w.
  Proof.
    intros Hc Ht.
    destruct (addr_refuted_unchecked c0 c0' 0 Hc) as [n1 [n2 [Hne Hd]]].
    destruct (Hd c typ w Ht) as [D1 D2].
    destruct (N.eq_dec c0' (manifest c n1 typ w)) as [E|NE].
    - exists n2, c0', [SName 0]. split; [exact D2|].
      intros E2. rewrite E in E2. unfold manifest_cid in E2. apply H_inj in E2.
      apply Hne. congruence.
    - exists n1, c0', [SName 0]. auto.
  Qed.

End AddressProofs.

From Orbit Require Import Spec.Statements.

(** Proofs for the legacy emitter (C16). *)

Local Ltac norm_app :=
  repeat first [rewrite <- app_assoc | rewrite app_nil_r | progress simpl].

Definition emit_of (l : elabel) : list N :=
  match l with LEmit x => [x] | _ => [] end.

Lemma estep_inflight :
  forall cap s l s',
    estep true cap s l = Some s' ->
    e_out s' ++ inflight s' = e_out s ++ inflight s ++ emit_of l.
Proof.
  intros cap s l s' Hstep.
  destruct s as [pe ch q h o].
  destruct l as [x| | | |]; unfold inflight; simpl in *.
  - (* LEmit *)
    injection Hstep as <-. simpl.
    destruct h as [y|]; norm_app; reflexivity.
  - (* LG1 *)
    destruct pe as [|x rest]; [discriminate|].
    destruct q as [|z q]; destruct h as [y|]; simpl in Hstep;
      destruct (length ch <? cap)%nat; injection Hstep as <-; simpl;
      norm_app; reflexivity.
  - (* LG2Take *)
    destruct h as [y|]; [discriminate|].
    destruct q as [|z q]; [discriminate|].
    injection Hstep as <-. simpl. norm_app. reflexivity.
  - (* LG2Send *)
    destruct h as [y|]; [|discriminate].
    destruct (length ch <? cap)%nat; [|discriminate].
    injection Hstep as <-. simpl. norm_app. reflexivity.
  - (* LConsume *)
    destruct ch as [|x c]; [discriminate|].
    injection Hstep as <-. simpl.
    destruct h as [y|]; norm_app; reflexivity.
Qed.

Lemma estep_none_not_emit :
  forall ti cap s l, estep ti cap s l = None -> emit_of l = [].
Proof.
  intros ti cap s l Hstep. destruct l as [x| | | |]; simpl in *;
    try reflexivity. discriminate.
Qed.

Lemma emitted_snoc :
  forall sched l, emitted (sched ++ [l]) = emitted sched ++ emit_of l.
Proof.
  intros sched l. unfold emitted. rewrite flat_map_app. simpl.
  rewrite app_nil_r. destruct l; reflexivity.
Qed.

Lemma erun_snoc :
  forall ti cap sched l s,
    erun ti cap (sched ++ [l]) s =
    match estep ti cap (erun ti cap sched s) l with
    | Some s' => s'
    | None => erun ti cap sched s
    end.
Proof.
  intros ti cap sched l s. unfold erun. rewrite fold_left_app. reflexivity.
Qed.

Lemma emitter_fifo : S_emitter_fifo.
Proof.
  unfold S_emitter_fifo. intros cap sched.
  induction sched as [|l sched IH] using rev_ind.
  - reflexivity.
  - simpl in *. rewrite erun_snoc, emitted_snoc.
    destruct (estep true cap (erun true cap sched einit) l) as [s'|] eqn:E.
    + rewrite (estep_inflight _ _ _ _ E). rewrite <- IH.
      rewrite <- app_assoc. reflexivity.
    + rewrite (estep_none_not_emit _ _ _ _ E). rewrite app_nil_r. exact IH.
Qed.

Lemma emitter_lossless : S_emitter_lossless.
Proof.
  unfold S_emitter_lossless. intros cap sched. simpl.
  pose proof (emitter_fifo cap sched) as HF. simpl in HF.
  split.
  - exists (inflight (erun true cap sched einit)). symmetry. exact HF.
  - intros (Hp & Hc & Hq & Hh). rewrite <- HF. unfold inflight.
    rewrite Hp, Hc, Hq, Hh. simpl. rewrite app_nil_r. reflexivity.
Qed.

Lemma emitter_progress : S_emitter_progress.
Proof.
  unfold S_emitter_progress. intros cap s Hcap Hne.
  destruct s as [pe ch q h o]. unfold inflight in Hne. simpl in Hne.
  destruct ch as [|c ch].
  - destruct h as [y|].
    + exists LG2Send. split; [discriminate|]. split; [intros x; discriminate|].
      simpl. destruct (Nat.ltb_spec 0 cap) as [Hlt|Hge]; [discriminate|lia].
    + destruct q as [|z q].
      * destruct pe as [|x rest].
        -- exfalso. apply Hne. reflexivity.
        -- exists LG1. split; [discriminate|]. split; [intros x0; discriminate|].
           simpl. destruct (0 <? cap)%nat; discriminate.
      * exists LG2Take. split; [discriminate|]. split; [intros x; discriminate|].
        simpl. discriminate.
  - exists LConsume. split; [discriminate|]. split; [intros x; discriminate|].
    simpl. discriminate.
Qed.

Definition refute_sched : list elabel :=
  [LEmit 1%N; LG1; LEmit 2%N; LG1; LG2Take; LConsume; LEmit 3%N; LG1;
   LConsume; LG2Send; LConsume].

Lemma emitter_refuted : S_emitter_refuted.
Proof.
  unfold S_emitter_refuted. exists 1%nat, refute_sched.
  split; [lia|]. simpl.
  split.
  - unfold quiescent. vm_compute. repeat split; reflexivity.
  - vm_compute. discriminate.
Qed.

Print Assumptions emitter_fifo.
Print Assumptions emitter_lossless.
Print Assumptions emitter_progress.
Print Assumptions emitter_refuted.

(** Proofs of the global-system statements (C01, C06, C07, C08) of [Spec/Statements.v]
    and of [S_values_canonical]. *)
From Orbit Require Import Spec.Statements.
From Orbit Require Import Proofs.TraverseProofs.
From Orbit Require Proofs.JoinProofs.
From Orbit Require Import Proofs.ReplayProofs.

Local Arguments bytes_eqb : simpl never.

(** * Sorted listings *)

Lemma asc_sorted_app l e :
  asc_sorted l -> (forall r, In r l -> key_lt r e) -> asc_sorted (l ++ [e]).
Proof.
  induction l as [|a l IH]; intros Hs Hlt; simpl.
  - apply SSorted_cons; [apply SSorted_nil | apply Forall_nil].
  - apply StronglySorted_inv in Hs. destruct Hs as [Hs1 Hs2].
    apply SSorted_cons.
    + apply IH; [exact Hs1|]. intros r Hr. apply Hlt. right. exact Hr.
    + apply Forall_app. split; [exact Hs2|].
      apply Forall_cons; [apply Hlt; left; reflexivity | apply Forall_nil].
Qed.

Lemma desc_rev_asc t : desc_sorted t -> asc_sorted (rev t).
Proof.
  induction t as [|a t IH]; intros Hs; simpl.
  - apply SSorted_nil.
  - apply StronglySorted_inv in Hs. destruct Hs as [Hs1 Hs2].
    apply asc_sorted_app; [apply IH; exact Hs1|].
    intros r Hr. apply in_rev in Hr.
    rewrite Forall_forall in Hs2. apply Hs2. exact Hr.
Qed.

Lemma desc_unique a b : desc_sorted a -> desc_sorted b -> same_set a b -> a = b.
Proof.
  intros Ha Hb Hs.
  assert (E : rev a = rev b).
  { apply sorted_unique; [apply desc_rev_asc; exact Ha | apply desc_rev_asc; exact Hb|].
    intros x. rewrite <- !in_rev. apply Hs. }
  rewrite <- (rev_involutive a), <- (rev_involutive b), E. reflexivity.
Qed.

Lemma reach_in_ents ents roots e : incl roots ents -> reach ents roots e -> In e ents.
Proof.
  intros Hincl H. induction H as [e Hr | e m Hre IH Hn Hm].
  - apply Hincl. exact Hr.
  - exact Hm.
Qed.

Lemma heads_incl U l : log_ok U l -> incl (lheads l) (lents l).
Proof.
  intros Hok h Hh. apply (ok_heads U l Hok) in Hh. destruct Hh as [Hh _]. exact Hh.
Qed.

Lemma values_canonical : S_values_canonical.
Proof.
  intros U l HWF Hok.
  assert (Hhe : incl (lheads l) (lents l)) by (apply (heads_incl U); exact Hok).
  assert (HeU : incl (lents l) U) by (apply (ok_incl U l Hok)).
  assert (HhU : incl (lheads l) U).
  { intros x Hx. apply HeU. apply Hhe. exact Hx. }
  destruct (traverse_spec U (lents l) (lheads l) HWF HeU HhU (ok_nodup U l Hok)) as [Hin Hdesc].
  unfold values. split.
  - intros x. rewrite <- in_rev. rewrite Hin. split.
    + intros Hr. apply (reach_in_ents _ _ _ Hhe Hr).
    + intros Hx. apply (JoinProofs.all_reachable U l HWF Hok x Hx).
  - apply desc_rev_asc. exact Hdesc.
Qed.

Lemma asc_before_lt l x y : asc_sorted l -> before x y l -> key_lt x y.
Proof.
  intros Hs [l1 [l2 [l3 E]]]. subst l.
  induction l1 as [|a l1 IH]; simpl in Hs.
  - apply asc_inv in Hs. destruct Hs as [_ Hs]. apply Hs.
    apply in_or_app. right. left. reflexivity.
  - apply asc_inv in Hs. destruct Hs as [Hs _]. apply IH. exact Hs.
Qed.

Lemma asc_lt_before l x y :
  asc_sorted l -> In x l -> In y l -> key_lt x y -> before x y l.
Proof.
  induction l as [|a l IH]; intros Hs Hx Hy Hlt; [destruct Hx|].
  apply asc_inv in Hs. destruct Hs as [Hs1 Hs2].
  destruct Hx as [Hx|Hx].
  - subst a. destruct Hy as [Hy|Hy].
    + subst y. exfalso. apply (key_lt_irrefl x). exact Hlt.
    + apply in_split in Hy. destruct Hy as [t1 [t2 E]]. subst l.
      exists [], t1, t2. reflexivity.
  - destruct Hy as [Hy|Hy].
    + subst a. exfalso. apply (key_lt_asym x y); [exact Hlt | apply Hs2; exact Hx].
    + destruct (IH Hs1 Hx Hy Hlt) as [l1 [l2 [l3 E]]]. subst l.
      exists (a :: l1), l2, l3. reflexivity.
Qed.

(** * [set_nth] *)

Lemma set_nth_length {A} (x : A) : forall i l, length (set_nth i x l) = length l.
Proof.
  induction i as [|i IH]; intros [|a l]; try reflexivity.
  change (set_nth (S i) x (a :: l)) with (a :: set_nth i x l).
  simpl. rewrite IH. reflexivity.
Qed.

Lemma nth_error_set_nth_eq {A} (x : A) : forall i l,
  (i < length l)%nat -> nth_error (set_nth i x l) i = Some x.
Proof.
  induction i as [|i IH]; intros [|a l] H; simpl in H; try lia.
  - reflexivity.
  - change (set_nth (S i) x (a :: l)) with (a :: set_nth i x l).
    simpl. apply IH. lia.
Qed.

Lemma nth_error_set_nth_neq {A} (x : A) : forall i l j,
  i <> j -> nth_error (set_nth i x l) j = nth_error l j.
Proof.
  induction i as [|i IH]; intros [|a l] j H.
  - reflexivity.
  - destruct j as [|j]; [exfalso; apply H; reflexivity | reflexivity].
  - reflexivity.
  - change (set_nth (S i) x (a :: l)) with (a :: set_nth i x l).
    destruct j as [|j]; simpl; [reflexivity|].
    apply IH. intros E. apply H. rewrite E. reflexivity.
Qed.

Lemma nth_error_set_nth_cases {A} (x z : A) i l j y :
  nth_error l i = Some z ->
  nth_error (set_nth i x l) j = Some y ->
  (j = i /\ y = x) \/ (j <> i /\ nth_error l j = Some y).
Proof.
  intros Hz H. destruct (Nat.eq_dec i j) as [E|E].
  - subst j. left. rewrite nth_error_set_nth_eq in H.
    + inversion H. split; reflexivity.
    + apply nth_error_Some. rewrite Hz. discriminate.
  - right. rewrite nth_error_set_nth_neq in H by exact E.
    split; [intros E'; apply E; symmetry; exact E' | exact H].
Qed.

(** * Small facts *)

Lemma writer_of_inj a b : writer_of a = writer_of b -> a = b.
Proof.
  unfold writer_of. intros H. apply Nat2N.inj in H. injection H as H. exact H.
Qed.

Lemma log_ok_mono U U' l : log_ok U l -> incl U U' -> log_ok U' l.
Proof.
  intros [H1 H2 H3 H4 H5 H6 H7] Hincl. constructor; try assumption.
  intros x Hx. apply Hincl. apply H1. exact Hx.
Qed.

Lemma log_ok_empty dbid : log_ok [] (empty_log dbid).
Proof.
  constructor; simpl.
  - intros x Hx. exact Hx.
  - constructor.
  - intros e [].
  - intros h. split; [intros [] | intros [[] _]].
  - constructor.
  - intros x. split; intros H; exact H.
  - intros e [].
Qed.

Lemma WF_nil : WF [].
Proof. constructor; simpl; intros; contradiction. Qed.

Lemma append_inv l h w o refs acc e l' :
  fst (append l h w w w w o refs acc) = Ok (e, l') -> eop e = o /\ eh e = h.
Proof.
  unfold append.
  destruct (acc _); simpl; intros H; inversion H; subst; simpl; split; reflexivity.
Qed.

Section Global.
  Variable marks cont : bool.
  Variable acc : entry -> bool.
  Variable n : nat.
  Variable dbid : N.

  Notation GI := (ginv acc n dbid).
  Notation GR okop := (greach marks cont acc okop n dbid).
  Notation run := (gstep_run marks cont acc).

  Lemma ginv_init : GI (mkG [] (repeat (mkR (empty_log dbid) [] []) n)).
  Proof.
    constructor; simpl.
    - apply WF_nil.
    - apply repeat_length.
    - intros i rs H. apply nth_error_In in H. apply repeat_spec in H. subst rs. simpl.
      split; [apply log_ok_empty | reflexivity].
    - intros e [].
    - intros i rs x _ [].
    - intros x [].
    - intros p q e1 e2 H. destruct p; discriminate H.
  Qed.

  Lemma write_facts g r rs h o refs e l' :
    GI g -> ~ In h (hashes (guniv g)) -> nth_error (greps g) r = Some rs ->
    fst (append (rlog rs) h (writer_of r) (writer_of r) (writer_of r) (writer_of r) o refs acc)
      = Ok (e, l') ->
    WF (guniv g ++ [e]) /\ log_ok (guniv g ++ [e]) l' /\ lid l' = lid (rlog rs) /\
    lents l' = lents (rlog rs) ++ [e] /\ lheads l' = [e] /\
    eh e = h /\ ecid e = writer_of r /\ elog e = lid (rlog rs) /\ eop e = o /\ acc e = true /\
    etime e = lclock l' /\ (forall x, In x (lents (rlog rs)) -> key_lt x e).
  Proof.
    intros [Hwf Hlen Hlogs Huniv Hown Hcids Hord] Hh Hr Happ.
    destruct (Hlogs r rs Hr) as [Hok Hid].
    apply (JoinProofs.append_ok (guniv g) (rlog rs) h (writer_of r) o refs acc e l');
      try assumption.
    intros x Hx Hc. apply (ok_clock _ _ Hok). apply (Hown r rs x Hr Hx Hc).
  Qed.

  Lemma ginv_write g r h refs o :
    GI g -> ~ In h (hashes (guniv g)) -> GI (run g (GWrite r h refs o)).
  Proof.
    intros Hg Hh. unfold gstep_run.
    destruct (nth_error (greps g) r) as [rs|] eqn:Hr; [|exact Hg].
    destruct (fst (append (rlog rs) h (writer_of r) (writer_of r) (writer_of r) (writer_of r)
                          o refs acc)) as [[e l']|er|p] eqn:Happ; try exact Hg.
    destruct (write_facts g r rs h o refs e l' Hg Hh Hr Happ)
      as [Hwf' [Hok' [Hid' [Hents' [Hheads' [Heh [Hcid [Helog [Heop [Hacc [Htime Hlt]]]]]]]]]]].
    destruct Hg as [Hwf Hlen Hlogs Huniv Hown Hcids Hord].
    destruct (Hlogs r rs Hr) as [Hok Hid].
    constructor; simpl.
    - exact Hwf'.
    - rewrite set_nth_length. exact Hlen.
    - intros i rs0 Hi.
      destruct (nth_error_set_nth_cases _ _ _ _ _ _ Hr Hi) as [[Ei Ers]|[Ei Hi']].
      + subst i rs0. simpl. split; [exact Hok' | rewrite Hid'; exact Hid].
      + destruct (Hlogs i rs0 Hi') as [Hok0 Hid0]. split; [|exact Hid0].
        apply (log_ok_mono (guniv g)); [exact Hok0|].
        intros x Hx. apply in_or_app. left. exact Hx.
    - intros x Hx. apply in_app_or in Hx. destruct Hx as [Hx|[Hx|[]]].
      + apply Huniv. exact Hx.
      + subst x. split; [rewrite Helog; exact Hid | exact Hacc].
    - intros i rs0 x Hi Hx Hc.
      destruct (nth_error_set_nth_cases _ _ _ _ _ _ Hr Hi) as [[Ei Ers]|[Ei Hi']].
      + subst i rs0. simpl. rewrite Hents'. apply in_app_or in Hx.
        apply in_or_app. destruct Hx as [Hx|Hx]; [left | right; exact Hx].
        apply (Hown r rs x Hr Hx Hc).
      + apply in_app_or in Hx. destruct Hx as [Hx|[Hx|[]]].
        * apply (Hown i rs0 x Hi' Hx Hc).
        * subst x. exfalso. apply Ei. apply writer_of_inj. rewrite <- Hc. exact Hcid.
    - intros x Hx. apply in_app_or in Hx. destruct Hx as [Hx|[Hx|[]]].
      + apply Hcids. exact Hx.
      + subst x. exists r. split; [|exact Hcid].
        rewrite <- Hlen. apply nth_error_Some. rewrite Hr. discriminate.
    - intros p q e1 e2 Hp Hq Hpq Hc.
      destruct (Nat.lt_ge_cases q (length (guniv g))) as [Hql|Hql].
      + rewrite nth_error_app1 in Hp by lia. rewrite nth_error_app1 in Hq by exact Hql.
        apply (Hord p q e1 e2 Hp Hq Hpq Hc).
      + rewrite nth_error_app2 in Hq by exact Hql.
        destruct (q - length (guniv g))%nat as [|d] eqn:Ed.
        * simpl in Hq. inversion Hq. subst e2.
          rewrite nth_error_app1 in Hp by lia.
          apply nth_error_In in Hp.
          apply Hlt. apply (Hown r rs e1 Hr Hp). rewrite Hc. exact Hcid.
        * simpl in Hq. destruct d; discriminate Hq.
  Qed.

  Lemma merge_batch_ok U batch : forall l,
    WF U -> log_ok U l ->
    (forall x, In x U -> elog x = lid l /\ acc x = true) ->
    incl batch U ->
    exists l', merge_batch cont acc l batch = (l', true) /\
               log_ok U l' /\ lid l' = lid l /\ incl (lents l) (lents l').
  Proof.
    induction batch as [|x rest IH]; intros l HWF Hok HU Hb.
    - exists l. simpl. split; [reflexivity|]. split; [exact Hok|].
      split; [reflexivity | intros y Hy; exact Hy].
    - assert (HxU : In x U) by (apply Hb; left; reflexivity).
      destruct (HU x HxU) as [Hxl Hxa].
      pose proof (JoinProofs.join_single_spec U l x acc HWF Hok HxU Hxl) as J.
      cbn [merge_batch].
      destruct (join l (log_of_entries (lid l) [x]) (-1) acc) as [l1|er|p] eqn:EJ.
      + destruct J as [Hok1 [Hid1 Hcase]].
        assert (Hincl1 : incl (lents l) (lents l1)).
        { destruct Hcase as [[_ E]|[_ [_ E]]]; rewrite E.
          - intros y Hy. exact Hy.
          - intros y Hy. apply in_or_app. left. exact Hy. }
        destruct (IH l1 HWF Hok1) as [l' [Hm [Hok' [Hid' Hincl']]]].
        * intros y Hy. rewrite Hid1. apply HU. exact Hy.
        * intros y Hy. apply Hb. right. exact Hy.
        * exists l'. split; [exact Hm|]. split; [exact Hok'|].
          split; [rewrite Hid'; exact Hid1|].
          intros y Hy. apply Hincl'. apply Hincl1. exact Hy.
      + destruct J as [_ J]. rewrite Hxa in J. discriminate J.
      + destruct J.
  Qed.

  Lemma merge_facts g r rs batch :
    GI g -> incl batch (guniv g) -> nth_error (greps g) r = Some rs ->
    exists l', merge_batch cont acc (rlog rs) batch = (l', true) /\
               log_ok (guniv g) l' /\ lid l' = dbid /\ incl (lents (rlog rs)) (lents l').
  Proof.
    intros [Hwf Hlen Hlogs Huniv Hown Hcids Hord] Hb Hr.
    destruct (Hlogs r rs Hr) as [Hok Hid].
    destruct (merge_batch_ok (guniv g) batch (rlog rs) Hwf Hok) as [l' [Hm [Hok' [Hid' Hincl']]]].
    - intros x Hx. rewrite Hid. apply Huniv. exact Hx.
    - exact Hb.
    - exists l'. split; [exact Hm|]. split; [exact Hok'|].
      split; [rewrite Hid'; exact Hid | exact Hincl'].
  Qed.

  Lemma ginv_merge g r batch :
    GI g -> incl batch (guniv g) -> GI (run g (GMerge r batch)).
  Proof.
    intros Hg Hb. unfold gstep_run.
    destruct (nth_error (greps g) r) as [rs|] eqn:Hr; [|exact Hg].
    destruct (merge_facts g r rs batch Hg Hb Hr) as [l' [Hm [Hok' [Hid' Hincl']]]].
    rewrite Hm.
    destruct Hg as [Hwf Hlen Hlogs Huniv Hown Hcids Hord].
    constructor; simpl.
    - exact Hwf.
    - rewrite set_nth_length. exact Hlen.
    - intros i rs0 Hi.
      destruct (nth_error_set_nth_cases _ _ _ _ _ _ Hr Hi) as [[Ei Ers]|[Ei Hi']].
      + subst i rs0. simpl. split; [exact Hok' | exact Hid'].
      + apply (Hlogs i rs0 Hi').
    - exact Huniv.
    - intros i rs0 x Hi Hx Hc.
      destruct (nth_error_set_nth_cases _ _ _ _ _ _ Hr Hi) as [[Ei Ers]|[Ei Hi']].
      + subst i rs0. simpl. apply Hincl'. apply (Hown r rs x Hr Hx Hc).
      + apply (Hown i rs0 x Hi' Hx Hc).
    - exact Hcids.
    - exact Hord.
  Qed.

  Lemma greach_inv_s : S_greach_inv marks cont acc n dbid.
  Proof.
    intros okop g H. induction H as [|g s H IH Hadm].
    - apply ginv_init.
    - destruct s as [r h refs o|r batch].
      + destruct Hadm as [Hh _]. apply ginv_write; assumption.
      + apply ginv_merge; assumption.
  Qed.


  (** every created entry carries an operation the store type can write *)
  Lemma greach_ops okop g : GR okop g -> forall e, In e (guniv g) -> okop (eop e).
  Proof.
    intros H. induction H as [|g s H IH Hadm]; [intros e []|].
    destruct s as [r h refs o|r batch]; unfold gstep_run.
    - destruct (nth_error (greps g) r) as [rs|]; [|exact IH].
      destruct (fst (append _ _ _ _ _ _ _ _ _)) as [[e l']|er|p] eqn:Happ; try exact IH.
      simpl. intros x Hx. apply in_app_or in Hx. destruct Hx as [Hx|[Hx|[]]].
      + apply IH. exact Hx.
      + subst x. apply append_inv in Happ. destruct Happ as [Eo _]. rewrite Eo.
        destruct Hadm as [_ Ho]. exact Ho.
    - destruct (nth_error (greps g) r) as [rs|]; [|exact IH].
      destruct (merge_batch cont acc (rlog rs) batch) as [l' ok]. simpl. exact IH.
  Qed.

  (** what a step does to one replica *)
  Lemma gstep_char okop g s i rs' :
    GR okop g -> admissible okop g s ->
    nth_error (greps (run g s)) i = Some rs' ->
    exists rs, nth_error (greps g) i = Some rs /\
      (rs' = rs \/
       (rkv rs' = kv_update (values (rlog rs')) (rkv rs) /\
        rdoc rs' = doc_update marks (values (rlog rs')) (rdoc rs) /\
        incl (lents (rlog rs)) (lents (rlog rs')))).
  Proof.
    intros HR Hadm. pose proof (greach_inv_s okop g HR) as Hg.
    destruct s as [r h refs o|r batch]; unfold gstep_run.
    - destruct Hadm as [Hh Ho].
      destruct (nth_error (greps g) r) as [rs|] eqn:Hr;
        [|intros Hi; exists rs'; split; [exact Hi | left; reflexivity]].
      destruct (fst (append (rlog rs) h (writer_of r) (writer_of r) (writer_of r) (writer_of r)
                            o refs acc)) as [[e l']|er|p] eqn:Happ;
        try (intros Hi; exists rs'; split; [exact Hi | left; reflexivity]).
      simpl. intros Hi.
      destruct (write_facts g r rs h o refs e l' Hg Hh Hr Happ)
        as [_ [_ [_ [Hents' _]]]].
      destruct (nth_error_set_nth_cases _ _ _ _ _ _ Hr Hi) as [[Ei Ers]|[Ei Hi']].
      + subst i rs'. exists rs. split; [exact Hr|]. right. simpl.
        split; [reflexivity|]. split; [reflexivity|].
        rewrite Hents'. intros y Hy. apply in_or_app. left. exact Hy.
      + exists rs'. split; [exact Hi' | left; reflexivity].
    - simpl in Hadm.
      destruct (nth_error (greps g) r) as [rs|] eqn:Hr;
        [|intros Hi; exists rs'; split; [exact Hi | left; reflexivity]].
      destruct (merge_facts g r rs batch Hg Hadm Hr) as [l' [Hm [_ [_ Hincl']]]].
      rewrite Hm. simpl. intros Hi.
      destruct (nth_error_set_nth_cases _ _ _ _ _ _ Hr Hi) as [[Ei Ers]|[Ei Hi']].
      + subst i rs'. exists rs. split; [exact Hr|]. right. simpl.
        split; [reflexivity|]. split; [reflexivity | exact Hincl'].
      + exists rs'. split; [exact Hi' | left; reflexivity].
  Qed.

  Lemma ginv_values g i rs :
    GI g -> nth_error (greps g) i = Some rs ->
    same_set (values (rlog rs)) (lents (rlog rs)) /\ asc_sorted (values (rlog rs)) /\
    incl (lents (rlog rs)) (guniv g).
  Proof.
    intros [Hwf Hlen Hlogs Huniv Hown Hcids Hord] Hi.
    destruct (Hlogs i rs Hi) as [Hok _].
    destruct (values_canonical (guniv g) (rlog rs) Hwf Hok) as [Hs Ha].
    split; [exact Hs|]. split; [exact Ha | apply (ok_incl _ _ Hok)].
  Qed.

  Lemma values_sorted_s : S_values_sorted marks cont acc n dbid.
  Proof.
    intros okop g i rs HR Hi.
    destruct (ginv_values g i rs (greach_inv_s okop g HR) Hi) as [Hs [Ha _]].
    split; assumption.
  Qed.

  Lemma heads_same U la lb :
    log_ok U la -> log_ok U lb -> same_set (lents la) (lents lb) ->
    same_set (lheads la) (lheads lb).
  Proof.
    intros Ha Hb Hs x.
    assert (HN : forall c, In c (all_nexts (lents la)) <-> In c (all_nexts (lents lb))).
    { intros c. rewrite !JoinProofs.all_nexts_In.
      split; intros [e [He Hc]]; exists e; (split; [apply Hs; exact He | exact Hc]). }
    split; intros Hx.
    - apply (ok_heads _ _ Ha) in Hx. destruct Hx as [H1 H2].
      apply (ok_heads _ _ Hb). split; [apply Hs; exact H1|].
      intros H3. apply H2. apply HN. exact H3.
    - apply (ok_heads _ _ Hb) in Hx. destruct Hx as [H1 H2].
      apply (ok_heads _ _ Ha). split; [apply Hs; exact H1|].
      intros H3. apply H2. apply HN. exact H3.
  Qed.

  Lemma heads_desc U l :
    WF U -> log_ok U l ->
    desc_sorted (sort_desc (lheads l)) /\ same_set (sort_desc (lheads l)) (lheads l).
  Proof.
    intros HWF Hok. apply (sort_desc_spec U); [exact HWF | |].
    - intros x Hx. apply (ok_incl _ _ Hok). apply (heads_incl U l Hok). exact Hx.
    - apply (NoDup_map_inv eh). apply (ok_hnodup _ _ Hok).
  Qed.

  Lemma convergence_log_s : S_convergence_log marks cont acc n dbid.
  Proof.
    intros okop g a b ra rb HR Ha Hb Hs.
    pose proof (greach_inv_s okop g HR) as Hg.
    destruct (ginv_values g a ra Hg Ha) as [Sa [Aa _]].
    destruct (ginv_values g b rb Hg Hb) as [Sb [Ab _]].
    destruct Hg as [Hwf Hlen Hlogs Huniv Hown Hcids Hord].
    destruct (Hlogs a ra Ha) as [Hoka _]. destruct (Hlogs b rb Hb) as [Hokb _].
    split.
    - apply sorted_unique; [exact Aa | exact Ab|].
      intros x. split; intros Hx.
      + apply Sb. apply Hs. apply Sa. exact Hx.
      + apply Sa. apply Hs. apply Sb. exact Hx.
    - unfold heads_sorted.
      destruct (heads_desc _ _ Hwf Hoka) as [Da Ea].
      destruct (heads_desc _ _ Hwf Hokb) as [Db Eb].
      apply desc_unique; [exact Da | exact Db|].
      pose proof (heads_same _ _ _ Hoka Hokb Hs) as Hh.
      intros x. split; intros Hx.
      + apply Eb. apply Hh. apply Ea. exact Hx.
      + apply Ea. apply Hh. apply Eb. exact Hx.
  Qed.

  (** one rebuild of a view from the previous map *)
  Lemma kv_reindex_step vals vals' m0 :
    represents m0 (kv_replay vals) -> incl vals vals' ->
    (forall e, In e vals' -> kv_op_ok e = true) ->
    represents (kv_update vals' m0) (kv_replay vals').
  Proof.
    intros [ND L] Hincl Hok. split.
    - unfold kv_update. apply kv_scan_nodup. exact ND.
    - intros k. rewrite (kv_update_lookup vals' m0 k Hok).
      destruct (existsb (kv_touches k) vals') eqn:X; [reflexivity|].
      rewrite L. unfold kv_replay.
      rewrite (replay_untouched _ kv_step kv_touches kv_step_touch kv_step_notouch vals' k X).
      apply (replay_untouched _ kv_step kv_touches kv_step_touch kv_step_notouch).
      apply (existsb_incl_false _ _ vals'); [exact Hincl | exact X].
  Qed.

  Lemma doc_reindex_step vals vals' m0 :
    represents m0 (doc_replay vals) -> incl vals vals' ->
    (forall e, In e vals' -> doc_op_ok e) ->
    represents (doc_update true vals' m0) (doc_replay vals').
  Proof.
    intros [ND L] Hincl Hok. split.
    - unfold doc_update. apply doc_scan_nodup. exact ND.
    - intros k. rewrite (doc_update_lookup vals' m0 k Hok).
      destruct (existsb (doc_touches k) vals') eqn:X; [reflexivity|].
      rewrite L. unfold doc_replay.
      rewrite (replay_untouched _ doc_step doc_touches doc_step_touch doc_step_notouch vals' k X).
      apply (replay_untouched _ doc_step doc_touches doc_step_touch doc_step_notouch).
      apply (existsb_incl_false _ _ vals'); [exact Hincl | exact X].
  Qed.

  Lemma kv_okop_ok e : kv_okop (eop e) -> kv_op_ok e = true.
  Proof.
    unfold kv_op_ok, kv_okop.
    destruct (eop e) as [[k|] v|[k|]|v|docs|]; intros H; try reflexivity; destruct H.
  Qed.

  Lemma doc_okop_ok e : doc_okop (eop e) -> doc_op_ok e.
  Proof.
    unfold doc_op_ok, doc_okop.
    destruct (eop e) as [[k|] v|[k|]|v|docs|]; intros H; try exact I; exact H.
  Qed.

  Lemma init_rs i rs :
    nth_error (repeat (mkR (empty_log dbid) [] []) n) i = Some rs ->
    rs = mkR (empty_log dbid) [] [].
  Proof.
    intros H. apply nth_error_In in H. apply repeat_spec in H. exact H.
  Qed.

  (** the listing of a replica only grows along a step *)
  Lemma step_values_incl okop g s i rs rs' :
    GR okop g -> admissible okop g s ->
    nth_error (greps g) i = Some rs ->
    nth_error (greps (run g s)) i = Some rs' ->
    incl (lents (rlog rs)) (lents (rlog rs')) ->
    incl (values (rlog rs)) (values (rlog rs')).
  Proof.
    intros HR Hadm Hi Hi' Hincl.
    assert (HR' : GR okop (run g s)) by (apply greach_step; assumption).
    destruct (ginv_values g i rs (greach_inv_s okop g HR) Hi) as [S1 _].
    destruct (ginv_values _ i rs' (greach_inv_s okop _ HR') Hi') as [S2 _].
    intros x Hx. apply S2. apply Hincl. apply S1. exact Hx.
  Qed.

  Lemma kv_view_s : S_kv_view marks cont acc n dbid.
  Proof.
    intros g i rs H. revert i rs. induction H as [|g s H IH Hadm]; intros i rs' Hi.
    - simpl in Hi. apply init_rs in Hi. subst rs'. simpl.
      split; [constructor | intros k; reflexivity].
    - assert (HR' : GR kv_okop (run g s)) by (apply greach_step; assumption).
      destruct (gstep_char _ g s i rs' H Hadm Hi) as [rs [Hrs [E|[Ekv [_ Hincl]]]]].
      + subst rs'. apply (IH i rs Hrs).
      + rewrite Ekv. apply (kv_reindex_step (values (rlog rs))).
        * apply (IH i rs Hrs).
        * apply (step_values_incl kv_okop g s i rs rs' H Hadm Hrs Hi Hincl).
        * intros e He. apply kv_okop_ok. apply (greach_ops kv_okop _ HR').
          destruct (ginv_values _ i rs' (greach_inv_s _ _ HR') Hi) as [S2 [_ I2]].
          apply I2. apply S2. exact He.
  Qed.

  Lemma doc_view_s : S_doc_view marks cont acc n dbid.
  Proof.
    intros Hm g i rs H. revert i rs. induction H as [|g s H IH Hadm]; intros i rs' Hi.
    - simpl in Hi. apply init_rs in Hi. subst rs'. simpl.
      split; [constructor | intros k; reflexivity].
    - assert (HR' : GR doc_okop (run g s)) by (apply greach_step; assumption).
      destruct (gstep_char _ g s i rs' H Hadm Hi) as [rs [Hrs [E|[_ [Edoc Hincl]]]]].
      + subst rs'. apply (IH i rs Hrs).
      + rewrite Edoc, Hm. apply (doc_reindex_step (values (rlog rs))).
        * apply (IH i rs Hrs).
        * apply (step_values_incl doc_okop g s i rs rs' H Hadm Hrs Hi Hincl).
        * intros e He. apply doc_okop_ok. apply (greach_ops doc_okop _ HR').
          destruct (ginv_values _ i rs' (greach_inv_s _ _ HR') Hi) as [S2 [_ I2]].
          apply I2. apply S2. exact He.
  Qed.

  Lemma write_after_seen_s : S_write_after_seen marks cont acc n dbid.
  Proof.
    intros okop g r h refs o rs HR Hadm Hr e.
    pose proof (greach_inv_s okop g HR) as Hg.
    destruct Hadm as [Hh Ho].
    unfold gstep_run. rewrite Hr.
    destruct (fst (append (rlog rs) h (writer_of r) (writer_of r) (writer_of r) (writer_of r)
                          o refs acc)) as [[e0 l']|er|p] eqn:Happ;
      try (intros He Hn; exfalso; apply Hn; exact He).
    simpl. intros He Hn. apply in_app_or in He. destruct He as [He|[He|[]]].
    - exfalso. apply Hn. exact He.
    - subst e0.
      destruct (write_facts g r rs h o refs e l' Hg Hh Hr Happ)
        as [_ [_ [_ [_ [_ [Heh [_ [_ [_ [_ [_ Hlt]]]]]]]]]]].
      split; [exact Heh | exact Hlt].
  Qed.

  Lemma before_in {A} (x y : A) l : before x y l -> In x l /\ In y l.
  Proof.
    intros [l1 [l2 [l3 E]]]. subst l. split.
    - apply in_or_app. right. left. reflexivity.
    - apply in_or_app. right. right. apply in_or_app. right. left. reflexivity.
  Qed.

  Lemma step_monotone_s : S_step_monotone marks cont acc n dbid.
  Proof.
    intros okop g s i rs rs' HR Hadm Hi Hi'.
    assert (HR' : GR okop (run g s)) by (apply greach_step; assumption).
    destruct (gstep_char okop g s i rs' HR Hadm Hi') as [rs0 [Hrs0 Hc]].
    rewrite Hi in Hrs0. inversion Hrs0. subst rs0.
    assert (Hincl : incl (lents (rlog rs)) (lents (rlog rs'))).
    { destruct Hc as [E|[_ [_ Hincl]]]; [subst rs'; intros y Hy; exact Hy | exact Hincl]. }
    pose proof (step_values_incl okop g s i rs rs' HR Hadm Hi Hi' Hincl) as HV.
    destruct (ginv_values g i rs (greach_inv_s okop g HR) Hi) as [_ [A1 _]].
    destruct (ginv_values _ i rs' (greach_inv_s okop _ HR') Hi') as [_ [A2 _]].
    split; [exact HV|].
    intros x y Hb. destruct (before_in x y _ Hb) as [Hx Hy].
    apply asc_lt_before; [exact A2 | apply HV; exact Hx | apply HV; exact Hy|].
    apply (asc_before_lt _ x y A1 Hb).
  Qed.

  Lemma writer_order_s : S_writer_order marks cont acc n dbid.
  Proof.
    intros okop g i rs p q e1 e2 HR Hi Hp Hq Hpq Hc H1 H2.
    pose proof (greach_inv_s okop g HR) as Hg.
    destruct (ginv_values g i rs Hg Hi) as [_ [A1 _]].
    apply asc_lt_before; [exact A1 | exact H1 | exact H2|].
    apply (gi_order _ _ _ _ Hg p q e1 e2 Hp Hq Hpq Hc).
  Qed.

  Lemma convergence_kv_s : S_convergence_kv marks cont acc n dbid.
  Proof.
    intros g a b ra rb HR Ha Hb Hs k.
    destruct (kv_view_s g a ra HR Ha) as [_ La].
    destruct (kv_view_s g b rb HR Hb) as [_ Lb].
    destruct (convergence_log_s kv_okop g a b ra rb HR Ha Hb Hs) as [Ev _].
    rewrite La, Lb, Ev. reflexivity.
  Qed.

  Lemma convergence_doc_s : S_convergence_doc marks cont acc n dbid.
  Proof.
    intros Hm g a b ra rb HR Ha Hb Hs k.
    destruct (doc_view_s Hm g a ra HR Ha) as [_ La].
    destruct (doc_view_s Hm g b rb HR Hb) as [_ Lb].
    destruct (convergence_log_s doc_okop g a b ra rb HR Ha Hb Hs) as [Ev _].
    rewrite La, Lb, Ev. reflexivity.
  Qed.

End Global.

Lemma greach_inv : forall marks cont acc n dbid, S_greach_inv marks cont acc n dbid.
Proof. intros marks cont acc n dbid. apply greach_inv_s. Qed.

Lemma values_sorted : forall marks cont acc n dbid, S_values_sorted marks cont acc n dbid.
Proof. intros marks cont acc n dbid. apply values_sorted_s. Qed.

Lemma convergence_log : forall marks cont acc n dbid, S_convergence_log marks cont acc n dbid.
Proof. intros marks cont acc n dbid. apply convergence_log_s. Qed.

Lemma kv_view : forall marks cont acc n dbid, S_kv_view marks cont acc n dbid.
Proof. intros marks cont acc n dbid. apply kv_view_s. Qed.

Lemma doc_view : forall marks cont acc n dbid, S_doc_view marks cont acc n dbid.
Proof. intros marks cont acc n dbid. apply doc_view_s. Qed.

Lemma write_after_seen : forall marks cont acc n dbid, S_write_after_seen marks cont acc n dbid.
Proof. intros marks cont acc n dbid. apply write_after_seen_s. Qed.

Lemma step_monotone : forall marks cont acc n dbid, S_step_monotone marks cont acc n dbid.
Proof. intros marks cont acc n dbid. apply step_monotone_s. Qed.

Lemma writer_order : forall marks cont acc n dbid, S_writer_order marks cont acc n dbid.
Proof. intros marks cont acc n dbid. apply writer_order_s. Qed.

Lemma convergence_kv : forall marks cont acc n dbid, S_convergence_kv marks cont acc n dbid.
Proof. intros marks cont acc n dbid. apply convergence_kv_s. Qed.

Lemma convergence_doc : forall marks cont acc n dbid, S_convergence_doc marks cont acc n dbid.
Proof. intros marks cont acc n dbid. apply convergence_doc_s. Qed.

Print Assumptions values_canonical.
Print Assumptions greach_inv.
Print Assumptions values_sorted.
Print Assumptions convergence_log.
Print Assumptions kv_view.
Print Assumptions doc_view.
Print Assumptions write_after_seen.
Print Assumptions step_monotone.
Print Assumptions writer_order.
Print Assumptions convergence_kv.
Print Assumptions convergence_doc.

From Orbit Require Import Spec.Statements.
Require Import Lia ZArith List.
Import ListNotations.
Local Open Scope Z_scope.

(** * C19: concurrent replication-status recalculations (schedules) *)

Ltac zlt :=
  repeat match goal with
         | |- context [?a <? ?b] => destruct (Z.ltb_spec a b)
         | H : context [?a <? ?b] |- _ => destruct (Z.ltb_spec a b)
         end.

(** ** [tupd] and [nth_error] *)

Lemma upd_same : forall A (l : list A) i x y,
    nth_error l i = Some y -> nth_error (tupd l i x) i = Some x.
Proof.
  induction l as [|z r IH]; intros [|i] x y H; cbn in *; try discriminate; auto.
  eapply IH; eauto.
Qed.

Lemma upd_none : forall A (l : list A) i x,
    nth_error l i = None -> nth_error (tupd l i x) i = None.
Proof.
  induction l as [|z r IH]; intros [|i] x H; cbn in *; try discriminate; auto.
Qed.

Lemma upd_other : forall A (l : list A) i j x,
    i <> j -> nth_error (tupd l i x) j = nth_error l j.
Proof.
  induction l as [|z r IH]; intros [|i] [|j] x H; cbn; auto; try congruence.
Qed.

Lemma upd_inv : forall A (l : list A) i x k t,
    nth_error (tupd l i x) k = Some t ->
    (k = i /\ t = x /\ exists y, nth_error l i = Some y) \/
    (k <> i /\ nth_error l k = Some t).
Proof.
  intros A l i x k t H. destruct (Nat.eq_dec k i) as [->|Hne].
  - left. destruct (nth_error l i) as [y|] eqn:E.
    + rewrite (upd_same _ _ _ _ _ E) in H. inversion H. eauto.
    + rewrite (upd_none _ _ _ _ E) in H. discriminate.
  - right. rewrite upd_other in H by auto. auto.
Qed.

Lemma lock_free_nth : forall c k t,
    lock_free c = true -> nth_error (c_thr c) k = Some t -> t_loc t = None.
Proof.
  unfold lock_free. intros c k t H Hn. rewrite forallb_forall in H.
  specialize (H t (nth_error_In _ _ Hn)). unfold has_loc in H.
  destruct (t_loc t); [discriminate|reflexivity].
Qed.

(** ** the shape of one step of the mutex model *)

Inductive astep (mm : bool) (c : cstate) : cstate -> Prop :=
| as_skip : astep mm c c
| as_grow : forall d, 0 <= d -> astep mm c (mkC (c_len c + d) (c_st c) (c_thr c))
| as_read : forall i t,
    nth_error (c_thr c) i = Some t -> t_loc t = None -> lock_free c = true ->
    astep mm c (mkC (c_len c) (c_st c)
                    (tupd (c_thr c) i (mkT (t_todo t) (Some (c_len c, c_st c)))))
| as_write : forall i ph rest l s0,
    nth_error (c_thr c) i = Some (mkT (ph :: rest) (Some (l, s0))) ->
    astep mm c (mkC (c_len c) (phase_write mm ph l s0 (c_st c))
                    (tupd (c_thr c) i (mkT rest None))).

Lemma cstep_astep : forall mm c lb, astep mm c (cstep true mm c lb).
Proof.
  intros mm c lb. unfold cstep.
  destruct (enabled true c lb) eqn:En; [|apply as_skip].
  destruct lb as [i|i|d]; cbn [enabled] in En.
  - destruct (nth_error (c_thr c) i) as [t|] eqn:Hn; [|apply as_skip].
    destruct t as [[|ph rest] [loc|]]; try discriminate.
    apply (as_read mm c i (mkT (ph :: rest) None)); [exact Hn|reflexivity|exact En].
  - destruct (nth_error (c_thr c) i) as [t|] eqn:Hn; [|apply as_skip].
    destruct t as [[|ph rest] [[l s0]|]]; try discriminate.
    apply as_write. exact Hn.
  - apply as_grow. apply Z.leb_le. exact En.
Qed.

Lemma crun_cons : forall at_ mm lb r c,
    crun at_ mm (lb :: r) c = crun at_ mm r (cstep at_ mm c lb).
Proof. reflexivity. Qed.

Lemma astep_len : forall mm c c', astep mm c c' -> c_len c <= c_len c'.
Proof.
  intros mm c c' Hs. destruct Hs; cbn [c_len]; lia.
Qed.

Lemma crun_len : forall mm sched c, c_len c <= c_len (crun true mm sched c).
Proof.
  intros mm sched. induction sched as [|lb r IH]; intros c.
  - cbn. lia.
  - rewrite crun_cons. specialize (IH (cstep true mm c lb)).
    pose proof (astep_len _ _ _ (cstep_astep mm c lb)). lia.
Qed.

(** ** the mutex invariant *)

Definition Inv (lo : Z) (c : cstate) : Prop :=
  lo <= c_len c /\
  (forall k t l s0, nth_error (c_thr c) k = Some t -> t_loc t = Some (l, s0) ->
                    s0 = c_st c /\ lo <= l <= c_len c) /\
  (forall k1 k2 t1 t2,
      nth_error (c_thr c) k1 = Some t1 -> nth_error (c_thr c) k2 = Some t2 ->
      t_loc t1 <> None -> t_loc t2 <> None -> k1 = k2).

Lemma write_clears : forall lo c i ph rest l s0,
    Inv lo c ->
    nth_error (c_thr c) i = Some (mkT (ph :: rest) (Some (l, s0))) ->
    forall k t, nth_error (tupd (c_thr c) i (mkT rest None)) k = Some t -> t_loc t = None.
Proof.
  intros lo c i ph rest l s0 (_ & _ & Huniq) Hn k t Hk.
  destruct (upd_inv _ _ _ _ _ _ Hk) as [(-> & -> & _)|(Hne & Hk')].
  - reflexivity.
  - destruct (t_loc t) as [x|] eqn:E; [|reflexivity].
    exfalso. apply Hne. apply (Huniq k i t _ Hk' Hn).
    + rewrite E. discriminate.
    + cbn. discriminate.
Qed.

Lemma read_locs : forall c i t0 todo len st,
    lock_free c = true -> nth_error (c_thr c) i = Some t0 ->
    forall k t l s0,
      nth_error (tupd (c_thr c) i (mkT todo (Some (len, st)))) k = Some t ->
      t_loc t = Some (l, s0) -> k = i /\ l = len /\ s0 = st.
Proof.
  intros c i t0 todo len st Hf Hn k t l s0 Hk Hl.
  destruct (upd_inv _ _ _ _ _ _ Hk) as [(-> & -> & _)|(Hne & Hk')].
  - cbn in Hl. inversion Hl. auto.
  - rewrite (lock_free_nth _ _ _ Hf Hk') in Hl. discriminate.
Qed.

Lemma Inv_step : forall mm lo c c', Inv lo c -> astep mm c c' -> Inv lo c'.
Proof.
  intros mm lo c c' HI Hs. pose proof HI as (Hlo & Hloc & Huniq).
  destruct Hs as [|d Hd|i t Hn Hl Hf|i ph rest l s0 Hn]; unfold Inv; cbn [c_len c_st c_thr].
  - exact HI.
  - split; [lia|]. split; [|exact Huniq].
    intros k t l s0 H1 H2. destruct (Hloc _ _ _ _ H1 H2). split; [auto|lia].
  - split; [lia|]. split.
    + intros k t' l s0 H1 H2.
      destruct (read_locs _ _ _ _ _ _ Hf Hn _ _ _ _ H1 H2) as (-> & -> & ->).
      split; [reflexivity|lia].
    + intros k1 k2 t1 t2 H1 H2 N1 N2.
      destruct (t_loc t1) as [[l1 s1]|] eqn:E1; [|congruence].
      destruct (t_loc t2) as [[l2 s2]|] eqn:E2; [|congruence].
      destruct (read_locs _ _ _ _ _ _ Hf Hn _ _ _ _ H1 E1) as (-> & _).
      destruct (read_locs _ _ _ _ _ _ Hf Hn _ _ _ _ H2 E2) as (-> & _).
      reflexivity.
  - split; [lia|]. split.
    + intros k t l' s' H1 H2.
      rewrite (write_clears _ _ _ _ _ _ _ HI Hn _ _ H1) in H2. discriminate.
    + intros k1 k2 t1 t2 H1 H2 N1 N2.
      exfalso. apply N1. exact (write_clears _ _ _ _ _ _ _ HI Hn _ _ H1).
Qed.

Lemma phase_write_self : forall mm ph l s,
    phase_write mm ph l s s = prim_step mm s (ph, l).
Proof. intros mm [a|] l [p m]; reflexivity. Qed.

Lemma astep_st : forall mm lo c c',
    Inv lo c -> astep mm c c' ->
    c_st c' = c_st c \/
    exists ph l, lo <= l <= c_len c /\ c_st c' = prim_step mm (c_st c) (ph, l).
Proof.
  intros mm lo c c' (Hlo & Hloc & Huniq) Hs.
  destruct Hs as [|d Hd|i t Hn Hl Hf|i ph rest l s0 Hn]; cbn [c_len c_st c_thr]; auto.
  right. destruct (Hloc _ _ _ _ Hn eq_refl) as [-> Hl].
  exists ph, l. split; [exact Hl|]. apply phase_write_self.
Qed.

Lemma cinit_loc : forall len0 s ps k t,
    nth_error (c_thr (cinit len0 s ps)) k = Some t ->
    t_loc t = None /\ exists p, In p ps /\ t_todo t = prog_phases p.
Proof.
  intros len0 s ps k t H. unfold cinit in H. cbn [c_thr] in H.
  apply nth_error_In in H. apply in_map_iff in H. destruct H as (p & <- & Hp).
  split; [reflexivity|]. exists p. auto.
Qed.

Lemma Inv_init : forall len0 s ps, Inv len0 (cinit len0 s ps).
Proof.
  intros len0 s ps. unfold Inv. split; [cbn; lia|]. split.
  - intros k t l s0 H1 H2. destruct (cinit_loc _ _ _ _ _ H1) as [E _]. congruence.
  - intros k1 k2 t1 t2 H1 _ N1 _. destruct (cinit_loc _ _ _ _ _ H1) as [E _]. congruence.
Qed.

(** ** statusconc_sequential *)

Lemma seq_run : forall mm lo sched c,
    Inv lo c ->
    exists prims : list (phase * Z),
      c_st (crun true mm sched c) = fold_left (prim_step mm) prims (c_st c) /\
      (forall x, In x prims -> lo <= snd x <= c_len (crun true mm sched c)).
Proof.
  intros mm lo sched. induction sched as [|lb r IH]; intros c HI.
  - exists []. split; [reflexivity|]. intros x [].
  - rewrite crun_cons.
    pose proof (cstep_astep mm c lb) as Hs.
    pose proof (Inv_step _ _ _ _ HI Hs) as HI'.
    destruct (IH _ HI') as (prims & Hst & Hb).
    pose proof (astep_len _ _ _ Hs) as Hlen.
    pose proof (crun_len mm r (cstep true mm c lb)) as Hlen'.
    destruct (astep_st _ _ _ _ HI Hs) as [E|(ph & l & Hl & E)].
    + exists prims. rewrite Hst, E. split; [reflexivity|exact Hb].
    + exists ((ph, l) :: prims). rewrite Hst, E. split; [reflexivity|].
      intros x [<-|Hx]; [cbn [snd]; lia|auto].
Qed.

Lemma statusconc_sequential : S_statusconc_sequential.
Proof.
  unfold S_statusconc_sequential. intros mm ps sched len0 s.
  destruct (seq_run mm len0 sched (cinit len0 s ps) (Inv_init _ _ _)) as (prims & H1 & H2).
  exists prims. split; [exact H1|exact H2].
Qed.

(** ** the arithmetic invariant (monotone maximum) *)

Definition LocInv (c : cstate) : Prop :=
  forall k t l s0, nth_error (c_thr c) k = Some t -> t_loc t = Some (l, s0) ->
                   s_progress s0 <= Z.max (s_max s0) l.

Definition Inv2 (lo : Z) (c : cstate) : Prop := Inv lo c /\ cstatus_inv c /\ LocInv c.

Lemma Inv2_step : forall lo c c',
    Inv2 lo c -> astep true c c' -> Inv2 lo c' /\ cstatus_le c c'.
Proof.
  intros lo c c' (HI & Hc & HL) Hs.
  pose proof (Inv_step _ _ _ _ HI Hs) as HI'.
  cut (cstatus_inv c' /\ LocInv c' /\ cstatus_le c c').
  { intros (A & B & C). split; [split; [exact HI'|split; assumption]|exact C]. }
  clear HI'. pose proof HI as (Hlo & Hloc & Huniq).
  unfold cstatus_inv, LocInv, cstatus_le, status_le in *.
  destruct Hs as [|d Hd|i t Hn Hl Hf|i ph rest l s0 Hn]; cbn [c_len c_st c_thr].
  - split; [exact Hc|]. split; [exact HL|]. lia.
  - split; [lia|]. split; [exact HL|]. lia.
  - split; [exact Hc|]. split; [|lia].
    intros k t' l s0 H1 H2.
    destruct (read_locs _ _ _ _ _ _ Hf Hn _ _ _ _ H1 H2) as (-> & -> & ->).
    exact Hc.
  - destruct (Hloc _ _ _ _ Hn eq_refl) as [-> Hl].
    specialize (HL _ _ _ _ Hn eq_refl).
    rewrite phase_write_self.
    split; [|split].
    + destruct (c_st c) as [p m]. cbn [s_progress s_max] in *.
      destruct ph as [a'|]; unfold prim_step, recalc_max, recalc_progress;
        cbn [s_progress s_max]; zlt; cbn [s_progress s_max]; lia.
    + intros k t l' s' H1 H2.
      rewrite (write_clears _ _ _ _ _ _ _ HI Hn _ _ H1) in H2. discriminate.
    + destruct (c_st c) as [p m]. cbn [s_progress s_max] in *.
      destruct ph as [a'|]; unfold prim_step, recalc_max, recalc_progress;
        cbn [s_progress s_max]; zlt; cbn [s_progress s_max]; lia.
Qed.

Lemma Inv2_run : forall lo sched c, Inv2 lo c -> Inv2 lo (crun true true sched c).
Proof.
  intros lo sched. induction sched as [|lb r IH]; intros c H; [exact H|].
  rewrite crun_cons. apply IH.
  apply (Inv2_step _ _ _ H (cstep_astep true c lb)).
Qed.

Lemma Inv2_init : forall len0 s ps,
    s_progress s <= Z.max (s_max s) len0 -> Inv2 len0 (cinit len0 s ps).
Proof.
  intros len0 s ps H. split; [apply Inv_init|]. split.
  - unfold cstatus_inv. cbn. exact H.
  - intros k t l s0 H1 H2. destruct (cinit_loc _ _ _ _ _ H1) as [E _]. congruence.
Qed.

(** ** statusconc_monotone *)

Lemma ctrace_head : forall at_ mm sched c, nth_error (ctrace at_ mm sched c) 0 = Some c.
Proof. intros at_ mm [|lb r] c; reflexivity. Qed.

Lemma trace_monotone : forall lo sched c,
    Inv2 lo c ->
    forall i a b,
      nth_error (ctrace true true sched c) i = Some a ->
      nth_error (ctrace true true sched c) (S i) = Some b ->
      cstatus_le a b /\ cstatus_inv b.
Proof.
  intros lo sched. induction sched as [|lb r IH]; intros c Hc i a b Ha Hb.
  - cbn in Ha, Hb. destruct i; cbn in Hb; discriminate.
  - cbn [ctrace] in Ha, Hb.
    destruct (Inv2_step _ _ _ Hc (cstep_astep true c lb)) as [Hinv Hle].
    destruct i as [|i].
    + cbn [nth_error] in Ha.
      change (nth_error (ctrace true true r (cstep true true c lb)) 0 = Some b) in Hb.
      rewrite ctrace_head in Hb.
      inversion Ha; inversion Hb; subst. split; [exact Hle|apply Hinv].
    + change (nth_error (ctrace true true r (cstep true true c lb)) i = Some a) in Ha.
      change (nth_error (ctrace true true r (cstep true true c lb)) (S i) = Some b) in Hb.
      exact (IH _ Hinv i a b Ha Hb).
Qed.

Lemma statusconc_monotone : S_statusconc_monotone.
Proof.
  unfold S_statusconc_monotone. intros ps sched len0 s H i a b Ha Hb.
  exact (trace_monotone len0 sched _ (Inv2_init _ _ ps H) i a b Ha Hb).
Qed.

(** ** statusconc_bounded *)

Definition ArgsB (B : Z) (c : cstate) : Prop :=
  forall k t a, nth_error (c_thr c) k = Some t -> In (PMax a) (t_todo t) -> a <= B.

Lemma ArgsB_step : forall mm B c c', ArgsB B c -> astep mm c c' -> ArgsB B c'.
Proof.
  intros mm B c c' HA Hs. unfold ArgsB in *.
  destruct Hs as [|d Hd|i t Hn Hl Hf|i ph rest l s0 Hn]; cbn [c_len c_st c_thr]; auto.
  - intros k t' a Hk Hin.
    destruct (upd_inv _ _ _ _ _ _ Hk) as [(-> & -> & _)|(Hne & Hk')].
    + cbn [t_todo] in Hin. exact (HA _ _ _ Hn Hin).
    + exact (HA _ _ _ Hk' Hin).
  - intros k t' a Hk Hin.
    destruct (upd_inv _ _ _ _ _ _ Hk) as [(-> & -> & _)|(Hne & Hk')].
    + cbn [t_todo] in Hin. apply (HA _ _ _ Hn). cbn [t_todo]. right. exact Hin.
    + exact (HA _ _ _ Hk' Hin).
Qed.

Lemma ArgsB_run : forall mm B sched c, ArgsB B c -> ArgsB B (crun true mm sched c).
Proof.
  intros mm B sched. induction sched as [|lb r IH]; intros c H; [exact H|].
  rewrite crun_cons. apply IH. apply (ArgsB_step mm _ _ _ H (cstep_astep mm c lb)).
Qed.

Lemma ArgsB_init : forall B len0 s ps,
    (forall p a, In p ps -> In a (prog_args p) -> a <= B) -> ArgsB B (cinit len0 s ps).
Proof.
  intros B len0 s ps H k t a Hk Hin.
  destruct (cinit_loc _ _ _ _ _ Hk) as [_ (p & Hp & E)]. rewrite E in Hin.
  apply (H p a Hp).
  destruct p as [x| |x]; cbn in Hin |- *.
  - destruct Hin as [Hin|[]]. inversion Hin. auto.
  - destruct Hin as [Hin|[]]. discriminate.
  - destruct Hin as [Hin|[Hin|[]]]; [inversion Hin; auto|discriminate].
Qed.

Lemma max_step_bounded : forall lo B c c',
    Inv lo c -> ArgsB B c -> s_max (c_st c) <= B -> astep true c c' -> c_len c' <= B ->
    s_max (c_st c') <= B.
Proof.
  intros lo B c c' (Hlo & Hloc & Huniq) HA Hm Hs Hlen.
  destruct Hs as [|d Hd|i t Hn Hl Hf|i ph rest l s0 Hn]; cbn [c_len c_st c_thr] in *; auto.
  destruct (Hloc _ _ _ _ Hn eq_refl) as [-> Hl].
  rewrite phase_write_self.
  destruct ph as [a'|]; unfold prim_step, recalc_max, recalc_progress; cbn [s_progress s_max].
  - assert (a' <= B) by (apply (HA _ _ _ Hn); cbn [t_todo]; left; reflexivity). lia.
  - exact Hm.
Qed.

Lemma bounded_run : forall lo B sched c,
    Inv2 lo c -> ArgsB B c -> s_max (c_st c) <= B ->
    c_len (crun true true sched c) <= B ->
    s_max (c_st (crun true true sched c)) <= B.
Proof.
  intros lo B sched. induction sched as [|lb r IH]; intros c H2 HA Hm Hlen; [exact Hm|].
  rewrite crun_cons in *.
  pose proof (cstep_astep true c lb) as Hs.
  pose proof (crun_len true r (cstep true true c lb)) as Hlen'.
  apply IH.
  - apply (Inv2_step _ _ _ H2 Hs).
  - apply (ArgsB_step true _ _ _ HA Hs).
  - apply (max_step_bounded lo B c _ (proj1 H2) HA Hm Hs). lia.
  - exact Hlen.
Qed.

Lemma statusconc_bounded : S_statusconc_bounded.
Proof.
  unfold S_statusconc_bounded. intros ps sched len0 s B H Hm Hargs Hlen.
  pose proof (Inv2_init len0 s ps H) as H2.
  pose proof (Inv2_run len0 sched _ H2) as H2'.
  pose proof (bounded_run len0 B sched _ H2 (ArgsB_init B len0 s ps Hargs) Hm Hlen) as Hb.
  split; [exact Hb|]. destruct H2' as (_ & Hc & _). split; [|exact Hc].
  unfold cstatus_inv in Hc. lia.
Qed.

(** ** statusconc_at_rest *)

Definition PendMax (L : Z) (i : nat) (a : Z) (c : cstate) : Prop :=
  s_max (c_st c) = L \/
  exists t, nth_error (c_thr c) i = Some t /\ In (PMax a) (t_todo t) /\
            (t_loc t = None \/ exists s0, t_loc t = Some (L, s0)).

Definition PendProg (L : Z) (j : nat) (c : cstate) : Prop :=
  s_progress (c_st c) = L \/
  exists t, nth_error (c_thr c) j = Some t /\ In PProg (t_todo t) /\
            (t_loc t = None \/ exists s0, t_loc t = Some (L, s0)).

Lemma PendMax_step : forall lo L i a c c',
    c_len c = L -> Inv lo c -> ArgsB L c -> s_max (c_st c) <= L ->
    PendMax L i a c -> astep true c c' ->
    s_max (c_st c) <= s_max (c_st c') -> s_max (c_st c') <= L ->
    PendMax L i a c'.
Proof.
  intros lo L i a c c' HL HI HA Hm PM Hs Hmono Hm'. subst L.
  destruct PM as [PM|(t & Hn & Hin & Hloc)]; [left; lia|].
  unfold PendMax.
  destruct Hs as [|d Hd|i0 t0 Hn0 Hl0 Hf|i0 ph rest l s0 Hn0]; cbn [c_len c_st c_thr] in *.
  - right; exists t; auto.
  - right; exists t; auto.
  - right. destruct (Nat.eq_dec i0 i) as [->|Hne].
    + rewrite Hn in Hn0. injection Hn0 as <-.
      exists (mkT (t_todo t) (Some (c_len c, c_st c))).
      split; [eapply upd_same; eauto|]. split; [exact Hin|].
      right. exists (c_st c). reflexivity.
    + exists t. rewrite upd_other by auto. auto.
  - destruct HI as (Hlo & Hlocs & Huniq).
    destruct (Hlocs _ _ _ _ Hn0 eq_refl) as [-> Hl].
    rewrite phase_write_self in *.
    destruct (Nat.eq_dec i0 i) as [->|Hne].
    + rewrite Hn in Hn0. injection Hn0 as Et. subst t. cbn [t_todo t_loc] in *.
      destruct Hloc as [Hloc|(s1 & Hloc)]; [discriminate|].
      injection Hloc as El Es.
      destruct ph as [a'|].
      * left.
        assert (a' <= c_len c) by (apply (HA _ _ _ Hn); cbn [t_todo]; left; reflexivity).
        unfold prim_step, recalc_max. cbn [s_max]. lia.
      * right. exists (mkT rest None).
        split; [eapply upd_same; eauto|]. split; [|left; reflexivity].
        cbn [t_todo]. destruct Hin as [Hin|Hin]; [discriminate|exact Hin].
    + right. exists t. rewrite upd_other by auto. auto.
Qed.

Lemma PendProg_step : forall lo L j c c',
    c_len c = L -> Inv lo c -> s_max (c_st c) <= L ->
    PendProg L j c -> astep true c c' ->
    s_progress (c_st c) <= s_progress (c_st c') -> s_progress (c_st c') <= L ->
    PendProg L j c'.
Proof.
  intros lo L j c c' HL HI Hm PP Hs Hmono Hp'. subst L.
  destruct PP as [PP|(t & Hn & Hin & Hloc)]; [left; lia|].
  unfold PendProg.
  destruct Hs as [|d Hd|i0 t0 Hn0 Hl0 Hf|i0 ph rest l s0 Hn0]; cbn [c_len c_st c_thr] in *.
  - right; exists t; auto.
  - right; exists t; auto.
  - right. destruct (Nat.eq_dec i0 j) as [->|Hne].
    + rewrite Hn in Hn0. injection Hn0 as <-.
      exists (mkT (t_todo t) (Some (c_len c, c_st c))).
      split; [eapply upd_same; eauto|]. split; [exact Hin|].
      right. exists (c_st c). reflexivity.
    + exists t. rewrite upd_other by auto. auto.
  - destruct HI as (Hlo & Hlocs & Huniq).
    destruct (Hlocs _ _ _ _ Hn0 eq_refl) as [-> Hl].
    rewrite phase_write_self in *.
    destruct (Nat.eq_dec i0 j) as [->|Hne].
    + rewrite Hn in Hn0. injection Hn0 as Et. subst t. cbn [t_todo t_loc] in *.
      destruct Hloc as [Hloc|(s1 & Hloc)]; [discriminate|].
      injection Hloc as El Es.
      destruct ph as [a'|].
      * right. exists (mkT rest None).
        split; [eapply upd_same; eauto|]. split; [|left; reflexivity].
        cbn [t_todo]. destruct Hin as [Hin|Hin]; [discriminate|exact Hin].
      * left. unfold prim_step, recalc_progress. cbn [s_progress s_max].
        zlt; cbn [s_progress s_max]; lia.
    + right. exists t. rewrite upd_other by auto. auto.
Qed.

Definition K (lo L : Z) (i j : nat) (a : Z) (c : cstate) : Prop :=
  c_len c = L /\ Inv2 lo c /\ ArgsB L c /\ s_max (c_st c) <= L /\
  PendMax L i a c /\ PendProg L j c.

Lemma K_step : forall lo L i j a c c',
    K lo L i j a c -> astep true c c' -> c_len c' = L -> K lo L i j a c'.
Proof.
  intros lo L i j a c c' (HL & H2 & HA & Hm & PM & PP) Hs HL'.
  destruct (Inv2_step _ _ _ H2 Hs) as [H2' Hle].
  pose proof (ArgsB_step true _ _ _ HA Hs) as HA'.
  assert (Hm' : s_max (c_st c') <= L).
  { apply (max_step_bounded lo L c c' (proj1 H2) HA Hm Hs). lia. }
  destruct Hle as [[Hp1 Hp2] _].
  assert (Hp' : s_progress (c_st c') <= L).
  { destruct H2' as (_ & Hc & _). unfold cstatus_inv in Hc. lia. }
  split; [exact HL'|]. split; [exact H2'|]. split; [exact HA'|]. split; [exact Hm'|].
  split.
  - exact (PendMax_step lo L i a c c' HL (proj1 H2) HA Hm PM Hs Hp2 Hm').
  - exact (PendProg_step lo L j c c' HL (proj1 H2) Hm PP Hs Hp1 Hp').
Qed.

Lemma K_run : forall lo L i j a sched c,
    K lo L i j a c -> c_len (crun true true sched c) = L ->
    K lo L i j a (crun true true sched c).
Proof.
  intros lo L i j a sched. induction sched as [|lb r IH]; intros c HK Hlen; [exact HK|].
  rewrite crun_cons in *.
  pose proof (cstep_astep true c lb) as Hs.
  pose proof (astep_len _ _ _ Hs) as H1.
  pose proof (crun_len true r (cstep true true c lb)) as H2.
  assert (HL : c_len c = L) by apply HK.
  apply IH; [|exact Hlen].
  apply (K_step _ _ _ _ _ _ _ HK Hs). lia.
Qed.

Lemma statusconc_at_rest : S_statusconc_at_rest.
Proof.
  unfold S_statusconc_at_rest.
  intros ps sched1 sched2 len0 s i j ti tj a H0 HL Hm Hargs
         Hni Hini Hli Hnj Hinj Hlj Hdone.
  set (c1 := crun true true sched1 (cinit len0 s ps)) in *.
  set (L := c_len c1) in *.
  set (c2 := crun true true sched2 c1) in *.
  pose proof (Inv2_init len0 s ps H0) as I0.
  assert (I1 : Inv2 len0 c1) by (apply Inv2_run; exact I0).
  assert (A0 : ArgsB L (cinit len0 s ps)) by (apply ArgsB_init; exact Hargs).
  assert (A1 : ArgsB L c1) by (apply ArgsB_run; exact A0).
  assert (M1 : s_max (c_st c1) <= L).
  { apply (bounded_run len0 L sched1 _ I0 A0 Hm). unfold L, c1. lia. }
  assert (K1 : K len0 L i j a c1).
  { split; [reflexivity|]. split; [exact I1|]. split; [exact A1|]. split; [exact M1|].
    split.
    - right. exists ti. auto.
    - right. exists tj. auto. }
  assert (K2 : K len0 L i j a c2) by (apply K_run; [exact K1|exact HL]).
  destruct K2 as (_ & _ & _ & _ & PM & PP).
  assert (E1 : s_max (c_st c2) = L).
  { destruct PM as [PM|(t & Hn & Hin & _)]; [exact PM|].
    rewrite (Hdone t (nth_error_In _ _ Hn)) in Hin. destruct Hin. }
  assert (E2 : s_progress (c_st c2) = L).
  { destruct PP as [PP|(t & Hn & Hin & _)]; [exact PP|].
    rewrite (Hdone t (nth_error_In _ _ Hn)) in Hin. destruct Hin. }
  destruct (c_st c2) as [p m]. cbn [s_progress s_max] in E1, E2.
  rewrite E1, E2. reflexivity.
Qed.

(** ** the refutations without the mutex *)

Lemma statusconc_refuted_nonatomic : S_statusconc_refuted_nonatomic.
Proof.
  unfold S_statusconc_refuted_nonatomic.
  exists [RStatus 6; RMax 9], [LGrow 1; LRead 0; LRead 1; LWrite 1; LWrite 0]%nat, 5, (mkS 5 5).
  split; [cbn; lia|].
  exists 4%nat. eexists. eexists.
  split; [vm_compute; reflexivity|].
  split; [vm_compute; reflexivity|].
  vm_compute. reflexivity.
Qed.

Lemma statusconc_refuted_nonatomic_progress : S_statusconc_refuted_nonatomic_progress.
Proof.
  unfold S_statusconc_refuted_nonatomic_progress.
  exists [RStatus 3; RStatus 9],
    [LGrow 1; LRead 0; LWrite 0; LRead 0; LGrow 6; LRead 1; LWrite 1; LRead 1; LWrite 1;
     LWrite 0]%nat, 2, (mkS 2 2).
  split; [cbn; lia|]. split.
  - exists 9%nat. eexists. eexists.
    split; [vm_compute; reflexivity|].
    split; [vm_compute; reflexivity|].
    vm_compute. reflexivity.
  - cbv zeta. split.
    + intros t Ht. vm_compute in Ht.
      repeat (destruct Ht as [<-|Ht]; [reflexivity|]). contradiction.
    + split; vm_compute; reflexivity.
Qed.

Print Assumptions statusconc_monotone.
Print Assumptions statusconc_bounded.
Print Assumptions statusconc_sequential.
Print Assumptions statusconc_at_rest.
Print Assumptions statusconc_refuted_nonatomic.
Print Assumptions statusconc_refuted_nonatomic_progress.

(** Proofs about the lifecycle model (C18). *)
From Orbit Require Import Model.Lifecycle.
From Coq Require Import Lia.

(** * Configurations *)
Lemma all_configs_complete : forall cfg, In cfg all_configs.
Proof. intros [[] [] [] []]; vm_compute; auto 20. Qed.

(** * Raised sets *)
Lemma smem_app s l1 l2 : smem s (l1 ++ l2) = smem s l1 || smem s l2.
Proof. unfold smem. apply existsb_app. Qed.

Lemma raise_mono s x l : smem s l = true -> smem s (raise x l) = true.
Proof.
  intros H. unfold raise. destruct (smem x l); [exact H |].
  rewrite smem_app, H. reflexivity.
Qed.

Lemma raise_self x l : smem x (raise x l) = true.
Proof.
  unfold raise. destruct (smem x l) eqn:E; [exact E |].
  rewrite smem_app. simpl. replace (signal_eqb x x) with true; [apply orb_true_r |].
  symmetry. apply signal_eqb_eq. reflexivity.
Qed.

Lemma raise_all_mono s ss : forall l, smem s l = true -> smem s (raise_all ss l) = true.
Proof.
  induction ss as [|x ss IH]; intros l H; simpl; [exact H |].
  apply IH. apply raise_mono. exact H.
Qed.

Lemma raise_all_mem s ss : forall l, In s ss -> smem s (raise_all ss l) = true.
Proof.
  induction ss as [|x ss IH]; intros l H; simpl; [destruct H |].
  destruct H as [-> | H].
  - apply raise_all_mono. apply raise_self.
  - apply IH. exact H.
Qed.

Lemma raise_present x l : smem x l = true -> raise x l = l.
Proof. intros H. unfold raise. rewrite H. reflexivity. Qed.

Lemma raise_all_present ss : forall l, (forall s, In s ss -> smem s l = true) -> raise_all ss l = l.
Proof.
  induction ss as [|x ss IH]; intros l H; simpl; [reflexivity |].
  rewrite raise_present by (apply H; left; reflexivity).
  apply IH. intros s Hs. apply H. right. exact Hs.
Qed.

Lemma raise_all_idem ss l : raise_all ss (raise_all ss l) = raise_all ss l.
Proof. apply raise_all_present. intros s Hs. apply raise_all_mem. exact Hs. Qed.

Lemma woken_mono sw a r r' :
  (forall s, smem s r = true -> smem s r' = true) -> woken sw r a = true -> woken sw r' a = true.
Proof.
  intros H. unfold woken. rewrite !existsb_exists. intros [s [Hs Hm]]. exists s. split; [exact Hs | apply H; exact Hm].
Qed.

Lemma woken_by sw a r s : In s (wake_set sw a) -> smem s r = true -> woken sw r a = true.
Proof. intros Hi Hm. unfold woken. apply existsb_exists. exists s. split; assumption. Qed.

(** * Close *)

(** What the consequences add, when the store context and the replicator's root context
    have been cancelled and every worker is woken by the latter - in every configuration; the
    topic channels are closed in the configurations that have any. *)
Lemma consequences_fixed cfg acts r :
  smem SigStoreCtx r = true -> smem SigReplRootCtx r = true ->
  let r' := consequences sw_fixed cfg acts r in
  (forall s, smem s r = true -> smem s r' = true) /\
  (cf_replicate cfg = true -> smem SigTopicChans r' = true) /\ smem SigWorkersDone r' = true.
Proof.
  intros Hc Hr. unfold consequences. rewrite Hc. cbn [andb].
  set (r1 := if cf_replicate cfg then raise SigTopicChans r else r).
  assert (Hm1 : forall s, smem s r = true -> smem s r1 = true).
  { intros s Hs. unfold r1. destruct (cf_replicate cfg); [apply raise_mono |]; exact Hs. }
  assert (Hall : forallb (fun a => implb (is_worker a) (woken sw_fixed r1 a)) acts = true).
  { apply forallb_forall. intros a _. destruct (is_worker a) eqn:W; [| reflexivity]. simpl.
    apply woken_by with (s := SigReplRootCtx); [| apply Hm1; exact Hr].
    destruct a; try discriminate W; simpl; auto. }
  rewrite Hall. repeat split.
  - intros s Hs. apply raise_mono. apply Hm1. exact Hs.
  - intros Hrep. apply raise_mono. unfold r1. rewrite Hrep. apply raise_self.
  - apply raise_self.
Qed.

(** The only signal that ends a replication worker waiting for a slot or inside a block
    fetch is the replicator's root context ([Replicator().Stop()]), whatever the switches
    and whatever else has been raised: a Close that skipped [Stop] in some configuration
    would strand the workers of that configuration, and with them the load request. *)
Theorem worker_needs_stop : forall sw raised a,
  a = AReplWorkerWaiting \/ a = AReplWorkerFetching ->
  smem SigReplRootCtx raised = false -> woken sw raised a = false.
Proof.
  intros sw raised a [-> | ->] H; unfold woken; simpl; rewrite H; reflexivity.
Qed.

(** ... and a store of any configuration can have such workers (its replicator is fed by
    Sync, LoadMoreFrom and LoadFromSnapshot whether or not it replicates). *)
Theorem every_config_can_replicate : forall cfg,
  started_by cfg AReplWorkerWaiting = true /\ started_by cfg AReplWorkerFetching = true /\
  started_by cfg ASyncLoad = true /\ started_by cfg ASnapshotLoad = true /\ started_by cfg AReplCtxBinder = true.
Proof. intros cfg. repeat split; reflexivity. Qed.

(** close_terminates: on the repaired tree, after Close every background activity of the
    store has a raised signal in its wake set - whatever was running, whatever had been
    raised before. *)
Theorem close_terminates : forall cfg acts raised a,
  In a acts -> started_by cfg a = true ->
  woken sw_fixed (st_raised (close sw_fixed (mkStore cfg true acts raised))) a = true.
Proof.
  intros cfg acts raised a _ Hs. unfold close, close_step. simpl.
  set (R := raise_all (close_signals sw_fixed) raised).
  assert (HC : smem SigStoreCtx R = true) by (apply raise_all_mem; simpl; auto).
  assert (HR : smem SigReplRootCtx R = true) by (apply raise_all_mem; simpl; auto).
  assert (HU : smem SigUnsubscribeAll R = true) by (apply raise_all_mem; simpl; auto 10).
  destruct (consequences_fixed cfg acts R HC HR) as [Hm [Ht Hw]].
  unfold started_by in Hs. apply andb_true_iff in Hs. destruct Hs as [Hs _].
  apply andb_true_iff in Hs. destruct Hs as [Hs Hn].
  destruct a; try discriminate Hs.
  all: try solve [apply woken_by with (s := SigStoreCtx); [simpl; tauto | apply Hm; exact HC]].
  all: try solve [apply woken_by with (s := SigTopicChans); [simpl; tauto | apply Ht; exact Hn]].
  all: try solve [apply woken_by with (s := SigWorkersDone); [simpl; tauto | exact Hw]].
  all: try solve [apply woken_by with (s := SigReplRootCtx); [simpl; tauto | apply Hm; exact HR]].
  apply woken_by with (s := SigUnsubscribeAll); [simpl; tauto | apply Hm; exact HU].
Qed.

Lemma filter_nil {A} (f : A -> bool) l : (forall x, In x l -> f x = false) -> filter f l = [].
Proof.
  induction l as [|x l IH]; intros H; simpl; [reflexivity |].
  rewrite (H x) by (left; reflexivity). apply IH. intros y Hy. apply H. right. exact Hy.
Qed.

Corollary close_leaves_nothing_stuck : forall cfg acts raised,
  forallb (started_by cfg) acts = true ->
  stuck sw_fixed (close sw_fixed (mkStore cfg true acts raised)) = [].
Proof.
  intros cfg acts raised H. unfold stuck. apply filter_nil. intros a Ha.
  change (st_acts (close sw_fixed (mkStore cfg true acts raised))) with acts in Ha.
  rewrite forallb_forall in H.
  rewrite (close_terminates cfg acts raised a Ha (H a Ha)). reflexivity.
Qed.

(** what the driver scripts is within the theorem's reach: at every moment, in every
    configuration, the model store only runs activities its configuration can have started *)
Lemma acts_at_started : forall cfg w, forallb (started_by cfg) (acts_at cfg w) = true.
Proof.
  intros cfg w. unfold acts_at. rewrite forallb_app. apply andb_true_iff. split.
  - destruct cfg as [[] m l cd]; reflexivity.
  - apply forallb_forall. intros a Ha. apply filter_In in Ha. exact (proj2 Ha).
Qed.

Corollary close_fixed_every_moment : forall cfg w,
  stuck sw_fixed (close sw_fixed (open_store cfg (acts_at cfg w))) = [].
Proof. intros cfg w. apply close_leaves_nothing_stuck. apply acts_at_started. Qed.

(** The tree as it stands: two kinds of activity survive Close. *)

(** A replication worker whose fetch completes after the cancellation (kubo returns a block
    it holds locally whatever the context) has a fetched entry to hand to a progress
    consumer that has already left: the worker, and the load request waiting for it, stay. *)
Theorem close_current_strands_delivering_worker : forall cfg,
  stuck sw_pinned (close sw_pinned (open_store cfg (acts_at cfg 11%N))) = [ASyncLoad; AReplWorkerDelivering].
Proof. intros [[] [] [] []]; reflexivity. Qed.

(** A legacy subscriber waits for its caller's context only. *)
Theorem close_current_strands_legacy_subscriber : forall cfg,
  stuck sw_pinned (close sw_pinned (open_store cfg (acts_at cfg 7%N))) = [ALegacySubscriber].
Proof. intros [[] [] [] []]; reflexivity. Qed.

(** A Load waiting for a block nobody provides runs under its caller's context only. *)
Theorem close_current_strands_stuck_load : forall cfg,
  stuck sw_pinned (close sw_pinned (open_store cfg (acts_at cfg 18%N))) = [ALoadHeads] /\
  op_class sw_pinned OpInflightLoadStuck = 3%N /\ op_class sw_pinned OpInflightSnapshotStuck = 3%N.
Proof. intros [[] [] [] []]; repeat split; reflexivity. Qed.

(** At every other scripted moment nothing is left, also on the pinned tree, in every
    configuration (store-level moments: the store's; instance-level: two databases of any two
    configurations). *)
Theorem close_current_other_moments :
  forall cfg cfg' w, In w [0; 1; 2; 3; 4; 5; 6; 8; 9; 10; 12; 13; 14; 15; 16; 17]%N ->
    predicted_leaks sw_pinned [cfg; cfg'] w = [].
Proof.
  intros [[] [] [] []] [[] [] [] []] w H; simpl in H;
    repeat (destruct H as [<- | H]; [vm_compute; reflexivity |]); destruct H.
Qed.

(** close_idempotent: a second Close changes nothing, raises nothing and returns nil. *)
Theorem close_idempotent : forall sw s,
  close sw (close sw s) = close sw s /\
  close_raises sw (close sw s) = [] /\
  close_returns sw (close sw s) = Ok tt.
Proof.
  intros sw s. unfold close, close_raises, close_returns, close_step.
  destruct (st_open s) eqn:E; simpl; [| rewrite E; simpl]; auto.
Qed.

Theorem close_returns_ok : forall sw s, close_returns sw s = Ok tt.
Proof. intros sw s. unfold close_returns, close_step. destruct (st_open s); reflexivity. Qed.

Lemma close_closed sw s : st_open (close sw s) = false.
Proof. unfold close, close_step. destruct (st_open s) eqn:E; simpl; [reflexivity | exact E]. Qed.

(** * Instance close *)
Theorem iclose_idempotent : forall sw i, iclose sw (iclose sw i) = iclose sw i.
Proof.
  intros sw i. unfold iclose. cbn [i_stores i_acts i_raised]. f_equal.
  - rewrite map_map. apply map_ext. intros s. apply close_idempotent.
  - apply raise_all_idem.
Qed.

Lemma closed_stores_not_stuck : forall extra stores,
  (forall s, In s stores -> st_open s = true /\ forallb (started_by (st_cfg s)) (st_acts s) = true) ->
  flat_map (fun s => filter (fun a => negb (woken sw_fixed (st_raised s ++ extra) a)) (st_acts s))
           (map (close sw_fixed) stores) = [].
Proof.
  intros extra stores. induction stores as [|s l IH]; intros Hs; [reflexivity |].
  cbn [map flat_map]. rewrite IH by (intros s' H'; apply Hs; right; exact H').
  rewrite app_nil_r. apply filter_nil. intros a Ha.
  destruct (Hs s (or_introl eq_refl)) as [Ho Hf].
  destruct s as [cfg o acts r]. cbn [st_open st_acts st_cfg] in Ho, Hf. subst o.
  change (st_acts (close sw_fixed (mkStore cfg true acts r))) with acts in Ha.
  rewrite forallb_forall in Hf.
  rewrite (woken_mono sw_fixed a (st_raised (close sw_fixed (mkStore cfg true acts r)))); [reflexivity | | ].
  - intros sg Hsg. rewrite smem_app, Hsg. reflexivity.
  - apply close_terminates; [exact Ha | apply Hf; exact Ha].
Qed.

(** after the instance Close, every store activity of every store that was open - each store
    with its own configuration - and the instance's own monitor have a raised signal in their
    wake set (repaired tree) *)
Theorem iclose_terminates : forall stores iacts raised,
  (forall s, In s stores -> st_open s = true /\ forallb (started_by (st_cfg s)) (st_acts s) = true) ->
  (forall a, In a iacts -> a = AMonitorDirect) ->
  istuck sw_fixed (iclose sw_fixed (mkInst stores iacts raised)) = [].
Proof.
  intros stores iacts raised Hs Hi. unfold istuck, iclose. cbn [i_stores i_acts i_raised].
  rewrite closed_stores_not_stuck by exact Hs.
  cbn [app]. apply filter_nil. intros a Ha. rewrite (Hi a Ha).
  rewrite (woken_by sw_fixed AMonitorDirect _ SigInstanceCtx); [reflexivity | simpl; tauto |].
  apply raise_all_mem. simpl. tauto.
Qed.

(** * Operations after Close *)
Theorem after_close_no_panic : forall o, is_panic (op_after_close o) = false.
Proof. destruct o; reflexivity. Qed.

Theorem after_close_ok_or_err : forall o, exists r, op_after_close o = Ok r \/ exists e, op_after_close o = Err e.
Proof.
  destruct o; simpl;
    first [ now (eexists; left; reflexivity) | now (exists RNoop; right; eexists; reflexivity) ].
Qed.

(** on the repaired tree every operation answers, with class ok or error *)
Theorem after_close_answers_fixed : forall o, (op_class sw_fixed o <=? 1)%N = true.
Proof. destruct o; reflexivity. Qed.

(** Drop returns whenever Destroy closes a loaded cache inline ... *)
Theorem drop_never_deadlocks_fixed : forall handle_open loaded_again,
  drop_locking sw_fixed handle_open loaded_again = Returns.
Proof. intros [] []; reflexivity. Qed.

(** ... and on the tree as it stands, Drop through an open handle returns, but Drop through a
    closed handle after the cache was loaded again takes the manager's lock twice. *)
Theorem drop_current_locking :
  (forall loaded_again, drop_locking sw_pinned true loaded_again = Returns) /\
  drop_locking sw_pinned false false = Returns /\
  drop_locking sw_pinned false true = Deadlocks /\
  op_class sw_pinned OpDropStale = 3%N.
Proof. split; [intros []; reflexivity | repeat split; reflexivity]. Qed.

(** a load waiting for a block ends with Close once its context is bound to the store's *)
Theorem load_ends_fixed : load_ends sw_fixed = Returns /\ load_ends sw_pinned = Deadlocks.
Proof. split; reflexivity. Qed.

Theorem all_ops_complete : forall o, In o all_ops.
Proof. destruct o; simpl; auto 40. Qed.

Theorem op_codes_cover : forall o, exists n, op_of_code n = Some o.
Proof.
  intros o. destruct (In_nth_error _ _ (all_ops_complete o)) as [k Hk].
  exists (N.of_nat (S k)). unfold op_of_code. rewrite Nat2N.id. simpl. rewrite Nat.sub_0_r. exact Hk.
Qed.

(** * Cache directories *)
Definition names (l : list seg) : list N :=
  flat_map (fun s => match s with SNorm n => [n] | _ => [] end) l.

Lemma clean_rel_no_dotdot : forall l ups stack,
  no_dotdot l = true -> clean_rel ups stack l = (ups, rev stack ++ names l).
Proof.
  induction l as [|s l IH]; intros ups stack H; simpl.
  - rewrite app_nil_r. reflexivity.
  - simpl in H. destruct s; try discriminate H; simpl in H.
    + rewrite IH by exact H. simpl. rewrite <- app_assoc. reflexivity.
    + apply IH. exact H.
    + apply IH. exact H.
Qed.

Lemma key_no_dotdot dir root path :
  no_dotdot path = true -> datastore_key dir root path = dir ++ root :: names path.
Proof.
  intros H. unfold datastore_key. simpl. rewrite clean_rel_no_dotdot by exact H.
  unfold join_abs. simpl. rewrite Nat.sub_0_r, firstn_all. reflexivity.
Qed.

Lemma clean_no_dotdot p : clean_path p = true -> no_dotdot p = true.
Proof.
  unfold clean_path, no_dotdot. rewrite !forallb_forall. intros H s Hs.
  specialize (H s Hs). destruct s; try discriminate H; reflexivity.
Qed.

Lemma names_clean p : clean_path p = true -> map SNorm (names p) = p.
Proof.
  induction p as [|s p IH]; intros H; [reflexivity |]. simpl in H.
  destruct s; try discriminate H. simpl. rewrite IH by exact H. reflexivity.
Qed.

Lemma is_prefix_app d a b : is_prefix (d ++ a) (d ++ b) = is_prefix a b.
Proof. induction d as [|x d IH]; simpl; [reflexivity |]. rewrite N.eqb_refl. exact IH. Qed.

Lemma is_prefix_spec a : forall f, is_prefix a f = true <-> exists r, f = a ++ r.
Proof.
  induction a as [|x a IH]; intros f; simpl.
  - split; [intros _; exists f; reflexivity | reflexivity].
  - destruct f as [|y f]; simpl.
    + split; [discriminate | intros [r H]; discriminate H].
    + rewrite andb_true_iff, N.eqb_eq, IH. split.
      * intros [-> [r ->]]. exists r. reflexivity.
      * intros [r H]. inversion H; subst. split; [reflexivity | exists r; reflexivity].
Qed.

Lemma is_prefix_refl a : is_prefix a a = true.
Proof. apply is_prefix_spec. exists []. rewrite app_nil_r. reflexivity. Qed.

Lemma is_prefix_diff_head r1 r2 a b : r1 <> r2 -> is_prefix (r1 :: a) (r2 :: b) = false.
Proof. intros H. simpl. apply N.eqb_neq in H. rewrite H. reflexivity. Qed.

(** ** What a Drop removes *)

Lemma is_prefix_false_app d a b : is_prefix a b = false -> is_prefix (d ++ a) (d ++ b) = false.
Proof. intros H. rewrite is_prefix_app. exact H. Qed.

Lemma key_eqb_spec a b : key_eqb a b = true <-> a = b.
Proof.
  unfold key_eqb. rewrite andb_true_iff, !is_prefix_spec. split.
  - intros [[r1 H1] [r2 H2]]. subst b. rewrite <- app_assoc in H2.
    rewrite <- (app_nil_r a) in H2 at 1. apply app_inv_head in H2.
    symmetry in H2. apply app_eq_nil in H2. destruct H2 as [-> _]. rewrite app_nil_r. reflexivity.
  - intros ->. split; exists []; rewrite app_nil_r; reflexivity.
Qed.

Lemma is_child_prefix k f : is_child k f = true -> is_prefix k f = true.
Proof. unfold is_child. intros H. apply andb_true_iff in H. exact (proj2 H). Qed.

(** what a Drop removes is below its directory, whichever way Destroy works *)
Lemma removed_is_below sw k f :
  (if sw_destroy_own_files sw then is_child k f else is_prefix k f) = true -> is_prefix k f = true.
Proof. destruct (sw_destroy_own_files sw); [apply is_child_prefix | trivial]. Qed.

Lemma drop_removes_is_prefix sw cfg dir r p k' :
  drop_removes sw cfg dir r p k' = true -> is_prefix (datastore_key dir r p) k' = true.
Proof.
  unfold drop_removes. intros H. apply andb_true_iff in H. destruct H as [_ H].
  destruct (sw_destroy_own_files sw); [| exact H].
  apply key_eqb_spec in H. rewrite H. apply is_prefix_refl.
Qed.

(** drop_scope: two addresses with different roots whose paths contain no ".." segment
    (in particular clean paths): neither cache directory equals or lies below the other,
    so Drop of one does not remove the other's directory - in every configuration and
    whichever way Destroy works. *)
Theorem drop_scope_no_dotdot : forall sw cfg dir r1 p1 r2 p2,
  r1 <> r2 -> no_dotdot p1 = true -> no_dotdot p2 = true ->
  drop_removes sw cfg dir r1 p1 (datastore_key dir r2 p2) = false /\
  drop_removes sw cfg dir r2 p2 (datastore_key dir r1 p1) = false.
Proof.
  intros sw cfg dir r1 p1 r2 p2 Hr H1 H2.
  assert (A : is_prefix (datastore_key dir r1 p1) (datastore_key dir r2 p2) = false).
  { rewrite !key_no_dotdot by assumption. rewrite is_prefix_app. apply is_prefix_diff_head. exact Hr. }
  assert (B : is_prefix (datastore_key dir r2 p2) (datastore_key dir r1 p1) = false).
  { rewrite !key_no_dotdot by assumption. rewrite is_prefix_app. apply is_prefix_diff_head.
    intros E; apply Hr; symmetry; exact E. }
  split.
  - destruct (drop_removes sw cfg dir r1 p1 (datastore_key dir r2 p2)) eqn:E; [| reflexivity].
    apply drop_removes_is_prefix in E. rewrite A in E. discriminate E.
  - destruct (drop_removes sw cfg dir r2 p2 (datastore_key dir r1 p1)) eqn:E; [| reflexivity].
    apply drop_removes_is_prefix in E. rewrite B in E. discriminate E.
Qed.

Theorem drop_scope : forall sw cfg dir r1 p1 r2 p2,
  r1 <> r2 -> clean_path p1 = true -> clean_path p2 = true ->
  drop_removes sw cfg dir r1 p1 (datastore_key dir r2 p2) = false /\
  drop_removes sw cfg dir r2 p2 (datastore_key dir r1 p1) = false.
Proof.
  intros sw cfg dir r1 p1 r2 p2 Hr H1 H2.
  apply drop_scope_no_dotdot; [exact Hr | apply clean_no_dotdot; exact H1 | apply clean_no_dotdot; exact H2].
Qed.

(** ... and every file below the other database's directory survives the removal. *)
Theorem drop_keeps_sibling_files : forall sw cfg dir r1 p1 r2 p2 fs f,
  r1 <> r2 -> no_dotdot p1 = true -> no_dotdot p2 = true ->
  In f fs -> is_prefix (datastore_key dir r2 p2) f = true ->
  In f (destroy_cfg sw cfg (datastore_key dir r1 p1) fs).
Proof.
  intros sw cfg dir r1 p1 r2 p2 fs f Hr H1 H2 Hin Hp. unfold destroy_cfg.
  destruct (cf_memory cfg); [exact Hin |].
  unfold destroy. apply filter_In. split; [exact Hin |].
  destruct (if sw_destroy_own_files sw then is_child (datastore_key dir r1 p1) f
            else is_prefix (datastore_key dir r1 p1) f) eqn:E; [| reflexivity].
  apply removed_is_below in E.
  rewrite key_no_dotdot in * by assumption.
  apply is_prefix_spec in Hp. destruct Hp as [rest ->].
  rewrite <- app_assoc, is_prefix_app in E. simpl in E.
  apply N.eqb_neq in Hr. rewrite Hr in E. discriminate E.
Qed.

(** ... while the dropped database's own files (the ones directly in its directory) are all
    gone, whichever way Destroy works. *)
Theorem drop_removes_own_files : forall sw dir r p fs f,
  is_child (datastore_key dir r p) f = true -> ~ In f (destroy sw (datastore_key dir r p) fs).
Proof.
  intros sw dir r p fs f Hp Hin. unfold destroy in Hin. apply filter_In in Hin. destruct Hin as [_ H].
  destruct (sw_destroy_own_files sw); [rewrite Hp in H | rewrite (is_child_prefix _ _ Hp) in H]; discriminate H.
Qed.

(** RemoveAll (the pinned Destroy) removes everything below the directory. *)
Theorem drop_pinned_removes_everything_below : forall dir r p fs f,
  is_prefix (datastore_key dir r p) f = true -> ~ In f (destroy sw_pinned (datastore_key dir r p) fs).
Proof.
  intros dir r p fs f Hp Hin. unfold destroy in Hin. apply filter_In in Hin. destruct Hin as [_ H].
  cbn [sw_destroy_own_files sw_pinned] in H. rewrite Hp in H. discriminate H.
Qed.

Corollary drop_removes_own_files_cfg : forall sw cfg dir r p fs f,
  cf_memory cfg = false ->
  is_child (datastore_key dir r p) f = true -> ~ In f (destroy_cfg sw cfg (datastore_key dir r p) fs).
Proof. intros sw cfg dir r p fs f Hm. unfold destroy_cfg. rewrite Hm. apply drop_removes_own_files. Qed.

(** An instance on ":memory:" has nothing on disk: Drop removes no file at all. *)
Theorem drop_memory_removes_nothing : forall sw cfg dir r p fs k',
  cf_memory cfg = true ->
  destroy_cfg sw cfg (datastore_key dir r p) fs = fs /\ drop_removes sw cfg dir r p k' = false.
Proof. intros sw cfg dir r p fs k' Hm. unfold destroy_cfg, drop_removes. rewrite Hm. split; reflexivity. Qed.

(** With the address check, every address that can be opened satisfies the hypothesis. *)
Theorem accepted_fixed_no_dotdot : forall p, address_accepted sw_fixed p = true -> no_dotdot p = true.
Proof. intros p H. exact H. Qed.

(** Refutation on the pinned tree: the address /orbitdb/r1/../r2/name is accepted,
    prints as the OTHER database's address, and has the other database's cache directory;
    dropping it removes every file of /orbitdb/r2/name. *)
Theorem dotdot_alias_accepted : forall r2 name,
  address_accepted sw_pinned [SDotDot; SNorm r2; SNorm name] = true /\
  address_accepted sw_fixed [SDotDot; SNorm r2; SNorm name] = false.
Proof. intros. split; reflexivity. Qed.

Theorem dotdot_alias_same_directory : forall dir r1 r2 name,
  datastore_key dir r1 [SDotDot; SNorm r2; SNorm name] = datastore_key dir r2 [SNorm name] /\
  address_string r1 [SDotDot; SNorm r2; SNorm name] = address_string r2 [SNorm name].
Proof. intros. split; reflexivity. Qed.

Theorem dotdot_alias_drop_destroys_other : forall cfg dir r1 r2 name fs f,
  cf_memory cfg = false -> r1 <> r2 ->
  is_prefix (datastore_key dir r2 [SNorm name]) f = true ->
  ~ In f (destroy_cfg sw_pinned cfg (datastore_key dir r1 [SDotDot; SNorm r2; SNorm name]) fs).
Proof.
  intros cfg dir r1 r2 name fs f Hm _ Hp.
  destruct (dotdot_alias_same_directory dir r1 r2 name) as [E _]. rewrite E.
  unfold destroy_cfg. rewrite Hm. apply drop_pinned_removes_everything_below. exact Hp.
Qed.

Theorem dotdot_alias_refutation : forall cfg dir r1 r2 name fs f,
  cf_memory cfg = false -> r1 <> r2 ->
  address_accepted sw_pinned [SDotDot; SNorm r2; SNorm name] = true /\
  datastore_key dir r1 [SDotDot; SNorm r2; SNorm name] = datastore_key dir r2 [SNorm name] /\
  (is_prefix (datastore_key dir r2 [SNorm name]) f = true ->
   ~ In f (destroy_cfg sw_pinned cfg (datastore_key dir r1 [SDotDot; SNorm r2; SNorm name]) fs)).
Proof.
  intros cfg dir r1 r2 name fs f Hm H. split; [apply dotdot_alias_accepted |].
  split; [apply dotdot_alias_same_directory | apply dotdot_alias_drop_destroys_other; assumption].
Qed.

(** ** Databases that share a manifest root

    Open accepts any path under a manifest root: /orbitdb/r/demo, /orbitdb/r/archive/demo and
    /orbitdb/r/demo/sub are three databases (three addresses, log ids, topics), and their cache
    directories are told apart by the FULL path. *)

(** the cache key is injective on (root, path): two addresses share a cache only if they are
    the same address (up to "." and empty segments) *)
Theorem cache_key_injective : forall dir r1 p1 r2 p2,
  no_dotdot p1 = true -> no_dotdot p2 = true ->
  datastore_key dir r1 p1 = datastore_key dir r2 p2 -> r1 = r2 /\ names p1 = names p2.
Proof.
  intros dir r1 p1 r2 p2 H1 H2 E. rewrite !key_no_dotdot in E by assumption.
  apply app_inv_head in E. inversion E. split; reflexivity.
Qed.

(** ... hence closing one database leaves the cache of every other one open: a write on the
    other is acknowledged. *)
Theorem close_keeps_sibling_cache : forall dir r1 p1 r2 p2,
  no_dotdot p1 = true -> no_dotdot p2 = true ->
  (r1 <> r2 \/ names p1 <> names p2) ->
  shares_cache dir r1 p1 r2 p2 = false /\ write_after_sibling_close dir r1 p1 r2 p2 = Ok RDone.
Proof.
  intros dir r1 p1 r2 p2 H1 H2 Hd.
  assert (S : shares_cache dir r1 p1 r2 p2 = false).
  { unfold shares_cache. destruct (key_eqb _ _) eqn:E; [| reflexivity].
    apply key_eqb_spec in E. apply cache_key_injective in E; [| assumption | assumption].
    destruct E as [Er Ep]. destruct Hd as [Hd | Hd]; contradiction. }
  split; [exact S |]. unfold write_after_sibling_close. rewrite S. reflexivity.
Qed.

(** Same root, on the pinned tree: directories nest (an address /orbitdb/r/x/y lives inside the
    leveldb directory of /orbitdb/r/x): Drop of /orbitdb/r/x removes the directory, and every
    file, of /orbitdb/r/x/y. *)
Theorem drop_same_root_nested : forall cfg dir r x y fs f,
  cf_memory cfg = false ->
  drop_removes sw_pinned cfg dir r [SNorm x] (datastore_key dir r [SNorm x; SNorm y]) = true /\
  (is_prefix (datastore_key dir r [SNorm x; SNorm y]) f = true ->
   ~ In f (destroy_cfg sw_pinned cfg (datastore_key dir r [SNorm x]) fs)).
Proof.
  intros cfg dir r x y fs f Hm. split.
  - unfold drop_removes. rewrite Hm. cbn [negb andb sw_pinned sw_destroy_own_files].
    rewrite !key_no_dotdot by reflexivity. rewrite is_prefix_app. simpl. rewrite !N.eqb_refl. reflexivity.
  - intros Hp. unfold destroy_cfg. rewrite Hm. apply drop_pinned_removes_everything_below.
    rewrite !key_no_dotdot in * by reflexivity.
    apply is_prefix_spec in Hp. destruct Hp as [rest ->]. apply is_prefix_spec.
    exists (y :: rest). simpl. rewrite <- !app_assoc. reflexivity.
Qed.

(** ... while same-root databases whose paths do not extend one another (same last segment,
    different full path: r/demo and r/archive/demo) are safe on the pinned tree as well. *)
Theorem drop_scope_same_root_not_nested : forall sw cfg dir r p1 p2,
  no_dotdot p1 = true -> no_dotdot p2 = true ->
  is_prefix (names p1) (names p2) = false -> is_prefix (names p2) (names p1) = false ->
  drop_removes sw cfg dir r p1 (datastore_key dir r p2) = false /\
  drop_removes sw cfg dir r p2 (datastore_key dir r p1) = false.
Proof.
  intros sw cfg dir r p1 p2 H1 H2 N1 N2.
  split.
  - destruct (drop_removes sw cfg dir r p1 (datastore_key dir r p2)) eqn:E; [| reflexivity].
    apply drop_removes_is_prefix in E. rewrite !key_no_dotdot in E by assumption.
    rewrite is_prefix_app in E. simpl in E. rewrite N.eqb_refl, N1 in E. discriminate E.
  - destruct (drop_removes sw cfg dir r p2 (datastore_key dir r p1)) eqn:E; [| reflexivity].
    apply drop_removes_is_prefix in E. rewrite !key_no_dotdot in E by assumption.
    rewrite is_prefix_app in E. simpl in E. rewrite N.eqb_refl, N2 in E. discriminate E.
Qed.

(** With a Destroy that removes the files of its own directory only, ANY two different
    databases are out of each other's reach - same root or not, nested or not: Drop of the one
    removes neither the directory nor any file of the other. *)
Theorem drop_scope_any_two : forall cfg dir r1 p1 r2 p2,
  no_dotdot p1 = true -> no_dotdot p2 = true ->
  (r1 <> r2 \/ names p1 <> names p2) ->
  drop_removes sw_fixed cfg dir r1 p1 (datastore_key dir r2 p2) = false /\
  drop_removes sw_fixed cfg dir r2 p2 (datastore_key dir r1 p1) = false.
Proof.
  intros cfg dir r1 p1 r2 p2 H1 H2 Hd. unfold drop_removes. cbn [sw_fixed sw_destroy_own_files].
  destruct (cf_memory cfg); [split; reflexivity |]. cbn [negb andb].
  split.
  - destruct (key_eqb _ _) eqn:E; [| reflexivity]. apply key_eqb_spec in E.
    apply cache_key_injective in E; [| assumption | assumption].
    destruct E as [Er Ep]. destruct Hd as [Hd | Hd]; contradiction.
  - destruct (key_eqb _ _) eqn:E; [| reflexivity]. apply key_eqb_spec in E.
    apply cache_key_injective in E; [| assumption | assumption].
    destruct E as [Er Ep]. exfalso. destruct Hd as [Hd | Hd]; apply Hd; symmetry; assumption.
Qed.

Lemma is_child_unique k1 k2 f : is_child k1 f = true -> is_child k2 f = true -> k1 = k2.
Proof.
  unfold is_child. intros A B. apply andb_true_iff in A. apply andb_true_iff in B.
  destruct A as [L1 P1], B as [L2 P2]. apply Nat.eqb_eq in L1. apply Nat.eqb_eq in L2.
  apply is_prefix_spec in P1. apply is_prefix_spec in P2.
  destruct P1 as [s1 E1], P2 as [s2 E2].
  assert (length k1 = length k2) by lia.
  rewrite E1 in E2. clear - E2 H.
  revert k2 H E2. induction k1 as [|x k1 IH]; intros [|y k2] H E2; simpl in *; try discriminate; [reflexivity |].
  inversion E2. f_equal. apply IH; [lia | assumption].
Qed.

Theorem drop_any_two_keeps_files : forall cfg dir r1 p1 r2 p2 fs f,
  no_dotdot p1 = true -> no_dotdot p2 = true ->
  (r1 <> r2 \/ names p1 <> names p2) ->
  In f fs -> is_child (datastore_key dir r2 p2) f = true ->
  In f (destroy_cfg sw_fixed cfg (datastore_key dir r1 p1) fs).
Proof.
  intros cfg dir r1 p1 r2 p2 fs f H1 H2 Hd Hin Hc. unfold destroy_cfg.
  destruct (cf_memory cfg); [exact Hin |].
  unfold destroy. cbn [sw_fixed sw_destroy_own_files]. apply filter_In. split; [exact Hin |].
  destruct (is_child (datastore_key dir r1 p1) f) eqn:E; [| reflexivity].
  pose proof (is_child_unique _ _ _ E Hc) as K.
  apply cache_key_injective in K; [| assumption | assumption].
  destruct K as [Er Ep]. destruct Hd as [Hd | Hd]; contradiction.
Qed.

(** ** A Directory option: where the data is, what Drop destroys *)

(** Drop removes the database's own cache whatever Directory option it was opened with: the
    cache is loaded from, and destroyed in, the same directory *)
Lemma drop_removes_own_any_option : forall sw cfg inst opt r p,
  cf_memory cfg = false -> drop_removes_own sw cfg inst opt r p = true.
Proof.
  intros sw cfg inst opt r p Hm. unfold drop_removes_own, drop_removes, cache_dir, destroy_dir.
  rewrite Hm. cbn [negb andb]. destruct (sw_destroy_own_files sw).
  - apply key_eqb_spec. reflexivity.
  - apply is_prefix_refl.
Qed.

Lemma is_prefix_not_nested : forall a b x y,
  is_prefix a b = false -> is_prefix b a = false -> is_prefix (a ++ x) (b ++ y) = false.
Proof.
  induction a as [|u a IH]; intros b x y Hab Hba; [discriminate Hab |].
  destruct b as [|v b]; [discriminate Hba |]. simpl in *.
  destruct (N.eqb u v) eqn:E; [| reflexivity]. simpl in *.
  assert (N.eqb v u = true) as E' by (rewrite N.eqb_sym; exact E). rewrite E' in Hba. simpl in Hba.
  apply IH; assumption.
Qed.

(** ... and a Destroy given ANOTHER directory (neither inside the other) - the option's, for
    instance, while the cache is the instance directory's - removes nothing of the database: its
    entries would still be loaded after Drop.  Regression witness for a CacheDestroy that is not
    given the directory the cache was loaded from. *)
Lemma destroy_elsewhere_keeps_data : forall sw cfg dir dir' r p,
  no_dotdot p = true ->
  is_prefix dir dir' = false -> is_prefix dir' dir = false ->
  drop_removes sw cfg dir' r p (datastore_key dir r p) = false.
Proof.
  intros sw cfg dir dir' r p Hp H1 H2. unfold drop_removes.
  destruct (cf_memory cfg); [reflexivity |]. cbn [negb andb].
  rewrite !key_no_dotdot by exact Hp.
  assert (is_prefix (dir' ++ r :: names p) (dir ++ r :: names p) = false) as K
      by (apply is_prefix_not_nested; assumption).
  destruct (sw_destroy_own_files sw); [| exact K].
  unfold key_eqb. rewrite K. reflexivity.
Qed.

(** ** The cache manager's table: closing and reopening a database *)

Lemma cycle_usable_registered : forall sw cfg n vc t,
  sw_load_registered sw = true -> t <> TStale ->
  forallb (fun u => u) (cycle sw cfg vc n t) = true.
Proof.
  intros sw cfg n. induction n as [|n IH]; intros vc t Hs Ht.
  - destruct t; [| | contradiction]; unfold cycle, open_handle, cm_load; rewrite ?Hs;
      destruct (lookup_loads_cache cfg vc); reflexivity.
  - cbn [cycle]. destruct (open_handle sw cfg vc t) as [h t1] eqn:E.
    assert (h_usable h = true /\ h_wrapped h = true) as [Hu Hw].
    { unfold open_handle, cm_load in E. rewrite ?Hs in E.
      destruct t; [| | contradiction]; destruct (lookup_loads_cache cfg vc); simpl in E; inversion E; split; reflexivity. }
    cbn [forallb]. rewrite Hu. cbn [andb]. apply IH; [exact Hs |].
    unfold cm_close. rewrite Hw. discriminate.
Qed.

(** without a Directory option other than the instance's directory the lookup loads the very
    cache the store gets, which is therefore always the registered wrapper: every incarnation
    is usable on the tree before the repair of Load too *)
Lemma cycle_usable_default : forall sw cfg n vc t,
  cf_customdir cfg = false -> t <> TStale ->
  forallb (fun u => u) (cycle sw cfg vc n t) = true.
Proof.
  intros sw cfg n. induction n as [|n IH]; intros vc t Hc Ht.
  - unfold cycle, open_handle, lookup_loads_cache. rewrite Hc, orb_true_r.
    destruct t; [| | contradiction]; reflexivity.
  - cbn [cycle]. destruct (open_handle sw cfg vc t) as [h t1] eqn:E.
    assert (h_usable h = true /\ h_wrapped h = true) as [Hu Hw].
    { unfold open_handle, lookup_loads_cache in E. rewrite Hc, orb_true_r in E.
      destruct t; [| | contradiction]; simpl in E; inversion E; split; reflexivity. }
    cbn [forallb]. rewrite Hu. cbn [andb]. apply IH; [exact Hc |].
    unfold cm_close. rewrite Hw. discriminate.
Qed.

(** before the repair of Load: a database opened from its address with a Directory option other
    than the instance's directory gets the bare datastore; its Close leaves a closed cache
    registered, which the next incarnation is given.  Opened the first time through Create the
    same happens one incarnation later.  Regression witness. *)
Lemma cycle_refuted_customdir : forall sw cfg,
  sw_load_registered sw = false -> cf_customdir cfg = true ->
  cycle sw cfg false 2 TAbsent = [true; false; true] /\
  cycle sw cfg true 2 TAbsent = [true; true; false].
Proof.
  intros sw cfg Hs Hc. unfold cycle, open_handle, lookup_loads_cache, cm_load, cm_close.
  rewrite Hs, Hc. split; reflexivity.
Qed.

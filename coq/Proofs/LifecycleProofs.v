(** Proofs about the lifecycle model (C18). *)
From Orbit Require Import Model.Lifecycle.

(** * Raised sets *)
Lemma smem_app s l1 l2 : smem s (l1 ++ l2) = smem s l1 || smem s l2.
Proof. unfold smem. apply existsb_app. Qed.

Lemma raise_mono s x l : smem s l = true -> smem s (raise x l) = true.
Proof.
  intros H. unfold raise. destruct (smem x l); [exact H |].
  rewrite smem_app, H. reflexivity.
Qed.

Lemma raise_self x l : smem x (raise x l) = true.
Proof.
  unfold raise. destruct (smem x l) eqn:E; [exact E |].
  rewrite smem_app. simpl. replace (signal_eqb x x) with true; [apply orb_true_r |].
  symmetry. apply signal_eqb_eq. reflexivity.
Qed.

Lemma raise_all_mono s ss : forall l, smem s l = true -> smem s (raise_all ss l) = true.
Proof.
  induction ss as [|x ss IH]; intros l H; simpl; [exact H |].
  apply IH. apply raise_mono. exact H.
Qed.

Lemma raise_all_mem s ss : forall l, In s ss -> smem s (raise_all ss l) = true.
Proof.
  induction ss as [|x ss IH]; intros l H; simpl; [destruct H |].
  destruct H as [-> | H].
  - apply raise_all_mono. apply raise_self.
  - apply IH. exact H.
Qed.

Lemma raise_present x l : smem x l = true -> raise x l = l.
Proof. intros H. unfold raise. rewrite H. reflexivity. Qed.

Lemma raise_all_present ss : forall l, (forall s, In s ss -> smem s l = true) -> raise_all ss l = l.
Proof.
  induction ss as [|x ss IH]; intros l H; simpl; [reflexivity |].
  rewrite raise_present by (apply H; left; reflexivity).
  apply IH. intros s Hs. apply H. right. exact Hs.
Qed.

Lemma raise_all_idem ss l : raise_all ss (raise_all ss l) = raise_all ss l.
Proof. apply raise_all_present. intros s Hs. apply raise_all_mem. exact Hs. Qed.

Lemma woken_mono sw a r r' :
  (forall s, smem s r = true -> smem s r' = true) -> woken sw r a = true -> woken sw r' a = true.
Proof.
  intros H. unfold woken. rewrite !existsb_exists. intros [s [Hs Hm]]. exists s. split; [exact Hs | apply H; exact Hm].
Qed.

Lemma woken_by sw a r s : In s (wake_set sw a) -> smem s r = true -> woken sw r a = true.
Proof. intros Hi Hm. unfold woken. apply existsb_exists. exists s. split; assumption. Qed.

(** * Close *)

(** What the consequences add, when the store context and the replicator's root context
    have been cancelled and every worker is woken by the latter. *)
Lemma consequences_fixed acts r :
  smem SigStoreCtx r = true -> smem SigReplRootCtx r = true ->
  let r' := consequences sw_fixed acts r in
  (forall s, smem s r = true -> smem s r' = true) /\ smem SigTopicChans r' = true /\ smem SigWorkersDone r' = true.
Proof.
  intros Hc Hr. unfold consequences. rewrite Hc.
  assert (Hall : forallb (fun a => implb (is_worker a) (woken sw_fixed (raise SigTopicChans r) a)) acts = true).
  { apply forallb_forall. intros a _. destruct (is_worker a) eqn:W; [| reflexivity]. simpl.
    apply woken_by with (s := SigReplRootCtx); [| apply raise_mono; exact Hr].
    destruct a; try discriminate W; simpl; auto. }
  rewrite Hall. repeat split.
  - intros s Hs. apply raise_mono. apply raise_mono. exact Hs.
  - apply raise_mono. apply raise_self.
  - apply raise_self.
Qed.

(** activities a store (not the instance) starts *)
Definition store_activity (a : activity) : bool :=
  match a with AMonitorDirect => false | _ => true end.

(** close_terminates: on the repaired tree, after Close every background activity of the
    store has a raised signal in its wake set - whatever was running, whatever had been
    raised before. *)
Theorem close_terminates : forall acts raised a,
  In a acts -> store_activity a = true ->
  woken sw_fixed (st_raised (close sw_fixed (mkStore true acts raised))) a = true.
Proof.
  intros acts raised a _ Hs. unfold close, close_step. simpl.
  set (R := raise_all (close_signals sw_fixed) raised).
  assert (HC : smem SigStoreCtx R = true) by (apply raise_all_mem; simpl; auto).
  assert (HR : smem SigReplRootCtx R = true) by (apply raise_all_mem; simpl; auto).
  assert (HU : smem SigUnsubscribeAll R = true) by (apply raise_all_mem; simpl; auto 10).
  destruct (consequences_fixed acts R HC HR) as [Hm [Ht Hw]].
  destruct a; try discriminate Hs.
  all: try solve [apply woken_by with (s := SigStoreCtx); [simpl; tauto | apply Hm; exact HC]].
  all: try solve [apply woken_by with (s := SigTopicChans); [simpl; tauto | exact Ht]].
  all: try solve [apply woken_by with (s := SigWorkersDone); [simpl; tauto | exact Hw]].
  all: try solve [apply woken_by with (s := SigReplRootCtx); [simpl; tauto | apply Hm; exact HR]].
  apply woken_by with (s := SigUnsubscribeAll); [simpl; tauto | apply Hm; exact HU].
Qed.

Lemma filter_nil {A} (f : A -> bool) l : (forall x, In x l -> f x = false) -> filter f l = [].
Proof.
  induction l as [|x l IH]; intros H; simpl; [reflexivity |].
  rewrite (H x) by (left; reflexivity). apply IH. intros y Hy. apply H. right. exact Hy.
Qed.

Corollary close_leaves_nothing_stuck : forall acts raised,
  forallb store_activity acts = true ->
  stuck sw_fixed (close sw_fixed (mkStore true acts raised)) = [].
Proof.
  intros acts raised H. unfold stuck. apply filter_nil. intros a Ha.
  change (st_acts (close sw_fixed (mkStore true acts raised))) with acts in Ha.
  rewrite forallb_forall in H.
  rewrite (close_terminates acts raised a Ha (H a Ha)). reflexivity.
Qed.

(** The tree as it stands: two kinds of activity survive Close. *)

(** A replication worker whose fetch completes after the cancellation (kubo returns a block
    it holds locally whatever the context) has a fetched entry to hand to a progress
    consumer that has already left: the worker, and the load request waiting for it, stay. *)
Theorem close_current_strands_delivering_worker :
  stuck sw_pinned (close sw_pinned (open_store (acts_at 11%N))) = [ASyncLoad; AReplWorkerDelivering].
Proof. reflexivity. Qed.

(** A legacy subscriber waits for its caller's context only. *)
Theorem close_current_strands_legacy_subscriber :
  stuck sw_pinned (close sw_pinned (open_store (acts_at 7%N))) = [ALegacySubscriber].
Proof. reflexivity. Qed.

(** At every other scripted moment nothing is left, also on the tree as it stands. *)
Theorem close_current_other_moments :
  forall w, In w [0; 1; 2; 3; 4; 5; 6; 8; 9; 10]%N -> predicted_leaks sw_pinned w = [].
Proof. intros w H. simpl in H. repeat (destruct H as [<- | H]; [reflexivity |]). destruct H. Qed.

(** close_idempotent: a second Close changes nothing, raises nothing and returns nil. *)
Theorem close_idempotent : forall sw s,
  close sw (close sw s) = close sw s /\
  close_raises sw (close sw s) = [] /\
  close_returns sw (close sw s) = Ok tt.
Proof.
  intros sw s. unfold close, close_raises, close_returns, close_step.
  destruct (st_open s) eqn:E; simpl; [| rewrite E; simpl]; auto.
Qed.

Theorem close_returns_ok : forall sw s, close_returns sw s = Ok tt.
Proof. intros sw s. unfold close_returns, close_step. destruct (st_open s); reflexivity. Qed.

Lemma close_closed sw s : st_open (close sw s) = false.
Proof. unfold close, close_step. destruct (st_open s) eqn:E; simpl; [reflexivity | exact E]. Qed.

(** * Instance close *)
Theorem iclose_idempotent : forall sw i, iclose sw (iclose sw i) = iclose sw i.
Proof.
  intros sw i. unfold iclose. cbn [i_stores i_acts i_raised]. f_equal.
  - rewrite map_map. apply map_ext. intros s. apply close_idempotent.
  - apply raise_all_idem.
Qed.

Lemma closed_stores_not_stuck : forall extra stores,
  (forall s, In s stores -> st_open s = true /\ forallb store_activity (st_acts s) = true) ->
  flat_map (fun s => filter (fun a => negb (woken sw_fixed (st_raised s ++ extra) a)) (st_acts s))
           (map (close sw_fixed) stores) = [].
Proof.
  intros extra stores. induction stores as [|s l IH]; intros Hs; [reflexivity |].
  cbn [map flat_map]. rewrite IH by (intros s' H'; apply Hs; right; exact H').
  rewrite app_nil_r. apply filter_nil. intros a Ha.
  destruct (Hs s (or_introl eq_refl)) as [Ho Hf].
  destruct s as [o acts r]. cbn [st_open st_acts] in Ho, Hf. subst o.
  change (st_acts (close sw_fixed (mkStore true acts r))) with acts in Ha.
  rewrite forallb_forall in Hf.
  rewrite (woken_mono sw_fixed a (st_raised (close sw_fixed (mkStore true acts r)))); [reflexivity | | ].
  - intros sg Hsg. rewrite smem_app, Hsg. reflexivity.
  - apply close_terminates; [exact Ha | apply Hf; exact Ha].
Qed.

(** after the instance Close, every store activity of every store that was open and the
    instance's own monitor have a raised signal in their wake set (repaired tree) *)
Theorem iclose_terminates : forall stores iacts raised,
  (forall s, In s stores -> st_open s = true /\ forallb store_activity (st_acts s) = true) ->
  (forall a, In a iacts -> a = AMonitorDirect) ->
  istuck sw_fixed (iclose sw_fixed (mkInst stores iacts raised)) = [].
Proof.
  intros stores iacts raised Hs Hi. unfold istuck, iclose. cbn [i_stores i_acts i_raised].
  rewrite closed_stores_not_stuck by exact Hs.
  cbn [app]. apply filter_nil. intros a Ha. rewrite (Hi a Ha).
  rewrite (woken_by sw_fixed AMonitorDirect _ SigInstanceCtx); [reflexivity | simpl; tauto |].
  apply raise_all_mem. simpl. tauto.
Qed.

(** * Operations after Close *)
Theorem after_close_no_panic : forall o, is_panic (op_after_close o) = false.
Proof. destruct o; reflexivity. Qed.

Theorem after_close_ok_or_err : forall o, exists r, op_after_close o = Ok r \/ exists e, op_after_close o = Err e.
Proof.
  destruct o; simpl;
    first [ now (eexists; left; reflexivity) | now (exists RNoop; right; eexists; reflexivity) ].
Qed.

(** on the repaired tree every operation answers, with class ok or error *)
Theorem after_close_answers_fixed : forall o, (op_class sw_fixed o <=? 1)%N = true.
Proof. destruct o; reflexivity. Qed.

(** Drop returns whenever Destroy closes a loaded cache inline ... *)
Theorem drop_never_deadlocks_fixed : forall handle_open loaded_again,
  drop_locking sw_fixed handle_open loaded_again = Returns.
Proof. intros [] []; reflexivity. Qed.

(** ... and on the tree as it stands, Drop through an open handle returns, but Drop through a
    closed handle after the cache was loaded again takes the manager's lock twice. *)
Theorem drop_current_locking :
  (forall loaded_again, drop_locking sw_pinned true loaded_again = Returns) /\
  drop_locking sw_pinned false false = Returns /\
  drop_locking sw_pinned false true = Deadlocks /\
  op_class sw_pinned OpDropStale = 3%N.
Proof. split; [intros []; reflexivity | repeat split; reflexivity]. Qed.

Theorem all_ops_complete : forall o, In o all_ops.
Proof. destruct o; simpl; auto 40. Qed.

Theorem op_codes_cover : forall o, exists n, op_of_code n = Some o.
Proof.
  intros o. destruct (In_nth_error _ _ (all_ops_complete o)) as [k Hk].
  exists (N.of_nat (S k)). unfold op_of_code. rewrite Nat2N.id. simpl. rewrite Nat.sub_0_r. exact Hk.
Qed.

(** * Cache directories *)
Definition names (l : list seg) : list N :=
  flat_map (fun s => match s with SNorm n => [n] | _ => [] end) l.

Lemma clean_rel_no_dotdot : forall l ups stack,
  no_dotdot l = true -> clean_rel ups stack l = (ups, rev stack ++ names l).
Proof.
  induction l as [|s l IH]; intros ups stack H; simpl.
  - rewrite app_nil_r. reflexivity.
  - simpl in H. destruct s; try discriminate H; simpl in H.
    + rewrite IH by exact H. simpl. rewrite <- app_assoc. reflexivity.
    + apply IH. exact H.
    + apply IH. exact H.
Qed.

Lemma key_no_dotdot dir root path :
  no_dotdot path = true -> datastore_key dir root path = dir ++ root :: names path.
Proof.
  intros H. unfold datastore_key. simpl. rewrite clean_rel_no_dotdot by exact H.
  unfold join_abs. simpl. rewrite Nat.sub_0_r, firstn_all. reflexivity.
Qed.

Lemma clean_no_dotdot p : clean_path p = true -> no_dotdot p = true.
Proof.
  unfold clean_path, no_dotdot. rewrite !forallb_forall. intros H s Hs.
  specialize (H s Hs). destruct s; try discriminate H; reflexivity.
Qed.

Lemma names_clean p : clean_path p = true -> map SNorm (names p) = p.
Proof.
  induction p as [|s p IH]; intros H; [reflexivity |]. simpl in H.
  destruct s; try discriminate H. simpl. rewrite IH by exact H. reflexivity.
Qed.

Lemma is_prefix_app d a b : is_prefix (d ++ a) (d ++ b) = is_prefix a b.
Proof. induction d as [|x d IH]; simpl; [reflexivity |]. rewrite N.eqb_refl. exact IH. Qed.

Lemma is_prefix_spec a : forall f, is_prefix a f = true <-> exists r, f = a ++ r.
Proof.
  induction a as [|x a IH]; intros f; simpl.
  - split; [intros _; exists f; reflexivity | reflexivity].
  - destruct f as [|y f]; simpl.
    + split; [discriminate | intros [r H]; discriminate H].
    + rewrite andb_true_iff, N.eqb_eq, IH. split.
      * intros [-> [r ->]]. exists r. reflexivity.
      * intros [r H]. inversion H; subst. split; [reflexivity | exists r; reflexivity].
Qed.

Lemma is_prefix_refl a : is_prefix a a = true.
Proof. apply is_prefix_spec. exists []. rewrite app_nil_r. reflexivity. Qed.

Lemma is_prefix_diff_head r1 r2 a b : r1 <> r2 -> is_prefix (r1 :: a) (r2 :: b) = false.
Proof. intros H. simpl. apply N.eqb_neq in H. rewrite H. reflexivity. Qed.

(** drop_scope: two addresses with different roots whose paths contain no ".." segment
    (in particular clean paths): neither cache directory equals or lies below the other,
    so Drop of one does not remove the other's directory. *)
Theorem drop_scope_no_dotdot : forall dir r1 p1 r2 p2,
  r1 <> r2 -> no_dotdot p1 = true -> no_dotdot p2 = true ->
  drop_removes dir r1 p1 (datastore_key dir r2 p2) = false /\
  drop_removes dir r2 p2 (datastore_key dir r1 p1) = false.
Proof.
  intros dir r1 p1 r2 p2 Hr H1 H2. unfold drop_removes.
  rewrite !key_no_dotdot by assumption. rewrite !is_prefix_app.
  split; apply is_prefix_diff_head; [exact Hr | intros E; apply Hr; symmetry; exact E].
Qed.

Theorem drop_scope : forall dir r1 p1 r2 p2,
  r1 <> r2 -> clean_path p1 = true -> clean_path p2 = true ->
  drop_removes dir r1 p1 (datastore_key dir r2 p2) = false /\
  drop_removes dir r2 p2 (datastore_key dir r1 p1) = false.
Proof.
  intros dir r1 p1 r2 p2 Hr H1 H2.
  apply drop_scope_no_dotdot; [exact Hr | apply clean_no_dotdot; exact H1 | apply clean_no_dotdot; exact H2].
Qed.

(** ... and every file below the other database's directory survives the removal. *)
Theorem drop_keeps_sibling_files : forall dir r1 p1 r2 p2 fs f,
  r1 <> r2 -> no_dotdot p1 = true -> no_dotdot p2 = true ->
  In f fs -> is_prefix (datastore_key dir r2 p2) f = true ->
  In f (destroy (datastore_key dir r1 p1) fs).
Proof.
  intros dir r1 p1 r2 p2 fs f Hr H1 H2 Hin Hp. unfold destroy. apply filter_In. split; [exact Hin |].
  rewrite key_no_dotdot in * by assumption.
  apply is_prefix_spec in Hp. destruct Hp as [rest ->].
  rewrite <- app_assoc, is_prefix_app. simpl.
  apply N.eqb_neq in Hr. rewrite Hr. reflexivity.
Qed.

(** ... while the dropped database's own files are all gone. *)
Theorem drop_removes_own_files : forall dir r p fs f,
  is_prefix (datastore_key dir r p) f = true -> ~ In f (destroy (datastore_key dir r p) fs).
Proof.
  intros dir r p fs f Hp Hin. unfold destroy in Hin. apply filter_In in Hin. destruct Hin as [_ H].
  rewrite Hp in H. discriminate H.
Qed.

(** With the address check, every address that can be opened satisfies the hypothesis. *)
Theorem accepted_fixed_no_dotdot : forall p, address_accepted sw_fixed p = true -> no_dotdot p = true.
Proof. intros p H. exact H. Qed.

(** Refutation on the tree as it stands: the address /orbitdb/r1/../r2/name is accepted,
    prints as the OTHER database's address, and has the other database's cache directory;
    dropping it removes every file of /orbitdb/r2/name. *)
Theorem dotdot_alias_accepted : forall r2 name,
  address_accepted sw_pinned [SDotDot; SNorm r2; SNorm name] = true /\
  address_accepted sw_fixed [SDotDot; SNorm r2; SNorm name] = false.
Proof. intros. split; reflexivity. Qed.

Theorem dotdot_alias_same_directory : forall dir r1 r2 name,
  datastore_key dir r1 [SDotDot; SNorm r2; SNorm name] = datastore_key dir r2 [SNorm name] /\
  address_string r1 [SDotDot; SNorm r2; SNorm name] = address_string r2 [SNorm name].
Proof. intros. split; reflexivity. Qed.

Theorem dotdot_alias_drop_destroys_other : forall dir r1 r2 name fs f,
  r1 <> r2 ->
  is_prefix (datastore_key dir r2 [SNorm name]) f = true ->
  ~ In f (destroy (datastore_key dir r1 [SDotDot; SNorm r2; SNorm name]) fs).
Proof.
  intros dir r1 r2 name fs f _ Hp.
  destruct (dotdot_alias_same_directory dir r1 r2 name) as [E _]. rewrite E.
  apply drop_removes_own_files. exact Hp.
Qed.

Theorem dotdot_alias_refutation : forall dir r1 r2 name fs f,
  r1 <> r2 ->
  address_accepted sw_pinned [SDotDot; SNorm r2; SNorm name] = true /\
  datastore_key dir r1 [SDotDot; SNorm r2; SNorm name] = datastore_key dir r2 [SNorm name] /\
  (is_prefix (datastore_key dir r2 [SNorm name]) f = true ->
   ~ In f (destroy (datastore_key dir r1 [SDotDot; SNorm r2; SNorm name]) fs)).
Proof.
  intros dir r1 r2 name fs f H. split; [apply dotdot_alias_accepted |].
  split; [apply dotdot_alias_same_directory | apply dotdot_alias_drop_destroys_other; exact H].
Qed.

(** Same root: directories nest (an address /orbitdb/r/x/y lives inside the leveldb
    directory of /orbitdb/r/x), which is why [drop_scope] asks for different roots. *)
Theorem drop_same_root_nested : forall dir r x y,
  drop_removes dir r [SNorm x] (datastore_key dir r [SNorm x; SNorm y]) = true.
Proof.
  intros. unfold drop_removes. rewrite !key_no_dotdot by reflexivity. rewrite is_prefix_app. simpl.
  rewrite !N.eqb_refl. reflexivity.
Qed.

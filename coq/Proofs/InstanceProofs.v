(** Isolation of the databases of one instance (C09): with a write listener that filters
    on the address and a private replicator bus, what is observable about database j
    depends only on the operations that target j; without either mechanism it does not. *)
From Orbit Require Import Model.Instance.
Local Open Scope nat_scope.

(** * mapi *)

Lemma nth_error_mapi_from {A B} (f : nat -> A -> B) l : forall n j,
  nth_error (mapi_from f n l) j = option_map (f (n + j)%nat) (nth_error l j).
Proof.
  induction l as [|a r IH]; intros n j; simpl.
  - destruct j; reflexivity.
  - destruct j; simpl.
    + rewrite Nat.add_0_r. reflexivity.
    + rewrite IH. f_equal. f_equal. lia.
Qed.

Lemma nth_error_mapi {A B} (f : nat -> A -> B) l j :
  nth_error (mapi f l) j = option_map (f j) (nth_error l j).
Proof. unfold mapi. rewrite nth_error_mapi_from. reflexivity. Qed.

Lemma length_mapi_from {A B} (f : nat -> A -> B) l : forall n, length (mapi_from f n l) = length l.
Proof. induction l; intros; simpl; auto. Qed.

Lemma istep_length m s op : length (istep m s op) = length s.
Proof. unfold istep. destruct (_ <? _); auto. apply length_mapi_from. Qed.

Lemma run_length m ops : forall s, length (run m ops s) = length s.
Proof.
  induction ops as [|op r IH]; intros s; simpl; auto.
  unfold run in *. simpl. rewrite IH. apply istep_length.
Qed.

(** the store at position j after one step *)
Lemma nth_error_istep m s op j :
  nth_error (istep m s op) j = option_map (handle m op j) (nth_error s j)
  \/ (nth_error (istep m s op) j = nth_error s j /\ length s <= target op)%nat.
Proof.
  unfold istep. destruct (target op <? length s) eqn:E.
  - left. apply nth_error_mapi.
  - right. split; auto. apply Nat.ltb_ge in E. exact E.
Qed.

(** * The published payloads, topic by topic *)

Definition tag (i : nat) (p : nat * list N) : payload := (i, fst p, snd p).

Lemma filter_tag_same j l : filter (on_topic j) (map (tag j) l) = map (tag j) l.
Proof.
  induction l as [|p r IH]; simpl; auto.
  unfold on_topic at 1. simpl. rewrite Nat.eqb_refl. f_equal. exact IH.
Qed.

Lemma filter_tag_other i j l : i <> j -> filter (on_topic j) (map (tag i) l) = [].
Proof.
  intros H. induction l as [|p r IH]; simpl; auto.
  unfold on_topic at 1. simpl. apply Nat.eqb_neq in H. rewrite H. exact IH.
Qed.

Definition pubs_of (j : nat) (o : option store) : list payload :=
  match o with Some st => map (tag j) (st_pub st) | None => [] end.

Lemma published_topic_from l : forall n j,
  filter (on_topic j) (concat (mapi_from (fun i st => map (tag i) (st_pub st)) n l)) =
  if (n <=? j)%nat then pubs_of j (nth_error l (j - n)) else [].
Proof.
  induction l as [|st r IH]; intros n j; simpl.
  - destruct (n <=? j)%nat; auto. destruct (j - n)%nat; reflexivity.
  - rewrite filter_app, IH.
    destruct (Nat.eq_dec n j) as [->|Hne].
    + rewrite filter_tag_same, Nat.leb_refl, Nat.sub_diag.
      assert (F : (S j <=? j) = false) by (apply Nat.leb_gt; lia). rewrite F.
      simpl. apply app_nil_r.
    + rewrite filter_tag_other by exact Hne.
      destruct (n <=? j) eqn:E.
      * apply Nat.leb_le in E.
        assert (F : (S n <=? j) = true) by (apply Nat.leb_le; lia). rewrite F.
        replace (j - n) with (S (j - S n)) by lia. reflexivity.
      * apply Nat.leb_gt in E.
        assert (F : (S n <=? j) = false) by (apply Nat.leb_gt; lia). rewrite F.
        reflexivity.
Qed.

(** the payloads on topic j are those published by store j *)
Lemma published_topic s j :
  filter (on_topic j) (published s) = pubs_of j (nth_error s j).
Proof.
  unfold published, mapi. change (fun i st => map (fun p => (i, fst p, snd p)) (st_pub st))
    with (fun i st => map (tag i) (st_pub st)).
  rewrite published_topic_from. simpl. rewrite Nat.sub_0_r. reflexivity.
Qed.

Lemma proj_eq j s s' : nth_error s j = nth_error s' j -> proj j s = proj j s'.
Proof. intros H. unfold proj. rewrite !published_topic, H. reflexivity. Qed.

Lemma in_published s t a hs :
  In (t, a, hs) (published s) <-> exists st, nth_error s t = Some st /\ In (a, hs) (st_pub st).
Proof.
  split.
  - intros H.
    assert (F : In (t, a, hs) (filter (on_topic t) (published s))).
    { apply filter_In. split; auto. unfold on_topic. simpl. apply Nat.eqb_refl. }
    rewrite published_topic in F. destruct (nth_error s t) as [st|]; simpl in F; [|contradiction].
    exists st. split; auto. apply in_map_iff in F as [[a' hs'] [E I]].
    unfold tag in E. simpl in E. inversion E; subst. exact I.
  - intros [st [E I]].
    assert (F : In (t, a, hs) (filter (on_topic t) (published s))).
    { rewrite published_topic, E. simpl. apply in_map_iff. exists (a, hs). split; auto. }
    apply filter_In in F. tauto.
Qed.

(** * Isolation *)

Definition isolated (m : imech) : Prop := filters_address m = true /\ private_bus m = true.

(** with both mechanisms, store i ignores every operation that targets another database *)
Lemma handle_other m op i s : isolated m -> target op <> i -> handle m op i s = s.
Proof.
  intros [Hf Hp] Hne. apply not_eq_sym in Hne. apply Nat.eqb_neq in Hne.
  destruct op; simpl in *; rewrite ?Hf, ?Hp, Hne; reflexivity.
Qed.

Lemma istep_other m s op j : isolated m -> target op <> j ->
  nth_error (istep m s op) j = nth_error s j.
Proof.
  intros Hi Hne. destruct (nth_error_istep m s op j) as [E|[E _]]; auto.
  rewrite E. destruct (nth_error s j); simpl; auto. rewrite handle_other; auto.
Qed.

Lemma istep_same m s s' op j : target op = j -> nth_error s j = nth_error s' j ->
  nth_error (istep m s op) j = nth_error (istep m s' op) j.
Proof.
  intros Ht H.
  assert (G : forall u, nth_error (istep m u op) j = option_map (handle m op j) (nth_error u j)).
  { intros u. destruct (nth_error_istep m u op j) as [E|[E L]]; auto.
    rewrite E. rewrite Ht in L. apply nth_error_None in L. rewrite L. reflexivity. }
  rewrite !G, H. reflexivity.
Qed.

Lemma isolation_store m ops j : isolated m -> forall s s',
  nth_error s j = nth_error s' j ->
  nth_error (run m ops s) j = nth_error (run m (filter (targets j) ops) s') j.
Proof.
  intros Hi. induction ops as [|op r IH]; intros s s' H; simpl; auto.
  unfold targets at 1. destruct (target op =? j) eqn:E.
  - apply Nat.eqb_eq in E. simpl. apply IH. apply istep_same; auto.
  - apply Nat.eqb_neq in E. apply IH. rewrite istep_other; auto.
Qed.

(** * Payloads carry the topic's address and only entries written to that database *)

Definition pub_ok (ops : list iop) (s : inst) : Prop :=
  forall i st a hs, nth_error s i = Some st -> In (a, hs) (st_pub st) ->
    a = i /\ forall e, In e hs -> written i e ops.

Lemma written_mono j e ops op : written j e ops -> written j e (ops ++ [op]).
Proof. intros [t H]. exists t. apply in_or_app. left. exact H. Qed.

Lemma handle_pub m op i s a hs : filters_address m = true ->
  In (a, hs) (st_pub (handle m op i s)) ->
  In (a, hs) (st_pub s) \/ (a = i /\ exists e t, op = IWrite i e t /\ hs = [e]).
Proof.
  intros Hf. destruct op as [j e t|j h t|j e t|j b hd|j ts]; simpl; rewrite ?Hf; simpl.
  - rewrite orb_false_r. destruct (i =? j) eqn:E; simpl; auto.
    apply Nat.eqb_eq in E. subst j. intros H. apply in_app_or in H as [H|[H|[]]]; auto.
    inversion H; subst. right. split; auto. exists e, t. auto.
  - destruct ((i =? j) || negb (private_bus m)); simpl; auto.
  - destruct ((i =? j) || negb (private_bus m)); simpl; auto.
  - destruct ((i =? j) || negb (private_bus m)); simpl; auto.
  - destruct (i =? j); simpl; auto.
Qed.

Lemma pub_ok_step m ops s op : filters_address m = true ->
  pub_ok ops s -> pub_ok (ops ++ [op]) (istep m s op).
Proof.
  intros Hf H i st a hs E I.
  destruct (nth_error_istep m s op i) as [G|[G _]]; rewrite G in E.
  - destruct (nth_error s i) as [st0|] eqn:E0; simpl in E; [|discriminate].
    inversion E; subst st. apply handle_pub in I as [I|[-> [e [t [-> ->]]]]]; auto.
    + destruct (H i st0 a hs E0 I) as [Ha Hw]. split; auto.
      intros e He. apply written_mono. auto.
    + split; auto. intros e' [<-|[]]. exists t. apply in_or_app. right. left. reflexivity.
  - destruct (H i st a hs E I) as [Ha Hw]. split; auto.
    intros e He. apply written_mono. auto.
Qed.

Lemma pub_ok_run m ops : filters_address m = true -> forall pre s,
  pub_ok pre s -> pub_ok (pre ++ ops) (run m ops s).
Proof.
  intros Hf. induction ops as [|op r IH]; intros pre s H; simpl.
  - rewrite app_nil_r. exact H.
  - replace (pre ++ op :: r) with ((pre ++ [op]) ++ r) by (rewrite <- app_assoc; reflexivity).
    apply IH. apply pub_ok_step; auto.
Qed.

Lemma pub_ok_init k : pub_ok [] (init k).
Proof.
  intros i st a hs E I. unfold init in E. apply nth_error_In in E. apply repeat_spec in E.
  subst st. destruct I.
Qed.

(** * The property *)

Theorem isolation :
  forall m, filters_address m = true -> private_bus m = true ->
  forall (k : nat) (ops : list iop) (j : nat),
    (* what is observable about database j is what the operations on j alone produce *)
    proj j (run m ops (init k)) = proj j (run m (filter (targets j) ops) (init k)) /\
    (* and a payload on topic j carries address j and only entries written to database j *)
    (forall t a hs, In (t, a, hs) (published (run m ops (init k))) ->
       a = t /\ forall e, In e hs -> written t e ops).
Proof.
  intros m Hf Hp k ops j. split.
  - apply proj_eq. apply isolation_store; [split; assumption | reflexivity].
  - intros t a hs I. apply in_published in I as [st [E I]].
    exact (pub_ok_run m ops Hf [] (init k) (pub_ok_init k) t st a hs E I).
Qed.

(** the same from an arbitrary state of the instance *)
Theorem isolation_from :
  forall m, filters_address m = true -> private_bus m = true ->
  forall (s : inst) (ops : list iop) (j : nat),
    proj j (run m ops s) = proj j (run m (filter (targets j) ops) s).
Proof.
  intros m Hf Hp s ops j. apply proj_eq. apply isolation_store; [split; assumption | reflexivity].
Qed.

(** Without the address filter: one write to database 0 is announced on topic 1, under
    address 1, with database 0's entry; database 1 was not the target of any operation. *)
Theorem isolation_refuted_write_listener :
  let m := mkIM false true true in
  let ops := [IWrite 0 7%N 1%Z] in
  filter (targets 1) ops = [] /\
  proj 1 (run m ops (init 2)) <> proj 1 (run m (filter (targets 1) ops) (init 2)) /\
  In (1, 1, [7%N]) (published (run m ops (init 2))) /\
  ~ written 1 7%N ops.
Proof.
  split; [reflexivity|]. split; [|split].
  - vm_compute. intros H. discriminate H.
  - vm_compute. right. left. reflexivity.
  - intros [t [H|[]]]. discriminate H.
Qed.

(** With the shared bus: database 1 holds one own entry (9); replicating three entries of
    database 0 (announced clock 3) raises database 1's status from 1/1 to 3/3, rewrites its
    remote-heads cache and makes it emit replicate/progress/replicated events with database
    0's entries under address 1. *)
Theorem isolation_refuted_shared_bus :
  let m := mkIM true false true in
  let ops := [IWrite 1 9%N 1%Z; ILoadAdded 0 3%N 3%Z; ILoadProgress 0 3%N 3%Z; ILoadProgress 0 2%N 2%Z;
              ILoadProgress 0 1%N 1%Z; ILoadEnd 0 [1%N; 2%N; 3%N] [3%N]] in
  filter (targets 1) ops = [IWrite 1 9%N 1%Z] /\
  proj 1 (run m ops (init 2)) <> proj 1 (run m (filter (targets 1) ops) (init 2)) /\
  nth_error (run m ops (init 2)) 1 =
    Some (mkSt [9%N] [9%N] (mkS 3%Z 3%Z) [9%N]
               [SeWrite [9%N]; SeReplicate 3%N; SeProgress 3%N; SeProgress 2%N; SeProgress 1%N;
                SeReplicated [1%N; 2%N; 3%N]]
               [(1, [9%N])]) /\
  nth_error (run m (filter (targets 1) ops) (init 2)) 1 =
    Some (mkSt [9%N] [9%N] (mkS 1%Z 1%Z) [] [SeWrite [9%N]] [(1, [9%N])]).
Proof.
  split; [reflexivity|]. split; [|split].
  - vm_compute. intros H. discriminate H.
  - vm_compute. reflexivity.
  - vm_compute. reflexivity.
Qed.

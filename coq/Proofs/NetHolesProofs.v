(** Proofs of the convergence statements for the network model with holes, failed-fetch
    memory and restarts (C02, [Model/NetHoles.v]). *)
From Orbit Require Import Spec.Statements Proofs.NetProofs.
From Coq Require Import Lia List Bool.
Import ListNotations.

Local Open Scope nat_scope.

(** * [hset_nth] *)

Lemma hset_nth_length {A} (x : A) : forall i l, length (hset_nth i x l) = length l.
Proof.
  induction i as [|i IH]; intros [|a l]; try reflexivity.
  change (hset_nth (S i) x (a :: l)) with (a :: hset_nth i x l).
  simpl. rewrite IH. reflexivity.
Qed.

Lemma nth_error_hset_nth_eq {A} (x : A) : forall i l,
  i < length l -> nth_error (hset_nth i x l) i = Some x.
Proof.
  induction i as [|i IH]; intros [|a l] H; simpl in H; try lia.
  - reflexivity.
  - change (hset_nth (S i) x (a :: l)) with (a :: hset_nth i x l).
    simpl. apply IH. lia.
Qed.

Lemma nth_error_hset_nth_neq {A} (x : A) : forall i l j,
  i <> j -> nth_error (hset_nth i x l) j = nth_error l j.
Proof.
  induction i as [|i IH]; intros [|a l] j H.
  - reflexivity.
  - destruct j as [|j]; [exfalso; apply H; reflexivity | reflexivity].
  - reflexivity.
  - change (hset_nth (S i) x (a :: l)) with (a :: hset_nth i x l).
    destruct j as [|j]; simpl; [reflexivity|].
    apply IH. intros E. apply H. rewrite E. reflexivity.
Qed.

Lemma nth_error_hset_nth_cases {A} (x z : A) i l j y :
  nth_error l i = Some z ->
  nth_error (hset_nth i x l) j = Some y ->
  (j = i /\ y = x) \/ (j <> i /\ nth_error l j = Some y).
Proof.
  intros Hz H. destruct (Nat.eq_dec i j) as [E|E].
  - subst j. left. rewrite nth_error_hset_nth_eq in H.
    + inversion H. split; reflexivity.
    + apply nth_error_Some. rewrite Hz. discriminate.
  - right. rewrite nth_error_hset_nth_neq in H by exact E.
    split; [intros E'; apply E; symmetry; exact E' | exact H].
Qed.

(** * reachability through held entries *)

(** [lreach U L a b]: b is reachable from a over links, every entry on the path (a and b
    included) being a member of L *)
Inductive lreach (U : list uent) (L : list N) : N -> N -> Prop :=
| lreach_refl h : In h L -> lreach U L h h
| lreach_step h e h' h'' :
    In h L -> ufind h U = Some e -> In h' (u_links e) -> lreach U L h' h'' -> lreach U L h h''.

Lemma lreach_src U L a b : lreach U L a b -> In a L.
Proof. intros H; destruct H; assumption. Qed.

Lemma lreach_dst U L a b : lreach U L a b -> In b L.
Proof. intros H; induction H; assumption. Qed.

Lemma lreach_ureach U L a b : lreach U L a b -> ureach U a b.
Proof.
  intros H; induction H as [h Hh | h e h' h'' Hh Hf Hl Hr IH].
  - apply ureach_refl.
  - eapply ureach_step; [exact Hf | exact Hl | exact IH].
Qed.

Lemma lreach_mono U L L' a b :
  (forall x, In x L -> In x L') -> lreach U L a b -> lreach U L' a b.
Proof.
  intros Hsub H; induction H as [h Hh | h e h' h'' Hh Hf Hl Hr IH].
  - apply lreach_refl. apply Hsub; exact Hh.
  - eapply lreach_step; [apply Hsub; exact Hh | exact Hf | exact Hl | exact IH].
Qed.

Lemma lreach_app U V L a b : lreach U L a b -> lreach (U ++ V) L a b.
Proof.
  intros H; induction H as [h Hh | h e h' h'' Hh Hf Hl Hr IH].
  - apply lreach_refl; exact Hh.
  - eapply lreach_step; [exact Hh | | exact Hl | exact IH].
    rewrite ufind_app, Hf. reflexivity.
Qed.

Lemma lreach_snoc U L a b e c :
  lreach U L a b -> ufind b U = Some e -> In c (u_links e) -> In c L -> lreach U L a c.
Proof.
  intros H; induction H as [h Hh | h e0 h' h'' Hh Hf Hl Hr IH]; intros Hfb Hc HcL.
  - eapply lreach_step; [exact Hh | exact Hfb | exact Hc | apply lreach_refl; exact HcL].
  - eapply lreach_step; [exact Hh | exact Hf | exact Hl | apply IH; assumption].
Qed.

(** the heads of a set cover it through members of the set *)
Lemma heads_cover_in U log :
  acyc U ->
  forall k x, length U - rank x U <= k -> In x log ->
  exists c, In c (heads_of U log) /\ lreach U log c x.
Proof.
  intros HA. induction k as [|k IH]; intros x Hk Hx.
  - destruct (existsb (fun y => memN x (links_of U y)) log) eqn:Hex.
    + exfalso. apply existsb_exists in Hex. destruct Hex as [y [Hy Hm]].
      unfold links_of in Hm. destruct (ufind y U) as [e|] eqn:Hf; [|discriminate].
      apply memN_In in Hm. pose proof (HA y e x Hf Hm). pose proof (rank_found U y e Hf). lia.
    + exists x. split; [|apply lreach_refl; exact Hx].
      unfold heads_of. apply filter_In. split; [exact Hx|]. rewrite Hex. reflexivity.
  - destruct (existsb (fun y => memN x (links_of U y)) log) eqn:Hex.
    + apply existsb_exists in Hex. destruct Hex as [y [Hy Hm]].
      unfold links_of in Hm. destruct (ufind y U) as [e|] eqn:Hf; [|discriminate].
      apply memN_In in Hm. pose proof (HA y e x Hf Hm) as H1.
      pose proof (rank_found U y e Hf) as H2.
      assert (Hk' : length U - rank y U <= k) by lia.
      destruct (IH y Hk' Hy) as [c [Hc Hr]].
      exists c. split; [exact Hc|].
      apply (lreach_snoc U log c y e x Hr Hf Hm Hx).
    + exists x. split; [|apply lreach_refl; exact Hx].
      unfold heads_of. apply filter_In. split; [exact Hx|]. rewrite Hex. reflexivity.
Qed.

(** links of written entries point to written entries *)
Lemma acyc_closed U h e y :
  acyc U -> ufind h U = Some e -> In y (u_links e) -> In y (map u_hash U).
Proof.
  intros HA Hf Hy. destruct (ufind y U) as [ey|] eqn:Hfy.
  - apply (ufind_some_in U y ey Hfy).
  - exfalso. pose proof (HA h e y Hf Hy) as H1. pose proof (rank_found U h e Hf) as H2.
    pose proof (rank_app_notfound U [] y Hfy) as H3. rewrite app_nil_r in H3. simpl in H3. lia.
Qed.

Lemma links_of_app_found U V x :
  In x (map u_hash U) -> links_of (U ++ V) x = links_of U x.
Proof.
  intros Hx. unfold links_of. rewrite ufind_app.
  destruct (ufind_in U x Hx) as [e He]. rewrite He. reflexivity.
Qed.

Lemma links_of_in U x y :
  In y (links_of U x) -> exists e, ufind x U = Some e /\ In y (u_links e).
Proof.
  unfold links_of. destruct (ufind x U) as [e|]; [|intros []].
  intros H. exists e. split; [reflexivity | exact H].
Qed.

Lemma in_links_of U x e y : ufind x U = Some e -> In y (u_links e) -> In y (links_of U x).
Proof. intros Hf Hy. unfold links_of. rewrite Hf. exact Hy. Qed.

(** * the traversal *)

Lemma memN_false x l : memN x l = false -> ~ In x l.
Proof. intros H Hin. apply memN_In in Hin. rewrite Hin in H. discriminate. Qed.

(** what is gained was fetched and is not in the log; what failed could not be fetched and
    is not in the log; the accumulators only grow *)
Lemma htraverse_sound U ok log : forall fuel todo gained failed,
  (forall x, In x (fst (htraverse fuel U ok log todo gained failed)) ->
     In x gained \/ (~ In x log /\ ok x = true /\ exists e, ufind x U = Some e)) /\
  (forall x, In x (snd (htraverse fuel U ok log todo gained failed)) ->
     In x failed \/ (~ In x log /\ (ok x = false \/ ufind x U = None))) /\
  (forall x, In x gained -> In x (fst (htraverse fuel U ok log todo gained failed))) /\
  (forall x, In x failed -> In x (snd (htraverse fuel U ok log todo gained failed))).
Proof.
  induction fuel as [|f IH]; intros todo gained failed.
  - simpl. repeat split; intros x Hx; try (left; exact Hx); exact Hx.
  - destruct todo as [|h r].
    + simpl. repeat split; intros x Hx; try (left; exact Hx); exact Hx.
    + simpl. destruct (memN h log || memN h gained || memN h failed) eqn:Hc.
      * apply IH.
      * apply orb_false_iff in Hc. destruct Hc as [Hc Hfl].
        apply orb_false_iff in Hc. destruct Hc as [Hlg Hgn].
        apply memN_false in Hlg.
        destruct (if ok h then ufind h U else None) as [e|] eqn:Hg.
        -- assert (Hok : ok h = true /\ ufind h U = Some e).
           { destruct (ok h); [split; [reflexivity | exact Hg] | discriminate]. }
           destruct (IH (u_links e ++ r) (gained ++ [h]) failed) as [S1 [S2 [S3 S4]]].
           split; [|split; [|split]].
           ++ intros x Hx. destruct (S1 x Hx) as [H|H]; [|right; exact H].
              apply in_app_or in H. destruct H as [H|[H|[]]]; [left; exact H|].
              subst x. right. split; [exact Hlg|]. split; [apply Hok|]. exists e. apply Hok.
           ++ exact S2.
           ++ intros x Hx. apply S3. apply in_or_app. left; exact Hx.
           ++ exact S4.
        -- assert (Hno : ok h = false \/ ufind h U = None).
           { destruct (ok h); [right; exact Hg | left; reflexivity]. }
           destruct (IH r gained (failed ++ [h])) as [S1 [S2 [S3 S4]]].
           split; [|split; [|split]].
           ++ exact S1.
           ++ intros x Hx. destruct (S2 x Hx) as [H|H]; [|right; exact H].
              apply in_app_or in H. destruct H as [H|[H|[]]]; [left; exact H|].
              subst x. right. split; [exact Hlg | exact Hno].
           ++ exact S3.
           ++ intros x Hx. apply S4. apply in_or_app. left; exact Hx.
Qed.

(** a predicate that holds of the starting points and is passed on along links holds of
    everything the traversal touches *)
Lemma htraverse_P U ok log (P : N -> Prop) :
  (forall h e y, P h -> ufind h U = Some e -> In y (u_links e) -> P y) ->
  forall fuel todo gained failed,
  (forall x, In x todo -> P x) -> (forall x, In x gained -> P x) -> (forall x, In x failed -> P x) ->
  (forall x, In x (fst (htraverse fuel U ok log todo gained failed)) -> P x) /\
  (forall x, In x (snd (htraverse fuel U ok log todo gained failed)) -> P x).
Proof.
  intros Hstep. induction fuel as [|f IH]; intros todo gained failed Ht Hg Hfl.
  - simpl. split; assumption.
  - destruct todo as [|h r].
    + simpl. split; assumption.
    + simpl. destruct (memN h log || memN h gained || memN h failed).
      * apply IH; [intros x Hx; apply Ht; right; exact Hx | exact Hg | exact Hfl].
      * destruct (if ok h then ufind h U else None) as [e|] eqn:Hgt.
        -- assert (Hf : ufind h U = Some e) by (destruct (ok h); [exact Hgt | discriminate]).
           apply IH.
           ++ intros x Hx. apply in_app_or in Hx. destruct Hx as [Hx|Hx].
              ** apply (Hstep h e x); [apply Ht; left; reflexivity | exact Hf | exact Hx].
              ** apply Ht. right; exact Hx.
           ++ intros x Hx. apply in_app_or in Hx. destruct Hx as [Hx|[Hx|[]]].
              ** apply Hg; exact Hx.
              ** subst x. apply Ht. left; reflexivity.
           ++ exact Hfl.
        -- apply IH.
           ++ intros x Hx. apply Ht. right; exact Hx.
           ++ exact Hg.
           ++ intros x Hx. apply in_app_or in Hx. destruct Hx as [Hx|[Hx|[]]].
              ** apply Hfl; exact Hx.
              ** subst x. apply Ht. left; reflexivity.
Qed.

(** with enough fuel nothing is left over: every starting point and every link target of a
    gained entry ends up in the log, gained or failed *)
Lemma htraverse_spec U ok log : forall fuel todo gained failed,
  length todo + weight U gained < fuel ->
  (forall x e y, In x gained -> ufind x U = Some e -> In y (u_links e) ->
                 In y log \/ In y gained \/ In y failed \/ In y todo) ->
  (forall x, In x todo ->
     In x log \/ In x (fst (htraverse fuel U ok log todo gained failed)) \/
     In x (snd (htraverse fuel U ok log todo gained failed))) /\
  (forall x e y, In x (fst (htraverse fuel U ok log todo gained failed)) ->
     ufind x U = Some e -> In y (u_links e) ->
     In y log \/ In y (fst (htraverse fuel U ok log todo gained failed)) \/
     In y (snd (htraverse fuel U ok log todo gained failed))).
Proof.
  induction fuel as [|f IH]; intros todo gained failed Hfuel Hinv.
  - lia.
  - destruct todo as [|h r].
    + simpl. split; [intros x []|].
      intros x e y Hx Hf Hy. destruct (Hinv x e y Hx Hf Hy) as [H|[H|[H|[]]]]; tauto.
    + simpl. destruct (memN h log || memN h gained || memN h failed) eqn:Hc.
      * assert (Hh : In h log \/ In h gained \/ In h failed).
        { apply orb_true_iff in Hc. destruct Hc as [Hc|Hc].
          - apply orb_true_iff in Hc. destruct Hc as [Hc|Hc]; apply memN_In in Hc; tauto.
          - apply memN_In in Hc. tauto. }
        assert (Hfuel' : length r + weight U gained < f) by (simpl in Hfuel; lia).
        assert (Hinv' : forall x e y, In x gained -> ufind x U = Some e -> In y (u_links e) ->
                                      In y log \/ In y gained \/ In y failed \/ In y r).
        { intros x e y Hx Hf Hy. destruct (Hinv x e y Hx Hf Hy) as [H|[H|[H|[H|H]]]]; try tauto.
          subst y. tauto. }
        destruct (IH r gained failed Hfuel' Hinv') as [C1 C2].
        destruct (htraverse_sound U ok log f r gained failed) as [_ [_ [S3 S4]]].
        split; [|exact C2].
        intros x [Hx|Hx].
        -- subst x. destruct Hh as [H|[H|H]]; [left; exact H | right; left; apply S3; exact H | right; right; apply S4; exact H].
        -- apply C1; exact Hx.
      * apply orb_false_iff in Hc. destruct Hc as [Hc Hfl].
        apply orb_false_iff in Hc. destruct Hc as [Hlg Hgn].
        destruct (if ok h then ufind h U else None) as [e|] eqn:Hg.
        -- assert (Hf : ufind h U = Some e) by (destruct (ok h); [exact Hg | discriminate]).
           pose proof (weight_push U h e gained Hf Hgn) as Hw.
           assert (Hfuel' : length (u_links e ++ r) + weight U (gained ++ [h]) < f)
             by (rewrite app_length; simpl in Hfuel; lia).
           assert (Hinv' : forall x e0 y, In x (gained ++ [h]) -> ufind x U = Some e0 -> In y (u_links e0) ->
                             In y log \/ In y (gained ++ [h]) \/ In y failed \/ In y (u_links e ++ r)).
           { intros x e0 y Hx Hf0 Hy. apply in_app_or in Hx. destruct Hx as [Hx|[Hx|[]]].
             - destruct (Hinv x e0 y Hx Hf0 Hy) as [H|[H|[H|[H|H]]]].
               + tauto.
               + right; left. apply in_or_app; left; exact H.
               + tauto.
               + subst y. right; left. apply in_or_app; right; left; reflexivity.
               + right; right; right. apply in_or_app; right; exact H.
             - subst x. rewrite Hf in Hf0. inversion Hf0; subst e0.
               right; right; right. apply in_or_app; left; exact Hy. }
           destruct (IH (u_links e ++ r) (gained ++ [h]) failed Hfuel' Hinv') as [C1 C2].
           destruct (htraverse_sound U ok log f (u_links e ++ r) (gained ++ [h]) failed) as [_ [_ [S3 _]]].
           split; [|exact C2].
           intros x [Hx|Hx].
           ++ subst x. right; left. apply S3. apply in_or_app; right; left; reflexivity.
           ++ apply C1. apply in_or_app; right; exact Hx.
        -- assert (Hfuel' : length r + weight U gained < f) by (simpl in Hfuel; lia).
           assert (Hinv' : forall x e y, In x gained -> ufind x U = Some e -> In y (u_links e) ->
                             In y log \/ In y gained \/ In y (failed ++ [h]) \/ In y r).
           { intros x e y Hx Hf Hy. destruct (Hinv x e y Hx Hf Hy) as [H|[H|[H|[H|H]]]].
             - tauto.
             - tauto.
             - right; right; left. apply in_or_app; left; exact H.
             - subst y. right; right; left. apply in_or_app; right; left; reflexivity.
             - tauto. }
           destruct (IH r gained (failed ++ [h]) Hfuel' Hinv') as [C1 C2].
           destruct (htraverse_sound U ok log f r gained (failed ++ [h])) as [_ [_ [_ S4]]].
           split; [|exact C2].
           intros x [Hx|Hx].
           ++ subst x. right; right. apply S4. apply in_or_app; right; left; reflexivity.
           ++ apply C1; exact Hx.
Qed.

(** everything gained is reachable from a starting point through gained entries *)
Lemma htraverse_reach U ok log todo0 : forall fuel todo gained failed,
  (forall x, In x gained -> exists c, In c todo0 /\ lreach U gained c x) ->
  (forall t, In t todo -> In t todo0 \/ exists g e, In g gained /\ ufind g U = Some e /\ In t (u_links e)) ->
  forall x, In x (fst (htraverse fuel U ok log todo gained failed)) ->
  exists c, In c todo0 /\ lreach U (fst (htraverse fuel U ok log todo gained failed)) c x.
Proof.
  induction fuel as [|f IH]; intros todo gained failed H1 H2.
  - simpl. exact H1.
  - destruct todo as [|h r].
    + simpl. exact H1.
    + simpl. destruct (memN h log || memN h gained || memN h failed).
      * apply IH; [exact H1|]. intros t Ht. apply H2. right; exact Ht.
      * destruct (if ok h then ufind h U else None) as [e|] eqn:Hg.
        -- assert (Hf : ufind h U = Some e) by (destruct (ok h); [exact Hg | discriminate]).
           assert (Hsub : forall x, In x gained -> In x (gained ++ [h]))
             by (intros x Hx; apply in_or_app; left; exact Hx).
           assert (HhG : In h (gained ++ [h])) by (apply in_or_app; right; left; reflexivity).
           apply IH.
           ++ intros x Hx. apply in_app_or in Hx. destruct Hx as [Hx|[Hx|[]]].
              ** destruct (H1 x Hx) as [c [Hc Hr]]. exists c. split; [exact Hc|].
                 apply (lreach_mono U gained _ c x Hsub Hr).
              ** subst x. destruct (H2 h (or_introl eq_refl)) as [Hh|[g [eg [Hgn [Hfg Hl]]]]].
                 --- exists h. split; [exact Hh | apply lreach_refl; exact HhG].
                 --- destruct (H1 g Hgn) as [c [Hc Hr]]. exists c. split; [exact Hc|].
                     apply (lreach_snoc U _ c g eg h); [|exact Hfg | exact Hl | exact HhG].
                     apply (lreach_mono U gained _ c g Hsub Hr).
           ++ intros t Ht. apply in_app_or in Ht. destruct Ht as [Ht|Ht].
              ** right. exists h, e. split; [exact HhG|]. split; [exact Hf | exact Ht].
              ** destruct (H2 t (or_intror Ht)) as [H|[g [eg [Hgn [Hfg Hl]]]]]; [left; exact H|].
                 right. exists g, eg. split; [apply Hsub; exact Hgn|]. split; assumption.
        -- apply IH; [exact H1|]. intros t Ht. apply H2. right; exact Ht.
Qed.

Lemma trav_fuel_ok U todo : length todo + weight U [] < trav_fuel U todo.
Proof. unfold trav_fuel. pose proof (weight_le U []). lia. Qed.

(** * one replication request *)

Lemma hfetch_facts U rp heads ok :
  exists G,
    h_log (hfetch U rp heads ok) = h_log rp ++ G /\
    h_local (hfetch U rp heads ok) = h_local rp /\
    h_remote (hfetch U rp heads ok) =
      match G with [] => h_remote rp | _ => heads_of U (h_log rp ++ G) end /\
    (forall x, In x G -> ~ In x (h_log rp) /\ ok x = true /\ exists e, ufind x U = Some e) /\
    (forall x, In x (h_failed (hfetch U rp heads ok)) ->
       ~ In x (h_log rp) /\ (ok x = false \/ ufind x U = None)) /\
    (forall x, In x (h_failed rp) \/ (In x heads /\ In x (map u_hash U)) ->
       In x (h_log rp) \/ In x G \/ In x (h_failed (hfetch U rp heads ok))) /\
    (forall x e y, In x G -> ufind x U = Some e -> In y (u_links e) ->
       In y (h_log rp) \/ In y G \/ In y (h_failed (hfetch U rp heads ok))) /\
    (forall P : N -> Prop,
       (forall h e y, P h -> ufind h U = Some e -> In y (u_links e) -> P y) ->
       (forall x, In x (h_failed rp) -> P x) ->
       (forall x, In x heads -> In x (map u_hash U) -> P x) ->
       forall x, In x (h_failed (hfetch U rp heads ok)) -> P x).
Proof.
  unfold hfetch. cbv zeta.
  set (hs := filter (fun h => memN h (map u_hash U)) heads).
  set (todo := h_failed rp ++ hs).
  set (R := htraverse (trav_fuel U todo) U ok (h_log rp) todo [] []).
  exists (fst R). simpl.
  destruct (htraverse_sound U ok (h_log rp) (trav_fuel U todo) todo [] []) as [S1 [S2 _]].
  assert (Hinv0 : forall x e y, In x (@nil N) -> ufind x U = Some e -> In y (u_links e) ->
                    In y (h_log rp) \/ In y (@nil N) \/ In y (@nil N) \/ In y todo)
    by (intros ? ? ? []).
  destruct (htraverse_spec U ok (h_log rp) (trav_fuel U todo) todo [] [] (trav_fuel_ok U todo) Hinv0) as [C1 C2].
  fold R in S1, S2, C1, C2.
  assert (Hhs : forall x, In x hs <-> In x heads /\ In x (map u_hash U)).
  { intros x. unfold hs. rewrite filter_In. rewrite memN_In. tauto. }
  split; [reflexivity|]. split; [reflexivity|]. split; [reflexivity|].
  split; [|split; [|split; [|split]]].
  - intros x Hx. destruct (S1 x Hx) as [[]|H]. exact H.
  - intros x Hx. destruct (S2 x Hx) as [[]|H]. exact H.
  - intros x Hx. apply C1. unfold todo. apply in_or_app. destruct Hx as [Hx|Hx].
    + left; exact Hx.
    + right. apply Hhs. exact Hx.
  - exact C2.
  - intros P Hstep Hf Hh.
    apply (htraverse_P U ok (h_log rp) P Hstep (trav_fuel U todo) todo [] []).
    + intros x Hx. unfold todo in Hx. apply in_app_or in Hx. destruct Hx as [Hx|Hx].
      * apply Hf; exact Hx.
      * apply Hhs in Hx. apply Hh; apply Hx.
    + intros x [].
    + intros x [].
Qed.

(** * restart *)

Lemma hrestart_facts rm U rp ok :
  h_log (hrestart rm U rp ok) =
    fst (htraverse (trav_fuel U (h_cached rp)) U (fun h => memN h (h_log rp) || ok h) [] (h_cached rp) [] []) /\
  h_local (hrestart rm U rp ok) = h_local rp /\
  h_remote (hrestart rm U rp ok) = h_remote rp /\
  h_failed (hrestart rm U rp ok) = (if rm then dangling U (h_log (hrestart rm U rp ok)) else []).
Proof. unfold hrestart. simpl. repeat split; reflexivity. Qed.

(** * the invariant *)

Record hrinv (rm : bool) (U : list uent) (ow : list (N * nat)) (i : nat) (rp : hrep) : Prop := mkHRI {
  hr_sub : forall x, In x (h_log rp) -> In x (map u_hash U);
  hr_cov : forall x, In x (h_log rp) -> exists c, In c (h_cached rp) /\ lreach U (h_log rp) c x;
  hr_own : forall h, In (h, i) ow -> In h (h_log rp);
  hr_cached : forall c, In c (h_cached rp) -> In c (h_log rp);
  hr_fsub : forall x, In x (h_failed rp) -> In x (map u_hash U);
  hr_fdis : forall x, In x (h_failed rp) -> ~ In x (h_log rp);
  hr_dang : rm = true -> forall x y, In x (h_log rp) -> In y (links_of U x) ->
            In y (h_log rp) \/ In y (h_failed rp)
}.

Record hinv (rm : bool) (s : hstate) : Prop := mkHI {
  hi_acyc : acyc (h_univ s);
  hi_reps : forall i rp, nth_error (h_reps s) i = Some rp -> hrinv rm (h_univ s) (h_owner s) i rp;
  hi_own : forall h, In h (map u_hash (h_univ s)) ->
      exists i, In (h, i) (h_owner s) /\ i < length (h_reps s)
}.

Lemma hfetch_inv rm U ow i rp heads ok :
  acyc U -> hrinv rm U ow i rp -> hrinv rm U ow i (hfetch U rp heads ok).
Proof.
  intros HA [Isub Icov Iown Icached Ifsub Ifdis Idang].
  destruct (hfetch_facts U rp heads ok) as [G [El [Eloc [Erem [FG [FF [FC1 [FC2 FP]]]]]]]].
  set (rp' := hfetch U rp heads ok) in *.
  assert (Hcached' : forall c, In c (h_cached rp') -> In c (h_log rp')).
  { intros c Hc. unfold h_cached in Hc. rewrite Eloc, Erem in Hc. rewrite El.
    apply in_app_or in Hc. destruct Hc as [Hc|Hc].
    - apply in_or_app. left. apply Icached. unfold h_cached. apply in_or_app. left; exact Hc.
    - destruct G as [|g G'].
      + apply in_or_app. left. apply Icached. unfold h_cached. apply in_or_app. right; exact Hc.
      + apply (heads_of_sub _ _ _ Hc). }
  constructor.
  - intros x Hx. rewrite El in Hx. apply in_app_or in Hx. destruct Hx as [Hx|Hx].
    + apply Isub; exact Hx.
    + destruct (FG x Hx) as [_ [_ [e He]]]. apply (ufind_some_in U x e He).
  - intros x Hx. unfold h_cached. rewrite Eloc, Erem, El. rewrite El in Hx.
    destruct G as [|g G'].
    + rewrite app_nil_r in *. destruct (Icov x Hx) as [c [Hc Hr]]. exists c. split; [exact Hc | exact Hr].
    + destruct (heads_cover_in U (h_log rp ++ g :: G') HA (length U) x) as [c [Hc Hr]]; [lia | exact Hx |].
      exists c. split; [apply in_or_app; right; exact Hc | exact Hr].
  - intros h Hh. rewrite El. apply in_or_app. left. apply Iown; exact Hh.
  - exact Hcached'.
  - apply FP.
    + intros h e y Hh Hf Hy. apply (acyc_closed U h e y HA Hf Hy).
    + exact Ifsub.
    + intros x _ Hx. exact Hx.
  - intros x Hx Hl. destruct (FF x Hx) as [Hnl Hno]. rewrite El in Hl.
    apply in_app_or in Hl. destruct Hl as [Hl|Hl]; [exact (Hnl Hl)|].
    destruct (FG x Hl) as [_ [Hok [e He]]].
    destruct Hno as [Hno|Hno]; [rewrite Hok in Hno; discriminate | rewrite He in Hno; discriminate].
  - intros Hrm x y Hx Hy. rewrite El. rewrite El in Hx.
    assert (H3 : In y (h_log rp) \/ In y G \/ In y (h_failed rp')).
    { apply in_app_or in Hx. destruct Hx as [Hx|Hx].
      - destruct (Idang Hrm x y Hx Hy) as [H|H]; [left; exact H|].
        apply FC1. left; exact H.
      - destruct (links_of_in U x y Hy) as [e [He Hye]]. apply (FC2 x e y Hx He Hye). }
    destruct H3 as [H|[H|H]].
    + left. apply in_or_app; left; exact H.
    + left. apply in_or_app; right; exact H.
    + right; exact H.
Qed.

Lemma hrestart_keeps rm U ow i rp ok :
  hrinv rm U ow i rp -> forall x, In x (h_log rp) -> In x (h_log (hrestart rm U rp ok)).
Proof.
  intros [Isub Icov Iown Icached Ifsub Ifdis Idang].
  destruct (hrestart_facts rm U rp ok) as [El _]. rewrite El. clear El.
  set (ok' := fun h => memN h (h_log rp) || ok h).
  set (todo := h_cached rp).
  destruct (htraverse_sound U ok' [] (trav_fuel U todo) todo [] []) as [_ [S2 _]].
  assert (Hinv0 : forall x e y, In x (@nil N) -> ufind x U = Some e -> In y (u_links e) ->
                    In y (@nil N) \/ In y (@nil N) \/ In y (@nil N) \/ In y todo)
    by (intros ? ? ? []).
  destruct (htraverse_spec U ok' [] (trav_fuel U todo) todo [] [] (trav_fuel_ok U todo) Hinv0) as [C1 C2].
  set (R := htraverse (trav_fuel U todo) U ok' [] todo [] []) in *.
  (* a held entry is never recorded as failed *)
  assert (Hnf : forall x, In x (h_log rp) -> In x (snd R) -> False).
  { intros x Hx Hs. destruct (S2 x Hs) as [[]|[_ [H|H]]].
    - unfold ok' in H. apply memN_In in Hx. rewrite Hx in H. discriminate.
    - destruct (ufind_in U x (Isub x Hx)) as [e He]. rewrite He in H. discriminate. }
  assert (Hpath : forall a b, lreach U (h_log rp) a b -> In a (fst R) -> In b (fst R)).
  { intros a b H. induction H as [h Hh | h e h' h'' Hh Hf Hl Hr IH]; intros Ha.
    - exact Ha.
    - apply IH. destruct (C2 h e h' Ha Hf Hl) as [[]|[H|H]]; [exact H|].
      exfalso. apply (Hnf h' (lreach_src _ _ _ _ Hr) H). }
  intros x Hx. destruct (Icov x Hx) as [c [Hc Hr]].
  apply (Hpath c x Hr).
  destruct (C1 c Hc) as [[]|[H|H]]; [exact H|].
  exfalso. apply (Hnf c (Icached c Hc) H).
Qed.

Lemma hrestart_inv rm U ow i rp ok :
  acyc U -> hrinv rm U ow i rp -> hrinv rm U ow i (hrestart rm U rp ok).
Proof.
  intros HA Hinv. pose proof (hrestart_keeps rm U ow i rp ok Hinv) as Hkeep.
  destruct Hinv as [Isub Icov Iown Icached Ifsub Ifdis Idang].
  destruct (hrestart_facts rm U rp ok) as [El [Eloc [Erem Efl]]].
  set (rp' := hrestart rm U rp ok) in *.
  set (ok' := fun h => memN h (h_log rp) || ok h) in *.
  set (todo := h_cached rp) in *.
  destruct (htraverse_sound U ok' [] (trav_fuel U todo) todo [] []) as [S1 _].
  assert (Hcach : h_cached rp' = h_cached rp) by (unfold h_cached; rewrite Eloc, Erem; reflexivity).
  assert (Hlinks : forall y, In y (dangling U (h_log rp')) ->
            ~ In y (h_log rp') /\ exists x, In x (h_log rp') /\ In y (links_of U x)).
  { intros y Hy. unfold dangling in Hy. apply filter_In in Hy. destruct Hy as [Hy Hn].
    split.
    - apply memN_false. destruct (memN y (h_log rp')); [discriminate | reflexivity].
    - apply in_flat_map in Hy. exact Hy. }
  constructor.
  - intros x Hx. rewrite El in Hx. destruct (S1 x Hx) as [[]|[_ [_ [e He]]]].
    apply (ufind_some_in U x e He).
  - intros x Hx. rewrite Hcach. rewrite El in Hx. rewrite El.
    apply (htraverse_reach U ok' [] todo (trav_fuel U todo) todo [] []).
    + intros y [].
    + intros t Ht. left; exact Ht.
    + exact Hx.
  - intros h Hh. apply Hkeep. apply Iown; exact Hh.
  - intros c Hc. rewrite Hcach in Hc. apply Hkeep. apply Icached; exact Hc.
  - intros x Hx. rewrite Efl in Hx. destruct rm; [|destruct Hx].
    destruct (Hlinks x Hx) as [_ [z [Hz Hl]]].
    destruct (links_of_in U z x Hl) as [e [He Hxe]]. apply (acyc_closed U z e x HA He Hxe).
  - intros x Hx. rewrite Efl in Hx. destruct rm; [|destruct Hx].
    apply (Hlinks x Hx).
  - intros Hrm x y Hx Hy. rewrite Efl. rewrite Hrm.
    destruct (memN y (h_log rp')) eqn:Hm.
    + left. apply memN_In; exact Hm.
    + right. unfold dangling. apply filter_In. split.
      * apply in_flat_map. exists x. split; assumption.
      * rewrite Hm. reflexivity.
Qed.

(** * a step preserves the invariant *)

Lemma hrinv_grow rm U ow i rp e h r :
  hrinv rm U ow i rp -> i <> r ->
  hrinv rm (U ++ [e]) (ow ++ [(h, r)]) i rp.
Proof.
  intros [Isub Icov Iown Icached Ifsub Ifdis Idang] Hne.
  constructor.
  - intros x Hx. rewrite map_app. apply in_or_app. left. apply Isub; exact Hx.
  - intros x Hx. destruct (Icov x Hx) as [c [Hc Hr]]. exists c. split; [exact Hc|].
    apply lreach_app; exact Hr.
  - intros h' Hh'. apply in_app_or in Hh'. destruct Hh' as [Hh'|[Hh'|[]]].
    + apply Iown; exact Hh'.
    + inversion Hh'. exfalso. apply Hne. symmetry. assumption.
  - exact Icached.
  - intros x Hx. rewrite map_app. apply in_or_app. left. apply Ifsub; exact Hx.
  - exact Ifdis.
  - intros Hrm x y Hx Hy. rewrite (links_of_app_found U [e] x (Isub x Hx)) in Hy.
    apply (Idang Hrm x y Hx Hy).
Qed.

Lemma hinv_init rm n : hinv rm (hinit n).
Proof.
  constructor; simpl.
  - apply acyc_nil.
  - intros i rp H. apply nth_error_In in H. apply repeat_spec in H. subst rp.
    constructor; unfold h_cached; simpl.
    + intros x [].
    + intros x [].
    + intros h [].
    + intros c [].
    + intros x [].
    + intros x [].
    + intros _ x y [].
  - intros h [].
Qed.

Lemma hinv_step rm s st : hinv rm s -> hinv rm (hstep_run rm s st).
Proof.
  intros [HA HR HO]. destruct st as [r h refs | r heads ok | r ok]; simpl.
  - (* HWrite *)
    destruct (nth_error (h_reps s) r) as [rp|] eqn:Hr; [|constructor; assumption].
    destruct (memN h (map u_hash (h_univ s))) eqn:Hm; [constructor; assumption|].
    assert (Hfresh : ~ In h (map u_hash (h_univ s))) by (apply memN_false; exact Hm).
    pose proof (HR r rp Hr) as [Isub Icov Iown Icached Ifsub Ifdis Idang].
    set (U := h_univ s) in *.
    set (e := mkU h (heads_of U (h_log rp) ++ filter (fun x => memN x (h_log rp)) refs) true).
    assert (Hlinks : forall y, In y (u_links e) -> In y (h_log rp)).
    { intros y Hy. simpl in Hy. apply in_app_or in Hy. destruct Hy as [Hy|Hy].
      - apply (heads_of_sub _ _ _ Hy).
      - apply filter_In in Hy. destruct Hy as [_ Hy]. apply memN_In; exact Hy. }
    assert (Hrlt : r < length (h_reps s)) by (apply nth_error_Some; rewrite Hr; discriminate).
    assert (Hnone : ufind h U = None).
    { destruct (ufind h U) as [e0|] eqn:E; [|reflexivity].
      exfalso. apply Hfresh. apply (ufind_some_in U h e0 E). }
    assert (Hfe : ufind h (U ++ [e]) = Some e).
    { rewrite ufind_app, Hnone. simpl. rewrite N.eqb_refl. reflexivity. }
    assert (HA' : acyc (U ++ [e])).
    { apply acyc_snoc; [exact HA | exact Hfresh |].
      intros y Hy. apply Isub. apply Hlinks; exact Hy. }
    constructor; simpl.
    + exact HA'.
    + intros i rp' Hi.
      destruct (nth_error_hset_nth_cases _ _ _ _ _ _ Hr Hi) as [[Ei Erp]|[Ei Hi']].
      * subst i rp'. constructor; simpl.
        -- intros x Hx. rewrite map_app. apply in_app_or in Hx. apply in_or_app. destruct Hx as [Hx|Hx].
           ++ left. apply Isub; exact Hx.
           ++ right. exact Hx.
        -- intros x Hx. exists h. split; [left; reflexivity|].
           assert (HhL : In h (h_log rp ++ [h])) by (apply in_or_app; right; left; reflexivity).
           apply in_app_or in Hx. destruct Hx as [Hx|[Hx|[]]].
           ++ destruct (heads_cover_in U (h_log rp) HA (length U) x) as [c [Hc Hreach]]; [lia | exact Hx |].
              apply (lreach_step (U ++ [e]) _ h e c x HhL Hfe); [simpl; apply in_or_app; left; exact Hc|].
              apply lreach_app.
              apply (lreach_mono U (h_log rp) _ c x); [|exact Hreach].
              intros z Hz. apply in_or_app. left; exact Hz.
           ++ subst x. apply lreach_refl. exact HhL.
        -- intros h' Hh'. apply in_app_or in Hh'. apply in_or_app. destruct Hh' as [Hh'|[Hh'|[]]].
           ++ left. apply Iown; exact Hh'.
           ++ inversion Hh'. right. left. reflexivity.
        -- intros c Hc. unfold h_cached in Hc. simpl in Hc. apply in_or_app. destruct Hc as [Hc|Hc].
           ++ right. left. exact Hc.
           ++ left. apply Icached. unfold h_cached. apply in_or_app. right; exact Hc.
        -- intros x Hx. rewrite map_app. apply in_or_app. left. apply Ifsub; exact Hx.
        -- intros x Hx Hl. apply in_app_or in Hl. destruct Hl as [Hl|[Hl|[]]].
           ++ apply (Ifdis x Hx Hl).
           ++ subst x. apply Hfresh. apply Ifsub; exact Hx.
        -- intros Hrm x y Hx Hy. apply in_app_or in Hx. destruct Hx as [Hx|[Hx|[]]].
           ++ rewrite (links_of_app_found U [e] x (Isub x Hx)) in Hy.
              destruct (Idang Hrm x y Hx Hy) as [H|H]; [left; apply in_or_app; left; exact H | right; exact H].
           ++ subst x. unfold links_of in Hy. rewrite Hfe in Hy.
              left. apply in_or_app. left. apply Hlinks; exact Hy.
      * apply hrinv_grow; [apply HR; exact Hi' | exact Ei].
    + intros h' Hh'. rewrite map_app in Hh'. apply in_app_or in Hh'.
      rewrite hset_nth_length. destruct Hh' as [Hh'|Hh'].
      * destruct (HO h' Hh') as [i [Hi Hlt]]. exists i. split; [|exact Hlt].
        apply in_or_app. left; exact Hi.
      * destruct Hh' as [Hh'|[]]. simpl in Hh'. subst h'. exists r. split; [|exact Hrlt].
        apply in_or_app. right. left. reflexivity.
  - (* HFetch *)
    destruct (nth_error (h_reps s) r) as [rp|] eqn:Hr; [|constructor; assumption].
    constructor; simpl.
    + exact HA.
    + intros i rp' Hi.
      destruct (nth_error_hset_nth_cases _ _ _ _ _ _ Hr Hi) as [[Ei Erp]|[Ei Hi']].
      * subst i rp'. apply hfetch_inv; [exact HA | apply HR; exact Hr].
      * apply HR; exact Hi'.
    + intros h' Hh'. rewrite hset_nth_length. apply HO; exact Hh'.
  - (* HRestart *)
    destruct (nth_error (h_reps s) r) as [rp|] eqn:Hr; [|constructor; assumption].
    constructor; simpl.
    + exact HA.
    + intros i rp' Hi.
      destruct (nth_error_hset_nth_cases _ _ _ _ _ _ Hr Hi) as [[Ei Erp]|[Ei Hi']].
      * subst i rp'. apply hrestart_inv; [exact HA | apply HR; exact Hr].
      * apply HR; exact Hi'.
    + intros h' Hh'. rewrite hset_nth_length. apply HO; exact Hh'.
Qed.

Lemma hinv_run rm steps : forall s, hinv rm s -> hinv rm (hrun rm steps s).
Proof.
  unfold hrun. induction steps as [|st steps IH]; intros s H; simpl.
  - exact H.
  - apply IH. apply hinv_step. exact H.
Qed.

Lemma hstep_length rm s st : length (h_reps (hstep_run rm s st)) = length (h_reps s).
Proof.
  destruct st as [r h refs | r heads ok | r ok]; simpl.
  - destruct (nth_error (h_reps s) r); [|reflexivity].
    destruct (memN h (map u_hash (h_univ s))); [reflexivity|]. simpl. apply hset_nth_length.
  - destruct (nth_error (h_reps s) r); [|reflexivity]. simpl. apply hset_nth_length.
  - destruct (nth_error (h_reps s) r); [|reflexivity]. simpl. apply hset_nth_length.
Qed.

Lemma hrun_length rm steps : forall s, length (h_reps (hrun rm steps s)) = length (h_reps s).
Proof.
  unfold hrun. induction steps as [|st steps IH]; intros s; simpl.
  - reflexivity.
  - rewrite IH. apply hstep_length.
Qed.

(** * the invariant statement *)

Lemma holes_invariant : S_holes_invariant.
Proof.
  unfold S_holes_invariant. intros n steps i rp. cbv zeta. intros Hi.
  assert (Hinv : hinv true (hrun true steps (hinit n))) by (apply hinv_run; apply hinv_init).
  destruct Hinv as [HA HR HO].
  destruct (HR i rp Hi) as [Isub Icov Iown Icached Ifsub Ifdis Idang].
  split; [|split; [|split]].
  - intros y Hy. unfold dangling in Hy. apply filter_In in Hy. destruct Hy as [Hy Hn].
    apply in_flat_map in Hy. destruct Hy as [x [Hx Hl]].
    destruct (Idang eq_refl x y Hx Hl) as [H|H]; [|exact H].
    apply memN_In in H. rewrite H in Hn. discriminate.
  - exact Isub.
  - exact Iown.
  - intros h Hh. destruct (Icov h Hh) as [c [Hc Hr]].
    apply (anc_set_complete _ _ c h Hc (lreach_ureach _ _ _ _ Hr)). apply Isub; exact Hh.
Qed.

Lemma holes_restart_keeps : S_holes_restart_keeps.
Proof.
  unfold S_holes_restart_keeps. intros rm n steps r ok rp rp'. cbv zeta. intros Hr Hr' h Hh.
  assert (Hinv : hinv rm (hrun rm steps (hinit n))) by (apply hinv_run; apply hinv_init).
  destruct Hinv as [HA HR HO].
  simpl in Hr'. rewrite Hr in Hr'. simpl in Hr'.
  rewrite nth_error_hset_nth_eq in Hr' by (apply nth_error_Some; rewrite Hr; discriminate).
  inversion Hr'; subst rp'.
  apply (hrestart_keeps rm _ _ r rp ok (HR r rp Hr) h Hh).
Qed.

(** * the final phase *)

(** a request in which every fetch succeeds leaves a log that is closed under links, contains
    the requested heads, hence their whole ancestry *)
Lemma hfetch_full U ow i rp heads :
  acyc U -> hrinv true U ow i rp ->
  (forall x, In x (h_log rp) -> In x (h_log (hfetch U rp heads (fun _ => true)))) /\
  (forall c x, In c heads -> In c (map u_hash U) -> ureach U c x ->
               In x (h_log (hfetch U rp heads (fun _ => true)))).
Proof.
  intros HA Hinv.
  pose proof (hfetch_inv true U ow i rp heads (fun _ => true) HA Hinv) as Hinv'.
  destruct (hfetch_facts U rp heads (fun _ => true)) as [G [El [_ [_ [_ [FF [FC1 _]]]]]]].
  set (rp' := hfetch U rp heads (fun _ => true)) in *.
  assert (Hnf : forall x, In x (h_failed rp') -> False).
  { intros x Hx. destruct (FF x Hx) as [_ [H|H]]; [discriminate|].
    destruct (ufind_in U x (hr_fsub _ _ _ _ _ Hinv' x Hx)) as [e He]. rewrite He in H. discriminate. }
  assert (Hclosed : forall x y, In x (h_log rp') -> In y (links_of U x) -> In y (h_log rp')).
  { intros x y Hx Hy. destruct (hr_dang _ _ _ _ _ Hinv' eq_refl x y Hx Hy) as [H|H]; [exact H|].
    destruct (Hnf y H). }
  split.
  - intros x Hx. rewrite El. apply in_or_app. left; exact Hx.
  - intros c x Hc HcU Hreach.
    assert (Hin : In c (h_log rp')).
    { rewrite El. destruct (FC1 c (or_intror (conj Hc HcU))) as [H|[H|H]].
      - apply in_or_app; left; exact H.
      - apply in_or_app; right; exact H.
      - destruct (Hnf c H). }
    clear Hc HcU. revert Hin. induction Hreach as [h | h e h' h'' Hf Hl Hr IH]; intros Hin.
    + exact Hin.
    + apply IH. apply (Hclosed h h' Hin). apply (in_links_of U h e h' Hf Hl).
Qed.

Lemma hexchange_inv s p : hinv true s -> hinv true (hexchange_step true s p).
Proof.
  intros H. unfold hexchange_step.
  destruct (nth_error (h_reps s) (fst p)) as [a|]; [|exact H].
  destruct (h_cached a); [exact H|]. apply hinv_step. exact H.
Qed.

Lemma hexchange_same s p :
  h_univ (hexchange_step true s p) = h_univ s /\
  h_owner (hexchange_step true s p) = h_owner s /\
  length (h_reps (hexchange_step true s p)) = length (h_reps s).
Proof.
  unfold hexchange_step.
  destruct (nth_error (h_reps s) (fst p)) as [a|]; [|repeat split].
  destruct (h_cached a); [repeat split|]. simpl.
  destruct (nth_error (h_reps s) (snd p)); [|repeat split]. simpl.
  split; [reflexivity|]. split; [reflexivity|]. apply hset_nth_length.
Qed.

Lemma hexchange_mono s p b rb x :
  nth_error (h_reps s) b = Some rb -> In x (h_log rb) ->
  exists rb', nth_error (h_reps (hexchange_step true s p)) b = Some rb' /\ In x (h_log rb').
Proof.
  intros Hb Hx. unfold hexchange_step.
  destruct (nth_error (h_reps s) (fst p)) as [a|]; [|exists rb; split; assumption].
  destruct (h_cached a) as [|c0 cs]; [exists rb; split; assumption|]. simpl.
  destruct (nth_error (h_reps s) (snd p)) as [rt|] eqn:Ht; [|exists rb; split; assumption]. simpl.
  destruct (Nat.eq_dec (snd p) b) as [E|E].
  - rewrite E in Ht. rewrite Hb in Ht. inversion Ht; subst rt.
    exists (hfetch (h_univ s) rb (c0 :: cs) (fun _ => true)). split.
    + rewrite E. apply nth_error_hset_nth_eq. apply nth_error_Some. rewrite Hb. discriminate.
    + destruct (hfetch_facts (h_univ s) rb (c0 :: cs) (fun _ => true)) as [G [El _]].
      rewrite El. apply in_or_app. left; exact Hx.
  - exists rb. split; [|exact Hx]. rewrite nth_error_hset_nth_neq by exact E. exact Hb.
Qed.

Lemma hexchange_deliver s a b ra rb x :
  hinv true s -> nth_error (h_reps s) a = Some ra -> nth_error (h_reps s) b = Some rb ->
  In x (h_log ra) ->
  exists rb', nth_error (h_reps (hexchange_step true s (a, b))) b = Some rb' /\ In x (h_log rb').
Proof.
  intros [HA HR HO] Ha Hb Hx. unfold hexchange_step. simpl fst. simpl snd. rewrite Ha.
  pose proof (HR a ra Ha) as Ia. pose proof (HR b rb Hb) as Ib.
  destruct (hr_cov _ _ _ _ _ Ia x Hx) as [c [Hc Hreach]].
  destruct (h_cached ra) as [|c0 cs] eqn:Hcs; [destruct Hc|].
  simpl. rewrite Hb. simpl.
  exists (hfetch (h_univ s) rb (c0 :: cs) (fun _ => true)). split.
  - apply nth_error_hset_nth_eq. apply nth_error_Some. rewrite Hb. discriminate.
  - destruct (hfetch_full (h_univ s) (h_owner s) b rb (c0 :: cs) HA Ib) as [_ Hfull].
    apply (Hfull c x Hc).
    + apply (hr_sub _ _ _ _ _ Ia). apply (hr_cached _ _ _ _ _ Ia). rewrite Hcs. exact Hc.
    + apply (lreach_ureach _ _ _ _ Hreach).
Qed.

Lemma hfold_inv ps : forall s, hinv true s -> hinv true (fold_left (hexchange_step true) ps s).
Proof.
  induction ps as [|p ps IH]; intros s H; simpl; [exact H|].
  apply IH. apply hexchange_inv. exact H.
Qed.

Lemma hfold_same ps : forall s,
  h_univ (fold_left (hexchange_step true) ps s) = h_univ s /\
  h_owner (fold_left (hexchange_step true) ps s) = h_owner s /\
  length (h_reps (fold_left (hexchange_step true) ps s)) = length (h_reps s).
Proof.
  induction ps as [|p ps IH]; intros s; simpl; [repeat split|].
  destruct (IH (hexchange_step true s p)) as [E1 [E2 E3]].
  destruct (hexchange_same s p) as [F1 [F2 F3]].
  rewrite E1, E2, E3, F1, F2, F3. repeat split.
Qed.

Lemma hfold_mono ps : forall s b rb x,
  nth_error (h_reps s) b = Some rb -> In x (h_log rb) ->
  exists rb', nth_error (h_reps (fold_left (hexchange_step true) ps s)) b = Some rb' /\ In x (h_log rb').
Proof.
  induction ps as [|p ps IH]; intros s b rb x Hb Hx; simpl.
  - exists rb. split; assumption.
  - destruct (hexchange_mono s p b rb x Hb Hx) as [rb1 [Hb1 Hx1]].
    apply (IH _ b rb1 x Hb1 Hx1).
Qed.

Lemma hfold_deliver ps : forall s a b x,
  hinv true s -> In (a, b) ps -> a < length (h_reps s) -> b < length (h_reps s) ->
  In (x, a) (h_owner s) ->
  exists rb', nth_error (h_reps (fold_left (hexchange_step true) ps s)) b = Some rb' /\ In x (h_log rb').
Proof.
  induction ps as [|p ps IH]; intros s a b x Hinv Hin Ha Hb Hown; [destruct Hin|].
  simpl. destruct Hin as [Hp|Hin].
  - subst p.
    destruct (nth_error (h_reps s) a) as [ra|] eqn:Hra; [|apply nth_error_None in Hra; lia].
    destruct (nth_error (h_reps s) b) as [rb|] eqn:Hrb; [|apply nth_error_None in Hrb; lia].
    assert (Hx : In x (h_log ra)).
    { destruct Hinv as [HA HR HO]. apply (hr_own _ _ _ _ _ (HR a ra Hra)). exact Hown. }
    destruct (hexchange_deliver s a b ra rb x Hinv Hra Hrb Hx) as [rb1 [Hb1 Hx1]].
    apply (hfold_mono ps _ b rb1 x Hb1 Hx1).
  - destruct (hexchange_same s p) as [F1 [F2 F3]].
    apply (IH (hexchange_step true s p) a b x).
    + apply hexchange_inv; exact Hinv.
    + exact Hin.
    + rewrite F3; exact Ha.
    + rewrite F3; exact Hb.
    + rewrite F2; exact Hown.
Qed.

Lemma hpairs_in n a b : a < n -> b < n -> a <> b -> In (a, b) (hpairs n).
Proof.
  intros Ha Hb Hne. unfold hpairs. apply filter_In. split.
  - apply in_prod; apply in_seq; lia.
  - simpl. apply negb_true_iff. apply Nat.eqb_neq. exact Hne.
Qed.

Lemma hfinal_all s a ra :
  hinv true s -> nth_error (h_reps (hfinal true s)) a = Some ra ->
  forall x, In x (map u_hash (h_univ s)) -> In x (h_log ra).
Proof.
  intros Hinv Ha x Hx. unfold hfinal in Ha.
  set (ps := hpairs (length (h_reps s))) in *.
  destruct (hfold_same ps s) as [E1 [E2 E3]].
  pose proof (hfold_inv ps s Hinv) as Hinv'.
  assert (Halt : a < length (h_reps s)).
  { rewrite <- E3. apply nth_error_Some. rewrite Ha. discriminate. }
  destruct Hinv as [HA HR HO].
  destruct (HO x Hx) as [i [Hown Hlt]].
  destruct (Nat.eq_dec i a) as [E|E].
  - subst i. destruct Hinv' as [_ HR' _].
    apply (hr_own _ _ _ _ _ (HR' a ra Ha)). rewrite E2. exact Hown.
  - destruct (hfold_deliver ps s i a x (mkHI _ _ HA HR HO)) as [rb' [Hb' Hx']].
    + apply hpairs_in; assumption.
    + exact Hlt.
    + exact Halt.
    + exact Hown.
    + rewrite Ha in Hb'. inversion Hb'; subst rb'. exact Hx'.
Qed.

Lemma holes_converge : S_holes_converge.
Proof.
  unfold S_holes_converge. intros n steps a b ra rb Hn. cbv zeta. intros Ha Hb.
  set (s0 := hrun true steps (hinit n)) in *.
  assert (Hinv : hinv true s0) by (apply hinv_run; apply hinv_init).
  pose proof (hfinal_all s0 a ra Hinv Ha) as Hall_a.
  pose proof (hfinal_all s0 b rb Hinv Hb) as Hall_b.
  unfold hfinal in *.
  set (ps := hpairs (length (h_reps s0))) in *.
  destruct (hfold_same ps s0) as [E1 [E2 E3]].
  pose proof (hfold_inv ps s0 Hinv) as [HA' HR' HO'].
  pose proof (HR' a ra Ha) as Ia. pose proof (HR' b rb Hb) as Ib.
  rewrite E1 in *.
  assert (Ea : same_setN (h_log ra) (map u_hash (h_univ s0))).
  { intros x. split; [apply (hr_sub _ _ _ _ _ Ia) | apply Hall_a]. }
  assert (Eb : same_setN (h_log rb) (map u_hash (h_univ s0))).
  { intros x. split; [apply (hr_sub _ _ _ _ _ Ib) | apply Hall_b]. }
  split; [exact Ea|]. split; [|split].
  - intros x. rewrite (Ea x), (Eb x). tauto.
  - destruct (dangling (h_univ s0) (h_log ra)) as [|y l] eqn:Ed; [reflexivity|].
    exfalso. assert (Hy : In y (dangling (h_univ s0) (h_log ra))) by (rewrite Ed; left; reflexivity).
    unfold dangling in Hy. apply filter_In in Hy. destruct Hy as [Hy Hny].
    apply in_flat_map in Hy. destruct Hy as [x [Hx Hl]].
    destruct (links_of_in _ x y Hl) as [e [He Hye]].
    pose proof (acyc_closed _ x e y HA' He Hye) as HyU.
    apply Hall_a in HyU. apply memN_In in HyU. rewrite HyU in Hny. discriminate.
  - destruct (h_failed ra) as [|y l] eqn:Ef; [reflexivity|].
    exfalso. assert (Hy : In y (h_failed ra)) by (rewrite Ef; left; reflexivity).
    apply (hr_fdis _ _ _ _ _ Ia y Hy). apply Hall_a. apply (hr_fsub _ _ _ _ _ Ia y Hy).
Qed.

(** * refutation without the record *)

Lemma holes_refuted_without_record : S_holes_refuted_without_record.
Proof.
  unfold S_holes_refuted_without_record.
  (* replica 1 writes 1 then 2 (2 links to 1); replica 0 is told about 2, fetches 2 but not 1
     (the link goes down in between): 1 is remembered as failed; replica 0 restarts while 1
     is unreachable: the record is lost; in the final phase replica 1 sends its head 2,
     which replica 0 holds: nothing is fetched *)
  exists 2, [HWrite 1 1%N []; HWrite 1 2%N []; HFetch 0 [2%N] (fun h => N.eqb h 2%N); HRestart 0 (fun _ => false)],
         0, (mkHR [2%N] [] [2%N] []), 1%N.
  split; [lia|]. cbv zeta. split; [vm_compute; reflexivity|]. split.
  - vm_compute. left; reflexivity.
  - vm_compute. intros [H|[]]. discriminate.
Qed.

Print Assumptions holes_invariant.
Print Assumptions holes_restart_keeps.
Print Assumptions holes_converge.
Print Assumptions holes_refuted_without_record.

(** C18 — Close and Drop are clean: idempotent, leak-free, and scoped to one database.

    The part of the property a theorem can carry: the lifecycle bookkeeping.  Goroutine exit,
    promptness and reopenability are observed on the implementation by the driver
    (harness/cmd/vcheck/c18.go) and compared with this model by Corr/C18.v. *)
From Orbit Require Import Model.Lifecycle Proofs.LifecycleProofs.

(** After Close (repaired tree: the progress consumer drains, Close ends the legacy
    subscriptions), whatever background activities the store had started and whatever had
    been raised before, every one of them has a raised signal in its wake set. *)
Theorem C18_close_terminates :
  forall acts raised a,
    In a acts -> store_activity a = true ->
    woken sw_fixed (st_raised (close sw_fixed (mkStore true acts raised))) a = true.
Proof. exact close_terminates. Qed.
Print Assumptions C18_close_terminates.

(** The same for the instance: all stores that were open and the direct-channel monitor. *)
Theorem C18_instance_close_terminates :
  forall stores iacts raised,
    (forall s, In s stores -> st_open s = true /\ forallb store_activity (st_acts s) = true) ->
    (forall a, In a iacts -> a = AMonitorDirect) ->
    istuck sw_fixed (iclose sw_fixed (mkInst stores iacts raised)) = [].
Proof. exact iclose_terminates. Qed.
Print Assumptions C18_instance_close_terminates.

(** The tree as it stands (regression witnesses, both observed by the driver):
    a replication worker whose block fetch succeeds after the cancellation, and the load
    request waiting for it, are woken by nothing Close raises ... *)
Theorem C18_refuted_worker_stranded :
  stuck sw_pinned (close sw_pinned (open_store (acts_at 11%N))) = [ASyncLoad; AReplWorkerDelivering].
Proof. exact close_current_strands_delivering_worker. Qed.
Print Assumptions C18_refuted_worker_stranded.

(** ... and neither is a subscriber of the deprecated emitter interface. *)
Theorem C18_refuted_legacy_subscriber_stranded :
  stuck sw_pinned (close sw_pinned (open_store (acts_at 7%N))) = [ALegacySubscriber].
Proof. exact close_current_strands_legacy_subscriber. Qed.
Print Assumptions C18_refuted_legacy_subscriber_stranded.

(** A second Close changes nothing, raises nothing, returns nil (any tree). *)
Theorem C18_close_idempotent :
  forall sw s,
    close sw (close sw s) = close sw s /\
    close_raises sw (close sw s) = [] /\
    close_returns sw (close sw s) = Ok tt.
Proof. exact close_idempotent. Qed.
Print Assumptions C18_close_idempotent.

Theorem C18_instance_close_idempotent :
  forall sw i, iclose sw (iclose sw i) = iclose sw i.
Proof. exact iclose_idempotent. Qed.
Print Assumptions C18_instance_close_idempotent.

(** Every API operation on a closed store answers Ok or Err, never Panic. *)
Theorem C18_after_close_no_panic :
  forall o, is_panic (op_after_close o) = false.
Proof. exact after_close_no_panic. Qed.
Print Assumptions C18_after_close_no_panic.

(** ... and, on the repaired tree, every one of them answers (class ok or error). *)
Theorem C18_after_close_answers :
  forall o, (op_class sw_fixed o <=? 1)%N = true.
Proof. exact after_close_answers_fixed. Qed.
Print Assumptions C18_after_close_answers.

(** The tree as it stands: Drop through a closed handle, after the database's cache has been
    loaded again on the instance, takes the cache manager's lock twice and never returns
    (observed by the driver; afterwards every Close on that instance hangs too). *)
Theorem C18_refuted_stale_drop_deadlocks :
  (forall loaded_again, drop_locking sw_pinned true loaded_again = Returns) /\
  drop_locking sw_pinned false false = Returns /\
  drop_locking sw_pinned false true = Deadlocks /\
  op_class sw_pinned OpDropStale = 3%N.
Proof. exact drop_current_locking. Qed.
Print Assumptions C18_refuted_stale_drop_deadlocks.

(** Drop scope: two addresses with different roots whose paths have no ".." segment: neither
    cache directory equals or lies below the other, and every file of the one survives the
    removal of the other. *)
Theorem C18_drop_scope :
  forall dir r1 p1 r2 p2,
    r1 <> r2 -> clean_path p1 = true -> clean_path p2 = true ->
    drop_removes dir r1 p1 (datastore_key dir r2 p2) = false /\
    drop_removes dir r2 p2 (datastore_key dir r1 p1) = false.
Proof. exact drop_scope. Qed.
Print Assumptions C18_drop_scope.

Theorem C18_drop_keeps_sibling_files :
  forall dir r1 p1 r2 p2 fs f,
    r1 <> r2 -> no_dotdot p1 = true -> no_dotdot p2 = true ->
    In f fs -> is_prefix (datastore_key dir r2 p2) f = true ->
    In f (destroy (datastore_key dir r1 p1) fs).
Proof. exact drop_keeps_sibling_files. Qed.
Print Assumptions C18_drop_keeps_sibling_files.

(** The tree as it stands accepts the address /orbitdb/r1/../r2/name; it has the cache
    directory (and the printed form) of /orbitdb/r2/name, and dropping it removes every file
    of that other database.  Observed by the driver through Open and Drop. *)
Theorem C18_refuted_dotdot_alias :
  forall dir r1 r2 name fs f,
    r1 <> r2 ->
    address_accepted sw_pinned [SDotDot; SNorm r2; SNorm name] = true /\
    datastore_key dir r1 [SDotDot; SNorm r2; SNorm name] = datastore_key dir r2 [SNorm name] /\
    (is_prefix (datastore_key dir r2 [SNorm name]) f = true ->
     ~ In f (destroy (datastore_key dir r1 [SDotDot; SNorm r2; SNorm name]) fs)).
Proof. exact dotdot_alias_refutation. Qed.
Print Assumptions C18_refuted_dotdot_alias.

(** With the address check, whatever Open accepts satisfies the hypothesis of the scope theorem. *)
Theorem C18_accepted_addresses_in_scope :
  forall p, address_accepted sw_fixed p = true -> no_dotdot p = true.
Proof. exact accepted_fixed_no_dotdot. Qed.
Print Assumptions C18_accepted_addresses_in_scope.

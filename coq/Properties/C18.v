(** C18 — Close and Drop are clean: idempotent, leak-free, and scoped to one database.

    The part of the property a theorem can carry: the lifecycle bookkeeping.  Goroutine exit,
    promptness and reopenability are observed on the implementation by the driver
    (harness/cmd/vcheck/c18.go) and compared with this model by Corr/C18.v. *)
From Orbit Require Import Model.Lifecycle Proofs.LifecycleProofs.

(** After Close (repaired tree: the progress consumer drains, Close ends the legacy
    subscriptions, loads are bound to the store), in EVERY configuration of the store
    (replicating or not, on disk or in memory, with or without MaxHistory), whatever background
    activities that configuration can have started and whatever had been raised before, every
    one of them has a raised signal in its wake set. *)
Theorem C18_close_terminates :
  forall cfg acts raised a,
    In a acts -> started_by cfg a = true ->
    woken sw_fixed (st_raised (close sw_fixed (mkStore cfg true acts raised))) a = true.
Proof. exact close_terminates. Qed.
Print Assumptions C18_close_terminates.

(** The same for the instance: all stores that were open, each with its own configuration,
    and the direct-channel monitor. *)
Theorem C18_instance_close_terminates :
  forall stores iacts raised,
    (forall s, In s stores -> st_open s = true /\ forallb (started_by (st_cfg s)) (st_acts s) = true) ->
    (forall a, In a iacts -> a = AMonitorDirect) ->
    istuck sw_fixed (iclose sw_fixed (mkInst stores iacts raised)) = [].
Proof. exact iclose_terminates. Qed.
Print Assumptions C18_instance_close_terminates.

(** The tree as it stands (regression witnesses, both observed by the driver):
    a replication worker whose block fetch succeeds after the cancellation, and the load
    request waiting for it, are woken by nothing Close raises ... *)
Theorem C18_refuted_worker_stranded :
  forall cfg,
    stuck sw_pinned (close sw_pinned (open_store cfg (acts_at cfg 11%N))) = [ASyncLoad; AReplWorkerDelivering].
Proof. exact close_current_strands_delivering_worker. Qed.
Print Assumptions C18_refuted_worker_stranded.

(** ... and neither is a subscriber of the deprecated emitter interface. *)
Theorem C18_refuted_legacy_subscriber_stranded :
  forall cfg,
    stuck sw_pinned (close sw_pinned (open_store cfg (acts_at cfg 7%N))) = [ALegacySubscriber].
Proof. exact close_current_strands_legacy_subscriber. Qed.
Print Assumptions C18_refuted_legacy_subscriber_stranded.

(** A second Close changes nothing, raises nothing, returns nil (any tree). *)
Theorem C18_close_idempotent :
  forall sw s,
    close sw (close sw s) = close sw s /\
    close_raises sw (close sw s) = [] /\
    close_returns sw (close sw s) = Ok tt.
Proof. exact close_idempotent. Qed.
Print Assumptions C18_close_idempotent.

Theorem C18_instance_close_idempotent :
  forall sw i, iclose sw (iclose sw i) = iclose sw i.
Proof. exact iclose_idempotent. Qed.
Print Assumptions C18_instance_close_idempotent.

(** Every API operation on a closed store answers Ok or Err, never Panic. *)
Theorem C18_after_close_no_panic :
  forall o, is_panic (op_after_close o) = false.
Proof. exact after_close_no_panic. Qed.
Print Assumptions C18_after_close_no_panic.

(** ... and, on the repaired tree, every one of them answers (class ok or error). *)
Theorem C18_after_close_answers :
  forall o, (op_class sw_fixed o <=? 1)%N = true.
Proof. exact after_close_answers_fixed. Qed.
Print Assumptions C18_after_close_answers.

(** The tree as it stands: Drop through a closed handle, after the database's cache has been
    loaded again on the instance, takes the cache manager's lock twice and never returns
    (observed by the driver; afterwards every Close on that instance hangs too). *)
Theorem C18_refuted_stale_drop_deadlocks :
  (forall loaded_again, drop_locking sw_pinned true loaded_again = Returns) /\
  drop_locking sw_pinned false false = Returns /\
  drop_locking sw_pinned false true = Deadlocks /\
  op_class sw_pinned OpDropStale = 3%N.
Proof. exact drop_current_locking. Qed.
Print Assumptions C18_refuted_stale_drop_deadlocks.

(** Drop scope: two addresses with different roots whose paths have no ".." segment: neither
    cache directory equals or lies below the other, and every file of the one survives the
    removal of the other - in every configuration, whichever way Destroy removes. *)
Theorem C18_drop_scope :
  forall sw cfg dir r1 p1 r2 p2,
    r1 <> r2 -> clean_path p1 = true -> clean_path p2 = true ->
    drop_removes sw cfg dir r1 p1 (datastore_key dir r2 p2) = false /\
    drop_removes sw cfg dir r2 p2 (datastore_key dir r1 p1) = false.
Proof. exact drop_scope. Qed.
Print Assumptions C18_drop_scope.

Theorem C18_drop_keeps_sibling_files :
  forall sw cfg dir r1 p1 r2 p2 fs f,
    r1 <> r2 -> no_dotdot p1 = true -> no_dotdot p2 = true ->
    In f fs -> is_prefix (datastore_key dir r2 p2) f = true ->
    In f (destroy_cfg sw cfg (datastore_key dir r1 p1) fs).
Proof. exact drop_keeps_sibling_files. Qed.
Print Assumptions C18_drop_keeps_sibling_files.

(** The tree as it stands accepts the address /orbitdb/r1/../r2/name; it has the cache
    directory (and the printed form) of /orbitdb/r2/name, and dropping it removes every file
    of that other database.  Observed by the driver through Open and Drop. *)
Theorem C18_refuted_dotdot_alias :
  forall cfg dir r1 r2 name fs f,
    cf_memory cfg = false -> r1 <> r2 ->
    address_accepted sw_pinned [SDotDot; SNorm r2; SNorm name] = true /\
    datastore_key dir r1 [SDotDot; SNorm r2; SNorm name] = datastore_key dir r2 [SNorm name] /\
    (is_prefix (datastore_key dir r2 [SNorm name]) f = true ->
     ~ In f (destroy_cfg sw_pinned cfg (datastore_key dir r1 [SDotDot; SNorm r2; SNorm name]) fs)).
Proof. exact dotdot_alias_refutation. Qed.
Print Assumptions C18_refuted_dotdot_alias.

(** With the address check, whatever Open accepts satisfies the hypothesis of the scope theorem. *)
Theorem C18_accepted_addresses_in_scope :
  forall p, address_accepted sw_fixed p = true -> no_dotdot p = true.
Proof. exact accepted_fixed_no_dotdot. Qed.
Print Assumptions C18_accepted_addresses_in_scope.

(** ** Configurations (added with the widened driver) *)

(** Whatever the switches and whatever else was raised, a replication worker waiting for a
    slot or inside a block fetch is woken by the replicator's root context only, i.e. by
    [Replicator().Stop()]: Close has to call it in every configuration ... *)
Theorem C18_worker_needs_stop :
  forall sw raised a,
    a = AReplWorkerWaiting \/ a = AReplWorkerFetching ->
    smem SigReplRootCtx raised = false -> woken sw raised a = false.
Proof. exact worker_needs_stop. Qed.
Print Assumptions C18_worker_needs_stop.

(** ... because a store of every configuration can have such workers and load requests. *)
Theorem C18_every_config_can_replicate :
  forall cfg,
    started_by cfg AReplWorkerWaiting = true /\ started_by cfg AReplWorkerFetching = true /\
    started_by cfg ASyncLoad = true /\ started_by cfg ASnapshotLoad = true /\ started_by cfg AReplCtxBinder = true.
Proof. exact every_config_can_replicate. Qed.
Print Assumptions C18_every_config_can_replicate.

(** At every moment the driver scripts, in every configuration, nothing is left after Close
    on the repaired tree. *)
Theorem C18_close_every_moment :
  forall cfg w, stuck sw_fixed (close sw_fixed (open_store cfg (acts_at cfg w))) = [].
Proof. exact close_fixed_every_moment. Qed.
Print Assumptions C18_close_every_moment.

(** The pinned tree: at the moments other than 7, 11 and 18 nothing is left either, in every
    configuration (instance-level moments: two databases of any two configurations). *)
Theorem C18_pinned_other_moments :
  forall cfg cfg' w, In w [0; 1; 2; 3; 4; 5; 6; 8; 9; 10; 12; 13; 14; 15; 16; 17]%N ->
    predicted_leaks sw_pinned [cfg; cfg'] w = [].
Proof. exact close_current_other_moments. Qed.
Print Assumptions C18_pinned_other_moments.

(** Regression witness: a Load waiting for a block nobody provides runs under its caller's
    context only; Close neither ends its goroutines nor makes it return. *)
Theorem C18_refuted_stuck_load :
  forall cfg,
    stuck sw_pinned (close sw_pinned (open_store cfg (acts_at cfg 18%N))) = [ALoadHeads] /\
    op_class sw_pinned OpInflightLoadStuck = 3%N /\ op_class sw_pinned OpInflightSnapshotStuck = 3%N.
Proof. exact close_current_strands_stuck_load. Qed.
Print Assumptions C18_refuted_stuck_load.

(** An instance on ":memory:": Drop removes nothing from disk. *)
Theorem C18_drop_memory_removes_nothing :
  forall sw cfg dir r p fs k',
    cf_memory cfg = true ->
    destroy_cfg sw cfg (datastore_key dir r p) fs = fs /\ drop_removes sw cfg dir r p k' = false.
Proof. exact drop_memory_removes_nothing. Qed.
Print Assumptions C18_drop_memory_removes_nothing.

(** ** Databases that share a manifest root (/orbitdb/r/demo, /orbitdb/r/archive/demo, /orbitdb/r/demo/sub) *)

(** The cache key - under which the cache manager keeps its table of open caches, and which is
    the directory on disk - is injective on (root, full path). *)
Theorem C18_cache_key_injective :
  forall dir r1 p1 r2 p2,
    no_dotdot p1 = true -> no_dotdot p2 = true ->
    datastore_key dir r1 p1 = datastore_key dir r2 p2 -> r1 = r2 /\ names p1 = names p2.
Proof. exact cache_key_injective. Qed.
Print Assumptions C18_cache_key_injective.

(** Closing one database leaves the cache of every other database of the instance open. *)
Theorem C18_close_keeps_sibling_cache :
  forall dir r1 p1 r2 p2,
    no_dotdot p1 = true -> no_dotdot p2 = true ->
    (r1 <> r2 \/ names p1 <> names p2) ->
    shares_cache dir r1 p1 r2 p2 = false /\ write_after_sibling_close dir r1 p1 r2 p2 = Ok RDone.
Proof. exact close_keeps_sibling_cache. Qed.
Print Assumptions C18_close_keeps_sibling_cache.

(** Same root, paths that do not extend one another (same last segment, different full path):
    out of each other's reach whichever way Destroy removes. *)
Theorem C18_drop_scope_same_root_not_nested :
  forall sw cfg dir r p1 p2,
    no_dotdot p1 = true -> no_dotdot p2 = true ->
    is_prefix (names p1) (names p2) = false -> is_prefix (names p2) (names p1) = false ->
    drop_removes sw cfg dir r p1 (datastore_key dir r p2) = false /\
    drop_removes sw cfg dir r p2 (datastore_key dir r p1) = false.
Proof. exact drop_scope_same_root_not_nested. Qed.
Print Assumptions C18_drop_scope_same_root_not_nested.

(** Regression witness (pinned tree, on disk): the cache directory of /orbitdb/r/x/y lies inside
    the one of /orbitdb/r/x, and Drop of /orbitdb/r/x removes it with every file in it. *)
Theorem C18_refuted_nested_drop :
  forall cfg dir r x y fs f,
    cf_memory cfg = false ->
    drop_removes sw_pinned cfg dir r [SNorm x] (datastore_key dir r [SNorm x; SNorm y]) = true /\
    (is_prefix (datastore_key dir r [SNorm x; SNorm y]) f = true ->
     ~ In f (destroy_cfg sw_pinned cfg (datastore_key dir r [SNorm x]) fs)).
Proof. exact drop_same_root_nested. Qed.
Print Assumptions C18_refuted_nested_drop.

(** Repaired tree: ANY two different databases - same root or not, nested or not - are out of
    each other's reach: Drop of the one removes neither the directory nor a file of the other,
    and removes every file of its own. *)
Theorem C18_drop_scope_any_two :
  forall cfg dir r1 p1 r2 p2,
    no_dotdot p1 = true -> no_dotdot p2 = true ->
    (r1 <> r2 \/ names p1 <> names p2) ->
    drop_removes sw_fixed cfg dir r1 p1 (datastore_key dir r2 p2) = false /\
    drop_removes sw_fixed cfg dir r2 p2 (datastore_key dir r1 p1) = false.
Proof. exact drop_scope_any_two. Qed.
Print Assumptions C18_drop_scope_any_two.

Theorem C18_drop_any_two_keeps_files :
  forall cfg dir r1 p1 r2 p2 fs f,
    no_dotdot p1 = true -> no_dotdot p2 = true ->
    (r1 <> r2 \/ names p1 <> names p2) ->
    In f fs -> is_child (datastore_key dir r2 p2) f = true ->
    In f (destroy_cfg sw_fixed cfg (datastore_key dir r1 p1) fs).
Proof. exact drop_any_two_keeps_files. Qed.
Print Assumptions C18_drop_any_two_keeps_files.

Theorem C18_drop_removes_own_files :
  forall sw cfg dir r p fs f,
    cf_memory cfg = false ->
    is_child (datastore_key dir r p) f = true -> ~ In f (destroy_cfg sw cfg (datastore_key dir r p) fs).
Proof. exact drop_removes_own_files_cfg. Qed.
Print Assumptions C18_drop_removes_own_files.

(** ** A Directory option other than the instance's directory ([cf_customdir]) *)

(** The database's cache is loaded from, and destroyed in, the same directory whatever the
    option: on disk, Drop removes the database's own cache in every configuration. *)
Theorem C18_drop_removes_own_any_option :
  forall sw cfg inst opt r p,
    cf_memory cfg = false -> drop_removes_own sw cfg inst opt r p = true.
Proof. exact drop_removes_own_any_option. Qed.
Print Assumptions C18_drop_removes_own_any_option.

(** Regression witness: a Destroy that is given another directory than the one the cache was
    loaded from (neither inside the other: the option's directory and the instance's, say)
    removes nothing of the database - after such a Drop its entries are still loaded. *)
Theorem C18_refuted_destroy_elsewhere :
  forall sw cfg dir dir' r p,
    no_dotdot p = true ->
    is_prefix dir dir' = false -> is_prefix dir' dir = false ->
    drop_removes sw cfg dir' r p (datastore_key dir r p) = false.
Proof. exact destroy_elsewhere_keeps_data. Qed.
Print Assumptions C18_refuted_destroy_elsewhere.

(** Close leaves the database reopenable on the same instance, any number of times, in every
    configuration: with a Load that hands out the cache it registers, every incarnation of the
    database gets a usable cache. *)
Theorem C18_reopen_cycle :
  forall sw cfg n via_create t,
    sw_load_registered sw = true -> t <> TStale ->
    forallb (fun u => u) (cycle sw cfg via_create n t) = true.
Proof. exact cycle_usable_registered. Qed.
Print Assumptions C18_reopen_cycle.

(** ... and without a Directory option other than the instance's directory this holds on the tree
    before that repair too (the lookup has loaded the very cache the store is given). *)
Theorem C18_reopen_cycle_without_option :
  forall sw cfg n via_create t,
    cf_customdir cfg = false -> t <> TStale ->
    forallb (fun u => u) (cycle sw cfg via_create n t) = true.
Proof. exact cycle_usable_default. Qed.
Print Assumptions C18_reopen_cycle_without_option.

(** Regression witness (before the repair of Load): with such an option the store opened from
    its address is given the bare datastore; its Close leaves a closed cache registered, and the
    next incarnation of the database answers "leveldb: closed" to Load and to every write. *)
Theorem C18_refuted_customdir_reopen :
  forall sw cfg,
    sw_load_registered sw = false -> cf_customdir cfg = true ->
    cycle sw cfg false 2 TAbsent = [true; false; true] /\
    cycle sw cfg true 2 TAbsent = [true; true; false].
Proof. exact cycle_refuted_customdir. Qed.
Print Assumptions C18_refuted_customdir_reopen.

(** C01 — Replicas holding the same entries show the same state in any arrival order. *)
From Orbit Require Import Spec.Statements Spec.GlobalExt Proofs.GlobalProofs Proofs.Glue Proofs.GlobalExtProofs.

(** For every reachable state of the global system ([greach]: any interleaving of local
    writes by the [n] writers over any causal shape with merges of arbitrary batches of
    already created entries — any subset, order, batching and repetition — on any
    replica), two replicas with the same entry set have the same ordered listing and
    the same heads. *)
Theorem C01_convergence_log :
  forall marks cont acc n dbid okop g a b ra rb,
    greach marks cont acc okop n dbid g ->
    nth_error (greps g) a = Some ra -> nth_error (greps g) b = Some rb ->
    same_set (lents (rlog ra)) (lents (rlog rb)) ->
    values (rlog ra) = values (rlog rb) /\ heads_sorted (rlog ra) = heads_sorted (rlog rb).
Proof. exact convergence_log. Qed.
Print Assumptions C01_convergence_log.

(** ... and the same key/value map (key-value store) ... *)
Theorem C01_convergence_kv :
  forall marks cont acc n dbid g a b ra rb,
    greach marks cont acc kv_okop n dbid g ->
    nth_error (greps g) a = Some ra -> nth_error (greps g) b = Some rb ->
    same_set (lents (rlog ra)) (lents (rlog rb)) ->
    forall k, alookup bytes_eqb k (rkv ra) = alookup bytes_eqb k (rkv rb).
Proof. exact convergence_kv. Qed.
Print Assumptions C01_convergence_kv.

(** ... and the same documents (document store; needs the PUTALL bookkeeping that marks
    document keys, which the tree has since the fix: commit recorded in known_findings.json). *)
Theorem C01_convergence_doc :
  forall cont acc n dbid g a b ra rb,
    greach true cont acc doc_okop n dbid g ->
    nth_error (greps g) a = Some ra -> nth_error (greps g) b = Some rb ->
    same_set (lents (rlog ra)) (lents (rlog rb)) ->
    forall k, alookup bytes_eqb k (rdoc ra) = alookup bytes_eqb k (rdoc rb).
Proof. intros cont acc n dbid. exact (convergence_doc true cont acc n dbid eq_refl). Qed.
Print Assumptions C01_convergence_doc.

(** The state is canonical: the listing is the ascending (time, writer) sort of the entry set. *)
Theorem C01_listing_canonical :
  forall marks cont acc n dbid okop g i rs,
    greach marks cont acc okop n dbid g -> nth_error (greps g) i = Some rs ->
    same_set (values (rlog rs)) (lents (rlog rs)) /\ asc_sorted (values (rlog rs)).
Proof. exact values_sorted. Qed.
Print Assumptions C01_listing_canonical.

(** The assumption of C01 is needed: with a (time, writer) tie the default sort is order dependent. *)
Theorem C01_needs_no_ties_refuted :
  exists a b, etime a = etime b /\ ecid a = ecid b /\ a <> b /\ sort_desc [a; b] <> sort_desc [b; a].
Proof. exact ties_order_dependent. Qed.
Print Assumptions C01_needs_no_ties_refuted.

(** The same over ALL delivery routes: the extended system [greach2] adds to local writes and
    merges of fetched single entries (announced heads, head exchange, manual sync) the join
    of a whole fetched log (load from disk per cached head, load from snapshot). *)
Theorem C01_convergence_all_routes :
  forall marks cont acc n dbid okop g a b ra rb,
    greach2 marks cont acc okop n dbid g ->
    nth_error (greps g) a = Some ra -> nth_error (greps g) b = Some rb ->
    same_set (lents (rlog ra)) (lents (rlog rb)) ->
    values (rlog ra) = values (rlog rb) /\ heads_sorted (rlog ra) = heads_sorted (rlog rb).
Proof. exact convergence2_log. Qed.
Print Assumptions C01_convergence_all_routes.

Theorem C01_convergence_all_routes_kv :
  forall marks cont acc n dbid g a b ra rb,
    greach2 marks cont acc kv_okop n dbid g ->
    nth_error (greps g) a = Some ra -> nth_error (greps g) b = Some rb ->
    same_set (lents (rlog ra)) (lents (rlog rb)) ->
    forall k, alookup bytes_eqb k (rkv ra) = alookup bytes_eqb k (rkv rb).
Proof. exact convergence2_kv. Qed.
Print Assumptions C01_convergence_all_routes_kv.

Theorem C01_convergence_all_routes_doc :
  forall cont acc n dbid g a b ra rb,
    greach2 true cont acc doc_okop n dbid g ->
    nth_error (greps g) a = Some ra -> nth_error (greps g) b = Some rb ->
    same_set (lents (rlog ra)) (lents (rlog rb)) ->
    forall k, alookup bytes_eqb k (rdoc ra) = alookup bytes_eqb k (rdoc rb).
Proof. exact convergence2_doc. Qed.
Print Assumptions C01_convergence_all_routes_doc.

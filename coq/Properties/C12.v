(** C12 — Malformed network messages never crash a peer or change its state. *)
From Orbit Require Import Spec.Statements Model.Message Proofs.WireProofs Proofs.MessageProofs.

(** Raw direct-channel frames ([directchannel.handleNewPeer]): with the size limit checked
    on the unsigned length, no byte string makes the decoder panic, and a decoded payload
    never exceeds the limit. *)
Theorem C12_frame_total :
  forall bs, bytes_ok bs ->
    match frame_decode true bs with
    | Panic _ => False
    | Ok p => (N.of_nat (length p) <= frame_cap)%N
    | Err _ => True
    end.
Proof. exact frame_total. Qed.
Print Assumptions C12_frame_total.

(** The pinned commit converts the length to [int] before the comparison: a length prefix
    of 2^63 or more is negative, passes, and [make] panics.  Regression witness. *)
Theorem C12_frame_refuted_signed :
  exists bs, bytes_ok bs /\ frame_decode false bs = Panic PMakeLen.
Proof. exact frame_refuted_signed. Qed.
Print Assumptions C12_frame_refuted_signed.

(** Decoded messages ([pubSubChanListener], [monitorDirectChannel], [Sync]): when [Sync]
    skips heads that are nil, lack an identity or its signatures, a defined clock or a
    defined hash, no message, on either channel, decodable or not, makes a handler panic. *)
Theorem C12_msg_total :
  forall (ch : channel) (m : option dmsg),
    match handle_msg true ch m with Panic _ => False | _ => True end.
Proof. exact msg_total. Qed.
Print Assumptions C12_msg_total.

(** A message none of whose heads is well-formed, authorised and valid never starts a
    replication: the store is left as it was. *)
Theorem C12_msg_no_effect :
  forall (ch : channel) (m : dmsg),
    (forall h, In h (m_heads m) -> good h = false) ->
    forall l, handle_msg true ch (Some m) <> Ok (SStarted l).
Proof. exact msg_no_effect. Qed.
Print Assumptions C12_msg_no_effect.

(** More precisely: whatever replication a message starts is for a non-empty list of its
    own heads, each well-formed, authorised and carrying the hash of its content. *)
Theorem C12_msg_started_good :
  forall (ch : channel) (m : dmsg) (l : list dhead),
    handle_msg true ch (Some m) = Ok (SStarted l) ->
    l <> [] /\ forall h, In h l -> In h (m_heads m) /\ good h = true.
Proof. exact msg_started_good. Qed.
Print Assumptions C12_msg_started_good.

(** Later messages are still handled: in any sequence of received messages every message
    gets the result the handler computes for it alone, whatever came before. *)
Theorem C12_msg_next_handled :
  forall (pre : list (channel * option dmsg)) (ch : channel) (m : option dmsg),
    run_msgs true (pre ++ [(ch, m)]) = run_msgs true pre ++ [handle_msg true ch m].
Proof. exact msg_next_handled. Qed.
Print Assumptions C12_msg_next_handled.

(** The pinned commit: a message whose only head is [null] panics with a nil dereference
    inside [Sync], on the topic and on the direct channel.  Regression witness. *)
Theorem C12_msg_refuted_without_validation :
  exists m : dmsg, sync_heads false (m_heads m) = Panic PNilDeref /\
                   forall ch, handle_msg false ch (Some m) = Panic PNilDeref.
Proof. exact msg_refuted_without_validation. Qed.
Print Assumptions C12_msg_refuted_without_validation.

(** ... and what is received after it is never handled. *)
Theorem C12_msg_refuted_next :
  exists pre x, (length (run_msgs false (pre ++ [x])) < length (pre ++ [x]))%nat.
Proof. exact msg_refuted_next. Qed.
Print Assumptions C12_msg_refuted_next.

(** C06 — Key-value store equals last-writer-wins replay of its log in causal order. *)
From Orbit Require Import Spec.Statements Proofs.ReplayProofs Proofs.GlobalProofs Proofs.Glue Spec.GlobalExt Proofs.GlobalExtProofs Proofs.StoreConcProofs.

(** At every reachable state, every replica's key-value view represents (same lookup for
    every key, no duplicate keys, hence the same All()) the replay of the PUT/DEL
    operations it holds, in listing order, last writer winning — although the Go map is
    never reset between rebuilds. *)
Theorem C06_kv_refines_replay :
  forall marks cont acc n dbid g i rs,
    greach marks cont acc kv_okop n dbid g -> nth_error (greps g) i = Some rs ->
    represents (rkv rs) (kv_replay (values (rlog rs))).
Proof. exact kv_view. Qed.
Print Assumptions C06_kv_refines_replay.

(** One rebuild, for any starting map: keys touched by the log are decided by the log. *)
Theorem C06_update_lookup :
  forall vals m0 k,
    (forall e, In e vals -> kv_op_ok e = true) ->
    alookup bytes_eqb k (kv_update vals m0) =
    if existsb (kv_touches k) vals then kv_replay vals k else alookup bytes_eqb k m0.
Proof. exact kv_update_lookup. Qed.
Print Assumptions C06_update_lookup.

(** The total order extends happens-before: an entry written by a replica is listed, on
    every replica of every later (or earlier) reachable state holding both, after
    everything the writer held when writing — so a later update to the same key overrides. *)
Theorem C06_causal :
  forall marks cont acc n dbid okop g r h refs o rs,
    greach marks cont acc okop n dbid g -> admissible okop g (GWrite r h refs o) ->
    nth_error (greps g) r = Some rs ->
    forall e, In e (guniv (gstep_run marks cont acc g (GWrite r h refs o))) -> ~ In e (guniv g) ->
    forall x, In x (lents (rlog rs)) ->
    forall g' j rs', greach marks cont acc okop n dbid g' -> nth_error (greps g') j = Some rs' ->
      In x (values (rlog rs')) -> In e (values (rlog rs')) ->
      before x e (values (rlog rs')).
Proof. exact causal_order. Qed.
Print Assumptions C06_causal.

(** The same for the extended system with the load routes (load from disk, snapshot). *)
Theorem C06_kv_refines_replay_all_routes :
  forall marks cont acc n dbid g i rs,
    greach2 marks cont acc kv_okop n dbid g -> nth_error (greps g) i = Some rs ->
    represents (rkv rs) (kv_replay (values (rlog rs))).
Proof. exact kv_view2. Qed.
Print Assumptions C06_kv_refines_replay_all_routes.

(** Local writes concurrent with the replication merge on one store ([Model/StoreConc.v],
    index rebuilds serialised by the mutex around [BaseStore.updateIndex]): for every number of
    writers, every list of batches and every schedule, the inputs of the successive rebuilds
    of the index grow — which is the premise of the refinement result for the map that is
    never reset — so the key-value map represents the replay of the entries the view reflects,
    and once every thread is done these are all the entries of the log.  [listing] maps a
    set of entry numbers to the listing ([oplog.Values()]) of those entries: any function
    that is monotone for inclusion and yields well-formed PUT/DEL operations. *)
Theorem C06_view_complete_under_concurrent_merge :
  forall n batches sched (listing : list nat -> list entry),
    (forall V V', incl V V' -> incl (listing V) (listing V')) ->
    (forall V e, In e (listing V) -> kv_op_ok e = true) ->
    let s := srun true sched (sinit n batches) in
    let hist := map listing (sviews true sched (sinit n batches)) in
    represents (kv_run hist) (kv_replay (last hist [])) /\
    (sched <> [] -> last hist [] = listing (s_view s)) /\
    (sall_done s -> forall x, In x (s_view s) <-> In x (s_log s)).
Proof. exact storeconc_kv_replay. Qed.
Print Assumptions C06_view_complete_under_concurrent_merge.

(** C20 — Transport adapters deliver each payload once, intact, attributed to its sender:
    membership changes are reported exactly once, a peer never gets its own messages, both
    ends of a pairwise channel derive the same name, frames within the limit round-trip and
    oversized frames are refused. *)
From Orbit Require Import Spec.Statements Proofs.TransportProofs Proofs.WireProofs.

(** One poll over duplicate-free snapshots reports exactly new\old as joins and old\new as
    leaves, each peer once. *)
Theorem C20_peers_diff_exact :
  forall old new, NoDup old -> NoDup new ->
    let '(j, l) := peers_diff old new in
    NoDup j /\ NoDup l /\
    (forall p, In p j <-> In p new /\ ~ In p old) /\
    (forall p, In p l <-> In p old /\ ~ In p new).
Proof. exact peers_diff_exact. Qed.
Print Assumptions C20_peers_diff_exact.

(** Over any sequence of duplicate-free snapshots, replaying the emitted join/leave events
    yields the current membership: every change is reported exactly once. *)
Theorem C20_watch_tracks_membership :
  forall snaps, Forall (@NoDup N) snaps ->
    forall p, In p (fold_left apply_event (watch [] snaps) []) <-> In p (last snaps []).
Proof. exact watch_tracks_membership. Qed.
Print Assumptions C20_watch_tracks_membership.

(** Between two consecutive polls with equal membership (in any order) nothing is emitted. *)
Theorem C20_watch_no_spurious :
  forall old new, (forall p, In p old <-> In p new) -> poll_events old new = [].
Proof. exact watch_no_spurious. Qed.
Print Assumptions C20_watch_no_spurious.

(** A peer never receives its own messages; all others are forwarded once, in order,
    unchanged. *)
Theorem C20_forward_spec :
  forall self msgs,
    (forall m, In m (forward self msgs) -> fst m <> self) /\
    forward self (filter (fun m => negb (fst m =? self)%N) msgs) = forward self msgs /\
    (forall m, In m msgs -> fst m <> self -> In m (forward self msgs)) /\
    ((forall m, In m msgs -> fst m <> self) -> forward self msgs = msgs).
Proof. exact forward_spec. Qed.
Print Assumptions C20_forward_spec.

(** Both ends of a pairwise channel derive the same channel name. *)
Theorem C20_channel_sym :
  forall a b, channel_id a b = channel_id b a.
Proof. exact channel_sym. Qed.
Print Assumptions C20_channel_sym.

(** Distinct unordered pairs of peers get distinct channel names. *)
Theorem C20_channel_inj :
  forall a b c d, channel_id a b = channel_id c d -> (a = c /\ b = d) \/ (a = d /\ b = c).
Proof. exact channel_inj. Qed.
Print Assumptions C20_channel_inj.

(** The length prefix round-trips for every 64-bit value, whatever follows it. *)
Theorem C20_uvarint_roundtrip :
  forall (x : N) (rest : bytes), (x < two64)%N -> read_uvarint (put_uvarint x ++ rest) = inl (x, rest).
Proof. exact uvarint_roundtrip. Qed.
Print Assumptions C20_uvarint_roundtrip.

(** A frame within the 4 MiB limit decodes to exactly its payload, whatever follows it on
    the stream, with either form of the size comparison. *)
Theorem C20_frame_roundtrip :
  forall uc (p rest : bytes),
    (N.of_nat (length p) <= frame_cap)%N ->
    frame_decode uc (frame_encode p ++ rest) = Ok p.
Proof. exact frame_roundtrip. Qed.
Print Assumptions C20_frame_roundtrip.

(** An oversized frame is refused (an error, not a delivery and not a panic). *)
Theorem C20_frame_oversize_refused :
  forall uc (p rest : bytes),
    (frame_cap < N.of_nat (length p))%N -> (N.of_nat (length p) < two63)%N ->
    frame_decode uc (frame_encode p ++ rest) = Err EBadInput.
Proof. exact frame_oversize_refused. Qed.
Print Assumptions C20_frame_oversize_refused.

(** With the unsigned size comparison no byte string makes the decoder panic, and a decoded
    payload never exceeds the limit (the decoder used as the statement for raw frames). *)
Theorem C20_frame_total :
  forall bs, bytes_ok bs ->
    match frame_decode true bs with
    | Panic _ => False
    | Ok p => (N.of_nat (length p) <= frame_cap)%N
    | Err _ => True
    end.
Proof. exact frame_total. Qed.
Print Assumptions C20_frame_total.

(** C08 — Event log is append-only, stably ordered; range queries return exact windows.
    Only property statements live here; each is closed by [exact] of a lemma proved in
    Proofs/, and followed by Print Assumptions. *)
From Orbit Require Import Spec.Statements Proofs.WindowProofs.

(** A query by gt/gte/lt/lte and amount on a duplicate-free listing [L] returns exactly
    the contiguous window [window L b a] (defined directly as a slice in Spec/Window.v),
    for every bound that is an entry of [L] (or absent) and every amount (unset, 0,
    positive, larger than the log, negative); no bound on the length of [L]. *)
Theorem C08_window :
  forall (L : list entry) (b : bound) (a : option Z) (w : list entry),
    NoDup (hashes L) -> window L b a = Some w -> evlog_query L b a = w.
Proof. exact query_window. Qed.
Print Assumptions C08_window.

(** Get by address returns that entry. *)
Theorem C08_get :
  forall (L : list entry) (x : entry),
    NoDup (hashes L) -> In x L -> evlog_query L (BGte (eh x)) (Some 1) = [x].
Proof. exact get_entry. Qed.
Print Assumptions C08_get.

(** Non-vacuity: a concrete three-entry listing and a window in its middle. *)
Example C08_window_example :
  let L := map (fun h => mkEntry h 0 0 0 [] [] 0 0 0 OOther) [11; 12; 13]%N in
  NoDup (hashes L) /\ window L (BLt 13%N) (Some 5) = Some (firstn 2 L) /\
  evlog_query L (BLt 13%N) (Some 5) = firstn 2 L.
Proof.
  cbv zeta. split; [|split]; try reflexivity.
  repeat constructor; simpl; intuition discriminate.
Qed.

(** C08 — Event log is append-only, stably ordered; range queries return exact windows.
    Only property statements live here; each is closed by [exact] of a lemma proved in
    Proofs/, and followed by Print Assumptions. *)
From Orbit Require Import Spec.Statements Proofs.WindowProofs Proofs.GlobalProofs Spec.GlobalExt Proofs.GlobalExtProofs.

(** A query by gt/gte/lt/lte and amount on a duplicate-free listing [L] returns exactly
    the contiguous window [window L b a] (defined directly as a slice in Spec/Window.v),
    for every bound that is an entry of [L] (or absent) and every amount (unset, 0,
    positive, larger than the log, negative); no bound on the length of [L]. *)
Theorem C08_window :
  forall (L : list entry) (b : bound) (a : option Z) (w : list entry),
    NoDup (hashes L) -> window L b a = Some w -> evlog_query L b a = w.
Proof. exact query_window. Qed.
Print Assumptions C08_window.

(** Get by address returns that entry. *)
Theorem C08_get :
  forall (L : list entry) (x : entry),
    NoDup (hashes L) -> In x L -> evlog_query L (BGte (eh x)) (Some 1) = [x].
Proof. exact get_entry. Qed.
Print Assumptions C08_get.

(** Merging or writing never removes a listed entry and never changes the relative order
    of two listed entries, on any replica, for any step of any reachable state. *)
Theorem C08_monotone :
  forall marks cont acc n dbid okop g s i rs rs',
    greach marks cont acc okop n dbid g -> admissible okop g s ->
    nth_error (greps g) i = Some rs ->
    nth_error (greps (gstep_run marks cont acc g s)) i = Some rs' ->
    incl (values (rlog rs)) (values (rlog rs')) /\
    forall x y, before x y (values (rlog rs)) -> before x y (values (rlog rs')).
Proof. exact step_monotone. Qed.
Print Assumptions C08_monotone.

(** A writer's own entries are listed in the order it wrote them ... *)
Theorem C08_writer_order :
  forall marks cont acc n dbid okop g i rs p q e1 e2,
    greach marks cont acc okop n dbid g -> nth_error (greps g) i = Some rs ->
    nth_error (guniv g) p = Some e1 -> nth_error (guniv g) q = Some e2 -> (p < q)%nat ->
    ecid e1 = ecid e2 -> In e1 (values (rlog rs)) -> In e2 (values (rlog rs)) ->
    before e1 e2 (values (rlog rs)).
Proof. exact writer_order. Qed.
Print Assumptions C08_writer_order.

(** ... and after everything it had seen when writing. *)
Theorem C08_after_seen :
  forall marks cont acc n dbid okop g r h refs o rs,
    greach marks cont acc okop n dbid g -> admissible okop g (GWrite r h refs o) ->
    nth_error (greps g) r = Some rs ->
    forall e, In e (guniv (gstep_run marks cont acc g (GWrite r h refs o))) -> ~ In e (guniv g) ->
    eh e = h /\ forall x, In x (lents (rlog rs)) -> key_lt x e.
Proof. exact write_after_seen. Qed.
Print Assumptions C08_after_seen.

(** Non-vacuity: a concrete three-entry listing and a window in its middle. *)
Example C08_window_example :
  let L := map (fun h => mkEntry h 0 0 0 [] [] 0 0 0 OOther) [11; 12; 13]%N in
  NoDup (hashes L) /\ window L (BLt 13%N) (Some 5) = Some (firstn 2 L) /\
  evlog_query L (BLt 13%N) (Some 5) = firstn 2 L.
Proof.
  cbv zeta. split; [|split]; try reflexivity.
  repeat constructor; simpl; intuition discriminate.
Qed.

(** The same for the extended system with the load routes (load from disk, snapshot). *)
Theorem C08_monotone_all_routes :
  forall marks cont acc n dbid okop g s i rs rs',
    greach2 marks cont acc okop n dbid g -> admissible2 okop g s ->
    nth_error (greps g) i = Some rs ->
    nth_error (greps (gstep2_run marks cont acc g s)) i = Some rs' ->
    incl (values (rlog rs)) (values (rlog rs')) /\
    forall x y, before x y (values (rlog rs)) -> before x y (values (rlog rs')).
Proof. exact step2_monotone. Qed.
Print Assumptions C08_monotone_all_routes.

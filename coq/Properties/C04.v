(** C04 — Tampered, mis-addressed or foreign-database entries are never merged. *)
From Orbit Require Import Model.Access Spec.Statements Proofs.AccessProofs.

(** [bad l x]: the signature of [x] does not verify against its content, or [x] was
    written for another log.  Fetched by its address — as an announced head or as an
    ancestor of one: the store treats both alike — such an entry leaves the log
    LITERALLY unchanged (the join is refused, or not attempted), and it is in neither
    the entries, the heads nor the listing.  Assumptions: what is fetched is
    content-addressed ([hash_inj], no entry links to its own address) and the log
    satisfies the invariant of C03. *)
Theorem C04_fetched :
  forall W wildcard id_key blk U l x,
    hash_inj U -> In x U -> lgood W wildcard id_key blk U l -> ~ In (eh x) (enext x) ->
    bad l x ->
    join_checked true l x (acc_of true W wildcard id_key blk) = l /\
    ~ In x (lents l) /\ ~ In x (lheads l) /\ ~ In x (values l).
Proof. exact bad_never_merged. Qed.
Print Assumptions C04_fetched.

(** ... and it stays out whatever else is delivered. *)
Theorem C04_never_present :
  forall W wildcard id_key blk U l xs e,
    hash_inj U -> incl xs U -> lgood W wildcard id_key blk U l -> bad l e ->
    let l' := merge_fetched true (acc_of true W wildcard id_key blk) l xs in
    ~ In e (lents l') /\ ~ In e (lheads l') /\ ~ In e (values l').
Proof. exact bad_never_present. Qed.
Print Assumptions C04_never_present.

(** Mis-addressed heads: an announced head that the access controller accepts and whose
    content does not hash to the address it claims makes Sync fail; nothing is loaded,
    the log is unchanged (any switches). *)
Theorem C04_mismatch_aborts :
  forall ff ca acc stored l heads a,
    In a heads -> ca (a_entry a) = true -> a_hash_ok a = false ->
    sync_deliver ff ca acc stored l heads = (l, false).
Proof. exact mismatch_aborts. Qed.
Print Assumptions C04_mismatch_aborts.

(** Any announcement whatsoever (forged, tampered, mis-addressed, foreign heads; a head
    Sync skipped is still loaded by its claimed address, which resolves to whatever is
    stored there): the invariant survives, the entries held before are all still held,
    and afterwards no bad entry and no object that is not content-addressed (a
    mis-addressed head as such) is among the entries, the heads or the listing. *)
Theorem C04_announcement :
  forall W wildcard id_key blk U ca stored l heads,
    hash_inj U -> store_ok U stored -> lgood W wildcard id_key blk U l ->
    let l' := fst (sync_deliver true ca (acc_of true W wildcard id_key blk) stored l heads) in
    lgood W wildcard id_key blk U l' /\ lid l' = lid l /\ incl (lents l) (lents l') /\
    forall e, bad l e \/ ~ In e U ->
      ~ In e (lents l') /\ ~ In e (lheads l') /\ ~ In e (values l').
Proof. exact sync_deliver_good. Qed.
Print Assumptions C04_announcement.

(** The pinned commit (Join merges the other log's heads without looking at their log
    id, and the replicator labels every fetched single-entry log with the store's id):
    an entry written for log 8 delivered to log 7 is left out of the entry set — so it
    is never access- or signature-checked: the access function below refuses everything
    — but becomes a head and is listed. *)
Theorem C04_refuted_foreign_head :
  let l' := join_checked false log7 foreign (fun _ => false) in
  elog foreign <> lid log7 /\
  In foreign (lheads l') /\ In foreign (values l') /\ ~ In foreign (lents l').
Proof. exact foreign_log_becomes_head. Qed.
Print Assumptions C04_refuted_foreign_head.

Theorem C04_foreign_filtered :
  join_checked true log7 foreign (fun _ => false) = log7.
Proof. exact foreign_log_filtered. Qed.
Print Assumptions C04_foreign_filtered.

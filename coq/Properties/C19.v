(** C19 — Replication progress never regresses and equals its maximum at rest. *)
From Orbit Require Import Spec.Statements Proofs.StatusProofs.

(** With the monotone maximum (the repaired tree) neither value ever decreases along any
    sequence of status events, from any state with progress <= max, and progress <= max
    is preserved. *)
Theorem C19_monotone :
  forall sp evs s,
    s_progress s <= s_max s ->
    forall i a b,
      nth_error (trace_status true sp evs s) i = Some a ->
      nth_error (trace_status true sp evs s) (S i) = Some b ->
      status_le a b /\ s_progress b <= s_max b.
Proof. exact status_monotone. Qed.
Print Assumptions C19_monotone.

(** The pinned commit's maximum regresses (witness: three local writes, an announced head
    with clock 10, then a fetched ancestor with time 2: maximum 10 -> 3).  Regression witness. *)
Theorem C19_refuted_max_regress :
  exists evs, ev_wf 0 evs /\
    exists i a b, nth_error (trace_status false false evs status0) i = Some a /\
                  nth_error (trace_status false false evs status0) (S i) = Some b /\ s_max b < s_max a.
Proof. exact status_refuted_max. Qed.
Print Assumptions C19_refuted_max_regress.

(** At rest after a write, a merge, or (with the post-join recalculation) a snapshot load
    closing any history whose announced times and log lengths never exceed the final
    length L >= 0: progress = max = L. *)
Theorem C19_at_rest :
  forall sp evs L last,
    0 <= L ->
    (forall e, In e (evs ++ [last]) -> ev_time e <= L /\ ev_len e <= L /\ ev_len_before e <= L) ->
    ((exists t, last = EvWrite t L) \/ last = EvMerged L \/ (sp = true /\ exists mc lb, last = EvSnapshot mc lb L)) ->
    run_status true sp (evs ++ [last]) status0 = mkS L L.
Proof. exact status_at_rest. Qed.
Print Assumptions C19_at_rest.

(** The pinned commit leaves progress at 0 with maximum 4 after loading a 4-entry snapshot. *)
Theorem C19_refuted_snapshot :
  run_status true false [EvSnapshot 4 0 4] status0 = mkS 0 4.
Proof. exact status_refuted_snapshot. Qed.
Print Assumptions C19_refuted_snapshot.

(** Load from disk (one progress event per fetched entry or cached head, before the join,
    in any order): when the times cover 1..T, progress = max = T, the largest Lamport time. *)
Theorem C19_after_load :
  forall sp (times : list Z) T,
    0 <= T -> (forall t, In t times -> 0 < t <= T) -> (forall v, 0 < v <= T -> In v times) ->
    run_status true sp (map (fun t => EvProgress t 0) times) status0 = mkS T T.
Proof. exact status_after_load. Qed.
Print Assumptions C19_after_load.

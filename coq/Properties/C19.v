(** C19 — Replication progress never regresses and equals its maximum at rest. *)
From Orbit Require Import Spec.Statements Proofs.StatusProofs Proofs.StatusConcProofs.

(** With the monotone maximum (the repaired tree) neither value ever decreases along any
    sequence of status events, from any state with progress <= max, and progress <= max
    is preserved. *)
Theorem C19_monotone :
  forall sp evs s,
    s_progress s <= s_max s ->
    forall i a b,
      nth_error (trace_status true sp evs s) i = Some a ->
      nth_error (trace_status true sp evs s) (S i) = Some b ->
      status_le a b /\ s_progress b <= s_max b.
Proof. exact status_monotone. Qed.
Print Assumptions C19_monotone.

(** The pinned commit's maximum regresses (witness: three local writes, an announced head
    with clock 10, then a fetched ancestor with time 2: maximum 10 -> 3).  Regression witness. *)
Theorem C19_refuted_max_regress :
  exists evs, ev_wf 0 evs /\
    exists i a b, nth_error (trace_status false false evs status0) i = Some a /\
                  nth_error (trace_status false false evs status0) (S i) = Some b /\ s_max b < s_max a.
Proof. exact status_refuted_max. Qed.
Print Assumptions C19_refuted_max_regress.

(** At rest after a write, a merge, or (with the post-join recalculation) a snapshot load
    closing any history whose announced times and log lengths never exceed the final
    length L >= 0: progress = max = L. *)
Theorem C19_at_rest :
  forall sp evs L last,
    0 <= L ->
    (forall e, In e (evs ++ [last]) -> ev_time e <= L /\ ev_len e <= L /\ ev_len_before e <= L) ->
    ((exists t, last = EvWrite t L) \/ last = EvMerged L \/ (sp = true /\ exists mc lb, last = EvSnapshot mc lb L)) ->
    run_status true sp (evs ++ [last]) status0 = mkS L L.
Proof. exact status_at_rest. Qed.
Print Assumptions C19_at_rest.

(** The pinned commit leaves progress at 0 with maximum 4 after loading a 4-entry snapshot. *)
Theorem C19_refuted_snapshot :
  run_status true false [EvSnapshot 4 0 4] status0 = mkS 0 4.
Proof. exact status_refuted_snapshot. Qed.
Print Assumptions C19_refuted_snapshot.

(** Load from disk (one progress event per fetched entry or cached head, before the join,
    in any order): when the times cover 1..T, progress = max = T, the largest Lamport time. *)
Theorem C19_after_load :
  forall sp (times : list Z) T,
    0 <= T -> (forall t, In t times -> 0 < t <= T) -> (forall v, 0 < v <= T -> In v times) ->
    run_status true sp (map (fun t => EvProgress t 0) times) status0 = mkS T T.
Proof. exact status_after_load. Qed.
Print Assumptions C19_after_load.

(** * Schedules: recalculations issued concurrently by the event loop, local writers and Load *)

(** With the status mutex (held from the reads to the Set of one primitive recalculation) and
    the monotone maximum: for every set of threads, every schedule of reads, writes and log
    growth (labels that are not enabled are skipped) and every pair of consecutive states,
    neither progress nor the maximum (nor the log length) decreases, and
    progress <= max(maximum, log length) is kept. *)
Theorem C19_monotone_concurrent :
  forall (ps : list prog) (sched : list label) (len0 : Z) (s : status),
    s_progress s <= Z.max (s_max s) len0 ->
    forall i a b,
      nth_error (ctrace true true sched (cinit len0 s ps)) i = Some a ->
      nth_error (ctrace true true sched (cinit len0 s ps)) (S i) = Some b ->
      cstatus_le a b /\ cstatus_inv b.
Proof. exact statusconc_monotone. Qed.
Print Assumptions C19_monotone_concurrent.

(** ... and both values stay below any bound B on the announced times and the log length
    (with a complete log: the number of entries). *)
Theorem C19_bounded_concurrent :
  forall (ps : list prog) (sched : list label) (len0 : Z) (s : status) (B : Z),
    s_progress s <= Z.max (s_max s) len0 -> s_max s <= B ->
    (forall p a, In p ps -> In a (prog_args p) -> a <= B) ->
    let c := crun true true sched (cinit len0 s ps) in
    c_len c <= B ->
    s_max (c_st c) <= B /\ s_progress (c_st c) <= B /\ cstatus_inv c.
Proof. exact statusconc_bounded. Qed.
Print Assumptions C19_bounded_concurrent.

(** With the mutex every reachable status is the result of the SEQUENTIAL primitives of
    Model/Status.v run one after the other (so what is proved about those carries over). *)
Theorem C19_sequential_concurrent :
  forall (mm : bool) (ps : list prog) (sched : list label) (len0 : Z) (s : status),
    let c := crun true mm sched (cinit len0 s ps) in
    exists prims : list (phase * Z),
      c_st c = fold_left (prim_step mm) prims s /\
      (forall x, In x prims -> len0 <= snd x <= c_len c).
Proof. exact statusconc_sequential. Qed.
Print Assumptions C19_sequential_concurrent.

(** At rest under every schedule: once the log has reached its final length L (complete log:
    announced times and the initial maximum do not exceed L), if some thread still had its
    maximum recalculation and some thread (possibly the same one, a
    recalculateReplicationStatus call) its progress recalculation to read, then when all
    threads have finished progress = max = L. *)
Theorem C19_at_rest_concurrent :
  forall (ps : list prog) (sched1 sched2 : list label) (len0 : Z) (s : status) i j ti tj a,
    s_progress s <= Z.max (s_max s) len0 ->
    let c1 := crun true true sched1 (cinit len0 s ps) in
    let c2 := crun true true sched2 c1 in
    let L := c_len c1 in
    c_len c2 = L ->
    s_max s <= L ->
    (forall p x, In p ps -> In x (prog_args p) -> x <= L) ->
    nth_error (c_thr c1) i = Some ti -> In (PMax a) (t_todo ti) -> t_loc ti = None ->
    nth_error (c_thr c1) j = Some tj -> In PProg (t_todo tj) -> t_loc tj = None ->
    threads_done c2 ->
    c_st c2 = mkS L L.
Proof. exact statusconc_at_rest. Qed.
Print Assumptions C19_at_rest_concurrent.

(** Without the mutex (base_store.go before the repair: only the individual Get/Set are
    locked) the maximum decreases: a writer reads max = 5, an announcement of clock 9 is
    stored, the writer stores 6.  Regression witness. *)
Theorem C19_refuted_nonatomic_recalc :
  exists (ps : list prog) (sched : list label) (len0 : Z) (s : status),
    s_progress s <= s_max s /\
    exists i a b,
      nth_error (ctrace false true sched (cinit len0 s ps)) i = Some a /\
      nth_error (ctrace false true sched (cinit len0 s ps)) (S i) = Some b /\
      s_max (c_st b) < s_max (c_st a).
Proof. exact statusconc_refuted_nonatomic. Qed.
Print Assumptions C19_refuted_nonatomic_recalc.

(** ... and progress decreases, leaving progress < max = log length at rest. *)
Theorem C19_refuted_nonatomic_progress :
  exists (ps : list prog) (sched : list label) (len0 : Z) (s : status),
    s_progress s <= s_max s /\
    (exists i a b,
      nth_error (ctrace false true sched (cinit len0 s ps)) i = Some a /\
      nth_error (ctrace false true sched (cinit len0 s ps)) (S i) = Some b /\
      s_progress (c_st b) < s_progress (c_st a)) /\
    let c := crun false true sched (cinit len0 s ps) in
    threads_done c /\ s_progress (c_st c) < s_max (c_st c) /\ s_max (c_st c) = c_len c.
Proof. exact statusconc_refuted_nonatomic_progress. Qed.
Print Assumptions C19_refuted_nonatomic_progress.

(** C09 — Databases opened by the same process do not affect one another. *)
From Orbit Require Import Model.Instance Proofs.InstanceProofs Model.Joins Proofs.JoinsProofs.

(** k databases on one instance (Model.Instance): store i owns log i, topic i, address i.
    With a write listener that ignores write events of other addresses and a replicator
    bus private to each store, for every operation list (writes, replicator load events
    and loads, in any interleaving among the databases) and every database j:
    - everything observable about j — its log, heads, replication status, remote-heads
      cache, the store events emitted under address j and the payloads published on
      topic j — is what the operations that target j produce on their own;
    - every payload published on a topic t carries address t and only entries written to
      database t. *)
Theorem C09_isolation :
  forall m, filters_address m = true -> private_bus m = true ->
  forall (k : nat) (ops : list iop) (j : nat),
    proj j (run m ops (init k)) = proj j (run m (filter (targets j) ops) (init k)) /\
    (forall t a hs, In (t, a, hs) (published (run m ops (init k))) ->
       a = t /\ forall e, In e hs -> written t e ops).
Proof. exact isolation. Qed.
Print Assumptions C09_isolation.

(** The same from an arbitrary state of the instance (databases already holding entries,
    caches, statuses and histories). *)
Theorem C09_isolation_from :
  forall m, filters_address m = true -> private_bus m = true ->
  forall (s : inst) (ops : list iop) (j : nat),
    proj j (run m ops s) = proj j (run m (filter (targets j) ops) s).
Proof. exact isolation_from. Qed.
Print Assumptions C09_isolation_from.

(** The pinned commit's write listener (no address filter): one write to database 0 is
    announced on topic 1 under address 1 with database 0's entry, although no operation
    targets database 1 and the entry was never written to it. *)
Theorem C09_refuted_write_listener :
  let m := mkIM false true true in
  let ops := [IWrite 0 7%N 1%Z] in
  filter (targets 1) ops = [] /\
  proj 1 (run m ops (init 2)) <> proj 1 (run m (filter (targets 1) ops) (init 2)) /\
  In (1%nat, 1%nat, [7%N]) (published (run m ops (init 2))) /\
  ~ written 1 7%N ops.
Proof. exact isolation_refuted_write_listener. Qed.
Print Assumptions C09_refuted_write_listener.

(** The pinned commit's shared replicator bus: database 1 holds one entry of its own;
    replicating three entries of database 0 raises database 1's status from 1/1 to 3/3,
    rewrites its remote-heads cache with its own head and makes it emit replicate /
    progress / replicated events carrying database 0's entries under address 1. *)
Theorem C09_refuted_shared_bus :
  let m := mkIM true false true in
  let ops := [IWrite 1 9%N 1%Z; ILoadAdded 0 3%N 3%Z; ILoadProgress 0 3%N 3%Z; ILoadProgress 0 2%N 2%Z;
              ILoadProgress 0 1%N 1%Z; ILoadEnd 0 [1%N; 2%N; 3%N] [3%N]] in
  filter (targets 1) ops = [IWrite 1 9%N 1%Z] /\
  proj 1 (run m ops (init 2)) <> proj 1 (run m (filter (targets 1) ops) (init 2)) /\
  nth_error (run m ops (init 2)) 1 =
    Some (mkSt [9%N] [9%N] (mkS 3%Z 3%Z) [9%N]
               [SeWrite [9%N]; SeReplicate 3%N; SeProgress 3%N; SeProgress 2%N; SeProgress 1%N;
                SeReplicated [1%N; 2%N; 3%N]]
               [(1%nat, [9%N])]) /\
  nth_error (run m (filter (targets 1) ops) (init 2)) 1 =
    Some (mkSt [9%N] [9%N] (mkS 1%Z 1%Z) [] [SeWrite [9%N]] [(1%nat, [9%N])]).
Proof. exact isolation_refuted_shared_bus. Qed.
Print Assumptions C09_refuted_shared_bus.

(** The direct channel (Model/Joins.v: k databases, a store answers the joins seen on its own
    topic): for every sequence of writes and of peers joining topics, every head-exchange message
    the instance sends goes to a peer that joined the topic of the database whose address the
    message carries, and carries entries of that database only. *)
Theorem C09_heads_only_to_peers_of_the_database :
  forall k ops p a hs,
    In (p, a, hs) (j_sent (jrun true ops (jinit k))) ->
    In (JJoin a p) ops /\ forall e, In e hs -> In (JWrite a e) ops.
Proof. exact joins_scoped. Qed.
Print Assumptions C09_heads_only_to_peers_of_the_database.

(** With the joins passed around among all the stores of the instance, a peer that joins the
    topic of database 1 is sent the head of database 0, which it never joined.  Regression
    witness. *)
Theorem C09_refuted_shared_joins :
  let ops := [JWrite 0 7%N; JJoin 1 5] in
  In (5, 0, [7%N])%nat (j_sent (jrun false ops (jinit 2))) /\ ~ In (JJoin 0 5) ops.
Proof. exact joins_refuted_shared. Qed.
Print Assumptions C09_refuted_shared_joins.

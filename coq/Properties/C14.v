(** C14 — Addresses are deterministic, self-describing and reopen the same database.

    Strings are at segment level (Model/Address.v).  The parameters of the statements:
    [cid_decode] = cid.Decode followed by Cid.String() on segment tokens, [Hac] = CID of the
    saved access-controller parameters, [H] = CID of the database manifest
    {name, type, access-controller address}, [types] = registered store types.
    Premises used (never axioms): the canonical text of a CID decodes to itself, content
    addresses are canonical CIDs, content addressing is injective.

    Two mechanism switches.  [rd] (first argument of [determine_address], [addr_parse],
    [parse_split], [is_valid]) = address.IsValid/Parse refuse an address one of whose raw parts
    after the root is ".." (true = the code as it stands, fix: commit ad3ae9b,
    [c18_rejects_dotdot_current]; false = the pinned commit).  [rc] = DetermineAddress rejects
    a result whose root is not the manifest CID (true = the code as it stands,
    [c14_root_checked_current]; false = the pinned commit).  Every theorem about
    DetermineAddress below is stated for BOTH values of [rd]; the three theorems at the end
    say what [rd] changes. *)
From Orbit Require Import Model.Address Proofs.AddressProofs.
Local Open Scope N_scope.

(** The address is a function of name, type and access-controller parameters only: with a
    write list given the creator is irrelevant, with none given the result is the one for
    the list holding the creator's own id.  (Holds with and without the root check.) *)
Theorem C14_function :
  forall (rd : bool) (cid_decode : N -> option N) (Hac : list N -> N) (H : list seg * N * N -> N) (types : list N),
    (forall (rc : bool) (c1 c2 : N) (name : list seg) (typ : N) (w : list N),
        w <> [] ->
        determine_address rd cid_decode Hac H types rc c1 name typ w =
        determine_address rd cid_decode Hac H types rc c2 name typ w) /\
    (forall (rc : bool) (c : N) (name : list seg) (typ : N),
        determine_address rd cid_decode Hac H types rc c name typ [] =
        determine_address rd cid_decode Hac H types rc c name typ [c]).
Proof. exact addr_function. Qed.
Print Assumptions C14_function.

(** With the root check (the repaired DetermineAddress) the root of every produced address
    is the CID of the manifest written for exactly these inputs: the address is
    self-describing. *)
Theorem C14_root_is_manifest :
  forall (rd : bool) (cid_decode : N -> option N) (Hac : list N -> N) (H : list seg * N * N -> N) (types : list N)
         (c : N) (name : list seg) (typ : N) (w : list N) (r : N) (p : list seg),
    determine_address rd cid_decode Hac H types true c name typ w = Ok (r, p) ->
    r = manifest_cid Hac H c name typ w.
Proof. exact addr_root_is_manifest. Qed.
Print Assumptions C14_root_is_manifest.

(** With the root check, equal addresses come from equal inputs (name, type, effective
    write list), whoever computed them. *)
Theorem C14_injective :
  forall (rd : bool) (cid_decode : N -> option N) (Hac : list N -> N) (H : list seg * N * N -> N) (types : list N),
    (forall x y : list seg * N * N, H x = H y -> x = y) ->
    (forall x y : list N, Hac x = Hac y -> x = y) ->
    forall (c1 c2 : N) (n1 n2 : list seg) (t1 t2 : N) (w1 w2 : list N) (a : N * list seg),
      determine_address rd cid_decode Hac H types true c1 n1 t1 w1 = Ok a ->
      determine_address rd cid_decode Hac H types true c2 n2 t2 w2 = Ok a ->
      n1 = n2 /\ t1 = t2 /\ effective_write c1 w1 = effective_write c2 w2.
Proof. exact addr_injective. Qed.
Print Assumptions C14_injective.

(** Every produced address, checked or not, produced with either version of IsValid, prints
    and parses back (with either version of Parse, [rd']) to the same root and path.  The
    path of a produced address comes out of path.Join, so it has no ".." (nor "." nor empty
    segment) for the new test to refuse. *)
Theorem C14_roundtrip :
  forall (rd : bool) (cid_decode : N -> option N) (Hac : list N -> N) (H : list seg * N * N -> N) (types : list N),
    (forall n c : N, cid_decode n = Some c -> cid_decode c = Some c) ->
    forall (rd' rc : bool) (c : N) (name : list seg) (typ : N) (w : list N) (a : N * list seg),
      determine_address rd cid_decode Hac H types rc c name typ w = Ok a ->
      addr_parse rd' cid_decode (addr_string a) = Ok a.
Proof. exact addr_roundtrip. Qed.
Print Assumptions C14_roundtrip.

(** More generally the round trip holds for exactly the addresses in normal form: a canonical
    root and a path of plain segments.  (String() joins and cleans, so a path with an empty,
    "." or ".." segment is printed without it and cannot come back.) *)
Theorem C14_roundtrip_clean :
  forall (cid_decode : N -> option N) (rd' : bool) (a : N * list seg),
    cid_decode (fst a) = Some (fst a) ->
    all_names (snd a) = true ->
    addr_parse rd' cid_decode (addr_string a) = Ok a.
Proof. exact addr_roundtrip_clean. Qed.
Print Assumptions C14_roundtrip_clean.

(** path.Clean of a rooted path is idempotent (used by the round trip). *)
Theorem C14_clean_idempotent :
  forall l : list seg, clean_rooted (clean_rooted l) = clean_rooted l.
Proof. exact clean_rooted_idem. Qed.
Print Assumptions C14_clean_idempotent.

(** Names without a ".." segment behave the same with and without the root check: the
    other normalisations of path.Join (empty and "." segments, leading and trailing
    slashes) only change the path part. *)
Theorem C14_unchecked_same_without_dotdot :
  forall (rd : bool) (cid_decode : N -> option N) (Hac : list N -> N) (H : list seg * N * N -> N) (types : list N),
    (forall x : list seg * N * N, cid_decode (H x) = Some (H x)) ->
    forall (c : N) (name : list seg) (typ : N) (w : list N),
      no_dotdot name = true ->
      determine_address rd cid_decode Hac H types false c name typ w =
      determine_address rd cid_decode Hac H types true c name typ w.
Proof. exact addr_unchecked_same_without_dotdot. Qed.
Print Assumptions C14_unchecked_same_without_dotdot.

(** Without the root check DetermineAddress is not injective (with either version of
    IsValid: neither name is an address, and the ".." is cleaned away before Parse): for any segment [c0] that is a CID — for
    instance the manifest CID of another database — the two different names "../c0/y" and
    "./../c0/y" are accepted for every creator, registered type and write list and give the
    same address /orbitdb/c0/y.  Regression witness. *)
Theorem C14_refuted_unchecked :
  forall (rd : bool) (cid_decode : N -> option N) (Hac : list N -> N) (H : list seg * N * N -> N) (types : list N)
         (c0 c0' y : N),
    cid_decode c0 = Some c0' ->
    exists n1 n2 : list seg,
      n1 <> n2 /\
      (forall (c typ : N) (w : list N),
          memN typ types = true ->
          determine_address rd cid_decode Hac H types false c n1 typ w = Ok (c0', [SName y]) /\
          determine_address rd cid_decode Hac H types false c n2 typ w = Ok (c0', [SName y])).
Proof. exact addr_refuted_unchecked. Qed.
Print Assumptions C14_refuted_unchecked.

(** ... and not self-describing: some accepted name gets an address whose root is not the
    CID of its own manifest. *)
Theorem C14_refuted_root_unchecked :
  forall (rd : bool) (cid_decode : N -> option N) (Hac : list N -> N) (H : list seg * N * N -> N) (types : list N),
    (forall x y : list seg * N * N, H x = H y -> x = y) ->
    forall (c0 c0' c typ : N) (w : list N),
      cid_decode c0 = Some c0' ->
      memN typ types = true ->
      exists (name : list seg) (r : N) (p : list seg),
        determine_address rd cid_decode Hac H types false c name typ w = Ok (r, p) /\
        r <> manifest_cid Hac H c name typ w.
Proof. exact addr_refuted_root_unchecked. Qed.
Print Assumptions C14_refuted_root_unchecked.

(** ** What the ".." test of IsValid changes *)

(** With the test, a parsed address has no ".." in its path, and its printed form parses (with
    either version) to the SAME root and the cleaned path: String(), and the cache directory
    built the same way, designate the database of that root. *)
Theorem C14_parsed_reprint :
  forall cid_decode : N -> option N,
    (forall n c : N, cid_decode n = Some c -> cid_decode c = Some c) ->
    forall (s : list seg) (a : N * list seg),
      addr_parse true cid_decode s = Ok a ->
      no_dotdot (snd a) = true /\
      (forall rd' : bool,
          addr_parse rd' cid_decode (addr_string a) = Ok (fst a, clean_rooted (snd a))).
Proof. exact parsed_reprint. Qed.
Print Assumptions C14_parsed_reprint.

(** Without it (pinned commit) the printed form of a parsed address could designate another
    database: for CIDs [c0], [c1] the string "c0/../c1/y" parsed to root c0 and printed as
    /orbitdb/c1/y.  The code as it stands refuses that string.  Regression witness. *)
Theorem C14_refuted_parsed_reprint_untested :
  forall (cid_decode : N -> option N) (c0 c0' c1 c1' y : N),
    cid_decode c0 = Some c0' ->
    cid_decode c1 = Some c1' ->
    exists (s : list seg) (a : N * list seg),
      addr_parse false cid_decode s = Ok a /\
      fst a = c0' /\
      addr_parse true cid_decode s = Err EBadInput /\
      (forall rd' : bool, addr_parse rd' cid_decode (addr_string a) = Ok (c1', [SName y])).
Proof. exact parsed_reprint_refuted_untested. Qed.
Print Assumptions C14_refuted_parsed_reprint_untested.

(** The visible consequence for DetermineAddress: a NAME "c0/x/.." ([c0] a CID) was refused as
    being an address ("given database name is an address"); with the test it is not an
    address, path.Join cleans it to "c0" and the result is the address (manifest, "c0"),
    with or without the root check. *)
Theorem C14_name_with_dotdot_not_address :
  forall (cid_decode : N -> option N) (Hac : list N -> N) (H : list seg * N * N -> N) (types : list N),
    (forall x : list seg * N * N, cid_decode (H x) = Some (H x)) ->
    forall (c0 c0' x : N) (rc : bool) (c typ : N) (w : list N),
      cid_decode c0 = Some c0' ->
      memN typ types = true ->
      let name := [SName c0; SName x; SDotDot] in
      determine_address false cid_decode Hac H types rc c name typ w = Err EDenied /\
      determine_address true cid_decode Hac H types rc c name typ w =
      Ok (manifest_cid Hac H c name typ w, [SName c0]).
Proof. exact name_with_dotdot_not_address. Qed.
Print Assumptions C14_name_with_dotdot_not_address.

(** Create is refused exactly when the local marker is present and overwrite is off; a
    local-only Open exactly when the marker is absent.  A create that proceeds leaves the
    marker (so a second create without overwrite is refused, one with overwrite proceeds, a
    local-only open proceeds); an Open never leaves it. *)
Theorem C14_create_rules :
  (forall have ow : bool, create_decision have ow = Refused <-> have = true /\ ow = false) /\
  (forall have lo : bool, open_decision have lo = Refused <-> lo = true /\ have = false) /\
  (forall have ow : bool,
      lrun have [LCreate ow; LCreate false; LCreate true; LOpen true] =
      [create_decision have ow; Refused; Proceeds; Proceeds]) /\
  (forall lo : bool, lrun false [LOpen lo; LOpen true] = [open_decision false lo; Refused]).
Proof. exact create_rules. Qed.
Print Assumptions C14_create_rules.

(** ** Where the local data lives

    [CreateDBOptions.Directory] unset / the instance's own directory / another directory on every
    Create and Open, instances on disk and in memory ([Address.dop], [Address.drun]).  Switch
    [fb] (first argument of [drun]) = a local-only Open given another directory also looks where
    Create records the database (true = the code as it stands, [c14_open_falls_back_current]). *)

(** The Directory options are irrelevant to every decision: the decisions of any sequence of
    operations are those of the sequence with every option removed; on disk closing the handles
    changes nothing; and without options and closing the table is the plain one. *)
Theorem C14_directory_irrelevant :
  (forall (memory : bool) (ops : list dop) (have : bool),
      drun true memory have ops = drun true memory have (map undir ops)) /\
  (forall (fb have : bool) (ops : list dop),
      drun fb false have (DCloseAll :: ops) = Proceeds :: drun fb false have ops) /\
  (forall (fb memory : bool) (ops : list lop) (have : bool),
      drun fb memory have (map dop_of_lop ops) = lrun have ops).
Proof. exact (conj dir_irrelevant (conj dir_close_on_disk dir_plain_table)). Qed.
Print Assumptions C14_directory_irrelevant.

(** An instance in memory: while a handle is open the rules are those of an instance on disk
    (a second create without overwrite is refused, one with overwrite proceeds, a local-only open
    proceeds); once the handles are closed nothing of the database is left - a local-only open is
    refused and the database can be created again - whatever the Directory options. *)
Theorem C14_create_rules_memory :
  forall (fb have ow : bool) (d1 d2 d3 d4 d5 : dopt),
    drun fb true have [DCreate ow d1; DCreate false d2; DCreate true d3; DOpen true DUnset; DCloseAll;
                       DOpen true d4; DCreate false d5]
    = [create_decision have ow; Refused; Proceeds; Proceeds; Proceeds; Refused; Proceeds].
Proof. exact dir_memory_rules. Qed.
Print Assumptions C14_create_rules_memory.

(** The table satisfies the property as the correspondence check states it on observed outcomes
    ([dlocal_ok]: refusals exactly for databases created here and not overwritten, local-only
    opens find what was created here) for EVERY sequence of operations and Directory options, on
    disk and in memory. *)
Theorem C14_directory_table_sound :
  forall (memory : bool) (ops : list dop) (have seen : bool),
    (have = true -> seen = true) ->
    dlocal_ok memory have seen ops (map decision_code (drun true memory have ops)) = true.
Proof. exact dir_spec_sound. Qed.
Print Assumptions C14_directory_table_sound.

(** Before the repair of Open a database created with a Directory option other than the
    instance's directory was not found by a local-only Open given the SAME option (Create records
    the database in the instance directory, Open looked in the option's), which the property
    rejects.  Regression witness. *)
Theorem C14_refuted_open_custom_directory :
  forall (memory ow : bool) (k : N),
    let ops := [DCreate ow (DOther k); DOpen true (DOther k)] in
    drun false memory false ops = [Proceeds; Refused] /\
    dlocal_ok memory false false ops (map decision_code (drun false memory false ops)) = false /\
    drun true memory false ops = [Proceeds; Proceeds].
Proof. exact dir_refuted_no_fallback. Qed.
Print Assumptions C14_refuted_open_custom_directory.

(** C14 — Addresses are deterministic, self-describing and reopen the same database.

    Strings are at segment level (Model/Address.v).  The parameters of the statements:
    [cid_decode] = cid.Decode followed by Cid.String() on segment tokens, [Hac] = CID of the
    saved access-controller parameters, [H] = CID of the database manifest
    {name, type, access-controller address}, [types] = registered store types.
    Premises used (never axioms): the canonical text of a CID decodes to itself, content
    addresses are canonical CIDs, content addressing is injective. *)
From Orbit Require Import Model.Address Proofs.AddressProofs.
Local Open Scope N_scope.

(** The address is a function of name, type and access-controller parameters only: with a
    write list given the creator is irrelevant, with none given the result is the one for
    the list holding the creator's own id.  (Holds with and without the root check.) *)
Theorem C14_function :
  forall (cid_decode : N -> option N) (Hac : list N -> N) (H : list seg * N * N -> N) (types : list N),
    (forall (rc : bool) (c1 c2 : N) (name : list seg) (typ : N) (w : list N),
        w <> [] ->
        determine_address cid_decode Hac H types rc c1 name typ w =
        determine_address cid_decode Hac H types rc c2 name typ w) /\
    (forall (rc : bool) (c : N) (name : list seg) (typ : N),
        determine_address cid_decode Hac H types rc c name typ [] =
        determine_address cid_decode Hac H types rc c name typ [c]).
Proof. exact addr_function. Qed.
Print Assumptions C14_function.

(** With the root check (the repaired DetermineAddress) the root of every produced address
    is the CID of the manifest written for exactly these inputs: the address is
    self-describing. *)
Theorem C14_root_is_manifest :
  forall (cid_decode : N -> option N) (Hac : list N -> N) (H : list seg * N * N -> N) (types : list N)
         (c : N) (name : list seg) (typ : N) (w : list N) (r : N) (p : list seg),
    determine_address cid_decode Hac H types true c name typ w = Ok (r, p) ->
    r = manifest_cid Hac H c name typ w.
Proof. exact addr_root_is_manifest. Qed.
Print Assumptions C14_root_is_manifest.

(** With the root check, equal addresses come from equal inputs (name, type, effective
    write list), whoever computed them. *)
Theorem C14_injective :
  forall (cid_decode : N -> option N) (Hac : list N -> N) (H : list seg * N * N -> N) (types : list N),
    (forall x y : list seg * N * N, H x = H y -> x = y) ->
    (forall x y : list N, Hac x = Hac y -> x = y) ->
    forall (c1 c2 : N) (n1 n2 : list seg) (t1 t2 : N) (w1 w2 : list N) (a : N * list seg),
      determine_address cid_decode Hac H types true c1 n1 t1 w1 = Ok a ->
      determine_address cid_decode Hac H types true c2 n2 t2 w2 = Ok a ->
      n1 = n2 /\ t1 = t2 /\ effective_write c1 w1 = effective_write c2 w2.
Proof. exact addr_injective. Qed.
Print Assumptions C14_injective.

(** Every produced address, checked or not, prints and parses back to the same root and
    path. *)
Theorem C14_roundtrip :
  forall (cid_decode : N -> option N) (Hac : list N -> N) (H : list seg * N * N -> N) (types : list N),
    (forall n c : N, cid_decode n = Some c -> cid_decode c = Some c) ->
    forall (rc : bool) (c : N) (name : list seg) (typ : N) (w : list N) (a : N * list seg),
      determine_address cid_decode Hac H types rc c name typ w = Ok a ->
      addr_parse cid_decode (addr_string a) = Ok a.
Proof. exact addr_roundtrip. Qed.
Print Assumptions C14_roundtrip.

(** path.Clean of a rooted path is idempotent (used by the round trip). *)
Theorem C14_clean_idempotent :
  forall l : list seg, clean_rooted (clean_rooted l) = clean_rooted l.
Proof. exact clean_rooted_idem. Qed.
Print Assumptions C14_clean_idempotent.

(** Names without a ".." segment behave the same with and without the root check: the
    other normalisations of path.Join (empty and "." segments, leading and trailing
    slashes) only change the path part. *)
Theorem C14_unchecked_same_without_dotdot :
  forall (cid_decode : N -> option N) (Hac : list N -> N) (H : list seg * N * N -> N) (types : list N),
    (forall x : list seg * N * N, cid_decode (H x) = Some (H x)) ->
    forall (c : N) (name : list seg) (typ : N) (w : list N),
      no_dotdot name = true ->
      determine_address cid_decode Hac H types false c name typ w =
      determine_address cid_decode Hac H types true c name typ w.
Proof. exact addr_unchecked_same_without_dotdot. Qed.
Print Assumptions C14_unchecked_same_without_dotdot.

(** This commit (no root check) is not injective: for any segment [c0] that is a CID — for
    instance the manifest CID of another database — the two different names "../c0/y" and
    "./../c0/y" are accepted for every creator, registered type and write list and give the
    same address /orbitdb/c0/y.  Regression witness. *)
Theorem C14_refuted_unchecked :
  forall (cid_decode : N -> option N) (Hac : list N -> N) (H : list seg * N * N -> N) (types : list N)
         (c0 c0' y : N),
    cid_decode c0 = Some c0' ->
    exists n1 n2 : list seg,
      n1 <> n2 /\
      (forall (c typ : N) (w : list N),
          memN typ types = true ->
          determine_address cid_decode Hac H types false c n1 typ w = Ok (c0', [SName y]) /\
          determine_address cid_decode Hac H types false c n2 typ w = Ok (c0', [SName y])).
Proof. exact addr_refuted_unchecked. Qed.
Print Assumptions C14_refuted_unchecked.

(** ... and not self-describing: some accepted name gets an address whose root is not the
    CID of its own manifest. *)
Theorem C14_refuted_root_unchecked :
  forall (cid_decode : N -> option N) (Hac : list N -> N) (H : list seg * N * N -> N) (types : list N),
    (forall x y : list seg * N * N, H x = H y -> x = y) ->
    forall (c0 c0' c typ : N) (w : list N),
      cid_decode c0 = Some c0' ->
      memN typ types = true ->
      exists (name : list seg) (r : N) (p : list seg),
        determine_address cid_decode Hac H types false c name typ w = Ok (r, p) /\
        r <> manifest_cid Hac H c name typ w.
Proof. exact addr_refuted_root_unchecked. Qed.
Print Assumptions C14_refuted_root_unchecked.

(** Create is refused exactly when the local marker is present and overwrite is off; a
    local-only Open exactly when the marker is absent.  A create that proceeds leaves the
    marker (so a second create without overwrite is refused, one with overwrite proceeds, a
    local-only open proceeds); an Open never leaves it. *)
Theorem C14_create_rules :
  (forall have ow : bool, create_decision have ow = Refused <-> have = true /\ ow = false) /\
  (forall have lo : bool, open_decision have lo = Refused <-> lo = true /\ have = false) /\
  (forall have ow : bool,
      lrun have [LCreate ow; LCreate false; LCreate true; LOpen true] =
      [create_decision have ow; Refused; Proceeds; Proceeds]) /\
  (forall lo : bool, lrun false [LOpen lo; LOpen true] = [open_decision false lo; Refused]).
Proof. exact create_rules. Qed.
Print Assumptions C14_create_rules.

(** C13 — A saved snapshot reloads to exactly the saved database, or saving fails.

    Wire level.  A snapshot is the header followed by one frame per entry, each with a
    16-bit big-endian length prefix, then a zero byte ([snap_encode]); the loader reads
    [1 + header.Size] frames back ([snap_decode]).  [Replicator.GetQueue] supplies the
    unfinished queue that is stored alongside ([get_queue]).  The log level (the frames
    read back, joined into the empty log of a freshly opened store, give the saved
    listing and heads) is [C13_reload_same_state] in Properties/C13_reload.v. *)
From Orbit Require Import Spec.Statements Proofs.WireProofs Proofs.JoinMultiProofs.

(** Frames shorter than 64 KiB are read back exactly as written, with or without the
    size check, whatever their number (the trailing zero byte is ignored). *)
Theorem C13_snap_roundtrip :
  forall ro (frames : list bytes) bs,
    Forall (fun f => (length f < 65536)%nat) frames ->
    snap_encode ro frames = Ok bs -> snap_decode (length frames) bs = Some frames.
Proof. exact snap_roundtrip. Qed.
Print Assumptions C13_snap_roundtrip.

(** With the size check (the repaired [SaveSnapshot]) saving either fails or writes a
    snapshot that loads to exactly the frames saved: no silently unloadable snapshot. *)
Theorem C13_save_ok_or_error :
  forall (frames : list bytes) bs,
    snap_encode true frames = Ok bs -> snap_decode (length frames) bs = Some frames.
Proof. exact snap_save_ok_or_error. Qed.
Print Assumptions C13_save_ok_or_error.

(** The pinned commit reports success for a snapshot that does not load back (witness: one
    frame of exactly 65 536 bytes, whose length prefix is written as 0).  Regression witness. *)
Theorem C13_refuted_truncation :
  exists frames bs, snap_encode false frames = Ok bs /\ snap_decode (length frames) bs <> Some frames.
Proof. exact snap_refuted_truncation. Qed.
Print Assumptions C13_refuted_truncation.

(** [GetQueue] sized by the unfinished tasks (the repaired replicator) never panics and
    lists exactly the hashes of the tasks that are not fetched yet (state 2 = fetched),
    for every queue length and task table. *)
Theorem C13_get_queue_total :
  forall qlen tasks,
    get_queue true qlen tasks = Ok (map fst (filter (fun t => negb (snd t =? 2)%N) tasks)).
Proof. exact get_queue_total. Qed.
Print Assumptions C13_get_queue_total.

(** The pinned commit panics (index out of range) as soon as the task table holds a
    finished task — i.e. after any replication, so [SaveSnapshot] panics.  Regression witness. *)
(** Every task that is not fetched - waiting, being fetched, or failed (a fetch that yielded
    nothing) - is in the queue that is saved with the snapshot. *)
Theorem C13_get_queue_keeps_unfinished :
  forall qlen tasks h st, In (h, st) tasks -> st <> 2%N ->
    exists q, get_queue true qlen tasks = Ok q /\ In h q.
Proof. exact get_queue_keeps_unfinished. Qed.
Print Assumptions C13_get_queue_keeps_unfinished.

Theorem C13_get_queue_refuted :
  exists qlen tasks, (qlen <= length tasks)%nat /\ get_queue false qlen tasks = Panic PIndexRange.
Proof. exact get_queue_refuted. Qed.
Print Assumptions C13_get_queue_refuted.

(** C13 (log level) — the frames of a snapshot, joined into the empty log of a freshly
    opened store, reproduce the saved listing and heads.  Kept apart from Properties/C13.v
    because it depends on Proofs/JoinMultiProofs.v. *)

(** For every well-formed, ancestry-closed log [l] over a well-formed universe whose entries
    the access controller accepts: joining the log built from the saved entries of [l]
    ([LoadFromSnapshot]: [NewFromJSON] over the entries read back, then [Join]) into the
    empty log with the same id succeeds, and the result holds exactly the entries of [l],
    with the same ordered listing ([values]) and the same heads. *)
Theorem C13_reload_same_state :
  forall U l acc,
    WF U -> log_ok U l -> next_closed (lents l) ->
    (forall e, In e (lents l) -> acc e = true) ->
    exists l',
      join (empty_log (lid l)) (log_of_entries (lid l) (lents l)) (-1) acc = Ok l' /\
      log_ok U l' /\ same_set (lents l') (lents l) /\
      values l' = values l /\ heads_sorted l' = heads_sorted l.
Proof. exact reload_same_state. Qed.
Print Assumptions C13_reload_same_state.

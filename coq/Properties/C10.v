(** C10 — Rejected entries never block replication of valid entries.

    Same machine as C11 ([Model/Replicator.v]).  The universe [U] of entries that exist on
    the network marks each entry acceptable to the store's log or not ([u_valid]:
    authorised, well signed); fetching by hash returns the entry either way, the merge of
    a load-end batch joins the fetched single-entry logs one by one and a rejected entry
    makes its join fail.  An announcement that [Sync] drops as a whole (claimed head hash
    does not match the content) never reaches the replicator: it is not an [RLoad]. *)
From Orbit Require Import Spec.Statements Proofs.ReplicatorProofs.

(** This is the completeness theorem of the replicator again, read for C10.  Its
    hypotheses put NO condition on the invalid entries of [U]: they may be heads of the
    same requests as valid heads, at any position in [heads], children, siblings or
    parents of anything, be fetched before or after the valid ones in any order (the
    schedule is arbitrary), and they may share load-end batches with valid entries.
    Validity only decides an entry's OWN membership in the log ([uvalid U h] is asked of
    the entry [h] whose presence is concluded, not of its neighbours in a request or a
    batch), so invalid entries mixed in never keep valid ones out: at rest, every valid
    entry in the ancestry of every head that was announced — alongside rejected ones or
    on its own, before or after them, or announced again later — is in the log.
    (That no invalid entry ever enters the log is the join's own check, C01/C09.) *)
Theorem C10_rejected_never_block :
  forall U slots sched s,
    (1 <= slots)%nat ->
    s = rrun rmech_fixed U sched (rinit slots []) ->
    rquiet s -> no_failed s ->
    forall c heads head h,
      In (RLoad c heads) sched -> In head heads -> ureach U head h -> uvalid U h ->
      In h (r_log s).
Proof. exact repl_complete. Qed.
Print Assumptions C10_rejected_never_block.

(** Before 34e345b (the merge returned at the first log whose join failed): there is a
    schedule ending with an honest re-announcement of a valid head after which nothing can
    move any more and the head is not in the log — it was fetched in the same batch after
    a rejected entry, never joined, and stays [fetched], so announcing it again is ignored.
    Observed on the implementation: NOTES.md, signature merge-abort-drops-valid. *)
Theorem C10_refuted_merge_abort :
  exists U slots sched h,
    (1 <= slots)%nat /\
    let s := rrun (mkRM true true false) U sched (rinit slots []) in
    rstuck (mkRM true true false) U s /\ uvalid U h /\ ~ In h (r_log s) /\
    (exists c heads, last sched (RCancel 0) = RLoad c heads /\ In h heads /\ ~ In c (r_cancel s)).
Proof. exact repl_refuted_merge_abort. Qed.
Print Assumptions C10_refuted_merge_abort.

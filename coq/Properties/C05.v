(** C05 — Acknowledged writes and replicated entries survive restart and crashes. *)
From Orbit Require Import Spec.Statements Proofs.DurableProofs.

(** For every run of the global system (any interleaving of writes and merges on all
    replicas; replica [r] merging complete ancestries), and EVERY crash point [k] — every
    prefix of the ordered persistence effects (block writes, cache writes) issued by
    replica [r] — reopening and loading from the durable state yields a log that
    (1) contains every write acknowledged and every entry reported replicated before the
    crash, (2) contains only entries that were really written, (3) is closed under
    ancestry, (4) is a well-formed log, so that (by C01/C06/C07) its listing, heads and
    views are the canonical ones of its entry set: the pre-crash state restricted to the
    recovered entries. *)
Theorem C05_durable :
  forall marks cont acc okop n dbid r g effs k,
    gtrace true true marks cont acc okop n dbid r g effs ->
    let rec := recover true dbid acc (disk_at effs k) in
    (forall h, In h (acked (firstn k effs)) -> In h (hashes (lents rec))) /\
    incl (lents rec) (guniv g) /\
    next_closed (lents rec) /\
    log_ok (guniv g) rec.
Proof. exact durable. Qed.
Print Assumptions C05_durable.

(** Each anchored mechanism is needed: acknowledging before persisting the head, reporting a
    batch replicated before persisting the heads, or loading only the local head set each
    lose an acknowledged / replicated entry at some crash point (regression witnesses). *)
Theorem C05_refuted_ack_before_persist :
  exists marks cont acc n dbid r g effs k,
    gtrace false true marks cont acc any_okop n dbid r g effs /\
    exists h, In h (acked (firstn k effs)) /\
              ~ In h (hashes (lents (recover true dbid acc (disk_at effs k)))).
Proof. exact durable_refuted_ack_first. Qed.
Print Assumptions C05_refuted_ack_before_persist.

Theorem C05_refuted_replicated_before_persist :
  exists marks cont acc n dbid r g effs k,
    gtrace true false marks cont acc any_okop n dbid r g effs /\
    exists h, In h (acked (firstn k effs)) /\
              ~ In h (hashes (lents (recover true dbid acc (disk_at effs k)))).
Proof. exact durable_refuted_repl_first. Qed.
Print Assumptions C05_refuted_replicated_before_persist.

Theorem C05_refuted_load_local_heads_only :
  exists marks cont acc n dbid r g effs k,
    gtrace true true marks cont acc any_okop n dbid r g effs /\
    exists h, In h (acked (firstn k effs)) /\
              ~ In h (hashes (lents (recover false dbid acc (disk_at effs k)))).
Proof. exact durable_refuted_local_only. Qed.
Print Assumptions C05_refuted_load_local_heads_only.

(** C07 — Document store equals last-writer-wins replay, including batch puts. *)
From Orbit Require Import Spec.Statements Proofs.ReplayProofs Proofs.GlobalProofs Proofs.Glue Spec.GlobalExt Proofs.GlobalExtProofs.

(** With the PUTALL bookkeeping marking each document's key (the tree after the fix),
    every replica's document view represents the replay of PUT / PUTALL / DEL in listing
    order, the latest operation on a document key winning. *)
Theorem C07_doc_refines_replay :
  forall cont acc n dbid g i rs,
    greach true cont acc doc_okop n dbid g -> nth_error (greps g) i = Some rs ->
    represents (rdoc rs) (doc_replay (values (rlog rs))).
Proof. intros cont acc n dbid. exact (doc_view true cont acc n dbid eq_refl). Qed.
Print Assumptions C07_doc_refines_replay.

(** The pinned commit's bookkeeping (marks the operation key "") violates the property:
    Put{k:old}; PutAll[{k:new}] reads back old.  Kept as the regression witness. *)
Theorem C07_refuted_without_marking :
  exists hist,
    grows hist /\
    (forall vals e, In vals hist -> In e vals -> doc_op_ok e) /\
    ~ represents (doc_run false hist) (doc_replay (last hist [])).
Proof. exact doc_refuted_without_marking. Qed.
Print Assumptions C07_refuted_without_marking.

(** Get returns exactly the documents whose key matches (exact / case-insensitive / partial). *)
Theorem C07_get_exact :
  forall ci partial search m k v,
    In (k, v) (doc_get ci partial search m) <-> (In (k, v) m /\ doc_match ci partial search k = true).
Proof. exact doc_get_exact. Qed.
Print Assumptions C07_get_exact.

Theorem C07_partial_is_substring :
  forall s sub, contains s sub = true <-> exists pre post, s = pre ++ sub ++ post.
Proof. exact contains_spec. Qed.
Print Assumptions C07_partial_is_substring.

(** Deleting a key absent from the replayed state is refused (and one present is allowed). *)
Theorem C07_delete_absent_refused :
  forall m f k, represents m f -> f k = None -> doc_delete_allowed m k = false.
Proof. exact delete_absent_refused. Qed.
Print Assumptions C07_delete_absent_refused.

(** The same for the extended system with the load routes (load from disk, snapshot). *)
Theorem C07_doc_refines_replay_all_routes :
  forall cont acc n dbid g i rs,
    greach2 true cont acc doc_okop n dbid g -> nth_error (greps g) i = Some rs ->
    represents (rdoc rs) (doc_replay (values (rlog rs))).
Proof. exact doc_view2. Qed.
Print Assumptions C07_doc_refines_replay_all_routes.

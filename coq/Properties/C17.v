(** C17 — Concurrent writes on one store are each recorded exactly once and recoverable. *)
From Orbit Require Import Spec.Statements Proofs.WritersProofs.

(** With an atomic write path (append + persist of [_localHeads] + view update form one
    critical section; the repaired tree): for every number of writer threads, every number
    of single-entry writes per thread (a multi-entry call such as [PutBatch], or a sequence
    of calls issued by one goroutine, is a thread that performs several writes one after the
    other, and other threads' writes may come in between) and every schedule, once all
    threads have returned, the acknowledged entries are pairwise distinct, there is one per
    write, all of them are in the log, the log holds exactly those, the view covers the whole
    log, recovery from the cached head restores all of them, and every thread was
    acknowledged as many entries as it made writes, in append order. *)
Theorem C17_all_recorded :
  forall counts sched,
    let s := wrun true sched (winitc counts) in
    all_done s ->
    NoDup (returned s) /\ length (returned s) = list_sum counts /\
    (forall e, In e (returned s) -> (1 <= e <= w_log s)%nat) /\
    w_log s = list_sum counts /\ w_view s = w_log s /\ recovered s = w_log s /\
    Forall2 (fun a c => length a = c /\ StronglySorted lt a) (acks s) counts.
Proof. exact writers_atomic. Qed.
Print Assumptions C17_all_recorded.

(** The instance with one write per thread ([n] concurrent single writes). *)
Theorem C17_all_recorded_single :
  forall n sched,
    let s := wrun true sched (winit n) in
    all_done s ->
    NoDup (returned s) /\ length (returned s) = n /\
    (forall e, In e (returned s) -> (1 <= e <= w_log s)%nat) /\
    w_log s = n /\ w_view s = w_log s /\ recovered s = w_log s.
Proof. exact writers_atomic_single. Qed.
Print Assumptions C17_all_recorded_single.

(** Crash points: at every instant of every run with the atomic write path - some threads
    parked inside a write, queued behind it or already returned - every write acknowledged so
    far is within what a recovery from the cached head ([_localHeads]) as it is at that instant
    restores.  (The harness inspects the cached heads of the real store after every scheduled
    step and reports an acknowledged entry that they do not cover.) *)
Theorem C17_crash_safe_at_every_instant :
  forall counts sched,
    let s := wrun true sched (winitc counts) in
    forall e, In e (returned s) -> (1 <= e <= recovered s)%nat.
Proof. exact writers_crash_safe. Qed.
Print Assumptions C17_crash_safe_at_every_instant.

(** Without the critical section there is a run and an instant at which an acknowledged entry
    is not covered by the cached head.  Regression witness. *)
Theorem C17_refuted_crash :
  exists counts sched,
    let s := wrun false sched (winitc counts) in
    exists e, In e (returned s) /\ (recovered s < e)%nat.
Proof. exact writers_refuted_crash. Qed.
Print Assumptions C17_refuted_crash.

(** The pinned commit (only the append is atomic) can persist heads out of order: there is
    a schedule after which every writer has returned but recovery from the cached head
    restores fewer entries than were acknowledged (witness: two writers,
    T0 append, T1 append, T1 persist, T0 persist, ...).  Regression witness. *)
Theorem C17_refuted_recovery :
  exists n sched, let s := wrun false sched (winit n) in all_done s /\ (recovered s < w_log s)%nat.
Proof. exact writers_refuted_recovery. Qed.
Print Assumptions C17_refuted_recovery.

(** The pinned commit can apply a stale view rebuild after a fresher one: there is a
    schedule after which every writer has returned but the view does not cover the newest
    write (witness: T0 append, persist, read log; T1 append, persist, read, apply; T0 apply). *)
Theorem C17_refuted_view :
  exists n sched, let s := wrun false sched (winit n) in all_done s /\ (w_view s < w_log s)%nat.
Proof. exact writers_refuted_view. Qed.
Print Assumptions C17_refuted_view.

(** Without the critical section a thread in the middle of a multi-entry call loses a write
    acknowledged to another thread: there is a run with a thread of two or more writes after
    which everybody has returned and recovery restores fewer entries than the log holds
    (witness: T0 writes 1, appends 2; T1 appends 3, persists it and returns; T0 persists 2). *)
Theorem C17_refuted_batch :
  exists counts sched,
    let s := wrun false sched (winitc counts) in
    all_done s /\ (exists c, In c counts /\ (2 <= c)%nat) /\ (recovered s < w_log s)%nat.
Proof. exact writers_refuted_batch. Qed.
Print Assumptions C17_refuted_batch.

(** C17 — Concurrent writes on one store are each recorded exactly once and recoverable. *)
From Orbit Require Import Spec.Statements Proofs.WritersProofs.

(** With an atomic write path (append + persist of [_localHeads] + view update form one
    critical section; the repaired tree): for every number of writers and every schedule,
    once all writers have returned, the acknowledged entries are pairwise distinct, there
    is one per writer, all of them are in the log, the log holds exactly those, the view
    covers the whole log, and recovery from the cached head restores all of them. *)
Theorem C17_all_recorded :
  forall n sched,
    let s := wrun true sched (winit n) in
    all_done s ->
    NoDup (returned s) /\ length (returned s) = n /\
    (forall e, In e (returned s) -> (1 <= e <= w_log s)%nat) /\
    w_log s = n /\ w_view s = w_log s /\ recovered s = w_log s.
Proof. exact writers_atomic. Qed.
Print Assumptions C17_all_recorded.

(** The pinned commit (only the append is atomic) can persist heads out of order: there is
    a schedule after which every writer has returned but recovery from the cached head
    restores fewer entries than were acknowledged (witness: two writers,
    T0 append, T1 append, T1 persist, T0 persist, ...).  Regression witness. *)
Theorem C17_refuted_recovery :
  exists n sched, let s := wrun false sched (winit n) in all_done s /\ (recovered s < w_log s)%nat.
Proof. exact writers_refuted_recovery. Qed.
Print Assumptions C17_refuted_recovery.

(** The pinned commit can apply a stale view rebuild after a fresher one: there is a
    schedule after which every writer has returned but the view does not cover the newest
    write (witness: T0 append, persist, read log; T1 append, persist, read, apply; T0 apply). *)
Theorem C17_refuted_view :
  exists n sched, let s := wrun false sched (winit n) in all_done s /\ (w_view s < w_log s)%nat.
Proof. exact writers_refuted_view. Qed.
Print Assumptions C17_refuted_view.

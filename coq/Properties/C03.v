(** C03 — Only authorised writers' entries ever enter a database. *)
From Orbit Require Import Model.Access Spec.Statements Proofs.AccessProofs.

(** Local route: a write by an identity that is not in the write list (no wildcard) fails
    with the "denied" error and leaves the entries, heads and next-index of the log as
    they were (only the Lamport clock has already been advanced, as in the code).  Holds
    with or without the identity binding. *)
Theorem C03_local :
  forall bi W id_key blk l h w o refs e1 l1,
    ~ In w W ->
    append l h w w w w o refs (acc_of bi W false id_key blk) = (e1, l1) ->
    e1 = Err EDenied /\ lents l1 = lents l /\ lheads l1 = lheads l /\ lnext l1 = lnext l.
Proof. exact local_denied. Qed.
Print Assumptions C03_local.

(** The same by CONFIGURATION.  The list a controller enforces ([enforced_writers]) is the
    configured list when it names somebody; for the empty list it is the creator alone with
    the ipfs controller (the default type) and nobody with the simple controller. *)
Theorem C03_enforced_nonempty :
  forall t creator W wildcard, W <> [] -> enforced_writers t creator W wildcard = W.
Proof. exact enforced_nonempty. Qed.
Print Assumptions C03_enforced_nonempty.

Theorem C03_enforced_wildcard :
  forall t creator W, enforced_writers t creator W true = W.
Proof. exact enforced_wildcard. Qed.
Print Assumptions C03_enforced_wildcard.

Theorem C03_enforced_empty :
  forall t creator,
    enforced_writers t creator [] false = match t with ACIpfs => [creator] | ACSimple => [] end.
Proof. exact enforced_empty. Qed.
Print Assumptions C03_enforced_empty.

Theorem C03_local_configured :
  forall bi t creator cW id_key blk l h w o refs e1 l1,
    ~ In w (enforced_writers t creator cW false) ->
    append l h w w w w o refs (acc_of bi (enforced_writers t creator cW false) false id_key blk) = (e1, l1) ->
    e1 = Err EDenied /\ lents l1 = lents l /\ lheads l1 = lheads l /\ lnext l1 = lnext l.
Proof. exact local_denied_configured. Qed.
Print Assumptions C03_local_configured.

(** ipfs controller, empty list: everybody except the creator is refused. *)
Theorem C03_local_ipfs_default :
  forall bi creator id_key blk l h w o refs e1 l1,
    w <> creator ->
    append l h w w w w o refs (acc_of bi (enforced_writers ACIpfs creator [] false) false id_key blk) = (e1, l1) ->
    e1 = Err EDenied /\ lents l1 = lents l /\ lheads l1 = lheads l /\ lnext l1 = lnext l.
Proof. exact local_denied_ipfs_default. Qed.
Print Assumptions C03_local_ipfs_default.

(** simple controller, empty or absent list: everybody is refused, the creator included. *)
Theorem C03_local_simple_empty :
  forall bi creator id_key blk l h w o refs e1 l1,
    append l h w w w w o refs (acc_of bi (enforced_writers ACSimple creator [] false) false id_key blk) = (e1, l1) ->
    e1 = Err EDenied /\ lents l1 = lents l /\ lheads l1 = lheads l /\ lnext l1 = lnext l.
Proof. exact local_denied_simple_empty. Qed.
Print Assumptions C03_local_simple_empty.

(** Remote routes (announced head, head exchange, manual sync, ancestor of a colluding
    writer's entry all end in the store joining the fetched entry).  With the identity
    binding in CanAppend and the store-side log-id filter: from any log satisfying the
    invariant [lgood] (the empty log does), for ANY sequence of delivered entries — any
    combination of claimed id, key, real signer, log id, links — taken from a universe
    of content-addressed objects, every entry of the log, every head and every listed
    entry has a signature that verifies, carries the log's id, and was really authored
    (signed) by the key endorsed by an identity of the write list, unless the list is
    the wildcard. *)
Theorem C03_remote :
  forall W wildcard id_key blk U l xs,
    hash_inj U -> incl xs U -> lgood W wildcard id_key blk U l ->
    let l' := merge_fetched true (acc_of true W wildcard id_key blk) l xs in
    lgood W wildcard id_key blk U l' /\
    forall e, In e (lents l') \/ In e (lheads l') \/ In e (values l') ->
      entry_verify e = true /\ elog e = lid l /\ authorised W wildcard id_key e.
Proof. exact merge_only_authorised. Qed.
Print Assumptions C03_remote.

Theorem C03_remote_init :
  forall W wildcard id_key blk U id, lgood W wildcard id_key blk U (empty_log id).
Proof. exact lgood_empty. Qed.
Print Assumptions C03_remote_init.

(** Remote routes by configuration, the empty list.  Simple controller: whatever is
    delivered, a log that starts empty stays empty. *)
Theorem C03_remote_simple_empty :
  forall creator id_key blk U id xs,
    hash_inj U -> incl xs U ->
    let l' := merge_fetched true (acc_of true (enforced_writers ACSimple creator [] false) false id_key blk)
                            (empty_log id) xs in
    lents l' = [] /\ lheads l' = [] /\ values l' = [].
Proof. exact simple_empty_stays_empty. Qed.
Print Assumptions C03_remote_simple_empty.

(** ipfs controller: everything that gets in was authored by the key the creator endorses. *)
Theorem C03_remote_ipfs_default :
  forall creator id_key blk U l xs,
    hash_inj U -> incl xs U ->
    lgood (enforced_writers ACIpfs creator [] false) false id_key blk U l ->
    let l' := merge_fetched true (acc_of true (enforced_writers ACIpfs creator [] false) false id_key blk) l xs in
    forall e, In e (lents l') \/ In e (lheads l') \/ In e (values l') ->
      entry_verify e = true /\ elog e = lid l /\ author e = id_key creator.
Proof. exact ipfs_default_only_creator. Qed.
Print Assumptions C03_remote_ipfs_default.

(** The pinned commit (the identity provider's VerifyIdentity accepts everything): an
    entry that names writer 1 but carries, and is signed with, key 9 — which no identity
    of the write list endorses — is merged, becomes a head and is listed. *)
Theorem C03_refuted_forged_identity :
  let acc := acc_of false [1%N] false w_idkey (fun _ => true) in
  let l' := join_checked true (empty_log 7) forged acc in
  In forged (lents l') /\ In forged (lheads l') /\ In forged (values l') /\
  ~ authorised [1%N] false w_idkey forged.
Proof. exact forged_identity_accepted. Qed.
Print Assumptions C03_refuted_forged_identity.

(** with the binding the same delivery leaves the log empty *)
Theorem C03_forged_identity_refused :
  join_checked true (empty_log 7) forged (acc_of true [1%N] false w_idkey (fun _ => true)) = empty_log 7.
Proof. exact forged_identity_refused. Qed.
Print Assumptions C03_forged_identity_refused.

(** C03 — Only authorised writers' entries ever enter a database. *)
From Orbit Require Import Model.Access Spec.Statements Proofs.AccessProofs.

(** Local route: a write by an identity that is not in the write list (no wildcard) fails
    with the "denied" error and leaves the entries, heads and next-index of the log as
    they were (only the Lamport clock has already been advanced, as in the code).  Holds
    with or without the identity binding. *)
Theorem C03_local :
  forall bi W id_key blk l h w o refs e1 l1,
    ~ In w W ->
    append l h w w w w o refs (acc_of bi W false id_key blk) = (e1, l1) ->
    e1 = Err EDenied /\ lents l1 = lents l /\ lheads l1 = lheads l /\ lnext l1 = lnext l.
Proof. exact local_denied. Qed.
Print Assumptions C03_local.

(** Remote routes (announced head, head exchange, manual sync, ancestor of a colluding
    writer's entry all end in the store joining the fetched entry).  With the identity
    binding in CanAppend and the store-side log-id filter: from any log satisfying the
    invariant [lgood] (the empty log does), for ANY sequence of delivered entries — any
    combination of claimed id, key, real signer, log id, links — taken from a universe
    of content-addressed objects, every entry of the log, every head and every listed
    entry has a signature that verifies, carries the log's id, and was really authored
    (signed) by the key endorsed by an identity of the write list, unless the list is
    the wildcard. *)
Theorem C03_remote :
  forall W wildcard id_key blk U l xs,
    hash_inj U -> incl xs U -> lgood W wildcard id_key blk U l ->
    let l' := merge_fetched true (acc_of true W wildcard id_key blk) l xs in
    lgood W wildcard id_key blk U l' /\
    forall e, In e (lents l') \/ In e (lheads l') \/ In e (values l') ->
      entry_verify e = true /\ elog e = lid l /\ authorised W wildcard id_key e.
Proof. exact merge_only_authorised. Qed.
Print Assumptions C03_remote.

Theorem C03_remote_init :
  forall W wildcard id_key blk U id, lgood W wildcard id_key blk U (empty_log id).
Proof. exact lgood_empty. Qed.
Print Assumptions C03_remote_init.

(** The pinned commit (the identity provider's VerifyIdentity accepts everything): an
    entry that names writer 1 but carries, and is signed with, key 9 — which no identity
    of the write list endorses — is merged, becomes a head and is listed. *)
Theorem C03_refuted_forged_identity :
  let acc := acc_of false [1%N] false w_idkey (fun _ => true) in
  let l' := join_checked true (empty_log 7) forged acc in
  In forged (lents l') /\ In forged (lheads l') /\ In forged (values l') /\
  ~ authorised [1%N] false w_idkey forged.
Proof. exact forged_identity_accepted. Qed.
Print Assumptions C03_refuted_forged_identity.

(** with the binding the same delivery leaves the log empty *)
Theorem C03_forged_identity_refused :
  join_checked true (empty_log 7) forged (acc_of true [1%N] false w_idkey (fun _ => true)) = empty_log 7.
Proof. exact forged_identity_refused. Qed.
Print Assumptions C03_forged_identity_refused.

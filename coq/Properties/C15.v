(** C15 — Loading with a limit yields the most recent entries, never fails on short logs.

    [load_limit normalises clamps fetch id acc es heads n] ([Model/LoadLimit.v]) is
    [BaseStore.Load] on a persisted log [es] with cached heads [heads] and limit [n] (after
    the MaxHistory substitution); both switches true = the repaired [Load]; both false = the
    pinned commit.  [load_setting] collects the standing premises: a well-formed universe,
    [es] duplicate-free and ancestry-closed, written for log [id] and acceptable, the cached
    heads persisted, and the FETCHER CONTRACT [fetch_ok]: for every head, limit and exclusion
    list the fetcher returns (in any order, without duplicates) the [n] greatest entries by
    key of the head's ancestry, all of it for a negative limit.  [heads_cover]: every
    persisted entry is in the ancestry of a cached head.  All theorems hold for any number
    of heads (local and remote, repeated, stale) and any multi-writer DAG. *)
From Orbit Require Import Spec.Statements Model.LoadLimit Proofs.LoadLimitProofs.

(** No limit value makes loading panic. *)
Theorem C15_never_panics :
  forall U es id acc fetch heads n,
    load_setting U es id acc fetch heads ->
    is_panic (load_limit true true fetch id acc es heads n) = false.
Proof. exact load_never_panics. Qed.
Print Assumptions C15_never_panics.

(** A positive limit n lists exactly min(n, total) entries. *)
Theorem C15_count :
  forall U es id acc fetch heads n,
    load_setting U es id acc fetch heads -> heads_cover es heads -> 0 < n ->
    length (listing (load_limit true true fetch id acc es heads n)) =
    Nat.min (Z.to_nat n) (length es).
Proof. exact load_count. Qed.
Print Assumptions C15_count.

(** They are persisted entries, listed in log order (ascending by key), and the newest
    persisted entry is among them. *)
Theorem C15_sorted_newest :
  forall U es id acc fetch heads n,
    load_setting U es id acc fetch heads -> heads_cover es heads -> 0 < n ->
    let lst := listing (load_limit true true fetch id acc es heads n) in
    asc_sorted lst /\ incl lst es /\
    forall m, In m es -> (forall x, In x es -> x = m \/ key_lt x m) -> In m lst.
Proof. exact load_sorted_newest. Qed.
Print Assumptions C15_sorted_newest.

(** Stronger: the listing is exactly the n greatest persisted entries in key order ([s] is
    the persisted set in key order), whatever the number and order of the cached heads. *)
Theorem C15_exact :
  forall U es id acc fetch heads n s,
    load_setting U es id acc fetch heads -> heads_cover es heads -> 0 < n ->
    asc_sorted s -> same_set s es ->
    listing (load_limit true true fetch id acc es heads n) = newest (Z.to_nat n) s.
Proof. exact load_exact. Qed.
Print Assumptions C15_exact.

(** For a log written by a single writer ([es] in the order written): exactly the last n. *)
Theorem C15_single_writer_suffix :
  forall U es id acc fetch heads n,
    load_setting U es id acc fetch heads -> heads_cover es heads -> 0 < n ->
    writer_chain es ->
    listing (load_limit true true fetch id acc es heads n) = newest (Z.to_nat n) es.
Proof. exact load_single_writer_suffix. Qed.
Print Assumptions C15_single_writer_suffix.

(** A non-positive limit loads everything, in log order. *)
Theorem C15_nonpositive_all :
  forall U es id acc fetch heads n s,
    load_setting U es id acc fetch heads -> heads_cover es heads -> n <= 0 ->
    asc_sorted s -> same_set s es ->
    listing (load_limit true true fetch id acc es heads n) = s.
Proof. exact load_nonpositive_all. Qed.
Print Assumptions C15_nonpositive_all.

(** The pinned commit (no clamp): a one-entry log loaded with limit 2 crashes the process
    (slice bounds out of range in Join).  Regression witness. *)
Theorem C15_refuted_panic :
  exists U es id heads n,
    load_setting U es id (fun _ => true) ideal_fetch heads /\ heads_cover es heads /\ 0 < n /\
    load_limit true false ideal_fetch id (fun _ => true) es heads n = Panic PSliceBounds.
Proof. exact load_refuted_panic. Qed.
Print Assumptions C15_refuted_panic.

(** The pinned commit (limit 0 passed on as it is): Load(0) succeeds and lists nothing of a
    non-empty log.  Regression witness. *)
Theorem C15_refuted_zero :
  exists U es id heads,
    load_setting U es id (fun _ => true) ideal_fetch heads /\ heads_cover es heads /\ es <> [] /\
    is_ok (load_limit false true ideal_fetch id (fun _ => true) es heads 0) = true /\
    listing (load_limit false true ideal_fetch id (fun _ => true) es heads 0) = [].
Proof. exact load_refuted_zero. Qed.
Print Assumptions C15_refuted_zero.

(** C16 — Store events are ordered, lossless, never ahead of the state they announce
    (the part about the legacy per-subscriber emitter, [events/events.go handleSubscriber]). *)
From Orbit Require Import Spec.Statements Proofs.EmitterProofs.

(** With in-flight tracking (G1 treats the event G2 has removed from the overflow list but
    not sent yet as still queued — the repaired tree): for every channel capacity and every
    interleaving of emissions, G1, G2 and the consumer, what the consumer has received
    followed by everything still in flight (channel, held event, overflow list, bus) is
    exactly the emitted sequence, in order. *)
Theorem C16_emitter_fifo :
  forall cap sched,
    let s := erun true cap sched einit in
    e_out s ++ inflight s = emitted sched.
Proof. exact emitter_fifo. Qed.
Print Assumptions C16_emitter_fifo.

(** Hence no loss, duplication or reordering, however slowly the consumer reads: what it has
    received is always a prefix of what was emitted, and all of it once nothing is in flight. *)
Theorem C16_emitter_lossless :
  forall cap sched,
    let s := erun true cap sched einit in
    (exists rest, emitted sched = e_out s ++ rest) /\ (quiescent s -> e_out s = emitted sched).
Proof. exact emitter_lossless. Qed.
Print Assumptions C16_emitter_lossless.

(** Progress: with a channel of capacity >= 1, whenever something is in flight some thread
    other than the emitting one (G1, G2 or the consumer) is enabled: no event is stuck. *)
Theorem C16_emitter_progress :
  forall cap s, (1 <= cap)%nat -> inflight s <> [] ->
    exists l, l <> LEmit 0%N /\ (forall x, l <> LEmit x) /\ estep true cap s l <> None.
Proof. exact emitter_progress. Qed.
Print Assumptions C16_emitter_progress.

(** The pinned commit (G1 looks only at the overflow list) reorders: there is a capacity and
    a schedule ending with nothing in flight where the consumer did not receive the emitted
    sequence (G2 holds event 2, the consumer frees a slot, G1 sends event 3 directly). *)
Theorem C16_refuted_without_inflight_tracking :
  exists cap sched, (1 <= cap)%nat /\
    let s := erun false cap sched einit in
    quiescent s /\ e_out s <> emitted sched.
Proof. exact emitter_refuted. Qed.
Print Assumptions C16_refuted_without_inflight_tracking.

(** C16 — Store events are ordered, lossless, never ahead of the state they announce:
    the legacy per-subscriber emitter ([events/events.go handleSubscriber]) and, below, the
    store itself with local writes running concurrently with the replication merge
    ([stores/basestore/base_store.go AddOperation / replicationLoadComplete]). *)
From Orbit Require Import Spec.Statements Proofs.EmitterProofs Proofs.StoreConcProofs.

(** With in-flight tracking (G1 treats the event G2 has removed from the overflow list but
    not sent yet as still queued — the repaired tree): for every channel capacity and every
    interleaving of emissions, G1, G2 and the consumer, what the consumer has received
    followed by everything still in flight (channel, held event, overflow list, bus) is
    exactly the emitted sequence, in order. *)
Theorem C16_emitter_fifo :
  forall cap sched,
    let s := erun true cap sched einit in
    e_out s ++ inflight s = emitted sched.
Proof. exact emitter_fifo. Qed.
Print Assumptions C16_emitter_fifo.

(** Hence no loss, duplication or reordering, however slowly the consumer reads: what it has
    received is always a prefix of what was emitted, and all of it once nothing is in flight. *)
Theorem C16_emitter_lossless :
  forall cap sched,
    let s := erun true cap sched einit in
    (exists rest, emitted sched = e_out s ++ rest) /\ (quiescent s -> e_out s = emitted sched).
Proof. exact emitter_lossless. Qed.
Print Assumptions C16_emitter_lossless.

(** Progress: with a channel of capacity >= 1, whenever something is in flight some thread
    other than the emitting one (G1, G2 or the consumer) is enabled: no event is stuck. *)
Theorem C16_emitter_progress :
  forall cap s, (1 <= cap)%nat -> inflight s <> [] ->
    exists l, l <> LEmit 0%N /\ (forall x, l <> LEmit x) /\ estep true cap s l <> None.
Proof. exact emitter_progress. Qed.
Print Assumptions C16_emitter_progress.

(** The pinned commit (G1 looks only at the overflow list) reorders: there is a capacity and
    a schedule ending with nothing in flight where the consumer did not receive the emitted
    sequence (G2 holds event 2, the consumer frees a slot, G1 sends event 3 directly). *)
Theorem C16_refuted_without_inflight_tracking :
  exists cap sched, (1 <= cap)%nat /\
    let s := erun false cap sched einit in
    quiescent s /\ e_out s <> emitted sched.
Proof. exact emitter_refuted. Qed.
Print Assumptions C16_refuted_without_inflight_tracking.

(** * The store: local writers concurrent with the replication merger ([Model/StoreConc.v])

    [srun true] = the index rebuilds of all threads are serialised (a mutex around
    [BaseStore.updateIndex], the repaired tree).  All statements are for every number of
    writers [n], every list of merge batches and EVERY schedule (interleaving of the writers'
    and the merger's atomic steps; disabled steps are skipped). *)

(** Never ahead of the state.  The view reflects only entries of the log; neither the log
    nor the view ever loses an entry along a run ([s2] is any continuation of [s1]); and the
    entries of every emitted write / replicated event are reflected by the view at the moment
    considered and in every later state — a subscriber can only receive an event at or after
    its emission, so whenever it receives one, queries already reflect the announced entries. *)
Theorem C16_store_events_never_ahead :
  forall n batches sched1 sched2,
    let s1 := srun true sched1 (sinit n batches) in
    let s2 := srun true sched2 s1 in
    incl (s_view s1) (s_log s1) /\ incl (s_view s1) (s_view s2) /\ incl (s_log s1) (s_log s2) /\
    (forall ev, In ev (s_events s1) ->
       incl (ev_entries ev) (s_view s1) /\ In ev (s_events s2) /\ incl (ev_entries ev) (s_view s2)).
Proof.
  intros n batches sched1 sched2.
  destruct (storeconc_view_monotone n batches sched1 sched2) as [A [B C]].
  exact (conj A (conj B (conj C (storeconc_events_never_ahead n batches sched1 sched2)))).
Qed.
Print Assumptions C16_store_events_never_ahead.

(** Exactly once.  In every reachable state the emitted list holds exactly one write event
    for every writer that has passed its emit step, carrying the entry that writer appended
    (writer [i] appends entry [i]; it is in the log), and none for any other writer — in
    particular none for a writer that has not appended; the replicated events are exactly the
    batches merged so far, in the merger's order (followed by the batch in progress and the
    batches not yet handed over they make up the given list). *)
Theorem C16_store_events_exactly_once :
  forall n batches sched,
    let s := srun true sched (sinit n batches) in
    (forall i, w_emitted s i -> count_occ Nat.eq_dec (wevents (s_events s)) i = 1%nat) /\
    (forall i, ~ w_emitted s i -> count_occ Nat.eq_dec (wevents (s_events s)) i = 0%nat) /\
    (forall i, In i (wevents (s_events s)) -> w_appended s i /\ In i (s_log s)) /\
    revents (s_events s) ++ mcur (s_mpc s) ++ s_todo s = batches.
Proof. exact storeconc_events_exactly_once. Qed.
Print Assumptions C16_store_events_exactly_once.

(** Complete at rest.  When every writer has returned and every batch has been merged, the
    view reflects exactly the log, the log holds exactly the writers' entries and the entries
    of all batches, there are [n] write events and the replicated events are the batches. *)
Theorem C16_store_view_complete_at_rest :
  forall n batches sched,
    let s := srun true sched (sinit n batches) in
    sall_done s ->
    (forall x, In x (s_view s) <-> In x (s_log s)) /\
    (forall x, In x (s_log s) <-> (x < n)%nat \/ In x (concat batches)) /\
    length (wevents (s_events s)) = n /\ revents (s_events s) = batches.
Proof. exact storeconc_complete_at_rest. Qed.
Print Assumptions C16_store_view_complete_at_rest.

(** Without the serialisation ([srun false], the tree before the repair: [UpdateIndex] reads
    the log before it takes the index lock, and a local write holds [muWrite] while the merge
    holds [muJoining]) a stale rebuild can be applied after a fresher one: there is a schedule
    after which every thread is done, yet an emitted event's entries are not reflected by the
    view and the view is not the whole log (witness: one writer, one batch; the writer reads
    the log, the merger joins, rebuilds, persists and emits, the writer applies its rebuild). *)
Theorem C16_refuted_unserialised_index :
  exists n batches sched,
    let s := srun false sched (sinit n batches) in
    sall_done s /\
    (exists ev, In ev (s_events s) /\ ~ incl (ev_entries ev) (s_view s)) /\
    ~ (forall x, In x (s_log s) -> In x (s_view s)).
Proof. exact storeconc_refuted_unserialised. Qed.
Print Assumptions C16_refuted_unserialised_index.

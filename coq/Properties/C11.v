(** C11 — Cancelled or failed replication requests do not wedge later replication.

    The machine ([Model/Replicator.v]): task table, FIFO queue, anonymous workers (one per
    queued item, each taking the head of the queue once it holds a slot), fetch buffer,
    load-end batches and the store's merge, as a labelled transition system.  A schedule is
    a list of labels: requests ([RLoad ctx heads]), cancellations of request contexts
    ([RCancel ctx]), slot acquisitions ([RSlot i]), fetch completions with or without a
    result ([RFetched i ok]) and merges ([RMerge]) in ANY order — so "cancelled at any step
    (before it starts, while waiting for a fetch slot, in the middle of a fetch, between
    fetch and join)" and "fails part-way" are the universally quantified schedule.
    [rmech_fixed] = /repo as it stands (loads detached from the caller's context, failed
    fetches retried by the next request, merge continues after a rejected log). *)
From Orbit Require Import Spec.Statements Proofs.ReplicatorProofs.

(** For EVERY schedule: whenever the replica is at rest (no worker, no unmerged batch)
    and no fetch is left failed, every valid entry in the ancestry of every head that was
    ever requested — by a cancelled request or not — is in the log.  In particular a later
    uncancelled request for the same or newer heads (which retries whatever failed) ends
    with all reachable entries visible, whatever was aborted before it. *)
Theorem C11_complete_after_any_schedule :
  forall U slots sched s,
    (1 <= slots)%nat ->
    s = rrun rmech_fixed U sched (rinit slots []) ->
    rquiet s -> no_failed s ->
    forall c heads head h,
      In (RLoad c heads) sched -> In head heads -> ureach U head h -> uvalid U h ->
      In h (r_log s).
Proof. exact repl_complete. Qed.
Print Assumptions C11_complete_after_any_schedule.

(** "Exactly as if the aborted request had never been cancelled": erasing every
    cancellation from a schedule changes nothing in the resulting state except the record
    of cancelled contexts. *)
Theorem C11_cancel_harmless :
  forall U slots sched,
    drop_cancel (rrun rmech_fixed U sched (rinit slots [])) =
    drop_cancel (rrun rmech_fixed U (filter (fun l => match l with RCancel _ => false | _ => true end) sched) (rinit slots [])).
Proof. exact repl_cancel_harmless. Qed.
Print Assumptions C11_cancel_harmless.

(** A hash whose fetch failed is queued again by the next request, whatever that request
    asks for (so [no_failed] above is restored by any later request once the block can be
    fetched). *)
Theorem C11_failed_fetch_retried :
  forall U s c heads h,
    tget h (r_tasks s) = Some TFailed -> ~ In h (r_log s) ->
    exists s', rstep rmech_fixed U s (RLoad c heads) = Some s' /\ tget h (r_tasks s') = Some TAdded /\
               In h (r_queue s').
Proof. exact repl_retry. Qed.
Print Assumptions C11_failed_fetch_retried.

(** No wedge: in every reachable state that is not at rest some thread can move (with at
    least one fetch slot), so "at rest" above is always reached by running the machine on. *)
Theorem C11_progress :
  forall U slots sched s,
    (1 <= slots)%nat -> s = rrun rmech_fixed U sched (rinit slots []) ->
    ~ rquiet s -> ~ rstuck rmech_fixed U s.
Proof. exact repl_progress. Qed.
Print Assumptions C11_progress.

(** Before 0d70572 (workers run under the caller's context): there is a schedule ending
    with an uncancelled request for a valid head after which nothing can move any more and
    the head is not in the log — a worker whose context was cancelled while it waited for
    a slot returned and left its item queued in state [added]; the later request is
    ignored.  Observed on the implementation: NOTES.md, signature cancel-wedge. *)
Theorem C11_refuted_cancel_wedge :
  exists U slots sched h,
    (1 <= slots)%nat /\
    let s := rrun (mkRM false true true) U sched (rinit slots []) in
    rstuck (mkRM false true true) U s /\ uvalid U h /\ ~ In h (r_log s) /\
    (exists c heads, last sched (RCancel 0) = RLoad c heads /\ In h heads /\ ~ In c (r_cancel s)).
Proof. exact repl_refuted_cancel. Qed.
Print Assumptions C11_refuted_cancel_wedge.

(** Before 45dda21 (a fetch that yielded nothing marks the task [fetched]): the same kind
    of witness — one failed fetch makes every later request for that hash a no-op.
    Observed on the implementation: NOTES.md, signature fetch-failure-poisons. *)
Theorem C11_refuted_fetch_failure :
  exists U slots sched h,
    (1 <= slots)%nat /\
    let s := rrun (mkRM true false true) U sched (rinit slots []) in
    rstuck (mkRM true false true) U s /\ uvalid U h /\ ~ In h (r_log s) /\
    (exists c heads, last sched (RCancel 0) = RLoad c heads /\ In h heads /\ ~ In c (r_cancel s)).
Proof. exact repl_refuted_fetch_failure. Qed.
Print Assumptions C11_refuted_fetch_failure.

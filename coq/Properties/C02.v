(** C02 — After writes stop and peers reconnect, every replica receives every write. *)
From Orbit Require Import Spec.Statements Proofs.NetProofs Proofs.ReplicatorProofs Proofs.NetHolesProofs.

(** Set-level network model: for EVERY history of writes interleaved with arbitrary gains
    (a replica may at any time merge any set of existing entries: whatever announcements
    were lost, duplicated or reordered, whatever a partition let through, whatever a restart
    reloaded), after the final phase (all links up, every ordered pair exchanges cached heads
    and the receiver fetches their ancestry) all replicas hold the same entries, namely every
    entry ever written — hence, by C01, the same state. *)
Theorem C02_converges :
  forall n steps a b ra rb,
    (2 <= n)%nat ->
    let s := final_phase (nrun steps (ninit n)) in
    nth_error (n_reps s) a = Some ra -> nth_error (n_reps s) b = Some rb ->
    same_setN (n_log ra) (n_log rb) /\
    (forall h, In h (map u_hash (n_univ s)) -> In h (n_log ra)).
Proof. exact net_converges. Qed.
Print Assumptions C02_converges.

(** The invariant behind it: at every reachable state every held entry lies in the ancestry
    of a cached head (what AddOperation and the merge persist and what is sent on reconnect),
    and every entry is held by its writer. *)
Theorem C02_cover_invariant :
  forall n steps i rp,
    let s := nrun steps (ninit n) in
    nth_error (n_reps s) i = Some rp ->
    (forall h, In h (n_log rp) -> In h (anc_set (n_univ s) (n_cached rp))) /\
    (forall h, In (h, i) (n_owner s) -> In h (n_log rp)).
Proof. exact net_cover. Qed.
Print Assumptions C02_cover_invariant.

(** The step "the receiver fetches the whole ancestry of the announced heads" is the
    replicator theorem: for every schedule (any fetch order, failures, cancellations), at rest
    with no fetch left failed every valid entry of the ancestry of every requested head is in
    the log; and a failed fetch is retried by the next request. *)
Theorem C02_fetch_completes :
  forall U slots sched s,
    (1 <= slots)%nat ->
    s = rrun rmech_fixed U sched (rinit slots []) ->
    rquiet s -> no_failed s ->
    forall c heads head h,
      In (RLoad c heads) sched -> In head heads -> ureach U head h -> uvalid U h ->
      In h (r_log s).
Proof. exact repl_complete. Qed.
Print Assumptions C02_fetch_completes.

(** Persisting the heads of merged batches is needed: a relay that sends only what it has
    cached cannot pass on entries whose heads it did not cache. *)
Theorem C02_refuted_without_remote_heads :
  exists U (a b : nrep),
    (forall h, In h (n_log a) -> In h (map u_hash U)) /\
    ~ same_setN (n_log (exchange U (mkNR (n_log a) []) b)) (n_log (exchange U a b)).
Proof. exact net_refuted_without_remote_heads. Qed.
Print Assumptions C02_refuted_without_remote_heads.

(** Second network model ([Model/NetHoles.v]), faithful to what the replicator does when a log
    has a HOLE (an entry is held, one of its link targets is not): a replication request stops
    at every hash that is already in the log, fetches succeed or fail per hash in any way
    (any loss, duplication, reordering, partition), failed hashes are remembered and retried by
    the next request, a restart forgets them and rebuilds the log from the cached heads under
    any fetch outcome.  With the mechanism of this tree (an unlimited Load hands the link
    targets it could not load to the replicator, [rm] = true): for EVERY history of writes,
    requests and restarts on n >= 2 replicas, after the final phase (every ordered pair
    exchanges cached heads, every fetch succeeds) every replica's log is exactly the set of all
    written entries: all replicas are equal, no link target is missing, nothing is left
    failed — hence, by C01, the same state. *)
Theorem C02_converges_with_holes :
  forall n steps a b ra rb,
    (2 <= n)%nat ->
    let s := hfinal true (hrun true steps (hinit n)) in
    nth_error (h_reps s) a = Some ra -> nth_error (h_reps s) b = Some rb ->
    same_setN (h_log ra) (map u_hash (h_univ s)) /\
    same_setN (h_log ra) (h_log rb) /\
    dangling (h_univ s) (h_log ra) = [] /\
    h_failed ra = [].
Proof. exact holes_converge. Qed.
Print Assumptions C02_converges_with_holes.

(** The invariant it rests on, in every reachable state and on every replica: every link
    target of a held entry is held or remembered as failed (so the next request retries it);
    only written entries are held; every entry is held by its writer; every held entry is in
    the ancestry of a cached head. *)
Theorem C02_hole_invariant :
  forall n steps i rp,
    let s := hrun true steps (hinit n) in
    nth_error (h_reps s) i = Some rp ->
    (forall y, In y (dangling (h_univ s) (h_log rp)) -> In y (h_failed rp)) /\
    (forall h, In h (h_log rp) -> In h (map u_hash (h_univ s))) /\
    (forall h, In (h, i) (h_owner s) -> In h (h_log rp)) /\
    (forall h, In h (h_log rp) -> In h (anc_set (h_univ s) (h_cached rp))).
Proof. exact holes_invariant. Qed.
Print Assumptions C02_hole_invariant.

(** A restart never loses an entry of the log, with or without the record: the cached heads
    cover the log through held entries, whose blocks are in the replica's own block store. *)
Theorem C02_restart_keeps_entries :
  forall rm n steps r ok rp rp',
    let s := hrun rm steps (hinit n) in
    nth_error (h_reps s) r = Some rp ->
    nth_error (h_reps (hstep_run rm s (HRestart r ok))) r = Some rp' ->
    forall h, In h (h_log rp) -> In h (h_log rp').
Proof. exact holes_restart_keeps. Qed.
Print Assumptions C02_restart_keeps_entries.

(** Without the record ([rm] = false: Load forgets what it could not load) the property
    fails: a request fetches an entry but not its ancestor, the replica restarts while the
    ancestor is unreachable, and in the final phase every head it is told about is already in
    its log — it misses a written entry for ever. *)
Theorem C02_refuted_restart_forgets_missing :
  exists n steps a ra h,
    (2 <= n)%nat /\
    let s := hfinal false (hrun false steps (hinit n)) in
    nth_error (h_reps s) a = Some ra /\
    In h (map u_hash (h_univ s)) /\ ~ In h (h_log ra).
Proof. exact holes_refuted_without_record. Qed.
Print Assumptions C02_refuted_restart_forgets_missing.

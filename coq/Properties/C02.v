(** C02 — After writes stop and peers reconnect, every replica receives every write. *)
From Orbit Require Import Spec.Statements Proofs.NetProofs Proofs.ReplicatorProofs.

(** Set-level network model: for EVERY history of writes interleaved with arbitrary gains
    (a replica may at any time merge any set of existing entries: whatever announcements
    were lost, duplicated or reordered, whatever a partition let through, whatever a restart
    reloaded), after the final phase (all links up, every ordered pair exchanges cached heads
    and the receiver fetches their ancestry) all replicas hold the same entries, namely every
    entry ever written — hence, by C01, the same state. *)
Theorem C02_converges :
  forall n steps a b ra rb,
    (2 <= n)%nat ->
    let s := final_phase (nrun steps (ninit n)) in
    nth_error (n_reps s) a = Some ra -> nth_error (n_reps s) b = Some rb ->
    same_setN (n_log ra) (n_log rb) /\
    (forall h, In h (map u_hash (n_univ s)) -> In h (n_log ra)).
Proof. exact net_converges. Qed.
Print Assumptions C02_converges.

(** The invariant behind it: at every reachable state every held entry lies in the ancestry
    of a cached head (what AddOperation and the merge persist and what is sent on reconnect),
    and every entry is held by its writer. *)
Theorem C02_cover_invariant :
  forall n steps i rp,
    let s := nrun steps (ninit n) in
    nth_error (n_reps s) i = Some rp ->
    (forall h, In h (n_log rp) -> In h (anc_set (n_univ s) (n_cached rp))) /\
    (forall h, In (h, i) (n_owner s) -> In h (n_log rp)).
Proof. exact net_cover. Qed.
Print Assumptions C02_cover_invariant.

(** The step "the receiver fetches the whole ancestry of the announced heads" is the
    replicator theorem: for every schedule (any fetch order, failures, cancellations), at rest
    with no fetch left failed every valid entry of the ancestry of every requested head is in
    the log; and a failed fetch is retried by the next request. *)
Theorem C02_fetch_completes :
  forall U slots sched s,
    (1 <= slots)%nat ->
    s = rrun rmech_fixed U sched (rinit slots []) ->
    rquiet s -> no_failed s ->
    forall c heads head h,
      In (RLoad c heads) sched -> In head heads -> ureach U head h -> uvalid U h ->
      In h (r_log s).
Proof. exact repl_complete. Qed.
Print Assumptions C02_fetch_completes.

(** Persisting the heads of merged batches is needed: a relay that sends only what it has
    cached cannot pass on entries whose heads it did not cache. *)
Theorem C02_refuted_without_remote_heads :
  exists U (a b : nrep),
    (forall h, In h (n_log a) -> In h (map u_hash U)) /\
    ~ same_setN (n_log (exchange U (mkNR (n_log a) []) b)) (n_log (exchange U a b)).
Proof. exact net_refuted_without_remote_heads. Qed.
Print Assumptions C02_refuted_without_remote_heads.

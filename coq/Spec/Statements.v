(** The lemma statements the property theorems rest on, stated once so that the
    proofs ([Proofs/*.v]) and the property files ([Properties/*.v]) cannot drift. *)
From Orbit Require Export Spec.LogSpec Spec.Replay Spec.Window.

(** * Window queries (C08) *)
Definition S_query_window : Prop :=
  forall (L : list entry) (b : bound) (a : option Z) (w : list entry),
    NoDup (hashes L) -> window L b a = Some w -> evlog_query L b a = w.

Definition S_get_entry : Prop :=
  forall (L : list entry) (x : entry),
    NoDup (hashes L) -> In x L -> evlog_query L (BGte (eh x)) (Some 1) = [x].

(** * Index refinement (C06, C07) *)
Definition S_kv_update_lookup : Prop :=
  forall vals m0 k,
    (forall e, In e vals -> kv_op_ok e = true) ->
    alookup bytes_eqb k (kv_update vals m0) =
    if existsb (kv_touches k) vals then kv_replay vals k else alookup bytes_eqb k m0.

Definition S_kv_run_represents : Prop :=
  forall hist,
    grows hist ->
    (forall vals e, In vals hist -> In e vals -> kv_op_ok e = true) ->
    represents (kv_run hist) (kv_replay (last hist [])).

Definition S_doc_update_lookup : Prop :=
  forall vals m0 k,
    (forall e, In e vals -> doc_op_ok e) ->
    alookup bytes_eqb k (doc_update true vals m0) =
    if existsb (doc_touches k) vals then doc_replay vals k else alookup bytes_eqb k m0.

Definition S_doc_run_represents : Prop :=
  forall hist,
    grows hist ->
    (forall vals e, In vals hist -> In e vals -> doc_op_ok e) ->
    represents (doc_run true hist) (doc_replay (last hist [])).

(** the pinned commit's PUTALL bookkeeping (marks the operation key "") is wrong *)
Definition S_doc_refuted_without_marking : Prop :=
  exists hist,
    grows hist /\
    (forall vals e, In vals hist -> In e vals -> doc_op_ok e) /\
    ~ represents (doc_run false hist) (doc_replay (last hist [])).

Definition S_doc_get_exact : Prop :=
  forall ci partial search m k v,
    In (k, v) (doc_get ci partial search m) <-> (In (k, v) m /\ doc_match ci partial search k = true).

Definition S_contains_spec : Prop :=
  forall s sub, contains s sub = true <-> exists pre post, s = pre ++ sub ++ post.

(** * Log core *)

(** L1: traversal yields exactly the reachable set, newest first. *)
Definition S_traverse_spec : Prop :=
  forall U ents roots,
    WF U -> incl ents U -> incl roots U -> NoDup (hashes ents) ->
    (forall e, In e (traverse ents roots (-1)) <-> reach ents roots e) /\
    desc_sorted (traverse ents roots (-1)).

Definition S_sorted_unique : Prop :=
  forall a b, asc_sorted a -> asc_sorted b -> same_set a b -> a = b.

Definition S_sort_desc_spec : Prop :=
  forall U l, WF U -> incl l U -> NoDup l ->
    desc_sorted (sort_desc l) /\ same_set (sort_desc l) l.

(** every entry of a well-formed log is reachable from its heads *)
Definition S_all_reachable : Prop :=
  forall U l, WF U -> log_ok U l ->
    forall e, In e (lents l) -> reach (lents l) (lheads l) e.

(** values = the ascending sort of the entry set *)
Definition S_values_canonical : Prop :=
  forall U l, WF U -> log_ok U l ->
    same_set (values l) (lents l) /\ asc_sorted (values l).

(** L2/L3 for a local append *)
Definition S_append_ok : Prop :=
  forall U l h w o refs acc e l',
    WF U -> log_ok U l -> ~ In h (hashes U) ->
    (forall x, In x U -> ecid x = w -> etime x <= lclock l) ->
    fst (append l h w w w w o refs acc) = Ok (e, l') ->
    WF (U ++ [e]) /\ log_ok (U ++ [e]) l' /\ lid l' = lid l /\
    lents l' = lents l ++ [e] /\ lheads l' = [e] /\
    eh e = h /\ ecid e = w /\ elog e = lid l /\ eop e = o /\ acc e = true /\
    etime e = lclock l' /\ (forall x, In x (lents l) -> key_lt x e).

Definition S_append_denied : Prop :=
  forall l h w o refs acc e1 l1,
    append l h w w w w o refs acc = (e1, l1) ->
    (forall e, acc e = false) ->
    e1 = Err EDenied /\ lents l1 = lents l /\ lheads l1 = lheads l /\ lnext l1 = lnext l.

(** L2/L3 for the join of one fetched entry (what the replicator hands to the store) *)
Definition S_join_single_spec : Prop :=
  forall U l x acc,
    WF U -> log_ok U l -> In x U -> elog x = lid l ->
    match join l (log_of_entries (lid l) [x]) (-1) acc with
    | Ok l' => log_ok U l' /\ lid l' = lid l /\
               ((has_entry (eh x) (lents l) = true /\ lents l' = lents l) \/
                (has_entry (eh x) (lents l) = false /\ acc x = true /\ lents l' = lents l ++ [x]))
    | Err _ => has_entry (eh x) (lents l) = false /\ acc x = false
    | Panic _ => False
    end.

(** * Global system (C01, C06, C07, C08) *)

(** [x] occurs strictly before [y] in [l] *)
Definition before {A} (x y : A) (l : list A) : Prop :=
  exists l1 l2 l3, l = l1 ++ x :: l2 ++ y :: l3.

Definition kv_okop (o : op) : Prop :=
  match o with OPut (Some _) _ | ODel (Some _) => True | _ => False end.
Definition doc_okop (o : op) : Prop :=
  match o with
  | OPut (Some _) _ | ODel (Some _) => True
  | OPutAll docs => NoDup (map fst docs)
  | _ => False
  end.
Definition any_okop (o : op) : Prop := True.

Section GlobalStatements.
  Variable marks cont : bool.
  Variable acc : entry -> bool.
  Variable n : nat.
  Variable dbid : N.

  (** invariant of every reachable global state *)
  Record ginv (g : gstate) : Prop := {
    gi_wf    : WF (guniv g);
    gi_len   : length (greps g) = n;
    gi_logs  : forall i rs, nth_error (greps g) i = Some rs ->
                 log_ok (guniv g) (rlog rs) /\ lid (rlog rs) = dbid;
    gi_univ  : forall e, In e (guniv g) -> elog e = dbid /\ acc e = true;
    gi_own   : forall i rs x, nth_error (greps g) i = Some rs ->
                 In x (guniv g) -> ecid x = writer_of i -> In x (lents (rlog rs));
    gi_cids  : forall x, In x (guniv g) -> exists i, (i < n)%nat /\ ecid x = writer_of i;
    gi_order : forall p q e1 e2, nth_error (guniv g) p = Some e1 -> nth_error (guniv g) q = Some e2 ->
                 (p < q)%nat -> ecid e1 = ecid e2 -> key_lt e1 e2
  }.

  Definition S_greach_inv : Prop :=
    forall okop g, greach marks cont acc okop n dbid g -> ginv g.

  (** C01: equal entry sets => equal listing and heads, whatever the delivery history *)
  Definition S_convergence_log : Prop :=
    forall okop g a b ra rb,
      greach marks cont acc okop n dbid g ->
      nth_error (greps g) a = Some ra -> nth_error (greps g) b = Some rb ->
      same_set (lents (rlog ra)) (lents (rlog rb)) ->
      values (rlog ra) = values (rlog rb) /\ heads_sorted (rlog ra) = heads_sorted (rlog rb).

  (** the listing of every replica is the ascending sort of its entry set *)
  Definition S_values_sorted : Prop :=
    forall okop g i rs,
      greach marks cont acc okop n dbid g -> nth_error (greps g) i = Some rs ->
      same_set (values (rlog rs)) (lents (rlog rs)) /\ asc_sorted (values (rlog rs)).

  (** C06: the kv view of every replica is the last-writer-wins replay of its listing *)
  Definition S_kv_view : Prop :=
    forall g i rs,
      greach marks cont acc kv_okop n dbid g -> nth_error (greps g) i = Some rs ->
      represents (rkv rs) (kv_replay (values (rlog rs))).

  (** C07: likewise for the document view, when the PUTALL bookkeeping marks document keys *)
  Definition S_doc_view : Prop :=
    marks = true ->
    forall g i rs,
      greach marks cont acc doc_okop n dbid g -> nth_error (greps g) i = Some rs ->
      represents (rdoc rs) (doc_replay (values (rlog rs))).

  (** C06/C08: an entry written by a replica sorts after everything that replica held *)
  Definition S_write_after_seen : Prop :=
    forall okop g r h refs o rs,
      greach marks cont acc okop n dbid g -> admissible okop g (GWrite r h refs o) ->
      nth_error (greps g) r = Some rs ->
      forall e, In e (guniv (gstep_run marks cont acc g (GWrite r h refs o))) -> ~ In e (guniv g) ->
      eh e = h /\ forall x, In x (lents (rlog rs)) -> key_lt x e.

  (** C08: a step never removes an entry and never reorders two listed entries *)
  Definition S_step_monotone : Prop :=
    forall okop g s i rs rs',
      greach marks cont acc okop n dbid g -> admissible okop g s ->
      nth_error (greps g) i = Some rs ->
      nth_error (greps (gstep_run marks cont acc g s)) i = Some rs' ->
      incl (values (rlog rs)) (values (rlog rs')) /\
      forall x y, before x y (values (rlog rs)) -> before x y (values (rlog rs')).

  (** C08: a writer's own entries are listed in the order it wrote them *)
  Definition S_writer_order : Prop :=
    forall okop g i rs p q e1 e2,
      greach marks cont acc okop n dbid g -> nth_error (greps g) i = Some rs ->
      nth_error (guniv g) p = Some e1 -> nth_error (guniv g) q = Some e2 -> (p < q)%nat ->
      ecid e1 = ecid e2 -> In e1 (values (rlog rs)) -> In e2 (values (rlog rs)) ->
      before e1 e2 (values (rlog rs)).

  (** C01 for the views: equal entry sets => equal key-value maps / documents *)
  Definition S_convergence_kv : Prop :=
    forall g a b ra rb,
      greach marks cont acc kv_okop n dbid g ->
      nth_error (greps g) a = Some ra -> nth_error (greps g) b = Some rb ->
      same_set (lents (rlog ra)) (lents (rlog rb)) ->
      forall k, alookup bytes_eqb k (rkv ra) = alookup bytes_eqb k (rkv rb).

  Definition S_convergence_doc : Prop :=
    marks = true ->
    forall g a b ra rb,
      greach marks cont acc doc_okop n dbid g ->
      nth_error (greps g) a = Some ra -> nth_error (greps g) b = Some rb ->
      same_set (lents (rlog ra)) (lents (rlog rb)) ->
      forall k, alookup bytes_eqb k (rdoc ra) = alookup bytes_eqb k (rdoc rb).
End GlobalStatements.

(** The lemma statements the property theorems rest on, stated once so that the
    proofs ([Proofs/*.v]) and the property files ([Properties/*.v]) cannot drift. *)
From Orbit Require Export Spec.LogSpec Spec.Replay Spec.Window.

(** * Window queries (C08) *)
Definition S_query_window : Prop :=
  forall (L : list entry) (b : bound) (a : option Z) (w : list entry),
    NoDup (hashes L) -> window L b a = Some w -> evlog_query L b a = w.

Definition S_get_entry : Prop :=
  forall (L : list entry) (x : entry),
    NoDup (hashes L) -> In x L -> evlog_query L (BGte (eh x)) (Some 1) = [x].

(** * Index refinement (C06, C07) *)
Definition S_kv_update_lookup : Prop :=
  forall vals m0 k,
    (forall e, In e vals -> kv_op_ok e = true) ->
    alookup bytes_eqb k (kv_update vals m0) =
    if existsb (kv_touches k) vals then kv_replay vals k else alookup bytes_eqb k m0.

Definition S_kv_run_represents : Prop :=
  forall hist,
    grows hist ->
    (forall vals e, In vals hist -> In e vals -> kv_op_ok e = true) ->
    represents (kv_run hist) (kv_replay (last hist [])).

Definition S_doc_update_lookup : Prop :=
  forall vals m0 k,
    (forall e, In e vals -> doc_op_ok e) ->
    alookup bytes_eqb k (doc_update true vals m0) =
    if existsb (doc_touches k) vals then doc_replay vals k else alookup bytes_eqb k m0.

Definition S_doc_run_represents : Prop :=
  forall hist,
    grows hist ->
    (forall vals e, In vals hist -> In e vals -> doc_op_ok e) ->
    represents (doc_run true hist) (doc_replay (last hist [])).

(** the pinned commit's PUTALL bookkeeping (marks the operation key "") is wrong *)
Definition S_doc_refuted_without_marking : Prop :=
  exists hist,
    grows hist /\
    (forall vals e, In vals hist -> In e vals -> doc_op_ok e) /\
    ~ represents (doc_run false hist) (doc_replay (last hist [])).

Definition S_doc_get_exact : Prop :=
  forall ci partial search m k v,
    In (k, v) (doc_get ci partial search m) <-> (In (k, v) m /\ doc_match ci partial search k = true).

Definition S_contains_spec : Prop :=
  forall s sub, contains s sub = true <-> exists pre post, s = pre ++ sub ++ post.

(** * Log core *)

(** L1: traversal yields exactly the reachable set, newest first. *)
Definition S_traverse_spec : Prop :=
  forall U ents roots,
    WF U -> incl ents U -> incl roots U -> NoDup (hashes ents) ->
    (forall e, In e (traverse ents roots (-1)) <-> reach ents roots e) /\
    desc_sorted (traverse ents roots (-1)).

Definition S_sorted_unique : Prop :=
  forall a b, asc_sorted a -> asc_sorted b -> same_set a b -> a = b.

Definition S_sort_desc_spec : Prop :=
  forall U l, WF U -> incl l U -> NoDup l ->
    desc_sorted (sort_desc l) /\ same_set (sort_desc l) l.

(** every entry of a well-formed log is reachable from its heads *)
Definition S_all_reachable : Prop :=
  forall U l, WF U -> log_ok U l ->
    forall e, In e (lents l) -> reach (lents l) (lheads l) e.

(** values = the ascending sort of the entry set *)
Definition S_values_canonical : Prop :=
  forall U l, WF U -> log_ok U l ->
    same_set (values l) (lents l) /\ asc_sorted (values l).

(** L2/L3 for a local append *)
Definition S_append_ok : Prop :=
  forall U l h w o refs acc e l',
    WF U -> log_ok U l -> ~ In h (hashes U) ->
    (forall x, In x U -> ecid x = w -> etime x <= lclock l) ->
    fst (append l h w w w w o refs acc) = Ok (e, l') ->
    WF (U ++ [e]) /\ log_ok (U ++ [e]) l' /\ lid l' = lid l /\
    lents l' = lents l ++ [e] /\ lheads l' = [e] /\
    eh e = h /\ ecid e = w /\ elog e = lid l /\ eop e = o /\ acc e = true /\
    etime e = lclock l' /\ (forall x, In x (lents l) -> key_lt x e).

Definition S_append_denied : Prop :=
  forall l h w o refs acc e1 l1,
    append l h w w w w o refs acc = (e1, l1) ->
    (forall e, acc e = false) ->
    e1 = Err EDenied /\ lents l1 = lents l /\ lheads l1 = lheads l /\ lnext l1 = lnext l.

(** L2/L3 for the join of one fetched entry (what the replicator hands to the store) *)
Definition S_join_single_spec : Prop :=
  forall U l x acc,
    WF U -> log_ok U l -> In x U -> elog x = lid l ->
    match join l (log_of_entries (lid l) [x]) (-1) acc with
    | Ok l' => log_ok U l' /\ lid l' = lid l /\
               ((has_entry (eh x) (lents l) = true /\ lents l' = lents l) \/
                (has_entry (eh x) (lents l) = false /\ acc x = true /\ lents l' = lents l ++ [x]))
    | Err _ => has_entry (eh x) (lents l) = false /\ acc x = false
    | Panic _ => False
    end.

(** The lemma statements the property theorems rest on, stated once so that the
    proofs ([Proofs/*.v]) and the property files ([Properties/*.v]) cannot drift. *)
From Orbit Require Export Spec.LogSpec Spec.Replay Spec.Window.

(** * Window queries (C08) *)
Definition S_query_window : Prop :=
  forall (L : list entry) (b : bound) (a : option Z) (w : list entry),
    NoDup (hashes L) -> window L b a = Some w -> evlog_query L b a = w.

Definition S_get_entry : Prop :=
  forall (L : list entry) (x : entry),
    NoDup (hashes L) -> In x L -> evlog_query L (BGte (eh x)) (Some 1) = [x].

(** * Index refinement (C06, C07) *)
Definition S_kv_update_lookup : Prop :=
  forall vals m0 k,
    (forall e, In e vals -> kv_op_ok e = true) ->
    alookup bytes_eqb k (kv_update vals m0) =
    if existsb (kv_touches k) vals then kv_replay vals k else alookup bytes_eqb k m0.

Definition S_kv_run_represents : Prop :=
  forall hist,
    grows hist ->
    (forall vals e, In vals hist -> In e vals -> kv_op_ok e = true) ->
    represents (kv_run hist) (kv_replay (last hist [])).

Definition S_doc_update_lookup : Prop :=
  forall vals m0 k,
    (forall e, In e vals -> doc_op_ok e) ->
    alookup bytes_eqb k (doc_update true vals m0) =
    if existsb (doc_touches k) vals then doc_replay vals k else alookup bytes_eqb k m0.

Definition S_doc_run_represents : Prop :=
  forall hist,
    grows hist ->
    (forall vals e, In vals hist -> In e vals -> doc_op_ok e) ->
    represents (doc_run true hist) (doc_replay (last hist [])).

(** the pinned commit's PUTALL bookkeeping (marks the operation key "") is wrong *)
Definition S_doc_refuted_without_marking : Prop :=
  exists hist,
    grows hist /\
    (forall vals e, In vals hist -> In e vals -> doc_op_ok e) /\
    ~ represents (doc_run false hist) (doc_replay (last hist [])).

Definition S_doc_get_exact : Prop :=
  forall ci partial search m k v,
    In (k, v) (doc_get ci partial search m) <-> (In (k, v) m /\ doc_match ci partial search k = true).

Definition S_contains_spec : Prop :=
  forall s sub, contains s sub = true <-> exists pre post, s = pre ++ sub ++ post.

(** * Log core *)

(** L1: traversal yields exactly the reachable set, newest first. *)
Definition S_traverse_spec : Prop :=
  forall U ents roots,
    WF U -> incl ents U -> incl roots U -> NoDup (hashes ents) ->
    (forall e, In e (traverse ents roots (-1)) <-> reach ents roots e) /\
    desc_sorted (traverse ents roots (-1)).

Definition S_sorted_unique : Prop :=
  forall a b, asc_sorted a -> asc_sorted b -> same_set a b -> a = b.

Definition S_sort_desc_spec : Prop :=
  forall U l, WF U -> incl l U -> NoDup l ->
    desc_sorted (sort_desc l) /\ same_set (sort_desc l) l.

(** every entry of a well-formed log is reachable from its heads *)
Definition S_all_reachable : Prop :=
  forall U l, WF U -> log_ok U l ->
    forall e, In e (lents l) -> reach (lents l) (lheads l) e.

(** values = the ascending sort of the entry set *)
Definition S_values_canonical : Prop :=
  forall U l, WF U -> log_ok U l ->
    same_set (values l) (lents l) /\ asc_sorted (values l).

(** L2/L3 for a local append *)
Definition S_append_ok : Prop :=
  forall U l h w o refs acc e l',
    WF U -> log_ok U l -> ~ In h (hashes U) ->
    (forall x, In x U -> ecid x = w -> etime x <= lclock l) ->
    fst (append l h w w w w o refs acc) = Ok (e, l') ->
    WF (U ++ [e]) /\ log_ok (U ++ [e]) l' /\ lid l' = lid l /\
    lents l' = lents l ++ [e] /\ lheads l' = [e] /\
    eh e = h /\ ecid e = w /\ elog e = lid l /\ eop e = o /\ acc e = true /\
    etime e = lclock l' /\ (forall x, In x (lents l) -> key_lt x e).

Definition S_append_denied : Prop :=
  forall l h w o refs acc e1 l1,
    append l h w w w w o refs acc = (e1, l1) ->
    (forall e, acc e = false) ->
    e1 = Err EDenied /\ lents l1 = lents l /\ lheads l1 = lheads l /\ lnext l1 = lnext l.

(** L2/L3 for the join of one fetched entry (what the replicator hands to the store) *)
Definition S_join_single_spec : Prop :=
  forall U l x acc,
    WF U -> log_ok U l -> In x U -> elog x = lid l ->
    match join l (log_of_entries (lid l) [x]) (-1) acc with
    | Ok l' => log_ok U l' /\ lid l' = lid l /\
               ((has_entry (eh x) (lents l) = true /\ lents l' = lents l) \/
                (has_entry (eh x) (lents l) = false /\ acc x = true /\ lents l' = lents l ++ [x]))
    | Err _ => has_entry (eh x) (lents l) = false /\ acc x = false
    | Panic _ => False
    end.

(** * Global system (C01, C06, C07, C08) *)

(** [x] occurs strictly before [y] in [l] *)
Definition before {A} (x y : A) (l : list A) : Prop :=
  exists l1 l2 l3, l = l1 ++ x :: l2 ++ y :: l3.

Definition kv_okop (o : op) : Prop :=
  match o with OPut (Some _) _ | ODel (Some _) => True | _ => False end.
Definition doc_okop (o : op) : Prop :=
  match o with
  | OPut (Some _) _ | ODel (Some _) => True
  | OPutAll docs => NoDup (map fst docs)
  | _ => False
  end.
Definition any_okop (o : op) : Prop := True.

Section GlobalStatements.
  Variable marks cont : bool.
  Variable acc : entry -> bool.
  Variable n : nat.
  Variable dbid : N.

  (** invariant of every reachable global state *)
  Record ginv (g : gstate) : Prop := {
    gi_wf    : WF (guniv g);
    gi_len   : length (greps g) = n;
    gi_logs  : forall i rs, nth_error (greps g) i = Some rs ->
                 log_ok (guniv g) (rlog rs) /\ lid (rlog rs) = dbid;
    gi_univ  : forall e, In e (guniv g) -> elog e = dbid /\ acc e = true;
    gi_own   : forall i rs x, nth_error (greps g) i = Some rs ->
                 In x (guniv g) -> ecid x = writer_of i -> In x (lents (rlog rs));
    gi_cids  : forall x, In x (guniv g) -> exists i, (i < n)%nat /\ ecid x = writer_of i;
    gi_order : forall p q e1 e2, nth_error (guniv g) p = Some e1 -> nth_error (guniv g) q = Some e2 ->
                 (p < q)%nat -> ecid e1 = ecid e2 -> key_lt e1 e2
  }.

  Definition S_greach_inv : Prop :=
    forall okop g, greach marks cont acc okop n dbid g -> ginv g.

  (** C01: equal entry sets => equal listing and heads, whatever the delivery history *)
  Definition S_convergence_log : Prop :=
    forall okop g a b ra rb,
      greach marks cont acc okop n dbid g ->
      nth_error (greps g) a = Some ra -> nth_error (greps g) b = Some rb ->
      same_set (lents (rlog ra)) (lents (rlog rb)) ->
      values (rlog ra) = values (rlog rb) /\ heads_sorted (rlog ra) = heads_sorted (rlog rb).

  (** the listing of every replica is the ascending sort of its entry set *)
  Definition S_values_sorted : Prop :=
    forall okop g i rs,
      greach marks cont acc okop n dbid g -> nth_error (greps g) i = Some rs ->
      same_set (values (rlog rs)) (lents (rlog rs)) /\ asc_sorted (values (rlog rs)).

  (** C06: the kv view of every replica is the last-writer-wins replay of its listing *)
  Definition S_kv_view : Prop :=
    forall g i rs,
      greach marks cont acc kv_okop n dbid g -> nth_error (greps g) i = Some rs ->
      represents (rkv rs) (kv_replay (values (rlog rs))).

  (** C07: likewise for the document view, when the PUTALL bookkeeping marks document keys *)
  Definition S_doc_view : Prop :=
    marks = true ->
    forall g i rs,
      greach marks cont acc doc_okop n dbid g -> nth_error (greps g) i = Some rs ->
      represents (rdoc rs) (doc_replay (values (rlog rs))).

  (** C06/C08: an entry written by a replica sorts after everything that replica held *)
  Definition S_write_after_seen : Prop :=
    forall okop g r h refs o rs,
      greach marks cont acc okop n dbid g -> admissible okop g (GWrite r h refs o) ->
      nth_error (greps g) r = Some rs ->
      forall e, In e (guniv (gstep_run marks cont acc g (GWrite r h refs o))) -> ~ In e (guniv g) ->
      eh e = h /\ forall x, In x (lents (rlog rs)) -> key_lt x e.

  (** C08: a step never removes an entry and never reorders two listed entries *)
  Definition S_step_monotone : Prop :=
    forall okop g s i rs rs',
      greach marks cont acc okop n dbid g -> admissible okop g s ->
      nth_error (greps g) i = Some rs ->
      nth_error (greps (gstep_run marks cont acc g s)) i = Some rs' ->
      incl (values (rlog rs)) (values (rlog rs')) /\
      forall x y, before x y (values (rlog rs)) -> before x y (values (rlog rs')).

  (** C08: a writer's own entries are listed in the order it wrote them *)
  Definition S_writer_order : Prop :=
    forall okop g i rs p q e1 e2,
      greach marks cont acc okop n dbid g -> nth_error (greps g) i = Some rs ->
      nth_error (guniv g) p = Some e1 -> nth_error (guniv g) q = Some e2 -> (p < q)%nat ->
      ecid e1 = ecid e2 -> In e1 (values (rlog rs)) -> In e2 (values (rlog rs)) ->
      before e1 e2 (values (rlog rs)).

  (** C01 for the views: equal entry sets => equal key-value maps / documents *)
  Definition S_convergence_kv : Prop :=
    forall g a b ra rb,
      greach marks cont acc kv_okop n dbid g ->
      nth_error (greps g) a = Some ra -> nth_error (greps g) b = Some rb ->
      same_set (lents (rlog ra)) (lents (rlog rb)) ->
      forall k, alookup bytes_eqb k (rkv ra) = alookup bytes_eqb k (rkv rb).

  Definition S_convergence_doc : Prop :=
    marks = true ->
    forall g a b ra rb,
      greach marks cont acc doc_okop n dbid g ->
      nth_error (greps g) a = Some ra -> nth_error (greps g) b = Some rb ->
      same_set (lents (rlog ra)) (lents (rlog rb)) ->
      forall k, alookup bytes_eqb k (rdoc ra) = alookup bytes_eqb k (rdoc rb).
End GlobalStatements.

(** * Replication status (C19) *)
From Orbit Require Export Model.Status.

Definition status_le (a b : status) : Prop := s_progress a <= s_progress b /\ s_max a <= s_max b.

(** event sequences of one open store: log lengths never decrease, times are non-negative *)
Fixpoint ev_wf (len0 : Z) (evs : list sev) : Prop :=
  match evs with
  | [] => True
  | e :: r => len0 <= ev_len_before e /\ ev_len_before e <= ev_len e /\ 0 <= ev_time e /\ ev_wf (ev_len e) r
  end.

(** C19 monotone: with the monotone maximum, along every event sequence neither value
    ever decreases and progress <= max *)
Definition S_status_monotone : Prop :=
  forall sp evs s,
    s_progress s <= s_max s ->
    forall i a b,
      nth_error (trace_status true sp evs s) i = Some a ->
      nth_error (trace_status true sp evs s) (S i) = Some b ->
      status_le a b /\ s_progress b <= s_max b.

(** the pinned commit's maximum can regress (on a well-formed event sequence) *)
Definition S_status_refuted_max : Prop :=
  exists evs, ev_wf 0 evs /\
    exists i a b, nth_error (trace_status false false evs status0) i = Some a /\
                  nth_error (trace_status false false evs status0) (S i) = Some b /\ s_max b < s_max a.

(** C19 at rest: after a write, a merge (or, with [sp], a snapshot load) closing a history
    whose announced times and lengths never exceed the final length L: progress = max = L *)
Definition S_status_at_rest : Prop :=
  forall sp evs L last,
    0 <= L ->
    (forall e, In e (evs ++ [last]) -> ev_time e <= L /\ ev_len e <= L /\ ev_len_before e <= L) ->
    ((exists t, last = EvWrite t L) \/ last = EvMerged L \/ (sp = true /\ exists mc lb, last = EvSnapshot mc lb L)) ->
    run_status true sp (evs ++ [last]) status0 = mkS L L.

(** the pinned commit leaves progress behind after a snapshot load *)
Definition S_status_refuted_snapshot : Prop :=
  run_status true false [EvSnapshot 4 0 4] status0 = mkS 0 4.

(** Load from disk: one progress event per fetched entry / cached head, all before the
    join (len = 0), in any order: when the times cover 1..T (a log whose largest time is T
    holds an entry of every smaller time), progress = max = T at rest. *)
Definition S_status_after_load : Prop :=
  forall sp (times : list Z) T,
    0 <= T -> (forall t, In t times -> 0 < t <= T) -> (forall v, 0 < v <= T -> In v times) ->
    run_status true sp (map (fun t => EvProgress t 0) times) status0 = mkS T T.

(** * Concurrent status recalculations (C19, schedules) *)
From Orbit Require Export Model.StatusConc.

Definition cstatus_le (a b : cstate) : Prop :=
  status_le (c_st a) (c_st b) /\ c_len a <= c_len b.

(** the invariant of the concurrent model: progress never exceeds the larger of the maximum
    and the log length (progress <= max alone is NOT invariant once the log can grow between
    the two halves of recalculateReplicationStatus, mutex or not) *)
Definition cstatus_inv (c : cstate) : Prop :=
  s_progress (c_st c) <= Z.max (s_max (c_st c)) (c_len c).

(** C19 monotone under every schedule: with the mutex (atomic = true) and the monotone
    maximum, for every set of threads, every schedule and every pair of consecutive states:
    neither value (nor the log length) decreases, and the invariant is kept *)
Definition S_statusconc_monotone : Prop :=
  forall (ps : list prog) (sched : list label) (len0 : Z) (s : status),
    s_progress s <= Z.max (s_max s) len0 ->
    forall i a b,
      nth_error (ctrace true true sched (cinit len0 s ps)) i = Some a ->
      nth_error (ctrace true true sched (cinit len0 s ps)) (S i) = Some b ->
      cstatus_le a b /\ cstatus_inv b.

(** upper bounds: when the announced times and the log length never exceed B, neither does
    the maximum nor progress, in every reachable state *)
Definition S_statusconc_bounded : Prop :=
  forall (ps : list prog) (sched : list label) (len0 : Z) (s : status) (B : Z),
    s_progress s <= Z.max (s_max s) len0 -> s_max s <= B ->
    (forall p a, In p ps -> In a (prog_args p) -> a <= B) ->
    let c := crun true true sched (cinit len0 s ps) in
    c_len c <= B ->
    s_max (c_st c) <= B /\ s_progress (c_st c) <= B /\ cstatus_inv c.

(** linearisation: with the mutex every reachable status is the result of running the
    SEQUENTIAL primitives of Model/Status.v one after the other, each on a log length
    between the initial and the current one *)
Definition S_statusconc_sequential : Prop :=
  forall (mm : bool) (ps : list prog) (sched : list label) (len0 : Z) (s : status),
    let c := crun true mm sched (cinit len0 s ps) in
    exists prims : list (phase * Z),
      c_st c = fold_left (prim_step mm) prims s /\
      (forall x, In x prims -> len0 <= snd x <= c_len c).

(** C19 at rest under every schedule: sched1, then sched2 during which the log does not grow
    any more (its length stays L); the announced times and the initial maximum do not
    exceed L (complete log); some thread i still had its maximum recalculation to read and
    some thread j (possibly the same: recalculateReplicationStatus) its progress
    recalculation when the log reached its final length; all threads have finished:
    progress = max = L *)
Definition S_statusconc_at_rest : Prop :=
  forall (ps : list prog) (sched1 sched2 : list label) (len0 : Z) (s : status) i j ti tj a,
    s_progress s <= Z.max (s_max s) len0 ->
    let c1 := crun true true sched1 (cinit len0 s ps) in
    let c2 := crun true true sched2 c1 in
    let L := c_len c1 in
    c_len c2 = L ->
    s_max s <= L ->
    (forall p x, In p ps -> In x (prog_args p) -> x <= L) ->
    nth_error (c_thr c1) i = Some ti -> In (PMax a) (t_todo ti) -> t_loc ti = None ->
    nth_error (c_thr c1) j = Some tj -> In PProg (t_todo tj) -> t_loc tj = None ->
    threads_done c2 ->
    c_st c2 = mkS L L.

(** without the mutex (the code before the repair) the maximum decreases: a local write of
    time 6 on a log of 5 entries reads max = 5, an announcement of clock 9 raises the
    maximum to 9, the writer then stores 6 *)
Definition S_statusconc_refuted_nonatomic : Prop :=
  exists (ps : list prog) (sched : list label) (len0 : Z) (s : status),
    s_progress s <= s_max s /\
    exists i a b,
      nth_error (ctrace false true sched (cinit len0 s ps)) i = Some a /\
      nth_error (ctrace false true sched (cinit len0 s ps)) (S i) = Some b /\
      s_max (c_st b) < s_max (c_st a).

(** ... progress decreases, and at rest (all threads finished, the last status recalculation
    started after the last growth) progress differs from the maximum *)
Definition S_statusconc_refuted_nonatomic_progress : Prop :=
  exists (ps : list prog) (sched : list label) (len0 : Z) (s : status),
    s_progress s <= s_max s /\
    (exists i a b,
      nth_error (ctrace false true sched (cinit len0 s ps)) i = Some a /\
      nth_error (ctrace false true sched (cinit len0 s ps)) (S i) = Some b /\
      s_progress (c_st b) < s_progress (c_st a)) /\
    let c := crun false true sched (cinit len0 s ps) in
    threads_done c /\ s_progress (c_st c) < s_max (c_st c) /\ s_max (c_st c) = c_len c.

(** * Wire codecs (C12, C13, C20) *)
From Orbit Require Export Model.Wire Model.Transport Model.Emitter Model.Writers.

Definition S_uvarint_roundtrip : Prop :=
  forall (x : N) (rest : bytes), (x < two64)%N -> read_uvarint (put_uvarint x ++ rest) = inl (x, rest).

Definition bytes_ok (bs : bytes) : Prop := Forall (fun b => (b < 256)%N) bs.

(** C12/C20: a frame within the limit decodes to itself, whatever follows *)
Definition S_frame_roundtrip : Prop :=
  forall uc (p rest : bytes),
    (N.of_nat (length p) <= frame_cap)%N ->
    frame_decode uc (frame_encode p ++ rest) = Ok p.

(** C20: an oversized frame is refused *)
Definition S_frame_oversize_refused : Prop :=
  forall uc (p rest : bytes),
    (frame_cap < N.of_nat (length p))%N -> (N.of_nat (length p) < two63)%N ->
    frame_decode uc (frame_encode p ++ rest) = Err EBadInput.

(** C12: with the unsigned comparison no byte string makes the decoder panic, and a
    decoded payload never exceeds the limit *)
Definition S_frame_total : Prop :=
  forall bs, bytes_ok bs ->
    match frame_decode true bs with
    | Panic _ => False
    | Ok p => (N.of_nat (length p) <= frame_cap)%N
    | Err _ => True
    end.

(** the pinned commit panics on a length prefix >= 2^63 *)
Definition S_frame_refuted_signed : Prop :=
  exists bs, bytes_ok bs /\ frame_decode false bs = Panic PMakeLen.

(** C13: frames shorter than 64 KiB round-trip; trailing byte ignored *)
Definition S_snap_roundtrip : Prop :=
  forall ro (frames : list bytes) bs,
    Forall (fun f => (length f < 65536)%nat) frames ->
    snap_encode ro frames = Ok bs -> snap_decode (length frames) bs = Some frames.

(** with the size check, saving either fails or produces a loadable snapshot *)
Definition S_snap_save_ok_or_error : Prop :=
  forall (frames : list bytes) bs,
    snap_encode true frames = Ok bs -> snap_decode (length frames) bs = Some frames.

(** the pinned commit silently writes an unloadable snapshot for a 64 KiB frame *)
Definition S_snap_refuted_truncation : Prop :=
  exists frames bs, snap_encode false frames = Ok bs /\ snap_decode (length frames) bs <> Some frames.

(** GetQueue never panics when sized by the unfinished tasks, and lists exactly them *)
Definition S_get_queue_total : Prop :=
  forall qlen tasks,
    get_queue true qlen tasks = Ok (map fst (filter (fun t => negb (snd t =? 2)%N) tasks)).

(** the pinned commit panics as soon as the task table holds a finished task *)
(** ... so every task that is not fetched is in the saved queue, whatever its state: waiting
    (0), being fetched (1), or failed (3, a fetch that yielded nothing and is retried with the
    next request): a store reloaded from the snapshot resumes all of them *)
Definition S_get_queue_keeps_unfinished : Prop :=
  forall qlen tasks h st, In (h, st) tasks -> st <> 2%N ->
    exists q, get_queue true qlen tasks = Ok q /\ In h q.

Definition S_get_queue_refuted : Prop :=
  exists qlen tasks, (qlen <= length tasks)%nat /\ get_queue false qlen tasks = Panic PIndexRange.

(** * Transport (C20) *)

(** for duplicate-free snapshots one poll reports exactly new\old as joins and old\new as leaves, each once *)
Definition S_peers_diff_exact : Prop :=
  forall old new, NoDup old -> NoDup new ->
    let '(j, l) := peers_diff old new in
    NoDup j /\ NoDup l /\
    (forall p, In p j <-> In p new /\ ~ In p old) /\
    (forall p, In p l <-> In p old /\ ~ In p new).

(** over any sequence of duplicate-free snapshots, replaying the emitted events yields the
    current membership: every change is reported exactly once *)
Definition S_watch_tracks_membership : Prop :=
  forall snaps, Forall (@NoDup N) snaps ->
    forall p, In p (fold_left apply_event (watch [] snaps) []) <-> In p (last snaps []).

(** between two consecutive polls with equal membership nothing is emitted *)
Definition S_watch_no_spurious : Prop :=
  forall old new, (forall p, In p old <-> In p new) -> poll_events old new = [].

(** a peer never receives its own messages; all others are forwarded once, in order, unchanged *)
Definition S_forward_spec : Prop :=
  forall self msgs,
    (forall m, In m (forward self msgs) -> fst m <> self) /\
    forward self (filter (fun m => negb (fst m =? self)%N) msgs) = forward self msgs /\
    (forall m, In m msgs -> fst m <> self -> In m (forward self msgs)) /\
    ((forall m, In m msgs -> fst m <> self) -> forward self msgs = msgs).

(** both ends derive the same channel name; distinct unordered pairs give distinct names *)
Definition S_channel_sym : Prop :=
  forall a b, channel_id a b = channel_id b a.
Definition S_channel_inj : Prop :=
  forall a b c d, channel_id a b = channel_id c d -> (a = c /\ b = d) \/ (a = d /\ b = c).

(** * Legacy emitter (C16) *)

(** with in-flight tracking: for every capacity and every schedule, what the consumer
    has received followed by everything in flight is exactly what was emitted, in order *)
Definition S_emitter_fifo : Prop :=
  forall cap sched,
    let s := erun true cap sched einit in
    e_out s ++ inflight s = emitted sched.

(** hence: received is a prefix of emitted; at quiescence it is all of it *)
Definition S_emitter_lossless : Prop :=
  forall cap sched,
    let s := erun true cap sched einit in
    (exists rest, emitted sched = e_out s ++ rest) /\ (quiescent s -> e_out s = emitted sched).

(** progress: if anything is in flight and cap >= 1, some thread can move *)
Definition S_emitter_progress : Prop :=
  forall cap s, (1 <= cap)%nat -> inflight s <> [] ->
    exists l, l <> LEmit 0%N /\ (forall x, l <> LEmit x) /\ estep true cap s l <> None.

(** the pinned commit reorders *)
Definition S_emitter_refuted : Prop :=
  exists cap sched, (1 <= cap)%nat /\
    let s := erun false cap sched einit in
    quiescent s /\ e_out s <> emitted sched.

(** * Concurrent writers (C17) *)

(** with an atomic write path: for every number of writer threads, every number of writes
    per thread (a multi-entry call or a sequence of calls is a thread that performs several
    single-entry writes) and every schedule, when all threads are done the acknowledged
    entries are pairwise distinct, there is one per write, all are in the log, the log holds
    nothing else, the view covers the whole log, recovery from the cached head restores all
    of them, and every thread got as many entries as it made writes, in append order *)
Definition S_writers_atomic : Prop :=
  forall counts sched,
    let s := wrun true sched (winitc counts) in
    all_done s ->
    NoDup (returned s) /\ length (returned s) = list_sum counts /\
    (forall e, In e (returned s) -> (1 <= e <= w_log s)%nat) /\
    w_log s = list_sum counts /\ w_view s = w_log s /\ recovered s = w_log s /\
    Forall2 (fun a c => length a = c /\ StronglySorted lt a) (acks s) counts.

(** the instance with one write per thread *)
Definition S_writers_atomic_single : Prop :=
  forall n sched,
    let s := wrun true sched (winit n) in
    all_done s ->
    NoDup (returned s) /\ length (returned s) = n /\
    (forall e, In e (returned s) -> (1 <= e <= w_log s)%nat) /\
    w_log s = n /\ w_view s = w_log s /\ recovered s = w_log s.

(** the pinned commit can persist heads out of order (an acknowledged write is lost
    after a restart) and can leave a stale view *)
Definition S_writers_refuted_recovery : Prop :=
  exists n sched, let s := wrun false sched (winit n) in all_done s /\ (recovered s < w_log s)%nat.
Definition S_writers_refuted_view : Prop :=
  exists n sched, let s := wrun false sched (winit n) in all_done s /\ (w_view s < w_log s)%nat.
(** ... and a thread in the middle of a multi-entry call can do the same to a write that
    was acknowledged to another thread while it was on its way *)
Definition S_writers_refuted_batch : Prop :=
  exists counts sched,
    let s := wrun false sched (winitc counts) in
    all_done s /\ (exists c, In c counts /\ (2 <= c)%nat) /\ (recovered s < w_log s)%nat.

(** crash points of concurrent writers: at EVERY instant of every run (not only when all the
    threads have returned) each write acknowledged so far is restored by a recovery from the
    cached head as it is at that instant *)
Definition S_writers_crash_safe : Prop :=
  forall counts sched,
    let s := wrun true sched (winitc counts) in
    forall e, In e (returned s) -> (1 <= e <= recovered s)%nat.
(** ... which the pinned commit does not give: a run and an instant at which an acknowledged
    entry is not covered by the cached head *)
Definition S_writers_refuted_crash : Prop :=
  exists counts sched,
    let s := wrun false sched (winitc counts) in
    exists e, In e (returned s) /\ (recovered s < e)%nat.

(** * Joining a fetched multi-entry log (Load from disk, LoadFromSnapshot) *)


(** Joining the log built from a bag [es] of fetched entries (what [NewFromEntryHash] /
    [NewFromJSON] hand to [Join]) into an ancestry-closed log [l], when [es] together with
    [l] is ancestry-closed (the fetcher stops only at entries [l] already holds): the
    result holds exactly the union, is well-formed and ancestry-closed again. *)
Definition S_join_multi : Prop :=
  forall U l es acc,
    WF U -> log_ok U l -> next_closed (lents l) ->
    incl es U -> NoDup (hashes es) -> next_closed (es ++ lents l) ->
    (forall e, In e es -> elog e = lid l /\ acc e = true) ->
    exists l',
      join l (log_of_entries (lid l) es) (-1) acc = Ok l' /\
      log_ok U l' /\ lid l' = lid l /\
      same_set (lents l') (lents l ++ es) /\ next_closed (lents l').

(** Reloading a saved log into a fresh store reproduces listing and heads:
    the snapshot and load-from-disk routes of C01 / C05 / C13. *)
Definition S_reload_same_state : Prop :=
  forall U l acc,
    WF U -> log_ok U l -> next_closed (lents l) ->
    (forall e, In e (lents l) -> acc e = true) ->
    exists l',
      join (empty_log (lid l)) (log_of_entries (lid l) (lents l)) (-1) acc = Ok l' /\
      log_ok U l' /\ same_set (lents l') (lents l) /\
      values l' = values l /\ heads_sorted l' = heads_sorted l.

(** * Replicator and merge (C10, C11, and the replication core of C02) *)
From Orbit Require Export Model.Replicator.

(** [h'] is in the ancestry of [h]: reachable through links of entries that exist *)
Inductive ureach (U : list uent) : N -> N -> Prop :=
| ureach_refl h : ureach U h h
| ureach_step h e h' h'' : ufind h U = Some e -> In h' (u_links e) -> ureach U h' h'' -> ureach U h h''.

Definition uvalid (U : list uent) (h : N) : Prop := exists e, ufind h U = Some e /\ u_valid e = true.

Definition no_failed (s : rst) : Prop := forall h st, In (h, st) (r_tasks s) -> st <> TFailed.

(** no label of the machine is enabled: nothing will ever move again without a new request *)
Definition rstuck (m : rmech) (U : list uent) (s : rst) : Prop :=
  (forall i, rstep m U s (RSlot i) = None) /\ (forall i ok, rstep m U s (RFetched i ok) = None) /\
  rstep m U s RMerge = None.

(** With the three repairs: for EVERY schedule (any interleaving of requests, slot
    acquisitions, fetch completions in any order, fetch failures, cancellations at any
    point, merges), whenever the machine is at rest with no fetch left failed, every
    valid entry in the ancestry of every head ever requested is in the log —
    whatever invalid (rejected) entries were mixed in, wherever requests were cancelled. *)
Definition S_repl_complete : Prop :=
  forall U slots sched s,
    (1 <= slots)%nat ->
    s = rrun rmech_fixed U sched (rinit slots []) ->
    rquiet s -> no_failed s ->
    forall c heads head h,
      In (RLoad c heads) sched -> In head heads -> ureach U head h -> uvalid U h ->
      In h (r_log s).

(** with detached contexts a cancellation changes nothing but the record of it *)
Definition drop_cancel (s : rst) : rst :=
  mkRS (r_tasks s) (r_queue s) (r_workers s) (r_slots s) (r_buffer s) (r_pending s) [] (r_log s).
Definition S_repl_cancel_harmless : Prop :=
  forall U slots sched,
    drop_cancel (rrun rmech_fixed U sched (rinit slots [])) =
    drop_cancel (rrun rmech_fixed U (filter (fun l => match l with RCancel _ => false | _ => true end) sched) (rinit slots [])).

(** a failed fetch is retried by the next request, whatever that request asks for *)
Definition S_repl_retry : Prop :=
  forall U s c heads h,
    tget h (r_tasks s) = Some TFailed -> ~ In h (r_log s) ->
    exists s', rstep rmech_fixed U s (RLoad c heads) = Some s' /\ tget h (r_tasks s') = Some TAdded /\
               In h (r_queue s').

(** progress: while a worker or an unmerged batch exists and a slot discipline holds, some label is enabled *)
Definition S_repl_progress : Prop :=
  forall U slots sched s,
    (1 <= slots)%nat -> s = rrun rmech_fixed U sched (rinit slots []) ->
    ~ rquiet s -> ~ rstuck rmech_fixed U s.

(** the pinned commit: each missing mechanism gives a wedged state in which a valid,
    requested, re-requested entry never reaches the log *)
Definition wedge_witness (m : rmech) : Prop :=
  exists U slots sched h,
    (1 <= slots)%nat /\
    let s := rrun m U sched (rinit slots []) in
    rstuck m U s /\ uvalid U h /\ ~ In h (r_log s) /\
    (exists c heads, last sched (RCancel 0) = RLoad c heads /\ In h heads /\ ~ In c (r_cancel s)).

Definition S_repl_refuted_cancel : Prop := wedge_witness (mkRM false true true).
Definition S_repl_refuted_fetch_failure : Prop := wedge_witness (mkRM true false true).
Definition S_repl_refuted_merge_abort : Prop := wedge_witness (mkRM true true false).

(** * Durability (C05) *)
From Orbit Require Export Model.Durable.

(** For every run of the global system, every replica [r] and EVERY crash point [k] (prefix
    of r's persistence effects): reopening and loading yields a log that (1) contains every
    write acknowledged and every entry reported replicated before the crash, (2) contains
    only entries that were really written, (3) is closed under ancestry, (4) is a
    well-formed log — so its listing, heads and views are the canonical ones of its entry
    set (the pre-crash state restricted to the recovered entries). *)
Definition S_durable : Prop :=
  forall marks cont acc okop n dbid r g effs k,
    gtrace true true marks cont acc okop n dbid r g effs ->
    let rec := recover true dbid acc (disk_at effs k) in
    (forall h, In h (acked (firstn k effs)) -> In h (hashes (lents rec))) /\
    incl (lents rec) (guniv g) /\
    next_closed (lents rec) /\
    log_ok (guniv g) rec.

(** acknowledging before persisting the head loses an acknowledged write at some crash point *)
Definition S_durable_refuted_ack_first : Prop :=
  exists marks cont acc n dbid r g effs k,
    gtrace false true marks cont acc any_okop n dbid r g effs /\
    exists h, In h (acked (firstn k effs)) /\
              ~ In h (hashes (lents (recover true dbid acc (disk_at effs k)))).

(** reporting a batch replicated before persisting the heads loses it at some crash point *)
Definition S_durable_refuted_repl_first : Prop :=
  exists marks cont acc n dbid r g effs k,
    gtrace true false marks cont acc any_okop n dbid r g effs /\
    exists h, In h (acked (firstn k effs)) /\
              ~ In h (hashes (lents (recover true dbid acc (disk_at effs k)))).

(** a Load that ignored the remote head set would lose replicated entries *)
Definition S_durable_refuted_local_only : Prop :=
  exists marks cont acc n dbid r g effs k,
    gtrace true true marks cont acc any_okop n dbid r g effs /\
    exists h, In h (acked (firstn k effs)) /\
              ~ In h (hashes (lents (recover false dbid acc (disk_at effs k)))).

(** * Network convergence (C02) *)
From Orbit Require Export Model.Net.

Definition same_setN (a b : list N) : Prop := forall x, In x a <-> In x b.

(** After writes stop and all links are up, for EVERY history of writes interleaved with
    arbitrary gains (any loss, duplication, reordering of announcements, any partition,
    any restart): after the final phase all replicas hold the same entries, and these are
    all the entries ever written — hence (C01) they show the same state. *)
Definition S_net_converges : Prop :=
  forall n steps a b ra rb,
    (2 <= n)%nat ->
    let s := final_phase (nrun steps (ninit n)) in
    nth_error (n_reps s) a = Some ra -> nth_error (n_reps s) b = Some rb ->
    same_setN (n_log ra) (n_log rb) /\
    (forall h, In h (map u_hash (n_univ s)) -> In h (n_log ra)).

(** the invariant that makes it work: every held entry is in the ancestry of a cached head
    (what AddOperation and the merge persist), and every entry is held by its writer *)
Definition S_net_cover : Prop :=
  forall n steps i rp,
    let s := nrun steps (ninit n) in
    nth_error (n_reps s) i = Some rp ->
    (forall h, In h (n_log rp) -> In h (anc_set (n_univ s) (n_cached rp))) /\
    (forall h, In (h, i) (n_owner s) -> In h (n_log rp)).

(** without persisting the heads of merged batches (cached heads = own writes only) a
    replica that only relays entries cannot pass them on: convergence fails *)
Definition S_net_refuted_without_remote_heads : Prop :=
  exists U (a b : nrep),
    (forall h, In h (n_log a) -> In h (map u_hash U)) /\
    ~ same_setN (n_log (exchange U (mkNR (n_log a) []) b)) (n_log (exchange U a b)).

(** * One store: local writers concurrent with the replication merger (C16, C06, C07) *)
From Orbit Require Export Model.StoreConc.

(** With the index rebuilds serialised ([ser = true]: a mutex around [BaseStore.updateIndex]),
    for every number of writers, every list of merge batches and EVERY schedule: *)

(** (a) the view reflects only entries of the log, and along a run neither the log nor the
    view ever loses an entry ([s2] is any continuation of [s1]) *)
Definition S_storeconc_view_monotone : Prop :=
  forall n batches sched1 sched2,
    let s1 := srun true sched1 (sinit n batches) in
    let s2 := srun true sched2 s1 in
    incl (s_view s1) (s_log s1) /\ incl (s_view s1) (s_view s2) /\ incl (s_log s1) (s_log s2).

(** (b) never ahead of the state: the entries of every emitted event are reflected by the
    view of the current state and of every later state — a subscriber can only receive an
    event at or after its emission *)
Definition S_storeconc_events_never_ahead : Prop :=
  forall n batches sched1 sched2,
    let s1 := srun true sched1 (sinit n batches) in
    let s2 := srun true sched2 s1 in
    forall ev, In ev (s_events s1) ->
      incl (ev_entries ev) (s_view s1) /\ In ev (s_events s2) /\ incl (ev_entries ev) (s_view s2).

(** (c) exactly once: the emitted list holds exactly one write event for every writer that
    has passed its emit step, carrying that writer's entry (which is in the log), none for
    any other writer (in particular none for a writer that has not appended), and the
    replicated events are exactly the merged batches, in the merger's order *)
Definition S_storeconc_events_exactly_once : Prop :=
  forall n batches sched,
    let s := srun true sched (sinit n batches) in
    (forall i, w_emitted s i -> count_occ Nat.eq_dec (wevents (s_events s)) i = 1%nat) /\
    (forall i, ~ w_emitted s i -> count_occ Nat.eq_dec (wevents (s_events s)) i = 0%nat) /\
    (forall i, In i (wevents (s_events s)) -> w_appended s i /\ In i (s_log s)) /\
    revents (s_events s) ++ mcur (s_mpc s) ++ s_todo s = batches.

(** (d) at rest the view is complete: view = log (as sets) = the writers' entries and all
    the batches *)
Definition S_storeconc_complete_at_rest : Prop :=
  forall n batches sched,
    let s := srun true sched (sinit n batches) in
    sall_done s ->
    (forall x, In x (s_view s) <-> In x (s_log s)) /\
    (forall x, In x (s_log s) <-> (x < n)%nat \/ In x (concat batches)) /\
    length (wevents (s_events s)) = n /\ revents (s_events s) = batches.

(** Without the serialisation (the tree before the repair) a stale rebuild can be applied
    after a fresher one: there is a schedule after which every thread is done, an emitted
    event's entries are not reflected by the view, and the view is not the whole log. *)
Definition S_storeconc_refuted_unserialised : Prop :=
  exists n batches sched,
    let s := srun false sched (sinit n batches) in
    sall_done s /\
    (exists ev, In ev (s_events s) /\ ~ incl (ev_entries ev) (s_view s)) /\
    ~ (forall x, In x (s_log s) -> In x (s_view s)).

(** The successive views of a run (one per schedule label) *)
Fixpoint sviews (ser : bool) (sched : list nat) (s : sst) : list (list nat) :=
  match sched with
  | [] => []
  | l :: r =>
    let s' := match sstep ser s l with Some s' => s' | None => s end in
    s_view s' :: sviews ser r s'
  end.

(** C06 corollary: the inputs of the successive index rebuilds grow, so the key-value map
    that is never reset represents the replay of the last one ([S_kv_run_represents]); at rest
    that is the whole log.  [listing] turns a set of entry numbers into the listing
    [oplog.Values()] of those entries (any monotone function into well-formed operations). *)
Definition S_storeconc_kv_replay : Prop :=
  forall n batches sched (listing : list nat -> list entry),
    (forall V V', incl V V' -> incl (listing V) (listing V')) ->
    (forall V e, In e (listing V) -> kv_op_ok e = true) ->
    let s := srun true sched (sinit n batches) in
    let hist := map listing (sviews true sched (sinit n batches)) in
    represents (kv_run hist) (kv_replay (last hist [])) /\
    (sched <> [] -> last hist [] = listing (s_view s)) /\
    (sall_done s -> forall x, In x (s_view s) <-> In x (s_log s)).

(** * Network convergence with holes, failed-fetch memory and restarts (C02, second model) *)
From Orbit Require Export Model.NetHoles.

(** With the mechanism "Load records what it could not load" ([rm] = true): in EVERY reachable
    state (any interleaving of writes, replication requests for any heads with any per-hash
    fetch outcome, restarts under any fetch outcome), on every replica: every link target of
    a held entry is held or is remembered as failed (so the next request retries it); the
    log only holds written entries; every entry is held by its writer; every held entry is in
    the ancestry of a cached head. *)
Definition S_holes_invariant : Prop :=
  forall n steps i rp,
    let s := hrun true steps (hinit n) in
    nth_error (h_reps s) i = Some rp ->
    (forall y, In y (dangling (h_univ s) (h_log rp)) -> In y (h_failed rp)) /\
    (forall h, In h (h_log rp) -> In h (map u_hash (h_univ s))) /\
    (forall h, In (h, i) (h_owner s) -> In h (h_log rp)) /\
    (forall h, In h (h_log rp) -> In h (anc_set (h_univ s) (h_cached rp))).

(** A restart never loses an entry of the log (the cached heads cover the log through held
    entries, whose blocks are in the replica's own block store); whatever [rm]. *)
Definition S_holes_restart_keeps : Prop :=
  forall rm n steps r ok rp rp',
    let s := hrun rm steps (hinit n) in
    nth_error (h_reps s) r = Some rp ->
    nth_error (h_reps (hstep_run rm s (HRestart r ok))) r = Some rp' ->
    forall h, In h (h_log rp) -> In h (h_log rp').

(** ... and after the final phase every replica's log is exactly the set of all written
    entries: all replicas are equal, no link target is missing, nothing is left failed. *)
Definition S_holes_converge : Prop :=
  forall n steps a b ra rb,
    (2 <= n)%nat ->
    let s := hfinal true (hrun true steps (hinit n)) in
    nth_error (h_reps s) a = Some ra -> nth_error (h_reps s) b = Some rb ->
    same_setN (h_log ra) (map u_hash (h_univ s)) /\
    same_setN (h_log ra) (h_log rb) /\
    dangling (h_univ s) (h_log ra) = [] /\
    h_failed ra = [].

(** Without the record ([rm] = false, the code before the repair) there is a history after
    whose final phase a replica still misses a written entry: a request fetches an entry but
    not its ancestor, the replica restarts while the ancestor is unreachable, and from then on
    every head it is told about is already in its log. *)
Definition S_holes_refuted_without_record : Prop :=
  exists n steps a ra h,
    (2 <= n)%nat /\
    let s := hfinal false (hrun false steps (hinit n)) in
    nth_error (h_reps s) a = Some ra /\
    In h (map u_hash (h_univ s)) /\ ~ In h (h_log ra).

(** Specification of event-log window queries: the contiguous slice written directly. *)
From Orbit Require Export Model.Index.

Definition lastn {A} (n : nat) (l : list A) : list A := skipn (length l - n) l.

(** The listing split at the first occurrence of hash [h]. *)
Fixpoint split_at (h : N) (l : list entry) : option (list entry * entry * list entry) :=
  match l with
  | [] => None
  | e :: l' =>
    if (eh e =? h)%N then Some ([], e, l')
    else match split_at h l' with
         | Some (pre, x, post) => Some (e :: pre, x, post)
         | None => None
         end
  end.

(** Normalised amount: 1 when unset or 0, everything when negative. *)
Definition window_amount (a : option Z) (len : nat) : nat :=
  match a with
  | None => 1%nat
  | Some x => if x =? 0 then 1%nat else if x <? 0 then len else Z.to_nat x
  end.

(** [window L b a]: defined for bounds that are entries of [L] (or absent). *)
Definition window (L : list entry) (b : bound) (a : option Z) : option (list entry) :=
  let n := window_amount a (length L) in
  match b with
  | BNone => Some (lastn n L)
  | BGt h => match split_at h L with Some (_, _, post) => Some (firstn n post) | None => None end
  | BGte h => match split_at h L with Some (_, x, post) => Some (firstn n (x :: post)) | None => None end
  | BLt h => match split_at h L with Some (pre, _, _) => Some (lastn n pre) | None => None end
  | BLte h => match split_at h L with Some (pre, x, _) => Some (lastn n (pre ++ [x])) | None => None end
  end.

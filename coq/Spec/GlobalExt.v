(** The global system extended with the load routes (C01: "load from disk, snapshot"):
    besides local writes and merges of fetched single-entry logs, a replica may join a
    whole fetched log (what [Load] builds per cached head with [NewFromEntryHash] and what
    [LoadFromSnapshot] builds with [NewFromJSON]) — admissible when the replica's log and
    the union are closed under ancestry (the fetcher stops only at entries already held). *)
From Orbit Require Export Spec.Statements.

Inductive gstep2 :=
| G2Base (s : gstep)                    (* GWrite / GMerge of Spec/LogSpec.v *)
| G2Load (r : nat) (es : list entry).   (* join of a fetched multi-entry log *)

Section System2.
  Variable marks cont : bool.
  Variable acc : entry -> bool.

  Definition gstep2_run (g : gstate) (s : gstep2) : gstate :=
    match s with
    | G2Base s0 => gstep_run marks cont acc g s0
    | G2Load r es =>
      match nth_error (greps g) r with
      | Some rs =>
        match join (rlog rs) (log_of_entries (lid (rlog rs)) es) (-1) acc with
        | Ok l' => mkG (guniv g) (set_nth r (reindex marks l' rs) (greps g))
        | _ => g
        end
      | None => g
      end
    end.

  Definition admissible2 (okop : op -> Prop) (g : gstate) (s : gstep2) : Prop :=
    match s with
    | G2Base s0 => admissible okop g s0
    | G2Load r es =>
      incl es (guniv g) /\ NoDup (hashes es) /\
      forall rs, nth_error (greps g) r = Some rs ->
                 next_closed (lents (rlog rs)) /\ next_closed (es ++ lents (rlog rs))
    end.

  Inductive greach2 (okop : op -> Prop) (n : nat) (dbid : N) : gstate -> Prop :=
  | greach2_init : greach2 okop n dbid (mkG [] (repeat (mkR (empty_log dbid) [] []) n))
  | greach2_step g s : greach2 okop n dbid g -> admissible2 okop g s ->
                       greach2 okop n dbid (gstep2_run g s).
End System2.

(** the invariant [ginv] (Spec/Statements.v) holds in every state of the extended system *)
Definition S_greach2_inv : Prop :=
  forall marks cont acc n dbid okop g,
    greach2 marks cont acc okop n dbid g -> ginv acc n dbid g.

(** C01 over ALL routes: local write, merged single entries (announced heads, head
    exchange, manual sync) and joined fetched logs (load from disk, snapshot) *)
Definition S_convergence2_log : Prop :=
  forall marks cont acc n dbid okop g a b ra rb,
    greach2 marks cont acc okop n dbid g ->
    nth_error (greps g) a = Some ra -> nth_error (greps g) b = Some rb ->
    same_set (lents (rlog ra)) (lents (rlog rb)) ->
    values (rlog ra) = values (rlog rb) /\ heads_sorted (rlog ra) = heads_sorted (rlog rb).

Definition S_kv_view2 : Prop :=
  forall marks cont acc n dbid g i rs,
    greach2 marks cont acc kv_okop n dbid g -> nth_error (greps g) i = Some rs ->
    represents (rkv rs) (kv_replay (values (rlog rs))).

Definition S_doc_view2 : Prop :=
  forall cont acc n dbid g i rs,
    greach2 true cont acc doc_okop n dbid g -> nth_error (greps g) i = Some rs ->
    represents (rdoc rs) (doc_replay (values (rlog rs))).

Definition S_convergence2_kv : Prop :=
  forall marks cont acc n dbid g a b ra rb,
    greach2 marks cont acc kv_okop n dbid g ->
    nth_error (greps g) a = Some ra -> nth_error (greps g) b = Some rb ->
    same_set (lents (rlog ra)) (lents (rlog rb)) ->
    forall k, alookup bytes_eqb k (rkv ra) = alookup bytes_eqb k (rkv rb).

Definition S_convergence2_doc : Prop :=
  forall cont acc n dbid g a b ra rb,
    greach2 true cont acc doc_okop n dbid g ->
    nth_error (greps g) a = Some ra -> nth_error (greps g) b = Some rb ->
    same_set (lents (rlog ra)) (lents (rlog rb)) ->
    forall k, alookup bytes_eqb k (rdoc ra) = alookup bytes_eqb k (rdoc rb).

(** C08 monotonicity for the load routes as well *)
Definition S_step2_monotone : Prop :=
  forall marks cont acc n dbid okop g s i rs rs',
    greach2 marks cont acc okop n dbid g -> admissible2 okop g s ->
    nth_error (greps g) i = Some rs ->
    nth_error (greps (gstep2_run marks cont acc g s)) i = Some rs' ->
    incl (values (rlog rs)) (values (rlog rs')) /\
    forall x y, before x y (values (rlog rs)) -> before x y (values (rlog rs')).

(** Specifications of the key-value and document indexes: last-writer-wins replay of
    the operations in log order (oldest first), as finite maps [bytes -> option N]. *)
From Orbit Require Export Model.Index.

Definition fmap := bytes -> option N.
Definition fempty : fmap := fun _ => None.
Definition upd (f : fmap) (k : bytes) (v : option N) : fmap :=
  fun k' => if bytes_eqb k' k then v else f k'.

(** * Key-value *)
Definition kv_step (f : fmap) (e : entry) : fmap :=
  match eop e with
  | OPut (Some k) v => upd f k (Some v)
  | ODel (Some k) => upd f k None
  | _ => f
  end.
Definition kv_replay (vals : list entry) : fmap := fold_left kv_step vals fempty.

Definition kv_touches (k : bytes) (e : entry) : bool :=
  match eop e with
  | OPut (Some k') _ | ODel (Some k') => bytes_eqb k k'
  | _ => false
  end.

(** Operations a KeyValueStore can write: PUT, DEL (and foreign ADD/unknown, ignored). *)
Definition kv_op_ok (e : entry) : bool :=
  match eop e with OPutAll _ => false | _ => true end.

(** * Documents *)
Definition doc_step (f : fmap) (e : entry) : fmap :=
  match eop e with
  | OPut (Some (c :: k)) v => upd f (c :: k) (Some v)
  | ODel (Some (c :: k)) => upd f (c :: k) None
  | OPutAll docs => fold_left (fun g kv => upd g (fst kv) (Some (snd kv))) docs f
  | _ => f
  end.
Definition doc_replay (vals : list entry) : fmap := fold_left doc_step vals fempty.

Definition doc_touches (k : bytes) (e : entry) : bool :=
  match eop e with
  | OPut (Some (c :: k')) _ | ODel (Some (c :: k')) => bytes_eqb k (c :: k')
  | OPutAll docs => existsb (fun kv => bytes_eqb k (fst kv)) docs
  | _ => false
  end.

(** A batch built by PutAll (from a Go map) has pairwise distinct keys. *)
Definition doc_op_ok (e : entry) : Prop :=
  match eop e with OPutAll docs => NoDup (map fst docs) | _ => True end.

(** * Histories of rebuilds: the Go map is never reset, the log only grows. *)
Definition kv_run (hist : list (list entry)) : kvmap :=
  fold_left (fun m vals => kv_update vals m) hist [].
Definition doc_run (marks : bool) (hist : list (list entry)) : kvmap :=
  fold_left (fun m vals => doc_update marks vals m) hist [].

(** every listing contains the entries of the previous one *)
Fixpoint grows (hist : list (list entry)) : Prop :=
  match hist with
  | a :: ((b :: _) as t) => incl a b /\ grows t
  | _ => True
  end.

(** an association list represents a finite map without duplicate keys *)
Definition represents (m : kvmap) (f : fmap) : Prop :=
  NoDup (map fst m) /\ forall k, alookup bytes_eqb k m = f k.

(** Specification vocabulary for the log CRDT: universes of entries, well-formedness,
    reachability, the log invariant, and the global system of replicas. *)
From Orbit Require Export Model.Index.
From Coq Require Export Sorting.Sorted.

(** * Universe well-formedness *)

(** [U] is the set of entries ever created.  Content addressing makes hashes
    injective; links point to strictly smaller (time, writer) keys; no two distinct
    entries share a key (the assumption written into property C01). *)
Record WF (U : list entry) : Prop := {
  wf_hash : forall a b, In a U -> In b U -> eh a = eh b -> a = b;
  wf_key  : forall a b, In a U -> In b U -> etime a = etime b -> ecid a = ecid b -> a = b;
  wf_link : forall e n, In e U -> In n U -> In (eh n) (enext e) -> key_lt n e;
  wf_closed : forall e c, In e U -> In c (enext e) -> In c (hashes U)
}.

(** Reachability from [roots] through [next] links resolved inside [ents]. *)
Inductive reach (ents roots : list entry) : entry -> Prop :=
| reach_root e : In e roots -> reach ents roots e
| reach_next e n : reach ents roots e -> In (eh n) (enext e) -> In n ents -> reach ents roots n.

Definition desc_sorted (l : list entry) : Prop := StronglySorted (fun a b => key_lt b a) l.
Definition asc_sorted (l : list entry) : Prop := StronglySorted key_lt l.

Definition same_set {A} (a b : list A) : Prop := forall x, In x a <-> In x b.

(** * The log invariant (L2) *)
Record log_ok (U : list entry) (l : log) : Prop := {
  ok_incl    : incl (lents l) U;
  ok_nodup   : NoDup (hashes (lents l));
  ok_logid   : forall e, In e (lents l) -> elog e = lid l;
  ok_heads   : forall h, In h (lheads l) <->
                 (In h (lents l) /\ ~ In (eh h) (all_nexts (lents l)));
  ok_hnodup  : NoDup (hashes (lheads l));
  ok_next    : forall x, In x (lnext l) <-> In x (all_nexts (lents l));
  ok_clock   : forall e, In e (lents l) -> etime e <= lclock l
}.

(** [m] is closed under [next] (inside the universe every link target exists, so this
    says: the ancestry of every member is in [m]) *)
Definition next_closed (m : list entry) : Prop :=
  forall e c, In e m -> In c (enext e) -> In c (hashes m).

(** * The global system: replicas over a growing universe (C01's quantifier) *)

(** One replica: its log and the two materialised views (Go maps that are never reset). *)
Record rstate := mkR { rlog : log; rkv : kvmap; rdoc : kvmap }.

Record gstate := mkG {
  guniv : list entry;       (* every entry ever created *)
  greps : list rstate       (* replica i = nth i *)
}.

Inductive gstep :=
| GWrite (r : nat) (h : N) (refs : list N) (o : op)   (* local write on replica r *)
| GMerge (r : nat) (batch : list entry).              (* replica r merges fetched single-entry logs *)

(** Replica [r] writes with identity, key and clock id [writer_of r]. *)
Definition writer_of (r : nat) : N := N.of_nat (S r).

(** merge = [replicationLoadComplete]: join the single-entry logs one at a time; with
    [continue_after_error = false] (the pinned commit) a failing join aborts the batch
    and the views are not rebuilt.  Returns the log and whether the batch completed. *)
Fixpoint merge_batch (continue_after_error : bool) (acc : entry -> bool) (l : log) (batch : list entry) : log * bool :=
  match batch with
  | [] => (l, true)
  | x :: rest =>
    match join l (log_of_entries (lid l) [x]) (-1) acc with
    | Ok l' => merge_batch continue_after_error acc l' rest
    | _ => if continue_after_error then merge_batch continue_after_error acc l rest else (l, false)
    end
  end.

Definition set_nth {A} (i : nat) (x : A) (l : list A) : list A :=
  firstn i l ++ match skipn i l with [] => [] | _ :: t => x :: t end.

(** [updateIndex]: rebuild both views from the log's total order. *)
Definition reindex (marks : bool) (l : log) (r : rstate) : rstate :=
  mkR l (kv_update (values l) (rkv r)) (doc_update marks (values l) (rdoc r)).

Section System.
  Variable marks : bool.            (* documentstore PUTALL bookkeeping switch *)
  Variable cont : bool.             (* merge continues after a failing join *)
  Variable acc : entry -> bool.     (* access controller + signature verification *)

  Definition gstep_run (g : gstate) (s : gstep) : gstate :=
    match s with
    | GWrite r h refs o =>
      match nth_error (greps g) r with
      | Some rs =>
        let w := writer_of r in
        match fst (append (rlog rs) h w w w w o refs acc) with
        | Ok (e, l') => mkG (guniv g ++ [e]) (set_nth r (reindex marks l' rs) (greps g))
        | _ => g
        end
      | None => g
      end
    | GMerge r batch =>
      match nth_error (greps g) r with
      | Some rs =>
        let '(l', ok) := merge_batch cont acc (rlog rs) batch in
        mkG (guniv g) (set_nth r (if ok then reindex marks l' rs else mkR l' (rkv rs) (rdoc rs)) (greps g))
      | None => g
      end
    end.

  (** A write uses a fresh content address; a merge delivers entries that exist (any
      sub-multiset of the universe, in any order, with repeats); [okop] restricts the
      operations to those the store type's API can write. *)
  Definition admissible (okop : op -> Prop) (g : gstate) (s : gstep) : Prop :=
    match s with
    | GWrite r h refs o => ~ In h (hashes (guniv g)) /\ okop o
    | GMerge r batch => incl batch (guniv g)
    end.

  Inductive greach (okop : op -> Prop) (n : nat) (dbid : N) : gstate -> Prop :=
  | greach_init : greach okop n dbid (mkG [] (repeat (mkR (empty_log dbid) [] []) n))
  | greach_step g s : greach okop n dbid g -> admissible okop g s -> greach okop n dbid (gstep_run g s).
End System.

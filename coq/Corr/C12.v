(** C12 correspondence: malformed messages on the topic / direct channel and raw
    direct-channel frames, each run against the real code in a child process. *)
From Orbit Require Export Corr.Common Model.Wire Model.Message Model.Current.

(** Mechanism switches of C12 (the values matching /repo as it stands).  They live here
    until the two fixes (fix_c12_sync.diff, fix_c12_frame.diff) are merged; they then
    move to Model/Current.v with the value [true]:
    - [c12_validates_current]: [Sync] skips malformed heads before dereferencing them and
      hands only verified heads to the replicator (false = the pinned commit);
    - [c12_unsigned_cmp_current]: [handleNewPeer] compares the uint64 length with the cap
      before converting it to [int] (false = the pinned commit). *)
Definition c12_validates_current : bool := sync_validates_heads_current.
Definition c12_unsigned_cmp_current : bool := frame_unsigned_cmp_current.

(** what happened to a raw frame written on a fresh stream that was then closed *)
Inductive fobs :=
| FDelivered (p : bytes)   (* the payload emitted on the receiver's bus *)
| FDropped                 (* the handler returned (stream reset) without emitting *)
| FCrashed.                (* the receiving process died *)

Inductive case :=
(* stream (a): structured message.  [m] is what the real [json.Unmarshal] produced
   ([None]: it returned an error) projected on the model's head shape; observations:
   the process died; a replication was started ([store.sync_spawn] reached); the
   receiver's log and view were exactly as before; they were as before or equal to the
   writer's; a valid message sent afterwards was handled. *)
| CMsg (ch : channel) (m : option dmsg) (crashed started unchanged valid_state next_ok : bool)
(* stream (b): byte-level mutation of a real message: outcome only *)
| CBytes (crashed unchanged valid_state next_ok : bool)
(* stream (c): raw frame through the real directchannel adapter *)
| CFrame (bs : bytes) (obs : fobs) (next_ok : bool).

Definition any_good (m : option dmsg) : bool :=
  match m with Some d => existsb good (m_heads d) | None => false end.

Definition check (c : case) : bool * bool :=
  match c with
  | CMsg ch m crashed started unchanged valid_state next_ok =>
    let agree :=
      match handle_msg c12_validates_current ch m with
      | Panic _ => crashed
      | Ok (SStarted _) => negb crashed && started
      | Ok SNothing | Err _ => negb crashed && negb started
      end in
    (* no panic; contents untouched unless the message carried a head that may enter the
       log, in which case they may only move to the writer's contents; next message handled *)
    let holds := negb crashed && (unchanged || (valid_state && any_good m)) && next_ok in
    (agree, holds)
  | CBytes crashed unchanged valid_state next_ok =>
    (true, negb crashed && (unchanged || valid_state) && next_ok)
  | CFrame bs obs next_ok =>
    let agree :=
      match frame_decode c12_unsigned_cmp_current bs, obs with
      | Ok p, FDelivered q => bytes_eqb p q
      | Err _, FDropped => true
      | Panic _, FCrashed => true
      | _, _ => false
      end in
    let holds := match obs with FCrashed => false | _ => next_ok end in
    (agree, holds)
  end.

Definition failures (base : nat) (cs : list case) := failures_from check base cs.

(** C11 — cancelled or failed replication requests do not wedge later replication.
    Case type, script semantics and checker are shared with C10 ([Corr/ReplCommon.v]).
    [holds]: every entry in the ancestry of the heads of the final, uncancelled request is
    visible on the receiver at rest (and the receiver came to rest);
    [agree]: the replicator machine of [Model/Replicator.v], run with the mechanisms of the
    tree as it stands on the script the driver forced, ends with the same set of entries
    in the log, the same number of tasks left [added] and the same queue length. *)
From Orbit Require Export Corr.ReplCommon.

(** mechanisms of /repo as it stands: all three repairs are in.
    ([mkRM false true true] = before 0d70572 "loads run detached from the caller's context",
     [mkRM true false true] = before 45dda21 "failed fetch is retried") *)
Definition c11_mech_current : rmech := rmech_fixed.

Definition check (c : case) : bool * bool := check_repl c11_mech_current c.

Definition failures (base : nat) (cs : list case) := failures_from check base cs.

(** C17 — concurrent local writers on one store: correspondence checker.

    One case = one run of [n] writer goroutines (one write each) on a fresh store,
    followed by close, reopen and load.  Entries are numbered by their position in the
    listing taken after the writers returned (= append order: one identity, strictly
    increasing Lamport times), entries that are not in that listing get larger numbers.

    [sched] is the model schedule (thread index per step of [Model.Writers.wstep false])
    that the driver executed by releasing parked writers one step at a time:
      WStart -> WAppended      start writer i, it parks after [oplog.Append]
      WAppended -> WPersisted  released, parks after [Cache().Put(_localHeads)]
      WPersisted -> WIndexRead released, parks in [UpdateIndex] after reading [Values()]
      WIndexRead -> WDone      released, applies what it read and returns
    [forced] = the run was driven that way; [blocked] = some released writer did not reach
    its next point in time (e.g. another parked writer holds a write lock), so the
    executed order is not exactly [sched].

    [CMulti]: the writer goroutines perform several calls each and a call may write several
    entries ([documentstore.PutBatch] loops over [Put]); a goroutine is a model thread that
    performs [count] single-entry writes ([Model.Writers.winitc]), and the schedule points can
    park it in the middle of a batch.  The acknowledged entries of a thread are those written by
    its successful calls (the entry of the returned operation, and for a batch the entries that
    carry its documents), in call order.  [sched] is in steps of [wstep false] there as well
    (four per write); where the implementation has no point between two steps (the return of a
    write and the append of the same thread's next one) the driver lists them one after the
    other, as they were executed.  With [c17_atomic_current] the schedule is not consulted: the
    outcome [writers_atomic] promises does not depend on it. *)
From Orbit Require Export Corr.Common Model.Writers Model.Current.

(** Value of the model switch [atomic] that matches /repo as it stands: [AddOperation]
    holds no lock across append + persist + view update (false = the pinned commit).
    Moves to Model/Current.v (and becomes [true]) when the fix (muWrite) is merged. *)
(* c17_atomic_current lives in Model/Current.v *)

Inductive case :=
| CWriters (n : nat)                (* number of writers *)
           (sched : list nat)       (* model schedule executed (forced runs), [] otherwise *)
           (forced blocked : bool)
           (shared : bool)          (* all writers put the same key (kv/doc stores): the view
                                       shows exactly one entry's value, [view_n] *)
           (returned : list N)      (* entry acknowledged to writer 0, 1, ... (successful calls) *)
           (log_after : list N)     (* listing after the writers returned *)
           (view_complete : bool)   (* the view equals the replay of [log_after] *)
           (view_n : N)             (* shared: number of the entry whose value the view shows (0 = none) *)
           (recovered : list N)     (* listing after close + reopen + Load(-1), ascending *)
| CMulti (counts : list nat)        (* single-entry writes per writer thread *)
         (sched : list nat)         (* model schedule executed (forced runs), [] otherwise *)
         (forced blocked : bool)
         (acked : list (list N))    (* per thread: entries acknowledged by its calls, in call order *)
         (log_after : list N)       (* listing after the writers returned *)
         (view_complete : bool)     (* the view equals the replay of [log_after] *)
         (recovered : list N).      (* listing after close + reopen + Load(-1), ascending *)

Definition memN (x : N) (l : list N) : bool := existsb (N.eqb x) l.

Fixpoint nodupN (l : list N) : bool :=
  match l with
  | [] => true
  | x :: r => negb (memN x r) && nodupN r
  end.

(** [1; 2; ...; k] *)
Definition seqN (k : nat) : list N := map N.of_nat (seq 1 k).

Definition is_done (t : wthr) : bool :=
  match wt_pc t with WIdle => Nat.eqb (wt_left t) 0 | _ => false end.
Definition all_doneb (s : wst) : bool := forallb is_done (w_thr s).

Fixpoint increasingN (l : list N) : bool :=
  match l with
  | x :: ((y :: _) as r) => (x <? y)%N && increasingN r
  | _ => true
  end.

(** is [l] a rearrangement of 1..k *)
Definition perm_of_seq (l : list N) (k : nat) : bool :=
  Nat.eqb (length l) k && nodupN l && forallb (fun x => memN x (seqN k)) l.

(** the executable specification of the property on one observation *)
Definition spec_holds (returned log_after : list N) (view_complete : bool) (recovered : list N) : bool :=
  nodupN returned &&
  forallb (fun e => memN e log_after) returned &&
  view_complete &&
  forallb (fun e => memN e recovered) returned.

(** what [writers_atomic] promises for n writers *)
Definition atomic_outcome (n : nat) (shared : bool) (returned log_after : list N)
           (view_complete : bool) (view_n : N) (recovered : list N) : bool :=
  perm_of_seq returned n &&
  listN_eqb log_after (seqN n) &&
  view_complete &&
  (if shared then N.eqb view_n (N.of_nat n) else true) &&
  listN_eqb recovered (seqN n).

(** exact comparison with the model run on the executed schedule *)
Definition exact_outcome (n : nat) (sched : list nat) (shared : bool) (returned log_after : list N)
           (view_complete : bool) (view_n : N) (recovered : list N) : bool :=
  let s := wrun false sched (winit n) in
  all_doneb s &&
  listN_eqb (map N.of_nat (Writers.returned s)) returned &&
  listN_eqb log_after (seqN (w_log s)) &&
  listN_eqb recovered (seqN (Writers.recovered s)) &&
  (if shared
   then N.eqb view_n (N.of_nat (w_view s)) && Bool.eqb view_complete (Nat.eqb (w_view s) (w_log s))
   else true).

(** outcomes the non-atomic model allows when the interleaving is not known: all n
    entries are in the log and acknowledged, recovery restores the ancestry 1..k of
    whichever head was persisted last (1 <= k <= n), the view shows whichever rebuild
    was applied last (1 <= v <= n). *)
Definition allowed_outcome (n : nat) (shared : bool) (returned log_after : list N)
           (view_n : N) (recovered : list N) : bool :=
  perm_of_seq returned n &&
  listN_eqb log_after (seqN n) &&
  existsb (fun k => listN_eqb recovered (seqN k)) (seq 1 n) &&
  (if shared then existsb (fun v => N.eqb view_n (N.of_nat v)) (seq 1 n) else true).

(** the same three for threads of several writes ([counts]) *)
Definition shape_ok (counts : list nat) (acked : list (list N)) : bool :=
  list_eqb Nat.eqb (map (@length N) acked) counts && forallb increasingN acked.

(** what [writers_atomic] promises *)
Definition multi_atomic_outcome (counts : list nat) (acked : list (list N)) (log_after : list N)
           (view_complete : bool) (recovered : list N) : bool :=
  let n := list_sum counts in
  shape_ok counts acked &&
  perm_of_seq (concat acked) n &&
  listN_eqb log_after (seqN n) &&
  view_complete &&
  listN_eqb recovered (seqN n).

(** exact comparison with the model run on the executed schedule.  A view that reflects
    1..[w_view] only may still equal the replay of the whole log (a put and the delete of the
    same key both missing), so only a complete model view obliges the observation. *)
Definition multi_exact_outcome (counts sched : list nat) (acked : list (list N)) (log_after : list N)
           (view_complete : bool) (recovered : list N) : bool :=
  let s := wrun false sched (winitc counts) in
  all_doneb s &&
  list_eqb listN_eqb (map (map N.of_nat) (acks s)) acked &&
  listN_eqb log_after (seqN (w_log s)) &&
  listN_eqb recovered (seqN (Writers.recovered s)) &&
  (if Nat.eqb (w_view s) (w_log s) then view_complete else true).

Definition multi_allowed_outcome (counts : list nat) (acked : list (list N)) (log_after : list N)
           (recovered : list N) : bool :=
  let n := list_sum counts in
  shape_ok counts acked &&
  perm_of_seq (concat acked) n &&
  listN_eqb log_after (seqN n) &&
  existsb (fun k => listN_eqb recovered (seqN k)) (seq 1 n).

Definition check (c : case) : bool * bool :=
  match c with
  | CWriters n sched forced blocked shared returned log_after view_complete view_n recovered =>
    let agree :=
      if c17_atomic_current
      then atomic_outcome n shared returned log_after view_complete view_n recovered
      else if forced && negb blocked
           then exact_outcome n sched shared returned log_after view_complete view_n recovered
           else allowed_outcome n shared returned log_after view_n recovered in
    (agree, spec_holds returned log_after view_complete recovered)
  | CMulti counts sched forced blocked acked log_after view_complete recovered =>
    let agree :=
      if c17_atomic_current
      then multi_atomic_outcome counts acked log_after view_complete recovered
      else if forced && negb blocked
           then multi_exact_outcome counts sched acked log_after view_complete recovered
           else multi_allowed_outcome counts acked log_after recovered in
    (agree, spec_holds (concat acked) log_after view_complete recovered)
  end.

Definition failures (base : nat) (cs : list case) := failures_from check base cs.

(** Sanity: the two refutation schedules of Proofs/WritersProofs.v as observations. *)
Local Open Scope N_scope.
Example c17_ex_recovery :
  exact_outcome 2 [0; 1; 1; 0; 0; 0; 1; 1]%nat true [1; 2] [1; 2] true 2 [1] = true
  /\ spec_holds [1; 2] [1; 2] true [1] = false.
Proof. split; vm_compute; reflexivity. Qed.
Example c17_ex_view :
  exact_outcome 2 [0; 0; 0; 1; 1; 1; 1; 0]%nat true [1; 2] [1; 2] false 1 [1; 2] = true
  /\ spec_holds [1; 2] [1; 2] false [1; 2] = false.
Proof. split; vm_compute; reflexivity. Qed.
Example c17_ex_atomic :
  atomic_outcome 3 true [2; 1; 3] [1; 2; 3] true 3 [1; 2; 3] = true
  /\ spec_holds [2; 1; 3] [1; 2; 3] true [1; 2; 3] = true.
Proof. split; vm_compute; reflexivity. Qed.

(** the batch refutation of Proofs/WritersProofs.v as an observation: thread 0 writes 1 and 2,
    thread 1 writes 3; the head persisted last is 2 *)
Example c17_ex_batch :
  multi_exact_outcome [2; 1]%nat [0; 0; 0; 0; 0; 1; 1; 1; 1; 0; 0; 0]%nat [[1; 2]; [3]] [1; 2; 3] true [1; 2] = true
  /\ spec_holds (concat [[1; 2]; [3]]) [1; 2; 3] true [1; 2] = false.
Proof. split; vm_compute; reflexivity. Qed.
Example c17_ex_multi_atomic :
  multi_atomic_outcome [2; 1; 3]%nat [[1; 4]; [2]; [3; 5; 6]] [1; 2; 3; 4; 5; 6] true [1; 2; 3; 4; 5; 6] = true
  /\ multi_atomic_outcome [2; 1]%nat [[2; 1]; [3]] [1; 2; 3] true [1; 2; 3] = false
  /\ multi_atomic_outcome [2; 1]%nat [[1; 2]; [3]] [1; 2; 3] true [1; 2] = false.
Proof. repeat split; vm_compute; reflexivity. Qed.

(** C16 — correspondence checker: store events and the legacy per-subscriber emitter.

    The real emitter is concurrent, so the harness cannot know the interleaving of a free run.
    Two kinds of emitter cases are therefore used:
    - [CForced]: the harness forces one interleaving completely (it parks G2 at the schedule
      point between taking an event from the overflow list and sending it, and waits for G1
      to be idle before every consumer action).  The same interleaving is replayed on the
      labelled transition system [Model.Emitter] with the current switch value, and the model
      must predict exactly the length of the channel observed before the release and the
      sequence the consumer received.
    - [CPaced]: free runs with random pacing; only the envelope of the model is compared: with
      in-flight tracking the received sequence is the emitted one (theorem C16_emitter_fifo),
      without it every schedule still conserves events ([erun_conserves] below), so any
      permutation is accepted as "what the model allows". *)
From Orbit Require Export Corr.Common Model.Emitter Model.Current.
From Coq Require Import Permutation.

(** [events/events.go handleSubscriber]: G1 treats the event G2 holds as still queued (true);
    false = the pinned commit.  Defined here until the repair is merged; it then moves to
    [Model/Current.v] with value [true]. *)
(* c16_tracks_inflight_current lives in Model/Current.v *)

(** [cevent := make(chan Event, 16)] *)
Definition chan_cap : nat := 16.

Inductive case :=
(* forced interleaving: [16 + k] events emitted and routed without any read (G2 parked with the
   first overflow event); [k - 1] times: one read, G2 sends and takes the next overflow event
   (parked again); [j] reads; [m] more events emitted and routed ([chanlen] = observed length
   of the channel now); G2 released, consumer drains everything. *)
| CForced (k j m : nat) (emitted : list N) (chanlen : nat) (received : list N)
(* free run; [drained] = the consumer read until nothing was in flight *)
| CPaced (drained : bool) (emitted received : list N)
(* one store, one subscriber: write attempts in order (None = the write returned an error,
   Some h = it returned entry h) and the write events received (entry, visible in the store's
   log and view when queried from inside the subscriber) *)
| CWrites (attempts : list (option N)) (events : list (N * bool))
(* one replication step: entries that are new in the log afterwards, the replicated events
   received during the step (entries, each with visibility as above), and the number of
   batches the replicator handed to the store *)
| CSync (fresh : list N) (announced : list (list (N * bool))) (load_ends : nat).

(** * Emitter *)

Fixpoint rep {A} (n : nat) (l : list A) : list A :=
  match n with O => [] | S n' => l ++ rep n' l end.

Definition emit_route (xs : list N) : list elabel :=
  flat_map (fun x => [LEmit x; LG1]) xs.

(** the forced interleaving up to the release of G2 *)
Definition forced_prefix (k j : nat) (pre post : list N) : list elabel :=
  emit_route pre ++ [LG2Take] ++ rep (k - 1) [LConsume; LG2Send; LG2Take]
  ++ rep j [LConsume] ++ emit_route post.

(** after the release only G2 and the consumer move; every fair interleaving of them gives
    the same result, this is one (disabled labels are skipped by [erun]) *)
Definition drain (n : nat) : list elabel := rep n [LG2Send; LG2Take; LConsume].

Definition quiescentb (s : est) : bool :=
  match e_pending s, e_chan s, e_queue s, e_hold s with
  | [], [], [], None => true
  | _, _, _, _ => false
  end.

Fixpoint nodupb (l : list N) : bool :=
  match l with [] => true | x :: r => negb (memN x r) && nodupb r end.

Fixpoint prefixb (a b : list N) : bool :=
  match a, b with
  | [], _ => true
  | x :: a', y :: b' => (x =? y)%N && prefixb a' b'
  | _ :: _, [] => false
  end.

(** [a] is a rearrangement of distinct elements of [b] *)
Definition sub_perm (a b : list N) : bool := nodupb a && forallb (fun x => memN x b) a.
Definition permb (a b : list N) : bool := (length a =? length b)%nat && sub_perm a b && nodupb b.

Definition fifo_ok (drained : bool) (emitted received : list N) : bool :=
  if drained then listN_eqb received emitted else prefixb received emitted.

(** what the model allows in a free run, by switch value *)
Definition model_allows (ti drained : bool) (emitted received : list N) : bool :=
  if ti then fifo_ok drained emitted received
  else if drained then permb received emitted else sub_perm received emitted && nodupb emitted.

Definition check_forced (ti : bool) (k j m : nat) (emitted : list N) (chanlen : nat) (received : list N) : bool :=
  let n0 := (chan_cap + k)%nat in
  let pre := firstn n0 emitted in
  let post := skipn n0 emitted in
  let wf := (1 <=? k)%nat && (1 <=? j)%nat && (j <=? chan_cap)%nat && (1 <=? m)%nat
            && (length emitted =? n0 + m)%nat in
  let s1 := erun ti chan_cap (forced_prefix k j pre post) einit in
  let s2 := erun ti chan_cap (drain (2 * length emitted + 2)) s1 in
  wf && (length (e_chan s1) =? chanlen)%nat && quiescentb s2 && listN_eqb (e_out s2) received.

(** * Store events: two-line models of [base_store.go] as seen by a subscriber *)

(** AddOperation: a successful write first extends the view, then emits one event carrying
    the entry; a failed write does neither. *)
Record awst := mkAW { aw_view : list N; aw_events : list (N * bool) }.
Definition aw_write (s : awst) (a : option N) : awst :=
  match a with
  | None => s
  | Some e => let v := aw_view s ++ [e] in mkAW v (aw_events s ++ [(e, memN e v)])
  end.
Definition aw_run (attempts : list (option N)) : list (N * bool) :=
  aw_events (fold_left aw_write attempts (mkAW [] [])).

(** replicationLoadComplete: the batch is joined and indexed, then announced *)
Definition rl_batch (view : list N) (batch : list N) : list N * list (N * bool) :=
  let v := view ++ batch in (v, map (fun e => (e, memN e v)) batch).
Fixpoint rl_run (view : list N) (batches : list (list N)) : list (list (N * bool)) :=
  match batches with
  | [] => []
  | b :: r => let '(v, ev) := rl_batch view b in ev :: rl_run v r
  end.

Definition nb_eqb (a b : N * bool) : bool := (fst a =? fst b)%N && Bool.eqb (snd a) (snd b).
Definition successes (attempts : list (option N)) : list N :=
  flat_map (fun a => match a with Some e => [e] | None => [] end) attempts.

Definition check (c : case) : bool * bool :=
  match c with
  | CForced k j m emitted chanlen received =>
    (check_forced c16_tracks_inflight_current k j m emitted chanlen received,
     listN_eqb received emitted)
  | CPaced drained emitted received =>
    (model_allows c16_tracks_inflight_current drained emitted received,
     fifo_ok drained emitted received)
  | CWrites attempts events =>
    (list_eqb nb_eqb events (aw_run attempts),
     listN_eqb (map fst events) (successes attempts) && forallb snd events)
  | CSync fresh announced load_ends =>
    (list_eqb (list_eqb nb_eqb) announced (rl_run [] (map (map fst) announced)),
     forallb (fun h => existsb (fun b => memN h (map fst b)) announced) fresh
     && forallb (forallb snd) announced
     && (length announced =? load_ends)%nat)
  end.

Definition failures (base : nat) (cs : list case) := failures_from check base cs.

(** * Justification of the envelope used by [model_allows] for the pinned commit: with either
    switch value no schedule loses or duplicates an event. *)

Definition held (s : est) : list N := match e_hold s with Some x => [x] | None => [] end.
Definition everything (s : est) : list N :=
  e_out s ++ e_chan s ++ held s ++ e_queue s ++ e_pending s.

Local Ltac count_tac :=
  repeat progress (simpl; rewrite ?count_occ_app);
  repeat match goal with |- context [N.eq_dec ?a ?b] => destruct (N.eq_dec a b) end;
  lia.

Lemma estep_conserves :
  forall ti cap s l s',
    estep ti cap s l = Some s' ->
    Permutation (everything s') (everything s ++ match l with LEmit x => [x] | _ => [] end).
Proof.
  intros ti cap s l s' H.
  apply (Permutation_count_occ N.eq_dec). intros y.
  destruct s as [pe ch q h o].
  destruct l as [x| | | |]; unfold everything, held in *; simpl in *.
  - injection H as <-. destruct h; simpl; count_tac.
  - destruct pe as [|x rest]; [discriminate|].
    match type of H with (if ?b then _ else _) = _ => destruct b end;
      injection H as <-; destruct h; simpl; count_tac.
  - destruct h as [z|]; [discriminate|]. destruct q as [|z q]; [discriminate|].
    injection H as <-. simpl. count_tac.
  - destruct h as [z|]; [|discriminate].
    destruct (length ch <? cap)%nat; [|discriminate].
    injection H as <-. simpl. count_tac.
  - destruct ch as [|z c]; [discriminate|].
    injection H as <-. destruct h; simpl; count_tac.
Qed.

Lemma erun_conserves :
  forall ti cap sched, Permutation (everything (erun ti cap sched einit)) (emitted sched).
Proof.
  intros ti cap sched. induction sched as [|l sched IH] using rev_ind.
  - simpl. constructor.
  - unfold erun, emitted in *. rewrite fold_left_app, flat_map_app. simpl.
    rewrite app_nil_r.
    destruct (estep ti cap _ l) as [s'|] eqn:E.
    + eapply Permutation_trans; [apply (estep_conserves _ _ _ _ _ E)|].
      apply Permutation_app_tail. exact IH.
    + assert (match l with LEmit x => [x] | _ => [] end = []) as ->
          by (destruct l; try reflexivity; discriminate).
      rewrite app_nil_r. exact IH.
Qed.

(** at quiescence the consumer has received a permutation of what was emitted *)
Lemma erun_quiescent_perm :
  forall ti cap sched,
    let s := erun ti cap sched einit in
    quiescent s -> Permutation (e_out s) (emitted sched).
Proof.
  intros ti cap sched s [Hp [Hc [Hq Hh]]].
  pose proof (erun_conserves ti cap sched) as H. fold s in H.
  unfold everything, held in H. rewrite Hp, Hc, Hq, Hh in H. simpl in H.
  rewrite app_nil_r in H. exact H.
Qed.

(** the refutation schedule of [emitter_refuted], scaled to the real capacity, is the
    smallest forced case: the checker predicts the reordering for the pinned commit and the
    emitted order for the repaired one *)
Example forced_smallest_pinned :
  let em := map N.of_nat (seq 1 18) in
  check_forced false 1 1 1 em 16 (map N.of_nat (seq 1 16 ++ [18; 17]%nat)) = true
  /\ check_forced false 1 1 1 em 16 em = false.
Proof. vm_compute. split; reflexivity. Qed.
Example forced_smallest_repaired :
  let em := map N.of_nat (seq 1 18) in
  check_forced true 1 1 1 em 15 (map N.of_nat (seq 1 18)) = true.
Proof. vm_compute. reflexivity. Qed.

(** C16 — correspondence checker: store events and the legacy per-subscriber emitter.

    The real emitter is concurrent, so the harness cannot know the interleaving of a free run.
    Two kinds of emitter cases are therefore used:
    - [CForced]: the harness forces one interleaving completely (it parks G2 at the schedule
      point between taking an event from the overflow list and sending it, and waits for G1
      to be idle before every consumer action).  The same interleaving is replayed on the
      labelled transition system [Model.Emitter] with the current switch value, and the model
      must predict exactly the length of the channel observed before the release and the
      sequence the consumer received.
    - [CPaced]: free runs with random pacing; only the envelope of the model is compared: with
      in-flight tracking the received sequence is the emitted one (theorem C16_emitter_fifo),
      without it every schedule still conserves events ([erun_conserves] below), so any
      permutation is accepted as "what the model allows". *)
From Orbit Require Export Corr.Common Model.Emitter Model.StoreConc Model.Current.
From Coq Require Import Permutation.

(** Observations of the write || merge cases ([CConc]): the listing of the store's log (entry
    numbers) and the content of its view (key, number of the entry whose value is shown),
    keys ascending. *)
Definition cobs := (list nat * list (nat * nat))%type.
(** an event as seen by the subscriber: write / replicated, its entries, and what the
    subscriber's own queries returned when it received the event *)
Inductive cev := CEv (w : bool) (es : list nat) (o : cobs).
(** one forced step: the thread, the observation after the step, the events received *)
Inductive cstep := CStep (l : nat) (o : cobs) (evs : list cev).

(** [events/events.go handleSubscriber]: G1 treats the event G2 holds as still queued (true);
    false = the pinned commit.  Defined here until the repair is merged; it then moves to
    [Model/Current.v] with value [true]. *)
(* c16_tracks_inflight_current lives in Model/Current.v *)

(** [cevent := make(chan Event, 16)] *)
Definition chan_cap : nat := 16.

Inductive case :=
(* forced interleaving: [16 + k] events emitted and routed without any read (G2 parked with the
   first overflow event); [k - 1] times: one read, G2 sends and takes the next overflow event
   (parked again); [j] reads; [m] more events emitted and routed ([chanlen] = observed length
   of the channel now); G2 released, consumer drains everything. *)
| CForced (k j m : nat) (emitted : list N) (chanlen : nat) (received : list N)
(* free run; [drained] = the consumer read until nothing was in flight *)
| CPaced (drained : bool) (emitted received : list N)
(* one store, one subscriber: write attempts in order (None = the write returned an error,
   Some h = it returned entry h) and the write events received (entry, visible in the store's
   log and view when queried from inside the subscriber) *)
| CWrites (attempts : list (option N)) (events : list (N * bool))
(* one replication step: entries that are new in the log afterwards, the replicated events
   received during the step (entries, each with visibility as above), and the number of
   batches the replicator handed to the store *)
| CSync (fresh : list N) (announced : list (list (N * bool))) (load_ends : nat)
(* one store, several writer goroutines running freely (they queue up on the write lock): the
   entries their calls returned (any order) and the write events a subscriber that keeps up
   received (entry, visible when queried from inside the subscriber) *)
| CWritesFree (returned : list N) (events : list (N * bool))
(* one store, [nw] local writers (writer [i] writes entry [i]) running concurrently with the
   merge of the remote [batches]; [ents] gives every entry's keys and whether it deletes them,
   [nk] is the number of keys, [order] the final listing (last writer wins: later = wins),
   [returned] the writers whose call returned their entry.  The driver forced the schedule
   [map label steps] (every step was enabled for it) and observed the store after every
   step, from inside the subscriber at every event, and at rest.  [probed]: the driver found
   (once, at the start) that an index rebuild in progress keeps another thread from starting
   its own.  [exact = false]: the driver lost control of the schedule (watchdog); only the
   specification is evaluated then. *)
| CConc (nw : nat) (batches : list (list nat)) (ents : list (nat * (list nat * bool))) (nk : nat)
        (order returned : list nat) (steps : list cstep) (rest : cobs) (probed exact : bool).

(** * Emitter *)

Fixpoint rep {A} (n : nat) (l : list A) : list A :=
  match n with O => [] | S n' => l ++ rep n' l end.

Definition emit_route (xs : list N) : list elabel :=
  flat_map (fun x => [LEmit x; LG1]) xs.

(** the forced interleaving up to the release of G2 *)
Definition forced_prefix (k j : nat) (pre post : list N) : list elabel :=
  emit_route pre ++ [LG2Take] ++ rep (k - 1) [LConsume; LG2Send; LG2Take]
  ++ rep j [LConsume] ++ emit_route post.

(** after the release only G2 and the consumer move; every fair interleaving of them gives
    the same result, this is one (disabled labels are skipped by [erun]) *)
Definition drain (n : nat) : list elabel := rep n [LG2Send; LG2Take; LConsume].

Definition quiescentb (s : est) : bool :=
  match e_pending s, e_chan s, e_queue s, e_hold s with
  | [], [], [], None => true
  | _, _, _, _ => false
  end.

Fixpoint nodupb (l : list N) : bool :=
  match l with [] => true | x :: r => negb (memN x r) && nodupb r end.

Fixpoint prefixb (a b : list N) : bool :=
  match a, b with
  | [], _ => true
  | x :: a', y :: b' => (x =? y)%N && prefixb a' b'
  | _ :: _, [] => false
  end.

(** [a] is a rearrangement of distinct elements of [b] *)
Definition sub_perm (a b : list N) : bool := nodupb a && forallb (fun x => memN x b) a.
Definition permb (a b : list N) : bool := (length a =? length b)%nat && sub_perm a b && nodupb b.

Definition fifo_ok (drained : bool) (emitted received : list N) : bool :=
  if drained then listN_eqb received emitted else prefixb received emitted.

(** what the model allows in a free run, by switch value *)
Definition model_allows (ti drained : bool) (emitted received : list N) : bool :=
  if ti then fifo_ok drained emitted received
  else if drained then permb received emitted else sub_perm received emitted && nodupb emitted.

Definition check_forced (ti : bool) (k j m : nat) (emitted : list N) (chanlen : nat) (received : list N) : bool :=
  let n0 := (chan_cap + k)%nat in
  let pre := firstn n0 emitted in
  let post := skipn n0 emitted in
  let wf := (1 <=? k)%nat && (1 <=? j)%nat && (j <=? chan_cap)%nat && (1 <=? m)%nat
            && (length emitted =? n0 + m)%nat in
  let s1 := erun ti chan_cap (forced_prefix k j pre post) einit in
  let s2 := erun ti chan_cap (drain (2 * length emitted + 2)) s1 in
  wf && (length (e_chan s1) =? chanlen)%nat && quiescentb s2 && listN_eqb (e_out s2) received.

(** * Store events: two-line models of [base_store.go] as seen by a subscriber *)

(** AddOperation: a successful write first extends the view, then emits one event carrying
    the entry; a failed write does neither. *)
Record awst := mkAW { aw_view : list N; aw_events : list (N * bool) }.
Definition aw_write (s : awst) (a : option N) : awst :=
  match a with
  | None => s
  | Some e => let v := aw_view s ++ [e] in mkAW v (aw_events s ++ [(e, memN e v)])
  end.
Definition aw_run (attempts : list (option N)) : list (N * bool) :=
  aw_events (fold_left aw_write attempts (mkAW [] [])).

(** replicationLoadComplete: the batch is joined and indexed, then announced *)
Definition rl_batch (view : list N) (batch : list N) : list N * list (N * bool) :=
  let v := view ++ batch in (v, map (fun e => (e, memN e v)) batch).
Fixpoint rl_run (view : list N) (batches : list (list N)) : list (list (N * bool)) :=
  match batches with
  | [] => []
  | b :: r => let '(v, ev) := rl_batch view b in ev :: rl_run v r
  end.

(** * Local writes concurrent with the merge ([Model/StoreConc.v]) *)

Fixpoint all2 {A B} (f : A -> B -> bool) (la : list A) (lb : list B) : bool :=
  match la, lb with
  | [], [] => true
  | a :: la', b :: lb' => f a b && all2 f la' lb'
  | _, _ => false
  end.

Definition nn_eqb (a b : nat * nat) : bool := Nat.eqb (fst a) (fst b) && Nat.eqb (snd a) (snd b).

Fixpoint nodupb_nat (l : list nat) : bool :=
  match l with [] => true | x :: r => negb (memn x r) && nodupb_nat r end.

Section Conc.
  Variable ents : list (nat * (list nat * bool)).
  Variable order : list nat.
  Variable nk : nat.

  Fixpoint cindex_of (x : nat) (l : list nat) : nat :=
    match l with [] => O | y :: r => if Nat.eqb x y then O else S (cindex_of x r) end.
  (** position in the last-writer-wins order *)
  Definition crank (e : nat) : nat := cindex_of e order.
  Definition ckeys (e : nat) : list nat :=
    match alookup Nat.eqb e ents with Some (ks, _) => ks | None => [] end.
  Definition cdel (e : nat) : bool :=
    match alookup Nat.eqb e ents with Some (_, d) => d | None => false end.

  (** the entry of [V] that decides key [k] *)
  Definition cwinner (V : list nat) (k : nat) : option nat :=
    fold_left (fun best x =>
                 if memn k (ckeys x) then
                   match best with
                   | None => Some x
                   | Some b => if Nat.leb (crank b) (crank x) then Some x else Some b
                   end
                 else best) V None.

  (** replay of the set of entries [V]: what a view reflecting exactly [V] shows *)
  Definition ccontent (V : list nat) : list (nat * nat) :=
    flat_map (fun k => match cwinner V k with
                       | Some m => if cdel m then [] else [(k, m)]
                       | None => []
                       end) (seq 0 nk).

  (** specification side: do the answers [o] of the store reflect entry [e]?  It is in the
      log and each of its keys shows its value or the value of an entry that wins over it
      (or nothing, when a deletion that wins over it is in the log). *)
  Definition cvisible (o : cobs) (e : nat) : bool :=
    memn e (fst o) &&
    forallb (fun k =>
               match alookup Nat.eqb k (snd o) with
               | Some m => Nat.leb (crank e) (crank m) && memn k (ckeys m) && negb (cdel m)
               | None => existsb (fun d => cdel d && memn k (ckeys d) && Nat.leb (crank e) (crank d)) (fst o)
               end) (ckeys e).

  (** correspondence side: the observation is what the model state shows *)
  Definition obs_ok (s : sst) (o : cobs) : bool :=
    seteqb (fst o) (s_log s) && list_eqb nn_eqb (snd o) (ccontent (s_view s)).

  Definition ev_ok (s : sst) (m : scevent) (c : cev) : bool :=
    match m, c with
    | SEvWrite e, CEv true es o => list_eqb Nat.eqb es [e] && obs_ok s o
    | SEvReplicated b, CEv false es o => seteqb es b && obs_ok s o
    | _, _ => false
    end.

  (** replay of the forced schedule: every step is enabled, and after it the model shows the
      observed log and view and has emitted exactly the events the subscriber received (which
      saw the same state); in the end every thread is done and the state at rest is the last one *)
  Fixpoint conc_agree (ser : bool) (s : sst) (steps : list cstep) (rest : cobs) : bool :=
    match steps with
    | [] => sall_doneb s && obs_ok s rest
    | CStep l o evs :: r =>
      match sstep ser s l with
      | None => false
      | Some s' =>
        obs_ok s' o
        && all2 (ev_ok s') (skipn (length (s_events s)) (s_events s')) evs
        && conc_agree ser s' r rest
      end
    end.

  (** the entry is reflected by every observation from here on, including the one at rest *)
  Fixpoint conc_visible_from (steps : list cstep) (rest : cobs) (e : nat) : bool :=
    match steps with
    | [] => cvisible rest e
    | CStep _ o _ :: r => cvisible o e && conc_visible_from r rest e
    end.

  (** never ahead of the state: the entries of a received event are reflected by the
      subscriber's own queries at reception and by every later observation *)
  Fixpoint conc_never_ahead (steps : list cstep) (rest : cobs) : bool :=
    match steps with
    | [] => true
    | CStep _ o evs :: r =>
      forallb (fun c => match c with
                        | CEv _ es oe =>
                          forallb (fun e => cvisible oe e && cvisible o e && conc_visible_from r rest e) es
                        end) evs
      && conc_never_ahead r rest
    end.

  Definition all_evs (steps : list cstep) : list cev :=
    flat_map (fun st => match st with CStep _ _ evs => evs end) steps.
  Definition wev_ids (evs : list cev) : list nat :=
    flat_map (fun c => match c with CEv true es _ => es | CEv false _ _ => [] end) evs.
  Definition rev_sets (evs : list cev) : list (list nat) :=
    flat_map (fun c => match c with CEv false es _ => [es] | CEv true _ _ => [] end) evs.

  (** one write event per returned writer carrying its entry and nothing else; one replicated
      event per merged batch, carrying that batch, in the order of the merges *)
  Definition conc_exactly_once (batches : list (list nat)) (returned : list nat) (steps : list cstep) : bool :=
    let evs := all_evs steps in
    forallb (fun c => match c with CEv true es _ => Nat.eqb (length es) 1 | CEv false _ _ => true end) evs
    && nodupb_nat (wev_ids evs) && seteqb (wev_ids evs) returned
    && all2 seteqb (rev_sets evs) batches.

  (** at rest the log holds the acknowledged writes and the batches, and the view is the
      replay of the log (C06 / C07) *)
  Definition conc_rest_ok (batches : list (list nat)) (returned : list nat) (rest : cobs) : bool :=
    seteqb (fst rest) (returned ++ concat batches)
    && list_eqb nn_eqb (snd rest) (ccontent (fst rest)).

  Definition conc_holds (batches : list (list nat)) (returned : list nat) (steps : list cstep) (rest : cobs) : bool :=
    conc_never_ahead steps rest && conc_exactly_once batches returned steps
    && conc_rest_ok batches returned rest.
End Conc.

Definition nb_eqb (a b : N * bool) : bool := (fst a =? fst b)%N && Bool.eqb (snd a) (snd b).
Definition successes (attempts : list (option N)) : list N :=
  flat_map (fun a => match a with Some e => [e] | None => [] end) attempts.

Definition check (c : case) : bool * bool :=
  match c with
  | CForced k j m emitted chanlen received =>
    (check_forced c16_tracks_inflight_current k j m emitted chanlen received,
     listN_eqb received emitted)
  | CPaced drained emitted received =>
    (model_allows c16_tracks_inflight_current drained emitted received,
     fifo_ok drained emitted received)
  | CWrites attempts events =>
    (list_eqb nb_eqb events (aw_run attempts),
     listN_eqb (map fst events) (successes attempts) && forallb snd events)
  | CWritesFree returned events =>
    (* every schedule of Model/StoreConc.v gives exactly one write event per returned entry,
       each in the view from its emission on (S_storeconc_never_ahead / _exactly_once): the
       model's prediction and the specification coincide *)
    let ok := nodupb (map fst events)
              && forallb (fun h => memN h (map fst events)) returned
              && forallb (fun h => memN h returned) (map fst events)
              && forallb snd events in
    (ok, ok)
  | CSync fresh announced load_ends =>
    (list_eqb (list_eqb nb_eqb) announced (rl_run [] (map (map fst) announced)),
     forallb (fun h => existsb (fun b => memN h (map fst b)) announced) fresh
     && forallb (forallb snd) announced
     && (length announced =? load_ends)%nat)
  | CConc nw batches ents nk order returned steps rest probed exact =>
    (Bool.eqb probed c16_index_serialised_current
     && (negb exact
         || conc_agree ents order nk c16_index_serialised_current (sinit nw batches) steps rest),
     conc_holds ents order nk batches returned steps rest)
  end.

Definition failures (base : nat) (cs : list case) := failures_from check base cs.

(** * Justification of the envelope used by [model_allows] for the pinned commit: with either
    switch value no schedule loses or duplicates an event. *)

Definition held (s : est) : list N := match e_hold s with Some x => [x] | None => [] end.
Definition everything (s : est) : list N :=
  e_out s ++ e_chan s ++ held s ++ e_queue s ++ e_pending s.

Local Ltac count_tac :=
  repeat progress (simpl; rewrite ?count_occ_app);
  repeat match goal with |- context [N.eq_dec ?a ?b] => destruct (N.eq_dec a b) end;
  lia.

Lemma estep_conserves :
  forall ti cap s l s',
    estep ti cap s l = Some s' ->
    Permutation (everything s') (everything s ++ match l with LEmit x => [x] | _ => [] end).
Proof.
  intros ti cap s l s' H.
  apply (Permutation_count_occ N.eq_dec). intros y.
  destruct s as [pe ch q h o].
  destruct l as [x| | | |]; unfold everything, held in *; simpl in *.
  - injection H as <-. destruct h; simpl; count_tac.
  - destruct pe as [|x rest]; [discriminate|].
    match type of H with (if ?b then _ else _) = _ => destruct b end;
      injection H as <-; destruct h; simpl; count_tac.
  - destruct h as [z|]; [discriminate|]. destruct q as [|z q]; [discriminate|].
    injection H as <-. simpl. count_tac.
  - destruct h as [z|]; [|discriminate].
    destruct (length ch <? cap)%nat; [|discriminate].
    injection H as <-. simpl. count_tac.
  - destruct ch as [|z c]; [discriminate|].
    injection H as <-. destruct h; simpl; count_tac.
Qed.

Lemma erun_conserves :
  forall ti cap sched, Permutation (everything (erun ti cap sched einit)) (emitted sched).
Proof.
  intros ti cap sched. induction sched as [|l sched IH] using rev_ind.
  - simpl. constructor.
  - unfold erun, emitted in *. rewrite fold_left_app, flat_map_app. simpl.
    rewrite app_nil_r.
    destruct (estep ti cap _ l) as [s'|] eqn:E.
    + eapply Permutation_trans; [apply (estep_conserves _ _ _ _ _ E)|].
      apply Permutation_app_tail. exact IH.
    + assert (match l with LEmit x => [x] | _ => [] end = []) as ->
          by (destruct l; try reflexivity; discriminate).
      rewrite app_nil_r. exact IH.
Qed.

(** at quiescence the consumer has received a permutation of what was emitted *)
Lemma erun_quiescent_perm :
  forall ti cap sched,
    let s := erun ti cap sched einit in
    quiescent s -> Permutation (e_out s) (emitted sched).
Proof.
  intros ti cap sched s [Hp [Hc [Hq Hh]]].
  pose proof (erun_conserves ti cap sched) as H. fold s in H.
  unfold everything, held in H. rewrite Hp, Hc, Hq, Hh in H. simpl in H.
  rewrite app_nil_r in H. exact H.
Qed.

(** the refutation schedule of [emitter_refuted], scaled to the real capacity, is the
    smallest forced case: the checker predicts the reordering for the pinned commit and the
    emitted order for the repaired one *)
Example forced_smallest_pinned :
  let em := map N.of_nat (seq 1 18) in
  check_forced false 1 1 1 em 16 (map N.of_nat (seq 1 16 ++ [18; 17]%nat)) = true
  /\ check_forced false 1 1 1 em 16 em = false.
Proof. vm_compute. split; reflexivity. Qed.
Example forced_smallest_repaired :
  let em := map N.of_nat (seq 1 18) in
  check_forced true 1 1 1 em 15 (map N.of_nat (seq 1 18)) = true.
Proof. vm_compute. reflexivity. Qed.

(** * Write || merge: the forced schedule "writer parked between reading the log and applying
    it, merge run to completion, writer released" as observed on the real key-value store
    (writer = entry 0 puts key 0; batch [1;2] puts keys 0 and 1; batch [3] puts key 0 and wins
    over 0 and 1).  On the tree without the mutex the unserialised model predicts every
    observation, the serialised one does not, and the specification rejects the run: after the
    stale rebuild key 0 shows entry 0 although replicated [3] has been announced and the
    replay of the log shows 3.  On the repaired tree the merge waits for the writer. *)
Definition conc_ex_ents : list (nat * (list nat * bool)) :=
  [(0, ([0], false)); (1, ([0], false)); (2, ([1], false)); (3, ([0], false))]%nat.
Definition conc_ex_init : list cstep :=
  [CStep 1 ([1; 2], []) []; CStep 1 ([1; 2], []) []; CStep 1 ([1; 2], [(0, 1); (1, 2)]) [];
   CStep 1 ([1; 2], [(0, 1); (1, 2)]) [];
   CStep 1 ([1; 2], [(0, 1); (1, 2)]) [CEv false [2; 1] ([1; 2], [(0, 1); (1, 2)])];
   CStep 0 ([1; 2; 0], [(0, 1); (1, 2)]) []; CStep 0 ([1; 2; 0], [(0, 1); (1, 2)]) [];
   CStep 0 ([1; 2; 0], [(0, 1); (1, 2)]) []]%nat.
Definition conc_ex_unfixed : list cstep :=
  (conc_ex_init ++
   [CStep 1 ([1; 2; 0; 3], [(0, 1); (1, 2)]) []; CStep 1 ([1; 2; 0; 3], [(0, 1); (1, 2)]) [];
    CStep 1 ([1; 2; 0; 3], [(0, 3); (1, 2)]) []; CStep 1 ([1; 2; 0; 3], [(0, 3); (1, 2)]) [];
    CStep 1 ([1; 2; 0; 3], [(0, 3); (1, 2)]) [CEv false [3] ([1; 2; 0; 3], [(0, 3); (1, 2)])];
    CStep 0 ([1; 2; 0; 3], [(0, 0); (1, 2)]) []; CStep 0 ([1; 2; 0; 3], [(0, 0); (1, 2)]) [];
    CStep 0 ([1; 2; 0; 3], [(0, 0); (1, 2)]) [CEv true [0] ([1; 2; 0; 3], [(0, 0); (1, 2)])]])%nat.
Definition conc_ex_fixed : list cstep :=
  (conc_ex_init ++
   [CStep 1 ([1; 2; 0; 3], [(0, 1); (1, 2)]) [];
    CStep 0 ([1; 2; 0; 3], [(0, 0); (1, 2)]) []; CStep 0 ([1; 2; 0; 3], [(0, 0); (1, 2)]) [];
    CStep 0 ([1; 2; 0; 3], [(0, 0); (1, 2)]) [CEv true [0] ([1; 2; 0; 3], [(0, 0); (1, 2)])];
    CStep 1 ([1; 2; 0; 3], [(0, 0); (1, 2)]) []; CStep 1 ([1; 2; 0; 3], [(0, 3); (1, 2)]) [];
    CStep 1 ([1; 2; 0; 3], [(0, 3); (1, 2)]) [];
    CStep 1 ([1; 2; 0; 3], [(0, 3); (1, 2)]) [CEv false [3] ([1; 2; 0; 3], [(0, 3); (1, 2)])]])%nat.

Example conc_observed_before_repair :
  let o := ([1; 2; 0; 3], [(0, 0); (1, 2)])%nat in
  let ag ser := conc_agree conc_ex_ents [1; 2; 0; 3]%nat 2 ser (sinit 1 [[1; 2]; [3]]%nat) conc_ex_unfixed o in
  ag false = true /\ ag true = false
  /\ conc_holds conc_ex_ents [1; 2; 0; 3]%nat 2 [[1; 2]; [3]]%nat [0%nat] conc_ex_unfixed o = false
  /\ conc_never_ahead conc_ex_ents [1; 2; 0; 3]%nat conc_ex_unfixed o = false
  /\ conc_rest_ok conc_ex_ents [1; 2; 0; 3]%nat 2 [[1; 2]; [3]]%nat [0%nat] o = false.
Proof. vm_compute. repeat split; reflexivity. Qed.

Example conc_observed_after_repair :
  let o := ([1; 2; 0; 3], [(0, 3); (1, 2)])%nat in
  conc_agree conc_ex_ents [1; 2; 0; 3]%nat 2 true (sinit 1 [[1; 2]; [3]]%nat) conc_ex_fixed o = true
  /\ conc_holds conc_ex_ents [1; 2; 0; 3]%nat 2 [[1; 2]; [3]]%nat [0%nat] conc_ex_fixed o = true.
Proof. vm_compute. split; reflexivity. Qed.

(** C04 — tampered, mis-addressed or foreign-database entries are never merged:
    correspondence checker. *)
From Orbit Require Export Corr.AccessCorr.

Inductive case :=
(* one mutated entry delivered as announced head or reachable as an ancestor;
   [mismatch] = the target was announced under an address its content does not hash to *)
| CMut (d : delivery) (mismatch : bool)
(* the same found in the heads cache by Load after a restart.  Load joins the whole log it
   fetched for a cached head at once (all or nothing), which [model_step] (entry-wise merge of
   the replicator route) does not describe: only the specification is evaluated; [d_before] is
   what a restart yields without the hostile heads *)
| CMutCached (d : delivery) (mismatch : bool)
(* the delivery reached the victim as an ancestor of a writer's head; then the victim was closed,
   reopened and loaded from its cache: [d_after] is the state after that reload.  Specification
   only, and without the frame condition (Load joins a cached head's whole fetched log at once,
   so a genuine entry above a rejected one is not reloaded: see DESIGN A.12) *)
| CMutReloaded (d : delivery) (mismatch : bool)
(* the same inside the snapshot file loaded by LoadFromSnapshot after a restart (see
   AccessCorr: the snapshot route): specification only.  [mismatch] = the file states an
   address for the target that its content does not hash to; the state after the load is
   rendered by TRUE content addresses, so the target counts as present whether the log
   files it under the claimed or under the true address *)
| CMutSnapshot (d : delivery) (mismatch : bool).

Definition bad_b (d : delivery) (mismatch : bool) (e : entry) : bool :=
  negb (entry_verify e) || negb (elog e =? d_lid d)%N || mismatch.

(** the target was already held before the step (a valid entry that arrived earlier) *)
Definition held_before (d : delivery) : bool :=
  memN (d_target d) (o_ents (d_before d)) || memN (d_target d) (o_heads (d_before d)) ||
  memN (d_target d) (d_vals_before d).

Definition check (c : case) : bool * bool :=
  match c with
  | CMut d mismatch =>
    (agree_step c03_binds_identity_current c04_filters_foreign_current d,
     match target_entry d with
     | Some e => (if bad_b d mismatch e then negb (present d) || held_before d else true) && frame d
     | None => true
     end)
  | CMutReloaded d mismatch =>
    (true,
     match target_entry d with
     | Some e => if bad_b d mismatch e then negb (present d) || held_before d else true
     | None => true
     end)
  | CMutCached d mismatch =>
    (true,
     match target_entry d with
     | Some e => (if bad_b d mismatch e then negb (present d) || held_before d else true) && frame d
     | None => true
     end)
  | CMutSnapshot d mismatch =>
    (true,
     match target_entry d with
     | Some e => (if bad_b d mismatch e then negb (present d) || held_before d else true) && frame_load d
     | None => true
     end)
  end.

Definition failures (base : nat) (cs : list case) := failures_from check base cs.

(** C10 — rejected entries never block replication of valid entries.
    Case type, script semantics and checker are shared with C11 ([Corr/ReplCommon.v]).
    The universe marks unauthorised / forged entries [u_valid = false]; an announcement
    that [Sync] drops as a whole (claimed head hash does not match) is not a request.
    The driver serialises every fetch completion ([EHoldFetch] of all hashes, then one
    [EFetch] at a time), so the order of logs inside each load-end batch is known.
    [holds]: every valid entry in the ancestry of the honestly re-announced heads is
    visible at rest, and no rejected entry is; [agree]: the model ends with the same set
    of entries in the log (and the same leftover task / queue counts). *)
From Orbit Require Export Corr.ReplCommon.

(** mechanisms of /repo as it stands ([mkRM true true false] = before 34e345b "the merge
    continues after a rejected log") *)
Definition c10_mech_current : rmech := rmech_fixed.

Definition check (c : case) : bool * bool := check_repl c10_mech_current c.

Definition failures (base : nat) (cs : list case) := failures_from check base cs.

(** Shared by the correspondence checkers of C03 and C04: hostile deliveries to a store. *)
From Orbit Require Export Corr.Common Model.Access Model.Current.

(** Mechanism switches matching /repo as it stands (move to Model/Current.v when merged). *)
(** accesscontroller/*: CanAppend checks that the entry's key is the key endorsed by the
    identity it names and that the identity block verifies (true); false = the pinned
    commit, whose only identity provider's VerifyIdentity returns nil. *)
(* c03_binds_identity_current, c04_filters_foreign_current live in Model/Current.v *)
(** base_store.go: a fetched log whose head was written for another log id is not joined
    (true); false = the pinned commit. *)


(** A log as observed: Entries (insertion order), raw heads, keys of Next, clock time. *)
Record olog := mkO { o_ents : list N; o_heads : list N; o_next : list N; o_clock : Z }.

Definition resolve (univ : list entry) (hs : list N) : list entry :=
  flat_map (fun h => match find_entry h univ with Some e => [e] | None => [] end) hs.

Definition to_log (univ : list entry) (id : N) (l : olog) : log :=
  mkLog id (resolve univ (o_ents l)) (resolve univ (o_heads l)) (o_next l) (o_clock l).

Definition setN_eqb (a b : list N) : bool :=
  forallb (fun x => memN x b) a && forallb (fun x => memN x a) b.

(** Access configuration of the database: the controller type, the creator's identity,
    the write list AS CONFIGURED (the ids given when the database was created, resp. passed
    by every opener for the simple controller; possibly empty), wildcard, the keys genuinely
    endorsed by the identities that exist, and the addresses of the entries whose identity
    block is not a genuine one.  [c_W] is the list the model says the controller enforces. *)
Record acfg := mkCfg { c_type : ac_type; c_creator : N; c_conf : list N; c_wild : bool;
                       c_idkey : list (N * N); c_badblk : list N }.

Definition c_W (c : acfg) : list N := enforced_writers (c_type c) (c_creator c) (c_conf c) (c_wild c).

Definition idkey_of (c : acfg) (i : N) : N :=
  match alookup N.eqb i (c_idkey c) with Some k => k | None => 0%N end.
Definition blk_of (c : acfg) (e : entry) : bool := negb (memN (eh e) (c_badblk c)).

Definition ca_cfg (binds : bool) (c : acfg) : entry -> bool :=
  can_append binds (c_W c) (c_wild c) (idkey_of c) (blk_of c).
Definition acc_cfg (binds : bool) (c : acfg) : entry -> bool :=
  acc_of binds (c_W c) (c_wild c) (idkey_of c) (blk_of c).

(** specification side: the entry is signed by the key it names, that key is the one
    endorsed by an identity of the write list (or everybody may write), and it was
    written for this log *)
Definition genuine (c : acfg) (id : N) (e : entry) : bool :=
  entry_verify e && authorisedb (c_W c) (c_wild c) (idkey_of c) e && (elog e =? id)%N.

(** One hostile delivery, observed on the receiving replica. *)
Record delivery := mkDel {
  d_univ : list entry;          (* every entry involved, by TRUE content address, real signer *)
  d_cfg : acfg;
  d_lid : N;                    (* the log id of the store *)
  d_before : olog; d_vals_before : list N;
  d_heads : list (N * N);       (* announced heads: (true address of the content, claimed address) *)
  d_fetched : list N;           (* addresses the replica fetched during the step, in order *)
  d_target : N;                 (* the hostile entry *)
  d_sync : option bool;         (* Sync returned nil / an error (None: not observable on this route) *)
  d_after : olog; d_vals_after : list N;
  d_visible : bool              (* the target's value shows in the store's queries *)
}.

Definition anns (d : delivery) : list announced :=
  flat_map (fun pc => match find_entry (fst pc) (d_univ d) with
                      | Some e => [mkAnn e (snd pc)] | None => [] end) (d_heads d).

(** the model of the step, with the switches given *)
Definition model_step (binds ff : bool) (d : delivery) : log * bool :=
  let lb := to_log (d_univ d) (d_lid d) (d_before d) in
  if sync_precheck (ca_cfg binds (d_cfg d)) (anns d)
  then (merge_fetched ff (acc_cfg binds (d_cfg d)) lb (resolve (d_univ d) (d_fetched d)), true)
  else (lb, false).

Definition agree_step (binds ff : bool) (d : delivery) : bool :=
  let '(lm, ok) := model_step binds ff d in
  match d_sync d with Some b => Bool.eqb b ok | None => true end &&
  setN_eqb (hashes (lents lm)) (o_ents (d_after d)) &&
  setN_eqb (hashes (lheads lm)) (o_heads (d_after d)) &&
  setN_eqb (hashes (values lm)) (d_vals_after d) &&
  Bool.eqb (memN (d_target d) (hashes (values lm))) (d_visible d).

Definition present (d : delivery) : bool :=
  memN (d_target d) (o_ents (d_after d)) || memN (d_target d) (o_heads (d_after d)) ||
  memN (d_target d) (d_vals_after d) || d_visible d.

Fixpoint prefixN (a b : list N) : bool :=
  match a, b with
  | [], _ => true
  | x :: a', y :: b' => (x =? y)%N && prefixN a' b'
  | _, [] => false
  end.

(** what was held before is still held and still listed (a hostile writer can create
    entries with equal (time, writer) keys, so the relative order of listed entries is
    not compared here: see C01/C08); and when nothing genuine and new was fetched, the
    log is exactly what it was *)
Definition frame (d : delivery) : bool :=
  let new_good := filter (fun e => genuine (d_cfg d) (d_lid d) e && negb (memN (eh e) (o_ents (d_before d))))
                         (resolve (d_univ d) (d_fetched d)) in
  (* (entry sets, not the order of the log's internal entry map: the load-from-disk route
     rebuilds the log, which changes that order and nothing a user can see) *)
  forallb (fun x => memN x (o_ents (d_after d))) (o_ents (d_before d)) &&
  forallb (fun x => memN x (d_vals_after d)) (d_vals_before d) &&
  match new_good with
  | [] => setN_eqb (o_ents (d_before d)) (o_ents (d_after d)) &&
          setN_eqb (o_heads (d_before d)) (o_heads (d_after d)) &&
          setN_eqb (d_vals_before d) (d_vals_after d)
  | _ => true
  end.

Definition target_entry (d : delivery) : option entry := find_entry (d_target d) (d_univ d).

(** * The snapshot route (spec-only cases [CSnapshot] / [CMutSnapshot])

    The hostile entry sits in the snapshot FILE the victim loads after a restart (as an extra
    entry frame, in place of a genuine entry's frame under that entry's address, or as an
    additional head of the header).  [d_before] is what the same restart yields with the
    untouched snapshot; [d_sync] is whether [LoadFromSnapshot] returned nil.

    A snapshot file states the address of every entry next to its content, so the log can end
    up holding a content under an address it does not hash to.  The driver therefore renders
    every object held AFTER the load ([d_after], [d_vals_after]) by the address its content
    really hashes to, whatever address the log files it under: [present] then finds the
    hostile entry under its claimed as well as under its true address.

    [LoadFromSnapshot] joins the whole snapshot at once.  When it reports an error, nothing
    need have been merged, but nothing except what the clean load yields may be there; when it
    succeeds, [frame]: everything the clean load yields is there. *)
Definition subsetN (a b : list N) : bool := forallb (fun x => memN x b) a.

Definition frame_load (d : delivery) : bool :=
  match d_sync d with
  | Some false =>
    subsetN (o_ents (d_after d)) (o_ents (d_before d)) &&
    subsetN (o_heads (d_after d)) (o_ents (d_before d)) &&
    subsetN (d_vals_after d) (d_vals_before d)
  | _ => frame d
  end.

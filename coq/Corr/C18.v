(** C18 correspondence: Close and Drop are clean.

    The driver (harness/cmd/vcheck/c18.go) closes and drops real stores and instances at
    scripted moments and records what it observed; [check] compares each observation with the
    lifecycle model run with the switches of the tree as it stands ([agree]) and with the
    executable statement of the property ([holds]).

    Numbering shared with the driver:
    - [when]: 0 idle, 1 a write parked after the log append, 2 a write parked after the cache
      write, 3 replication workers parked after taking an item, 4 parked after their fetch,
      5 Load parked in a block fetch, 6 instance Close with several databases, 7 idle with a
      legacy Subscribe(ctx) whose context stays live, 8 after the whole API was exercised on
      the closed store, 9 instance Close after a Drop, 10 real pubsub adapter and direct
      channel, 11 a replication worker inside a block fetch that succeeds after Close,
      12-15 replication workers inside a block fetch that never completes (a block nobody
      provides), the request coming from Sync (12), a LoadMoreFrom still running (13), the saved
      queue of LoadFromSnapshot (14), the missing ancestors of an unlimited Load (15),
      16 right after Drop of a store with such a fetch in flight (instance still open),
      17 instance Close with databases of mixed configurations and such fetches in flight,
      18 Load itself inside a block fetch that never completes, 19 LoadFromSnapshot inside a
      fetch of the snapshot file that never completes;
    - configurations: [Lifecycle.config] (Replicate, ":memory:" instance, MaxHistory, a Directory
      option other than the instance's directory);
    - addresses are carried as root number + FULL path (one [seg] per path segment): databases
      that share a manifest root (/orbitdb/r/demo, /orbitdb/r/archive/demo, /orbitdb/r/demo/sub)
      are told apart by [datastore_key], as the cache manager does;
    - creation sites: [Lifecycle.site_of];  operations: position in [Lifecycle.all_ops];
    - outcome classes: 0 ok, 1 error, 2 panic, 3 no answer within the watchdog. *)
From Orbit Require Export Corr.Common Model.Lifecycle Model.Current.

(** the switches of /repo as it stands (Model/Current.v) *)
Definition sw_current : switches :=
  mkSw c18_progress_drains_current c18_close_unsubscribes_current
       c18_rejects_dotdot_current c18_destroy_inline_current c18_load_bound_current
       c18_destroy_own_files_current c18_load_registered_current.

Inductive case :=
(* [cfgs]: the configuration of the store, or of every database of the instance.
   Close (of the store, or of the instance for when = 6, 9, 10, 17) called [times] times, one after
   the other or concurrently: the set of go-orbit-db creation sites of goroutines that did not
   exist before the store was opened and are still there after a bounded settle; the outcome
   class of every Close call *)
| CClose (cfgs : list config) (when : N) (times : nat) (concurrent : bool) (leaked_sites : list N) (errors : list N)
(* an API operation invoked on the closed store (or in flight while it was closed) *)
| CAfterClose (op : N) (outcome : N)
(* the directory reopened by a fresh instance, Load(-1): acknowledged vs present entries
   (a ":memory:" instance: a fresh ":memory:" instance) *)
| CReopen (cfg : config) (acked : list N) (present : list N) (ok : bool)
(* Drop of the database (droot, dpath) opened from directory [dir] while (sroot, spath) lives in
   the same directory: was the address accepted by Open; outcome class of Drop; did the
   dropped database reopen empty with its directory gone; are the sibling's cache keys,
   directory and (after a reopen of the directory) entries all there; [cfg]: of the dropped store
   (":memory:": nothing on disk before or after, the sibling is checked live only).
   [opt]: the directory of the Directory option the dropped database was opened with ([] = none);
   then "empty" also means that nothing of it is loaded from [opt] used as an instance directory,
   and "intact" that the sibling's files below [opt] and a foreign file there are untouched *)
| CDrop (cfg : config) (dir opt : list N) (droot : N) (dpath : list seg) (sroot : N) (spath : list seg)
        (opened : bool) (drop_outcome : N) (dropped_empty : bool) (sibling_intact : bool)
(* a database opened with configuration [cfg] ([via_create]: the first time through Create), then
   closed and reopened on the SAME instance with the same options: for every incarnation the
   worst outcome class of Load(-1), a write and Close ([outcomes], the first incarnation first);
   [complete]: every Load found everything acknowledged so far (in memory: every Load answered) *)
| CCycle (cfg : config) (via_create : bool) (outcomes : list N) (complete : bool)
(* database (croot, cpath) of an instance on [dir] was closed; then a write on the open database
   (sroot, spath) of the same instance (typically one that shares the manifest root): its
   outcome class *)
| CSibling (dir : list N) (croot : N) (cpath : list seg) (sroot : N) (spath : list seg) (write_outcome : N).

Definition all_zero (l : list N) : bool := forallb (N.eqb 0) l.

Fixpoint subsetN (a b : list N) : bool :=
  match a with
  | [] => true
  | x :: r => memN x b && subsetN r b
  end.

Definition check (c : case) : bool * bool :=
  match c with
  | CClose cfgs when times concurrent leaked errors =>
    (* the model: every Close call returns nil (the first through the open branch, the others
       through isClosed); what is left is what no raised signal wakes *)
    let predicted_errors := repeat 0%N times in
    (listN_eqb leaked (predicted_leaks sw_current cfgs when) && listN_eqb errors predicted_errors,
     match leaked with [] => true | _ => false end && all_zero errors && Nat.eqb (length errors) times)
  | CAfterClose op outcome =>
    (match op_of_code op with
     | Some o => N.eqb (op_class sw_current o) outcome
     | None => false
     end,
     (outcome <=? 1)%N)
  | CReopen cfg acked present ok =>
    (* the model: on disk everything acknowledged is found again; in memory nothing is *)
    (ok && (if durable cfg then subsetN acked present else match present with [] => true | _ => false end),
     ok && (if durable cfg then subsetN acked present else true))
  | CDrop cfg dir opt droot dpath sroot spath opened outcome dropped_empty sibling_intact =>
    let accepted := address_accepted sw_current dpath in
    (* the sibling's cache is the instance directory's, whatever options it was opened with *)
    let sibling_survives :=
        negb (drop_removes sw_current cfg (destroy_dir cfg dir opt) droot dpath (datastore_key dir sroot spath)) in
    let own_removed := cf_memory cfg || drop_removes_own sw_current cfg dir opt droot dpath in
    (Bool.eqb opened accepted &&
     (if opened
      then Bool.eqb sibling_intact sibling_survives && Bool.eqb dropped_empty own_removed && N.eqb outcome 0
      else sibling_intact),
     sibling_intact && (if opened then dropped_empty && N.eqb outcome 0 else true))
  | CCycle cfg via_create outcomes complete =>
    let usable := cycle sw_current cfg via_create (length outcomes - 1) TAbsent in
    (listN_eqb outcomes (map (fun u : bool => if u then 0%N else 1%N) usable) &&
     Bool.eqb complete (forallb (fun u => u) usable),
     all_zero outcomes && complete && negb (Nat.eqb (length outcomes) 0))
  | CSibling dir croot cpath sroot spath outcome =>
    (* the model: the two share a leveldb exactly when their cache keys (root and FULL path)
       coincide; only then does closing the one close the cache under the other *)
    (N.eqb (class_of (write_after_sibling_close dir croot cpath sroot spath)) outcome, N.eqb outcome 0)
  end.

Definition failures (base : nat) (cs : list case) := failures_from check base cs.

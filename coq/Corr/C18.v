(** C18 correspondence: Close and Drop are clean.

    The driver (harness/cmd/vcheck/c18.go) closes and drops real stores and instances at
    scripted moments and records what it observed; [check] compares each observation with the
    lifecycle model run with the switches of the tree as it stands ([agree]) and with the
    executable statement of the property ([holds]).

    Numbering shared with the driver:
    - [when]: 0 idle, 1 a write parked after the log append, 2 a write parked after the cache
      write, 3 replication workers parked after taking an item, 4 parked after their fetch,
      5 Load parked in a block fetch, 6 instance Close with several databases, 7 idle with a
      legacy Subscribe(ctx) whose context stays live, 8 after the whole API was exercised on
      the closed store, 9 instance Close after a Drop, 10 real pubsub adapter and direct
      channel, 11 a replication worker inside a block fetch that succeeds after Close;
    - creation sites: [Lifecycle.site_of];  operations: position in [Lifecycle.all_ops];
    - outcome classes: 0 ok, 1 error, 2 panic, 3 no answer within the watchdog. *)
From Orbit Require Export Corr.Common Model.Lifecycle Model.Current.

(** the switches of /repo as it stands (Model/Current.v) *)
Definition sw_current : switches :=
  mkSw c18_progress_drains_current c18_close_unsubscribes_current
       c18_rejects_dotdot_current c18_destroy_inline_current.

Inductive case :=
(* Close (of the store, or of the instance for when = 6, 9, 10) called [times] times, one after
   the other or concurrently: the set of go-orbit-db creation sites of goroutines that did not
   exist before the store was opened and are still there after a bounded settle; the outcome
   class of every Close call *)
| CClose (when : N) (times : nat) (concurrent : bool) (leaked_sites : list N) (errors : list N)
(* an API operation invoked on the closed store (or in flight while it was closed) *)
| CAfterClose (op : N) (outcome : N)
(* the directory reopened by a fresh instance, Load(-1): acknowledged vs present entries *)
| CReopen (acked : list N) (present : list N) (ok : bool)
(* Drop of the database (droot, dpath) opened from directory [dir] while (sroot, spath) lives in
   the same directory: was the address accepted by Open; outcome class of Drop; did the
   dropped database reopen empty with its directory gone; are the sibling's cache keys,
   directory and (after a reopen of the directory) entries all there *)
| CDrop (dir : list N) (droot : N) (dpath : list seg) (sroot : N) (spath : list seg)
        (opened : bool) (drop_outcome : N) (dropped_empty : bool) (sibling_intact : bool).

Definition all_zero (l : list N) : bool := forallb (N.eqb 0) l.

Fixpoint subsetN (a b : list N) : bool :=
  match a with
  | [] => true
  | x :: r => memN x b && subsetN r b
  end.

Definition check (c : case) : bool * bool :=
  match c with
  | CClose when times concurrent leaked errors =>
    (* the model: every Close call returns nil (the first through the open branch, the others
       through isClosed); what is left is what no raised signal wakes *)
    let predicted_errors := repeat 0%N times in
    (listN_eqb leaked (predicted_leaks sw_current when) && listN_eqb errors predicted_errors,
     match leaked with [] => true | _ => false end && all_zero errors && Nat.eqb (length errors) times)
  | CAfterClose op outcome =>
    (match op_of_code op with
     | Some o => N.eqb (op_class sw_current o) outcome
     | None => false
     end,
     (outcome <=? 1)%N)
  | CReopen acked present ok =>
    (ok && subsetN acked present, ok && subsetN acked present)
  | CDrop dir droot dpath sroot spath opened outcome dropped_empty sibling_intact =>
    let accepted := address_accepted sw_current dpath in
    let sibling_survives := negb (drop_removes dir droot dpath (datastore_key dir sroot spath)) in
    (Bool.eqb opened accepted &&
     (if opened
      then Bool.eqb sibling_intact sibling_survives && dropped_empty && N.eqb outcome 0
      else sibling_intact),
     sibling_intact && (if opened then dropped_empty && N.eqb outcome 0 else true))
  end.

Definition failures (base : nat) (cs : list case) := failures_from check base cs.

(** Correspondence checker shared by C10 and C11: the replicator + merge machine of
    [Model/Replicator.v] driven by the abstract script the Go driver forces on the real
    replicator with gates (verif schedule points).

    The driver does not know goroutine identities, so a script does not name workers.
    It names what the driver controls:
    - requests ([ELoad], in the order [Sync] was called and queued its items),
    - cancellations of request contexts ([ECancel]),
    - which block fetches fail ([EFail]: the set of hashes whose fetch yields nothing
      from now on),
    - which threads are held back: the first [k] workers waiting for a fetch slot
      ([EHoldSlots], gate at [replicator.before_slot]) or the fetches of given hashes
      ([EHoldFetch], gates at [replicator.after_dequeue] keyed by hash),
    - the completion of one held fetch ([EFetch]) or of all of them ([ERelease]).
    After every event everything that is not held runs until nothing can move any more
    ([settle]); the driver waits for the same condition on the implementation before its
    next step.  What is compared is schedule independent between two such points: the
    SET of hashes in the log, the number of tasks left [added] and the queue length
    (workers are anonymous and take the head of the FIFO queue, so counts do not depend
    on which goroutine moved first).  The ORDER of fetch completions inside a load-end
    batch matters only when the merge aborts at a rejected log; C10 therefore serialises
    all fetch completions ([EHoldFetch] of every hash + one [EFetch] at a time). *)
From Orbit Require Export Corr.Common Model.Replicator.

Inductive hold := HNone | HSlots (k : nat) | HFetch (hs : list N).

Inductive ev :=
| ELoad (c : N) (heads : list N)
| ECancel (c : N)
| EFail (hs : list N)
| EHoldSlots (k : nat)
| EHoldFetch (hs : list N)
| ERelease
| EFetch (h : N).

Definition hold_k (h : hold) : nat := match h with HSlots k => k | _ => O end.
Definition hold_hs (h : hold) : list N := match h with HFetch hs => hs | _ => [] end.

(** labels of the threads that are not held, in worker order: the first [skipw] waiting
    workers and the fetches of [held] hashes are left out; a fetch of a hash in [fails]
    yields nothing *)
Fixpoint wlabels (ws : list worker) (i skipw : nat) (held fails : list N) : list rlabel :=
  match ws with
  | [] => []
  | w :: r =>
    match wk_pos w with
    | WWait =>
      match skipw with
      | O => RSlot i :: wlabels r (S i) O held fails
      | S k => wlabels r (S i) k held fails
      end
    | WFetch h =>
      if memN h held then wlabels r (S i) skipw held fails
      else RFetched i (negb (memN h fails)) :: wlabels r (S i) skipw held fails
    end
  end.

Fixpoint first_step (m : rmech) (U : list uent) (s : rst) (ls : list rlabel) : option rst :=
  match ls with
  | [] => None
  | l :: r => match rstep m U s l with Some s' => Some s' | None => first_step m U s r end
  end.

(** fire the first enabled label that is not held, until none is left (or fuel runs out) *)
Fixpoint settle (fuel : nat) (m : rmech) (U : list uent) (fails : list N) (h : hold) (s : rst) : rst :=
  match fuel with
  | O => s
  | S f =>
    match first_step m U s (RMerge :: wlabels (r_workers s) 0 (hold_k h) (hold_hs h) fails) with
    | Some s' => settle f m U fails h s'
    | None => s
    end
  end.

Record ist := mkI { i_s : rst; i_fails : list N; i_hold : hold }.

(** the label completing the held fetch of [h] *)
Fixpoint fetch_label (ws : list worker) (i : nat) (h : N) (fails : list N) : list rlabel :=
  match ws with
  | [] => []
  | w :: r =>
    match wk_pos w with
    | WFetch h' => if (h' =? h)%N then [RFetched i (negb (memN h fails))] else fetch_label r (S i) h fails
    | WWait => fetch_label r (S i) h fails
    end
  end.

Definition step_ev (fuel : nat) (m : rmech) (U : list uent) (st : ist) (e : ev) : ist :=
  let run s := settle fuel m U (i_fails st) (i_hold st) s in
  match e with
  | ELoad c hs => mkI (run (rrun m U [RLoad c hs] (i_s st))) (i_fails st) (i_hold st)
  | ECancel c => mkI (run (rrun m U [RCancel c] (i_s st))) (i_fails st) (i_hold st)
  | EFail hs => mkI (i_s st) hs (i_hold st)
  | EHoldSlots k => mkI (i_s st) (i_fails st) (HSlots k)
  | EHoldFetch hs => mkI (i_s st) (i_fails st) (HFetch hs)
  | ERelease => mkI (settle fuel m U (i_fails st) HNone (i_s st)) (i_fails st) HNone
  | EFetch h => mkI (run (rrun m U (fetch_label (r_workers (i_s st)) 0 h (i_fails st)) (i_s st))) (i_fails st) (i_hold st)
  end.

Definition run_script (fuel : nat) (m : rmech) (U : list uent) (slots : nat) (evs : list ev) : rst :=
  i_s (fold_left (step_ev fuel m U) evs (mkI (rinit slots []) [] HNone)).

(** observation of the receiving replica once the driver's last step is at rest *)
Record obs := mkOb {
  o_log   : list N;   (* hashes of OpLog().Values() *)
  o_added : N;        (* tasks in state added *)
  o_queue : N;        (* queue length *)
  o_hang  : bool      (* the watchdog expired before the replica was at rest *)
}.

Inductive case :=
(* universe, slots, script, heads whose ancestry must end up visible, hashes that must
   never become visible, observation *)
| CRepl (U : list uent) (slots : nat) (script : list ev) (want_heads : list N) (never : list N) (o : obs).

Definition subsetN (a b : list N) : bool := forallb (fun x => memN x b) a.
Definition seteqN (a b : list N) : bool := subsetN a b && subsetN b a.

Definition count_added (s : rst) : N :=
  N.of_nat (length (filter (fun p => match snd p with TAdded => true | _ => false end) (r_tasks s))).

Definition uvalidb (U : list uent) (h : N) : bool :=
  match ufind h U with Some e => u_valid e | None => false end.

(** every valid entry in the ancestry of [heads] *)
Definition closure_fuel (U : list uent) (heads : list N) : nat :=
  8 + length heads + length U + fold_right (fun e n => length (u_links e) + n)%nat 0%nat U.
Definition wanted (U : list uent) (heads : list N) : list N :=
  filter (uvalidb U) (closure (closure_fuel U heads) U heads []).

Definition fuel_of (U : list uent) (script : list ev) : nat := 64 + 16 * length U.

Definition check_repl (m : rmech) (c : case) : bool * bool :=
  match c with
  | CRepl U slots script want never o =>
    let s := run_script (fuel_of U script) m U slots script in
    let agree := seteqN (r_log s) (o_log o) && (count_added s =? o_added o)%N
                 && (N.of_nat (length (r_queue s)) =? o_queue o)%N in
    let holds := subsetN (wanted U want) (o_log o)
                 && forallb (fun h => negb (memN h (o_log o))) never
                 && forallb (uvalidb U) (o_log o)
                 && negb (o_hang o) in
    (agree, holds)
  end.

(** C03 — only authorised writers' entries ever enter a database: correspondence checker. *)
From Orbit Require Export Corr.AccessCorr.

Inductive case :=
(* a local write by identity [ident] (signing key [key]) on its own replica:
   error class 0 = accepted, 1 = "log append denied", 2 = any other error *)
| CLocal (univ : list entry) (cfg : acfg) (lid : N) (ident key : N) (before : olog) (errclass : N) (after : olog)
(* a hostile entry delivered from a peer *)
| CRemote (d : delivery)
(* the hostile heads are found in the heads cache by Load after a restart.  Load joins the
   whole log it fetched for a cached head at once (all or nothing), which [model_step]
   (entry-wise merge of the replicator route) does not describe: only the specification is
   evaluated; [d_before] is what a restart yields without the hostile heads *)
| CCached (d : delivery)
(* the hostile entry is in the snapshot file loaded by LoadFromSnapshot after a restart (see
   AccessCorr: the snapshot route): specification only; [d_before] is what the restart yields
   with the untouched snapshot, the state after is rendered by true content addresses *)
| CSnapshot (d : delivery).

Definition check (c : case) : bool * bool :=
  match c with
  | CLocal univ cfg lid ident key before errclass after =>
    let lb := to_log univ lid before in
    let same := listN_eqb (o_ents before) (o_ents after) && setN_eqb (o_heads before) (o_heads after) &&
                setN_eqb (o_next before) (o_next after) in
    let agree :=
      match fst (append lb 0 key ident key key OOther [] (acc_cfg c03_binds_identity_current cfg)) with
      | Ok (e, l') => (errclass =? 0)%N && (N.of_nat (length (o_ents after)) =? N.of_nat (length (o_ents before)) + 1)%N &&
                      (lclock l' =? o_clock after)
      | Err EDenied => (errclass =? 1)%N && same
      | _ => false
      end in
    let holds :=
      if c_wild cfg || memN ident (c_W cfg) then true
      else (errclass =? 1)%N && same in
    (agree, holds)
  | CRemote d =>
    (agree_step c03_binds_identity_current c04_filters_foreign_current d,
     match target_entry d with
     | Some e =>
       (* not signed by its key, or its real author is no identity of the write list,
          or written for another database: in no replica's log or visible state *)
       (if genuine (d_cfg d) (d_lid d) e then true else negb (present d)) && frame d
     | None => true
     end)
  | CCached d =>
    (true,
     match target_entry d with
     | Some e => (if genuine (d_cfg d) (d_lid d) e then true else negb (present d)) && frame d
     | None => true
     end)
  | CSnapshot d =>
    (true,
     match target_entry d with
     | Some e => (if genuine (d_cfg d) (d_lid d) e then true else negb (present d)) && frame_load d
     | None => true
     end)
  end.

Definition failures (base : nat) (cs : list case) := failures_from check base cs.

From Orbit Require Export Corr.Common Spec.Replay Model.Current Corr.C06.

Inductive case :=
| CDoc (univ : list entry) (prev : kvmap) (listing : list N) (obs : kvmap)
       (gets : list (bool * bool * bytes * list bytes))
| CDel (univ : list entry) (prev : kvmap) (before : list N) (k : bytes) (err : bool) (after : list N).

Definition doc_keys (vals : list entry) : list bytes :=
  flat_map (fun e => match eop e with
                     | OPut (Some k) _ | ODel (Some k) => [k]
                     | OPutAll docs => map fst docs
                     | _ => [] end) vals.

Definition obs_matches_doc_replay (vals : list entry) (obs : kvmap) : bool :=
  let f := doc_replay vals in
  forallb (fun k => optN_eqb (alookup bytes_eqb k obs) (f k)) (doc_keys vals ++ map fst obs).

Definition keyset_eqb (a b : list bytes) : bool :=
  forallb (fun k => existsb (bytes_eqb k) b) a && forallb (fun k => existsb (bytes_eqb k) a) b.

Definition get_ok (m : kvmap) (g : bool * bool * bytes * list bytes) : bool :=
  let '(ci, pa, se, res) := g in
  keyset_eqb (map fst (doc_get ci pa se m)) res.

Definition check (c : case) : bool * bool :=
  match c with
  | CDoc univ prev listing obs gets =>
    let vals := resolve univ listing in
    let complete := (length vals =? length listing)%nat in
    let m := doc_update marks_doc_key_current vals (rebuild_start prev) in
    (complete && kvmap_eqb m obs && forallb (get_ok m) gets,
     obs_matches_doc_replay vals obs && forallb (get_ok obs) gets)
  | CDel univ prev before k err after =>
    let vals := resolve univ before in
    let absent_model := match alookup bytes_eqb k prev with None => true | Some _ => false end in
    let absent_spec := match doc_replay vals k with None => true | Some _ => false end in
    (Bool.eqb err absent_model && (if err then listN_eqb before after else negb (listN_eqb before after)),
     if absent_spec then err && listN_eqb before after else negb err)
  end.

Definition failures (base : nat) (cs : list case) := failures_from check base cs.

From Orbit Require Export Corr.Common Model.Status Model.StatusConc Model.Current.

(** observed status samples: (progress, max, log length, largest time in the log, at_rest) *)
Record sample := mkSm { sm_p : Z; sm_m : Z; sm_len : Z; sm_maxt : Z; sm_rest : bool }.

Inductive case :=
(* exact event sequence known (writes; single merge; single-head load; snapshot load):
   the model run from [start] must give the observed end status *)
| CStatus (start : Z * Z) (evs : list sev) (end_ : Z * Z)
(* consecutive samples on one open store: never decreases, progress <= max; at rest:
   progress = max and maxtime <= max <= len *)
| CSamples (samples : list sample)
(* the exact sequence of recalculations performed by one open store, each with its
   argument, the log length it read, and the status it left: (is_max, arg, len, progress, max) *)
| CPrims (ops : list (bool * Z * Z * Z * Z))
(* a forced (or observed) interleaving of recalculations on one open store: the status and
   log length at the start, one program per observed recalculation call, the schedule cut
   into pieces, each followed by the (progress, max, log length) sampled at that moment,
   whether the schedule could be established exactly from the observation, and all samples
   (including those taken while a recalculation was in flight) for the property itself *)
| CConc (start : Z * Z) (len0 : Z) (ps : list prog)
        (chunks : list (list label * (Z * Z * Z))) (exact : bool) (samples : list sample).

Fixpoint prims_ok (s : status) (ops : list (bool * Z * Z * Z * Z)) : bool :=
  match ops with
  | [] => true
  | (is_max, arg, len, p, m) :: r =>
    let s' := if is_max then recalc_max max_monotone_current len s arg else recalc_progress len s in
    (s_progress s' =? p) && (s_max s' =? m) && prims_ok s' r
  end.

Fixpoint samples_ok (prev : option sample) (l : list sample) : bool :=
  match l with
  | [] => true
  | s :: r =>
    (sm_p s <=? sm_m s) &&
    (match prev with Some q => (sm_p q <=? sm_p s) && (sm_m q <=? sm_m s) | None => true end) &&
    (if sm_rest s then (sm_p s =? sm_m s) && (sm_maxt s <=? sm_m s) && (sm_m s <=? sm_len s) else true) &&
    samples_ok (Some s) r
  end.

(** replay of a schedule piece on the concurrent model; also reports whether every label
    was enabled (the observed steps did happen, so the model must allow each of them) *)
Fixpoint run_checked (atomic mm : bool) (sched : list label) (c : cstate) : cstate * bool :=
  match sched with
  | [] => (c, true)
  | lb :: r =>
    let '(c', ok) := run_checked atomic mm r (cstep atomic mm c lb) in
    (c', enabled atomic c lb && ok)
  end.

Fixpoint chunks_ok (c : cstate) (chunks : list (list label * (Z * Z * Z))) : bool :=
  match chunks with
  | [] => threads_doneb c
  | (sched, (p, m, l)) :: r =>
    let '(c', ok) := run_checked c19_status_atomic_current max_monotone_current sched c in
    ok && (s_progress (c_st c') =? p) && (s_max (c_st c') =? m) && (c_len c' =? l) && chunks_ok c' r
  end.

(** the property on samples of a store whose recalculations interleave: never decreases,
    progress <= max(max, log length) (the invariant of the concurrent model); at rest:
    progress = max and largest time <= max <= log length *)
Fixpoint csamples_ok (prev : option sample) (l : list sample) : bool :=
  match l with
  | [] => true
  | s :: r =>
    (sm_p s <=? Z.max (sm_m s) (sm_len s)) &&
    (match prev with Some q => (sm_p q <=? sm_p s) && (sm_m q <=? sm_m s) | None => true end) &&
    (if sm_rest s then (sm_p s =? sm_m s) && (sm_maxt s <=? sm_m s) && (sm_m s <=? sm_len s) else true) &&
    csamples_ok (Some s) r
  end.

Definition check (c : case) : bool * bool :=
  match c with
  | CStatus (p0, m0) evs (p1, m1) =>
    let s := run_status max_monotone_current snapshot_progress_current evs (mkS p0 m0) in
    ((s_progress s =? p1) && (s_max s =? m1), true)
  | CSamples l => (true, samples_ok None l)
  | CPrims ops => (prims_ok status0 ops, true)
  | CConc (p0, m0) len0 ps chunks exact samples =>
    ((if exact then chunks_ok (cinit len0 (mkS p0 m0) ps) chunks else true),
     csamples_ok None samples)
  end.

Definition failures (base : nat) (cs : list case) := failures_from check base cs.

From Orbit Require Export Corr.Common Spec.Replay Model.Current.

Inductive case :=
| CKv (univ : list entry) (prev : kvmap) (listing : list N) (obs : kvmap) (gets : list (bytes * option N)).

Definition resolve (univ : list entry) (hs : list N) : list entry :=
  flat_map (fun h => match find_entry h univ with Some e => [e] | None => [] end) hs.

(** two association lists denote the same finite map (on the keys of either) *)
Definition kvmap_eqb (a b : kvmap) : bool :=
  forallb (fun kv => match alookup bytes_eqb (fst kv) b with Some v => (v =? snd kv)%N | None => false end) a &&
  forallb (fun kv => match alookup bytes_eqb (fst kv) a with Some v => (v =? snd kv)%N | None => false end) b.

Definition optN_eqb (a b : option N) : bool :=
  match a, b with Some x, Some y => (x =? y)%N | None, None => true | _, _ => false end.

(** Get: an empty value (0) reads as absent *)
Definition kv_get (f : bytes -> option N) (k : bytes) : option N :=
  match f k with Some 0%N => None | x => x end.

(** all keys mentioned by operations of the listing or present in the observation *)
Definition op_keys (vals : list entry) : list bytes :=
  flat_map (fun e => match eop e with OPut (Some k) _ | ODel (Some k) => [k] | _ => [] end) vals.

Definition obs_matches_replay (vals : list entry) (obs : kvmap) : bool :=
  let f := kv_replay vals in
  forallb (fun k => optN_eqb (alookup bytes_eqb k obs) (f k)) (op_keys vals ++ map fst obs).

(** entries referenced through next appear earlier in the listing (order extends happens-before) *)
Fixpoint links_before (seen : list N) (vals : list entry) (all : list N) : bool :=
  match vals with
  | [] => true
  | e :: rest =>
    forallb (fun c => negb (memN c all) || memN c seen) (enext e) && links_before (eh e :: seen) rest all
  end.

(** Mechanism of /repo as it stands, [stores/kvstore/index.go] and
    [stores/documentstore/index.go] UpdateIndex:
    - [false]: the Go map is never reset, a rebuild starts from the previous contents
      ([kv_update vals prev]).  Sound as long as the log only grows; a [Load] with a limit
      on a store holding more entries than the limit cuts the log down and the keys of the
      entries that left it survive in the view (finding [index-keeps-dropped-entries]).
    - [true] (fix "the index is rebuilt from the entries the log holds"): every rebuild
      starts from an empty map ([kv_update vals []]). *)
(* [index_rebuild_resets_current] lives in Model/Current.v *)

Definition rebuild_start (prev : kvmap) : kvmap :=
  if index_rebuild_resets_current then [] else prev.

Definition check (c : case) : bool * bool :=
  match c with
  | CKv univ prev listing obs gets =>
    let vals := resolve univ listing in
    let complete := (length vals =? length listing)%nat in
    let m := kv_update vals (rebuild_start prev) in
    (complete && kvmap_eqb m obs &&
       forallb (fun g => optN_eqb (kv_get (fun k => alookup bytes_eqb k m) (fst g)) (snd g)) gets,
     obs_matches_replay vals obs &&
       forallb (fun g => optN_eqb (kv_get (kv_replay vals) (fst g)) (snd g)) gets &&
       links_before [] vals listing)
  end.

Definition failures (base : nat) (cs : list case) := failures_from check base cs.

From Orbit Require Export Corr.Common Spec.Window.

Inductive case :=
| CQuery (listing : list N) (b : bound) (a : option Z) (got : list N)
| CGet (listing : list N) (h : N) (got : N)
| CMono (before : list N) (after : list entry)
| CListing (vals : list entry) (listing : list N).

Definition check (c : case) : bool * bool :=
  match c with
  | CQuery listing b a got =>
    let L := map stub listing in
    (listN_eqb (hashes (evlog_query L b a)) got,
     match window L b a with Some w => listN_eqb (hashes w) got | None => true end)
  | CGet listing h got =>
    let L := map stub listing in
    (listN_eqb (hashes (evlog_query L (BGte h) (Some 1))) [got], (got =? h)%N)
  | CMono before after =>
    (* nothing removed, relative order kept, listing sorted by the total order *)
    (true, subseq before (hashes after) && sorted_asc after)
  | CListing vals listing =>
    (listN_eqb (hashes vals) listing, sorted_asc vals)
  end.

Definition failures (base : nat) (cs : list case) := failures_from check base cs.

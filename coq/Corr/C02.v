From Orbit Require Export Corr.Common Model.Net Model.NetHoles Model.Current Corr.C01.

Inductive case :=
(* final phase reached: all acknowledged writes, and each replica's listing *)
| CFinal (written : list N) (logs : list (list N))
(* the cover invariant observed on a replica at rest: its entries and its cached heads;
   the universe is given as (hash, links) pairs *)
| CCover (univ : list (N * list N)) (log cached : list N)
(* the hole invariant observed on a replica at rest: its entries (with their links, [univ]
   lists the held entries only) and the hashes its replicator remembers as failed *)
| CHoles (univ : list (N * list N)) (log failed : list N)
(* a scripted history (writes, replication requests with the fetch outcome the script
   arranged, restarts) replayed on the model [Model/NetHoles.v]: the universe observed
   (hash, next ∪ refs), per replica the observed log and failed hashes; [final]: the
   observation was made after the final phase *)
| CHist (n : nat) (steps : list hstep) (final : bool) (univ : list (N * list N)) (obs : list (list N * list N)).

Definition to_uents (u : list (N * list N)) : list uent := map (fun p => mkU (fst p) (snd p) true) u.

Definition check (c : case) : bool * bool :=
  match c with
  | CFinal written logs =>
    (* model (net_converges, holes_converge): after the final phase every replica holds exactly the written entries *)
    let ok := forallb (fun l => setN_eqb l written) logs in (ok, ok)
  | CCover univ log cached =>
    let U := to_uents univ in
    let cover := forallb (fun h => memN h (anc_set U cached)) log in
    (* model (net_cover, holes_invariant) and property agree: every held entry is in the ancestry of a cached head *)
    (cover, cover)
  | CHoles univ log failed =>
    let U := to_uents univ in
    (* what the convergence proof rests on (holes_invariant): every link target of a held
       entry is held or remembered as failed, so that the next request retries it *)
    let inv := forallb (fun y => memN y failed) (dangling U log) in
    (* the model with the mechanism of this tree: with [records_missing] the invariant holds in
       every reachable state; without it the model (like the code) can lose the record *)
    ((if c02_records_missing_current then inv else true), inv)
  | CHist n steps final univ obs =>
    let rm := c02_records_missing_current in
    let s0 := hrun rm steps (hinit n) in
    let s := if final then hfinal rm s0 else s0 in
    (* the model's entries carry the links the code gave them *)
    let links_ok := Nat.eqb (length (h_univ s)) (length univ) &&
                    forallb (fun p => setN_eqb (links_of (h_univ s) (fst p)) (snd p)) univ in
    (* per replica: same log; same failed hashes (the code also keeps, harmlessly, failed
       hashes that meanwhile entered the log: they are skipped when retried) *)
    let reps_ok := Nat.eqb (length (h_reps s)) (length obs) &&
                   forallb (fun p => setN_eqb (h_log (fst p)) (fst (snd p)) &&
                                     setN_eqb (h_failed (fst p))
                                              (filter (fun x => negb (memN x (fst (snd p)))) (snd (snd p))))
                           (combine (h_reps s) obs) in
    (links_ok && reps_ok, true)
  end.

Definition failures (base : nat) (cs : list case) := failures_from check base cs.

From Orbit Require Export Corr.Common Model.Net Corr.C01.

Inductive case :=
(* final phase reached: all acknowledged writes, and each replica's listing *)
| CFinal (written : list N) (logs : list (list N))
(* the cover invariant observed on a replica at rest: its entries and its cached heads;
   the universe is given as (hash, links) pairs *)
| CCover (univ : list (N * list N)) (log cached : list N).

Definition to_uents (u : list (N * list N)) : list uent := map (fun p => mkU (fst p) (snd p) true) u.

Definition check (c : case) : bool * bool :=
  match c with
  | CFinal written logs =>
    (* model (net_converges): after the final phase every replica holds exactly the written entries *)
    let ok := forallb (fun l => setN_eqb l written) logs in (ok, ok)
  | CCover univ log cached =>
    let U := to_uents univ in
    let cover := forallb (fun h => memN h (anc_set U cached)) log in
    (* model (net_cover) and property agree: every held entry is in the ancestry of a cached head *)
    (cover, cover)
  end.

Definition failures (base : nat) (cs : list case) := failures_from check base cs.

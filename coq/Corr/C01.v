From Orbit Require Export Corr.Common Spec.LogSpec Model.Current Corr.C06 Corr.C07.

(** A log as observed on the implementation: Entries (insertion order), raw heads,
    keys of Next, clock time — all as hash numbers resolved in the case's universe. *)
Record olog := mkO { o_ents : list N; o_heads : list N; o_next : list N; o_clock : Z }.

Inductive case :=
(* Values()/Heads() of an observed log *)
| CLog (univ : list entry) (l : olog) (vals : list N) (heads_sorted : list N)
(* a local write: log before, the entry created, log after *)
| CAppend (univ : list entry) (before : olog) (new : N) (after : olog)
(* a merge of fetched single-entry logs, in the observed join order *)
| CMerge (univ : list entry) (before : olog) (batch : list N) (after : olog)
(* two replicas at rest: entry sets, listings, heads, views (kind: 0 eventlog, 1 kv, 2 doc) *)
| CConv (univ : list entry) (a b : olog) (vals_a vals_b heads_a heads_b : list N) (view_a view_b : kvmap)
(* the load-from-disk route on a replica that writes AND replicates: entry set at rest before
   Close and after reopen + Load(-1).  Model: [Load] joins the logs fetched from the cached
   local and remote heads, which cover the whole log (C05_durable: nothing acknowledged or
   replicated is lost), so the route delivers exactly the entries held before *)
| CReload (before after : list N).

Definition to_log (univ : list entry) (id : N) (l : olog) : log :=
  mkLog id (resolve univ (o_ents l)) (resolve univ (o_heads l)) (o_next l) (o_clock l).

Definition setN_eqb (a b : list N) : bool :=
  forallb (fun x => memN x b) a && forallb (fun x => memN x a) b.

Definition olog_matches (l : log) (o : olog) : bool :=
  listN_eqb (hashes (lents l)) (o_ents o) &&
  setN_eqb (hashes (lheads l)) (o_heads o) &&
  setN_eqb (lnext l) (o_next o) &&
  (lclock l =? o_clock o).

Definition the_id (univ : list entry) : N := match univ with e :: _ => elog e | [] => 1%N end.

Definition check (c : case) : bool * bool :=
  match c with
  | CLog univ l vals hs =>
    let lg := to_log univ (the_id univ) l in
    (listN_eqb (hashes (values lg)) vals && listN_eqb (hashes (heads_sorted lg)) hs,
     (* the listing contains exactly the entries and is sorted by (time, writer) *)
     setN_eqb vals (o_ents l) && sorted_asc (resolve univ vals))
  | CAppend univ before new after =>
    let lg := to_log univ (the_id univ) before in
    match find_entry new univ with
    | None => (false, true)
    | Some e =>
      match fst (append lg new (ecid e) (eid e) (ekey e) (esig e) (eop e) (erefs e) (fun _ => true)) with
      | Ok (e', lg') =>
        (listN_eqb (enext e') (enext e) && (etime e' =? etime e) && olog_matches lg' after,
         (* the new entry sorts after everything the writer held *)
         forallb (fun x => key_ltb x e) (lents lg))
      | _ => (false, true)
      end
    end
  | CMerge univ before batch after =>
    let lg := to_log univ (the_id univ) before in
    let '(lg', ok) := merge_batch false (fun _ => true) lg (resolve univ batch) in
    (ok && olog_matches lg' after,
     (* nothing lost *)
     forallb (fun h => memN h (o_ents after)) (o_ents before))
  | CConv univ a b va vb ha hb wa wb =>
    (true,
     if setN_eqb (o_ents a) (o_ents b)
     then listN_eqb va vb && listN_eqb ha hb && kvmap_eqb wa wb
     else true)
  | CReload before after => (setN_eqb before after, true)
  end.

Definition failures (base : nat) (cs : list case) := failures_from check base cs.

(** Helpers shared by the correspondence checkers.  A checker maps a case (inputs plus
    what the implementation was observed to do) to a pair of booleans:
    [agree] = the model computes the observed result, [holds] = the property's
    executable specification accepts the observed result. *)
From Orbit Require Export Model.Index.

Definition listN_eqb : list N -> list N -> bool := list_eqb N.eqb.

(** [failures base cases]: indices (offset by [base]) of failing cases with a code:
    1 = model/implementation disagree but the spec accepts the observation,
    2 = the spec rejects the observation (a property violation on the implementation),
    3 = both. *)
Definition code (agree holds : bool) : nat :=
  match agree, holds with
  | true, true => 0 | false, true => 1 | true, false => 2 | false, false => 3
  end.

Fixpoint failures_from {C} (check : C -> bool * bool) (i : nat) (cs : list C) : list (nat * nat) :=
  match cs with
  | [] => []
  | c :: cs' =>
    let '(a, h) := check c in
    match code a h with
    | O => failures_from check (S i) cs'
    | k => (i, k) :: failures_from check (S i) cs'
    end
  end.

(** Stub entries carrying only a hash (for cases where nothing else matters). *)
Definition stub (h : N) : entry := mkEntry h 0 0 0 [] [] 0 0 0 OOther.

(** is [a] a subsequence of [b] *)
Fixpoint subseq (a b : list N) : bool :=
  match a, b with
  | [], _ => true
  | _, [] => false
  | x :: a', y :: b' => if (x =? y)%N then subseq a' b' else subseq a b'
  end.

Fixpoint sorted_asc (l : list entry) : bool :=
  match l with
  | a :: ((b :: _) as t) => key_ltb a b && sorted_asc t
  | _ => true
  end.


(** C15 — correspondence checker: loading a persisted log with a limit. *)
From Orbit Require Export Corr.Common Spec.LogSpec Model.Current Corr.C06 Model.LoadLimit.

(** Mechanism switches of [Model/LoadLimit.v], at the values matching /repo as it stands:
    [Load] passes a non-positive limit on as it is (false; true = it becomes -1), and hands
    [Join] the limit as size whatever the joined log will hold (false; true = clamped). *)
(* c15_normalises_current, c15_clamps_current live in Model/Current.v *)


Inductive case :=
(* One Load: the persisted log's listing before the store was closed ([persisted], in log
   order), the cached heads in the order Load reads them (_localHeads ++ _remoteHeads,
   repeats included), the limit (after the MaxHistory substitution), the outcome
   (0 ok, 1 error, 2 panic = the process died, 3 hang) and List(amount=-1) afterwards. *)
| CLoad (univ : list entry) (persisted : list N) (heads : list N) (limit : Z)
        (outcome : N) (listing : list N)
(* Fetcher monitor: the entries of the log NewFromEntryHash(head, Length = limit) built. *)
| CFetch (univ : list entry) (persisted : list N) (head : N) (limit : Z) (fetched : list N).

Definition the_id (univ : list entry) : N := match univ with e :: _ => elog e | [] => 1%N end.

Definition setN_eqb (a b : list N) : bool :=
  forallb (fun x => memN x b) a && forallb (fun x => memN x a) b.

(** all orders in which the per-head goroutines may win the join mutex *)
Fixpoint inserts {A} (x : A) (l : list A) : list (list A) :=
  match l with
  | [] => [[x]]
  | y :: t => (x :: l) :: map (cons y) (inserts x t)
  end.
Fixpoint perms {A} (l : list A) : list (list A) :=
  match l with
  | [] => [[]]
  | x :: t => flat_map (inserts x) (perms t)
  end.

(** what the model predicts: outcome class and listing *)
Definition predict (univ : list entry) (persisted heads : list N) (limit : Z) : N * list N :=
  match load_limit c15_normalises_current c15_clamps_current ideal_fetch (the_id univ)
                   (fun _ => true) (resolve univ persisted) heads limit with
  | Ok l => (0%N, hashes (values l))
  | Err _ => (1%N, [])
  | Panic _ => (2%N, [])
  end.

Definition single_writer (es : list entry) : bool :=
  match es with
  | [] => true
  | e :: t => forallb (fun x => (ecid x =? ecid e)%N) t
  end.

Definition lastN (n : nat) (l : list N) : list N := skipn (length l - n) l.

(** The property on one observed load. *)
Definition load_holds (univ : list entry) (persisted : list N) (limit : Z) (outcome : N)
           (lst : list N) : bool :=
  (outcome =? 0)%N &&
  (if 0 <? limit then
     let total := length persisted in
     (length lst =? Nat.min (Z.to_nat limit) total)%nat &&
     sorted_asc (resolve univ lst) &&
     forallb (fun h => memN h persisted) lst &&
     (match rev persisted with [] => true | newest :: _ => memN newest lst end) &&
     (if single_writer (resolve univ persisted)
      then listN_eqb lst (lastN (Z.to_nat limit) persisted) else true)
   else listN_eqb lst persisted).

Definition check (c : case) : bool * bool :=
  match c with
  | CLoad univ persisted heads limit outcome lst =>
    (existsb (fun hs => let '(o, l) := predict univ persisted hs limit in
                        (o =? outcome)%N && listN_eqb l lst)
             (perms heads),
     load_holds univ persisted limit outcome lst)
  | CFetch univ persisted head limit fetched =>
    (setN_eqb fetched (hashes (ideal_fetch (resolve univ persisted) head limit [])), true)
  end.

Definition failures (base : nat) (cs : list case) := failures_from check base cs.

From Orbit Require Export Corr.Common Model.Durable Spec.Replay Corr.C06 Corr.C01.

Inductive case :=
(* a crash point: blocks and cached heads of the prefix, what was acknowledged / reported
   replicated within it, and what reopen + Load(-1) showed *)
| CCrash (univ : list entry) (blocks local remote acked : list N) (ok : bool) (listing : list N) (view : kvmap)
(* clean close / reopen of the real directory *)
(* what the cache holds after a write (local: the new head) / after a merge (remote: the heads of the log) *)
| CHeadsCache (is_local : bool) (log_heads cached : list N)
| CReopen (same_identity can_write : bool) (before after : list N).

Definition check (c : case) : bool * bool :=
  match c with
  | CCrash univ blocks local remote acked ok listing view =>
    let d := mkD (resolve univ blocks) local remote in
    let rec := recover true (the_id univ) (fun _ => true) d in
    let vals := resolve univ listing in
    (ok && listN_eqb (hashes (values rec)) listing,
     ok &&
     forallb (fun h => memN h listing) acked &&                       (* nothing acknowledged is lost *)
     (length vals =? length listing)%nat &&                           (* only entries that really exist *)
     forallb (fun e => forallb (fun c => negb (memN c (hashes univ)) || memN c listing) (enext e)) vals &&  (* closed under ancestry *)
     sorted_asc vals &&                                               (* canonical order *)
     obs_matches_replay vals view)                                    (* canonical view of exactly these entries *)
  | CHeadsCache is_local hs cached =>
    (* write_effects / merge_effects: ELocal [new entry] (the sole head), ERemote (heads of the log) *)
    (setN_eqb hs cached, true)
  | CReopen same_id can_write before after =>
    (true, same_id && can_write && forallb (fun h => memN h after) before)
  end.

Definition failures (base : nat) (cs : list case) := failures_from check base cs.

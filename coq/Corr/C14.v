(** C14 correspondence: database addresses (DetermineAddress, address.Parse/String,
    Create/Open decisions, what Open finds recorded). *)
From Orbit Require Export Corr.Common Model.Address Model.Current.
Local Open Scope N_scope.

(** DetermineAddress rejects a result whose root is not the manifest CID: false = the tree
    as it stands (moves to Model/Current.v when merged). *)
(* c14_root_checked_current lives in Model/Current.v; so does c18_rejects_dotdot_current:
   address.IsValid refuses a ".." part after the root (shared with Model/Lifecycle.v, C18) *)

(** registered store types: 1 = eventlog, 2 = keyvalue, 3 = docstore (anything else is not) *)
Definition c14_types : list N := [1; 2; 3].

Inductive case :=
(** one DetermineAddress call.  [name] in split form with interned segments ("orbitdb" = 0),
    [typ], [creator] (identity number of the instance), [w] the write list given (identity
    numbers, [] = none), [manifest] the token of the CID of the manifest {name, type,
    access-controller address} computed independently by the harness for exactly these
    inputs, [cids] the interned texts that cid.Decode accepts with the token of their
    canonical text.  Observed: the outcome (error class, or root token and path),
    the printed address in split form and the result of parsing it again. *)
| CDetermine (name : list seg) (typ creator : N) (w : list N) (manifest : N)
             (cids : list (N * N))
             (obs : outcome (N * list seg)) (obs_str : list seg)
             (obs_reparse : outcome (N * list seg))
(** operations of one instance on one address it did not know before, with the observed
    outcomes: 0 = proceeded, 1 = refused by the local-presence rule, 2 = any other error *)
| CLocal (ops : list lop) (obs : list N)
(** the same with the places where the data can live: the instance keeps its data in memory
    ([memory]) or on disk; every Create/Open carries its [CreateDBOptions.Directory] (unset, the
    instance's own directory, another directory); [DCloseAll] = the handles obtained so far are
    closed (observed: 0 when every Close returned nil).  Model: [Address.drun] with
    [c14_open_falls_back_current]; property: [Address.dlocal_ok] *)
| CLocalDir (memory : bool) (ops : list dop) (obs : list N)
(** a store obtained from Create/Open of an address determined for (typ, w): observed root
    and manifest tokens, observed type and write list, and whether the store's address is
    the determined one *)
| CRecorded (root manifest : N) (typ otyp : N) (w ow : list N) (same_addr : bool)
(** one address.Parse call on the string [s] (split form), [cids] as above.  Observed: whether
    address.IsValid accepted [s], the outcome of Parse (error, or root token and path), and
    for a parsed address its String() in split form and the result of parsing that again. *)
| CParse (s : list seg) (cids : list (N * N)) (valid : bool)
         (obs : outcome (N * list seg)) (obs_str : list seg)
         (obs_reparse : outcome (N * list seg)).

Definition errkind_eqb (a b : errkind) : bool :=
  match a, b with
  | EDenied, EDenied | ENotFound, ENotFound | EBadInput, EBadInput
  | EClosed, EClosed | EOther, EOther => true
  | _, _ => false
  end.

Definition addr_eqb (a b : N * list seg) : bool :=
  (fst a =? fst b) && segs_eqb (snd a) (snd b).

Definition out_eqb (a b : outcome (N * list seg)) : bool :=
  match a, b with
  | Ok x, Ok y => addr_eqb x y
  | Err e, Err f => errkind_eqb e f
  | _, _ => false
  end.

Definition decode_of (cids : list (N * N)) (n : N) : option N := alookup N.eqb n cids.

(* [decision_code] (0 = proceeds, 1 = refused) lives in Model/Address.v *)

(** the property on the observed outcomes of one instance: a create is refused by the
    presence rule exactly when this instance created the database before and overwrite is
    off; a local-only open is refused when the instance never had the database, and not
    refused when it created it.  [have] = created here, [seen] = any operation succeeded. *)
Fixpoint local_ok (have seen : bool) (ops : list lop) (obs : list N) : bool :=
  match ops, obs with
  | [], [] => true
  | LCreate ow :: r, o :: q =>
    (if have && negb ow then o =? 1 else negb (o =? 1)) &&
    local_ok (have || (o =? 0)) (seen || (o =? 0)) r q
  | LOpen lo :: r, o :: q =>
    (if lo && negb seen then o =? 1 else if have || negb lo then negb (o =? 1) else true) &&
    local_ok have (seen || (o =? 0)) r q
  | _, _ => false
  end.

Definition check (c : case) : bool * bool :=
  match c with
  | CDetermine name typ creator w m cids obs obs_str obs_re =>
    let dec := decode_of cids in
    let model := determine_address c18_rejects_dotdot_current dec (fun _ => 0) (fun _ => m) c14_types
                                   c14_root_checked_current creator name typ w in
    let agree :=
      out_eqb model obs &&
      match obs with
      | Ok a => segs_eqb (addr_string a) obs_str && out_eqb (addr_parse c18_rejects_dotdot_current dec obs_str) obs_re
      | _ => true
      end in
    let holds :=
      match obs with
      | Ok a => (fst a =? m) && out_eqb obs_re (Ok a)
      | _ => true
      end in
    (agree, holds)
  | CParse s cids valid obs obs_str obs_re =>
    let dec := decode_of cids in
    let agree :=
      out_eqb (addr_parse c18_rejects_dotdot_current dec s) obs &&
      Bool.eqb (is_valid c18_rejects_dotdot_current dec s) valid &&
      match obs with
      | Ok a => segs_eqb (addr_string a) obs_str &&
                out_eqb (addr_parse c18_rejects_dotdot_current dec obs_str) obs_re
      | _ => true
      end in
    (* the printed form of a parsed address designates the same root (Properties/C14.v
       C14_parsed_reprint; refuted for the pinned commit) *)
    let holds :=
      match obs with
      | Ok a => match obs_re with Ok b => fst a =? fst b | _ => false end
      | _ => true
      end in
    (agree, holds)
  | CLocal ops obs =>
    (listN_eqb (map decision_code (lrun false ops)) obs, local_ok false false ops obs)
  | CLocalDir memory ops obs =>
    (listN_eqb (map decision_code (drun c14_open_falls_back_current memory false ops)) obs,
     dlocal_ok memory false false ops obs)
  | CRecorded root m typ otyp w ow same =>
    let ok := (typ =? otyp) && listN_eqb w ow && same in
    ((if root =? m then ok else true), ok)
  end.

Definition failures (base : nat) (cs : list case) := failures_from check base cs.

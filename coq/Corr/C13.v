(** C13 — a saved snapshot reloads to exactly the saved database, or saving fails.

    The checker works on frame LENGTHS (header first, then one frame per entry, as
    [SaveSnapshot] writes them), not on the bytes: a 400 KiB entry would otherwise be a
    400 000-element list literal.  The lemmas at the end of this file tie the length-level
    predicates [enc_ok] / [loadable] / [enc_total] to the byte-level model
    [snap_encode] / [snap_decode] of Model/Wire.v (through [snap_roundtrip]). *)
From Orbit Require Export Corr.Common Model.Wire Model.Current Corr.C06.
From Orbit Require Import Spec.Statements Proofs.WireProofs.
From Coq Require Import Lia ZifyN ZifyNat ZifyBool.

(** Mechanism switches of this property, with the values matching the pinned commit.
    Move them to Model/Current.v (and set them to [true]) when the repairs
    fix_c13_getqueue / fix_c13_oversize / fix_c13_queue_resume are merged. *)
(** replicator.go GetQueue lists the unfinished tasks (true); false = pinned: slice sized by
    the queue, indexed while ranging over the whole task table *)
(* the four mechanism switches live in Model/Current.v *)

(** * Length-level mirror of the snapshot codec *)

Definition enc_ok (reject : bool) (lens : list N) : bool :=
  negb (reject && existsb (fun n => 65536 <=? n)%N lens).

Definition loadable (lens : list N) : bool := forallb (fun n => n <? 65536)%N lens.

(** [chunk] = the most the snapshot file returns per Read (0: every Read is served in
    full; otherwise at least 2).  With single Reads a frame longer than [chunk] is cut. *)
Definition reads_whole (read_full : bool) (chunk : N) (lens : list N) : bool :=
  read_full || (chunk =? 0)%N || forallb (fun n => n <=? chunk)%N lens.

(** byte length of the stored file: 2-byte prefix per frame, one trailing 0 byte *)
Definition enc_total (lens : list N) : N := fold_right (fun n acc => 2 + n + acc)%N 1%N lens.

(** * Cases *)

(** externally visible state of a store: listing, heads (hash numbers), view *)
Record obs := mkObs { ob_vals : list N; ob_heads : list N; ob_view : kvmap }.

Definition obs_eqb (a b : obs) : bool :=
  listN_eqb (ob_vals a) (ob_vals b) && listN_eqb (ob_heads a) (ob_heads b) &&
  kvmap_eqb (ob_view a) (ob_view b).

(** outcomes: 0 ok, 1 error, 2 panic, 3 not attempted *)
Inductive case :=
(* [frame_sizes]: encoded length of the header and of every entry at save time;
   [queue_len], [tasks]: the replicator's queue length and task table (index, state) at
   save time; [save]: outcome of SaveSnapshot; [queued]: number of CIDs it stored under
   "queue"; [total]: byte length of the stored snapshot file; [chunk]: see [reads_whole]
   (an input chosen by the harness); [load]: outcome of
   LoadFromSnapshot on the reopened store; [expect]: the saved state (completed by the
   replication the saved queue stands for, when it is not empty); [got]: the state of the
   reopened store after loading, at rest. *)
| CSave (frame_sizes : list N) (queue_len : nat) (tasks : list (N * N)) (save : N)
        (queued : nat) (total : N) (chunk : N) (load : N) (expect got : obs).

(** what the model predicts: (save outcome, queued, total, load outcome) *)
Definition predict (lens : list N) (queue_len : nat) (tasks : list (N * N)) (chunk : N) : N * nat * N * N :=
  match get_queue c13_sized_by_unfinished_current queue_len tasks with
  | Panic _ => (2, 0%nat, 0, 3)%N
  | Err _ => (1, 0%nat, 0, 3)%N
  | Ok q =>
    if enc_ok c13_reject_oversize_current lens then
      (0%N, length q, enc_total lens,
       (* LoadFromSnapshot re-queues the saved CIDs before it reads the snapshot *)
       if (0 <? length q)%nat && negb c13_queue_by_hash_current then 2%N
       else if loadable lens && reads_whole c13_read_full_current chunk lens then 0%N else 1%N)
    else (1, 0%nat, 0, 3)%N
  end.

Definition check (c : case) : bool * bool :=
  match c with
  | CSave lens ql tasks save queued total chunk load expect got =>
    let '(p_save, p_queued, p_total, p_load) := predict lens ql tasks chunk in
    ((save =? p_save)%N && (queued =? p_queued)%nat && (total =? p_total)%N && (load =? p_load)%N,
     (* saving and loading never panic; a snapshot reported as saved loads, and the
        reloaded store shows exactly the saved log, heads and view *)
     negb (save =? 2)%N && negb (load =? 2)%N &&
     (if (save =? 0)%N then (load =? 0)%N && obs_eqb expect got else true))
  end.

Definition failures (base : nat) (cs : list case) := failures_from check base cs.

(** * Justification of the length-level predicates by the byte-level model *)

Definition lens_of (frames : list bytes) : list N := map (fun f => N.of_nat (length f)) frames.

Lemma existsb_map' {A B} (f : A -> B) (p : B -> bool) l :
  existsb p (map f l) = existsb (fun x => p (f x)) l.
Proof. induction l as [|x l IH]; [reflexivity|]. cbn [map existsb]. rewrite IH. reflexivity. Qed.

Lemma forallb_map' {A B} (f : A -> B) (p : B -> bool) l :
  forallb p (map f l) = forallb (fun x => p (f x)) l.
Proof. induction l as [|x l IH]; [reflexivity|]. cbn [map forallb]. rewrite IH. reflexivity. Qed.

Lemma enc_ok_correct ro frames : enc_ok ro (lens_of frames) = is_ok (snap_encode ro frames).
Proof.
  unfold enc_ok, snap_encode, lens_of. rewrite existsb_map'.
  destruct (ro && _)%bool; reflexivity.
Qed.

Lemma loadable_Forall frames :
  loadable (lens_of frames) = true -> Forall (fun f => (length f < 65536)%nat) frames.
Proof.
  unfold loadable, lens_of. rewrite forallb_map', forallb_forall. intros H.
  apply Forall_forall. intros f Hin. specialize (H f Hin). apply N.ltb_lt in H.
  cbn [Nat.of_num_uint Nat.of_uint Nat.of_uint_acc]. rewrite !Nat.tail_mul_spec. lia.
Qed.

(** a snapshot whose frames all fit decodes to exactly the frames written
    (with or without the size check) *)
Lemma loadable_roundtrip ro frames bs :
  loadable (lens_of frames) = true ->
  snap_encode ro frames = Ok bs -> snap_decode (length frames) bs = Some frames.
Proof.
  intros HL Henc. eapply snap_roundtrip; [apply loadable_Forall; exact HL | exact Henc].
Qed.

(** with the size check, a successful save is loadable *)
Lemma enc_ok_true_loadable lens : enc_ok true lens = true -> loadable lens = true.
Proof.
  unfold enc_ok, loadable. cbn [andb]. intros H. apply negb_true_iff in H.
  apply forallb_forall. intros n Hin. apply N.ltb_lt.
  destruct (65536 <=? n)%N eqn:E; [|apply N.leb_gt in E; exact E].
  exfalso. assert (existsb (fun n => (65536 <=? n)%N) lens = true).
  { apply existsb_exists. exists n. split; assumption. }
  congruence.
Qed.

Lemma enc_total_app frames tail :
  N.of_nat (length (flat_map snap_frame frames ++ tail)) =
  (fold_right (fun n acc => 2 + n + acc) (N.of_nat (length tail)) (lens_of frames))%N.
Proof.
  induction frames as [|f frames IH]; [reflexivity|].
  cbn [flat_map lens_of map fold_right]. fold (lens_of frames). rewrite <- IH.
  unfold snap_frame, u16_bytes. rewrite <- !app_assoc. cbn [app length].
  rewrite !app_length. lia.
Qed.

(** the stored file has the length the checker computes from the frame lengths *)
Lemma enc_total_correct ro frames bs :
  snap_encode ro frames = Ok bs -> N.of_nat (length bs) = enc_total (lens_of frames).
Proof.
  intros H. apply snap_encode_Ok in H. subst bs. rewrite enc_total_app. reflexivity.
Qed.

Lemma u16_recompose_mod n : ((n / 256) mod 256 * 256 + n mod 256 = n mod 65536)%N.
Proof. lia. Qed.

(** without the size check, a frame of 64 KiB or more is never read back: the loader
    does not reconstruct the frames that were written *)
Lemma not_loadable_frames :
  forall frames tail,
    loadable (lens_of frames) = false ->
    snap_decode (length frames) (flat_map snap_frame frames ++ tail) <> Some frames.
Proof.
  induction frames as [|f frames IH]; intros tail HL; [discriminate|].
  cbn [lens_of map] in HL. fold (lens_of frames) in HL. unfold loadable in HL.
  cbn [forallb] in HL. fold (loadable (lens_of frames)) in HL.
  cbn [flat_map length]. unfold snap_frame at 1. unfold u16_bytes.
  rewrite <- !app_assoc. cbn [app]. rewrite snap_decode_S, u16_recompose_mod.
  set (L := N.of_nat (length f)) in *.
  set (rest := f ++ flat_map snap_frame frames ++ tail).
  destruct (length rest <? N.to_nat (L mod 65536))%nat; [discriminate|].
  destruct (L <? 65536)%N eqn:HLt.
  - (* this frame fits: the defect is further on *)
    cbn [andb] in HL.
    assert (E : N.to_nat (L mod 65536) = length f) by (subst L; lia).
    rewrite E. subst rest. rewrite skipn_app, Nat.sub_diag, skipn_all. cbn [skipn app].
    destruct (snap_decode (length frames) (flat_map snap_frame frames ++ tail)) as [fs|] eqn:D;
      [|discriminate].
    intros H. inversion H as [[H1 H2]]. subst fs. exact (IH tail HL D).
  - (* truncated prefix: the frame read back is shorter than the one written *)
    destruct (snap_decode (length frames) (skipn (N.to_nat (L mod 65536)) rest)); [|discriminate].
    intros H. inversion H as [[H1 H2]].
    assert (Hlen : (length (firstn (N.to_nat (L mod 65536)) rest) <= N.to_nat (L mod 65536))%nat)
      by apply firstn_le_length.
    rewrite H1 in Hlen. subst L. lia.
Qed.

Lemma not_loadable_not_roundtrip frames bs :
  loadable (lens_of frames) = false ->
  snap_encode false frames = Ok bs -> snap_decode (length frames) bs <> Some frames.
Proof.
  intros HL Henc. apply snap_encode_Ok in Henc. subst bs. apply not_loadable_frames. exact HL.
Qed.

Print Assumptions enc_ok_correct.
Print Assumptions enc_total_correct.
Print Assumptions loadable_roundtrip.
Print Assumptions enc_ok_true_loadable.
Print Assumptions not_loadable_not_roundtrip.
